// inject — writes an instrumented copy of a Go source file in which every synchronisation
// operation is preceded by a scheduling point vsched.Yield(kind, object, label)
// (DESIGN.md section 4.1).  Existing statements are only prefixed (deferred unlocks are wrapped
// in a closure that yields first); `go` statements become vsched.Go so that the controller
// knows the child.  With no controller installed every yield is a no-op.
//
//	inject -in /repo/internal/queue/simple.go -out /verif/.work/x/simple.go
package main

import (
	"bytes"
	"flag"
	"fmt"
	"go/ast"
	"go/format"
	"go/parser"
	"go/token"
	"os"
	"strconv"
	"strings"
)

var (
	fset    = token.NewFileSet()
	curFunc string
	counter int
	nYields int
)

func lockKind(name string) string {
	switch name {
	case "Lock":
		return "lock"
	case "Unlock":
		return "unlock"
	case "RLock":
		return "rlock"
	case "RUnlock":
		return "runlock"
	}
	return ""
}

func label(kind string) ast.Expr {
	counter++
	return &ast.BasicLit{Kind: token.STRING, Value: strconv.Quote(fmt.Sprintf("%s#%d:%s", curFunc, counter, kind))}
}

func yieldStmt(kind string, obj ast.Expr) ast.Stmt {
	nYields++
	if obj == nil {
		obj = ast.NewIdent("nil")
	}
	return &ast.ExprStmt{X: &ast.CallExpr{
		Fun:  &ast.SelectorExpr{X: ast.NewIdent("vsched"), Sel: ast.NewIdent("Yield")},
		Args: []ast.Expr{&ast.BasicLit{Kind: token.STRING, Value: strconv.Quote(kind)}, obj, label(kind)},
	}}
}

// lockCall recognises X.Lock() / X.Unlock() / X.RLock() / X.RUnlock() with no arguments.
func lockCall(e ast.Expr) (kind string, recv ast.Expr) {
	c, ok := e.(*ast.CallExpr)
	if !ok || len(c.Args) != 0 {
		return "", nil
	}
	s, ok := c.Fun.(*ast.SelectorExpr)
	if !ok {
		return "", nil
	}
	k := lockKind(s.Sel.Name)
	if k == "" {
		return "", nil
	}
	for _, sk := range skipRecv {
		if sk != "" && strings.Contains(exprText(s.X), sk) {
			return "", nil
		}
	}
	return k, s.X
}

var skipRecv []string

func exprText(e ast.Expr) string {
	var b bytes.Buffer
	_ = format.Node(&b, fset, e)
	return b.String()
}

func ref(x ast.Expr) ast.Expr {
	// vsched.Ref(&X): identity of the mutex whether X is a struct field or an interface value
	return &ast.CallExpr{Fun: &ast.SelectorExpr{X: ast.NewIdent("vsched"), Sel: ast.NewIdent("Ref")},
		Args: []ast.Expr{&ast.UnaryExpr{Op: token.AND, X: x}}}
}

func waitCall(e ast.Expr) bool {
	c, ok := e.(*ast.CallExpr)
	if !ok || len(c.Args) != 0 {
		return false
	}
	s, ok := c.Fun.(*ast.SelectorExpr)
	return ok && s.Sel.Name == "Wait" && false // cond/waitgroup waits are left to run free
}

// recvIn finds a channel receive expression directly in a simple statement.
func recvIn(s ast.Stmt) ast.Expr {
	var found ast.Expr
	check := func(e ast.Expr) {
		if u, ok := e.(*ast.UnaryExpr); ok && u.Op == token.ARROW && found == nil {
			found = u.X
		}
	}
	switch x := s.(type) {
	case *ast.ExprStmt:
		check(x.X)
	case *ast.AssignStmt:
		for _, r := range x.Rhs {
			check(r)
		}
	}
	return found
}

// fields whose every access gets a scheduling point of its own (-fields): shared flags that the code
// may read or write outside the critical section that is supposed to protect them
var fieldSet = map[string]bool{}

// fieldIn: does the expression/statement header mention X.<field> for a field of fieldSet?
func fieldIn(nodes ...ast.Node) string {
	found := ""
	for _, n := range nodes {
		if n == nil {
			continue
		}
		ast.Inspect(n, func(m ast.Node) bool {
			switch x := m.(type) {
			case *ast.FuncLit, *ast.BlockStmt:
				return false
			case *ast.SelectorExpr:
				if fieldSet[x.Sel.Name] {
					found = x.Sel.Name
				}
			case *ast.KeyValueExpr:
				if id, ok := x.Key.(*ast.Ident); ok && fieldSet[id.Name] {
					found = id.Name
				}
			}
			return true
		})
	}
	return found
}

// header of a statement: the part evaluated before any nested block
func fieldOfStmt(s ast.Stmt) string {
	if len(fieldSet) == 0 {
		return ""
	}
	switch x := s.(type) {
	case *ast.ExprStmt:
		return fieldIn(x.X)
	case *ast.AssignStmt:
		var ns []ast.Node
		for _, e := range x.Lhs {
			ns = append(ns, e)
		}
		for _, e := range x.Rhs {
			ns = append(ns, e)
		}
		return fieldIn(ns...)
	case *ast.IfStmt:
		var init ast.Node
		if x.Init != nil {
			init = x.Init
		}
		return fieldIn(init, x.Cond)
	case *ast.ReturnStmt:
		var ns []ast.Node
		for _, e := range x.Results {
			ns = append(ns, e)
		}
		return fieldIn(ns...)
	case *ast.ForStmt:
		if x.Cond != nil {
			return fieldIn(x.Cond)
		}
	case *ast.SwitchStmt:
		if x.Tag != nil {
			return fieldIn(x.Tag)
		}
	}
	return ""
}

func rewriteBlock(list []ast.Stmt) []ast.Stmt {
	var out []ast.Stmt
	for _, s := range list {
		if f := fieldOfStmt(s); f != "" {
			out = append(out, yieldStmt("field:"+f, nil))
		}
		out = append(out, rewriteStmt(s)...)
	}
	return out
}

func rewriteStmt(s ast.Stmt) []ast.Stmt {
	switch x := s.(type) {
	case *ast.ExprStmt:
		if k, recv := lockCall(x.X); k != "" {
			return []ast.Stmt{yieldStmt(k, ref(recv)), s}
		}
		if c, ok := x.X.(*ast.CallExpr); ok {
			if id, ok := c.Fun.(*ast.Ident); ok && id.Name == "close" && len(c.Args) == 1 {
				return []ast.Stmt{yieldStmt("close", c.Args[0]), s}
			}
		}
		if ch := recvIn(s); ch != nil {
			return []ast.Stmt{yieldStmt("recv", ch), s}
		}
		rewriteExprFuncLits(x.X)
		return []ast.Stmt{s}
	case *ast.AssignStmt:
		if ch := recvIn(s); ch != nil {
			return []ast.Stmt{yieldStmt("recv", ch), s}
		}
		for _, r := range x.Rhs {
			rewriteExprFuncLits(r)
		}
		return []ast.Stmt{s}
	case *ast.SendStmt:
		return []ast.Stmt{yieldStmt("send", x.Chan), s}
	case *ast.DeferStmt:
		if k, recv := lockCall(x.Call); k != "" {
			y := yieldStmt(k, ref(recv))
			x.Call = &ast.CallExpr{Fun: &ast.FuncLit{
				Type: &ast.FuncType{Params: &ast.FieldList{}},
				Body: &ast.BlockStmt{List: []ast.Stmt{y, &ast.ExprStmt{X: x.Call}}},
			}}
			return []ast.Stmt{s}
		}
		rewriteExprFuncLits(x.Call)
		return []ast.Stmt{s}
	case *ast.GoStmt:
		rewriteExprFuncLits(x.Call)
		nYields++
		call := &ast.CallExpr{
			Fun: &ast.SelectorExpr{X: ast.NewIdent("vsched"), Sel: ast.NewIdent("Go")},
			Args: []ast.Expr{label("go"), &ast.FuncLit{
				Type: &ast.FuncType{Params: &ast.FieldList{}},
				Body: &ast.BlockStmt{List: []ast.Stmt{&ast.ExprStmt{X: x.Call}}},
			}},
		}
		return []ast.Stmt{&ast.ExprStmt{X: call}}
	case *ast.SelectStmt:
		for _, c := range x.Body.List {
			cc := c.(*ast.CommClause)
			cc.Body = rewriteBlock(cc.Body)
		}
		return []ast.Stmt{yieldStmt("select", nil), s}
	case *ast.BlockStmt:
		x.List = rewriteBlock(x.List)
		return []ast.Stmt{s}
	case *ast.IfStmt:
		x.Body.List = rewriteBlock(x.Body.List)
		if x.Else != nil {
			r := rewriteStmt(x.Else)
			if f := fieldOfStmt(x.Else); f != "" {
				r = append([]ast.Stmt{yieldStmt("field:"+f, nil)}, r...)
			}
			if len(r) == 1 {
				x.Else = r[0]
			} else {
				x.Else = &ast.BlockStmt{List: r}
			}
		}
		var pre []ast.Stmt
		if x.Init != nil {
			if ch := recvIn(x.Init); ch != nil {
				pre = append(pre, yieldStmt("recv", ch))
			}
		}
		return append(pre, s)
	case *ast.ForStmt:
		x.Body.List = rewriteBlock(x.Body.List)
		return []ast.Stmt{s}
	case *ast.RangeStmt:
		x.Body.List = rewriteBlock(x.Body.List)
		return []ast.Stmt{s}
	case *ast.SwitchStmt:
		for _, c := range x.Body.List {
			cc := c.(*ast.CaseClause)
			cc.Body = rewriteBlock(cc.Body)
		}
		return []ast.Stmt{s}
	case *ast.TypeSwitchStmt:
		for _, c := range x.Body.List {
			cc := c.(*ast.CaseClause)
			cc.Body = rewriteBlock(cc.Body)
		}
		return []ast.Stmt{s}
	case *ast.LabeledStmt:
		r := rewriteStmt(x.Stmt)
		if len(r) == 1 {
			x.Stmt = r[0]
			return []ast.Stmt{s}
		}
		x.Stmt = r[len(r)-1]
		return append(r[:len(r)-1], s)
	case *ast.ReturnStmt:
		for _, r := range x.Results {
			rewriteExprFuncLits(r)
		}
		return []ast.Stmt{s}
	}
	return []ast.Stmt{s}
}

// function literals nested in expressions get their bodies instrumented too
func rewriteExprFuncLits(e ast.Expr) {
	ast.Inspect(e, func(n ast.Node) bool {
		if fl, ok := n.(*ast.FuncLit); ok {
			fl.Body.List = rewriteBlock(fl.Body.List)
			return false
		}
		return true
	})
}

func main() {
	in := flag.String("in", "", "input file")
	out := flag.String("out", "", "output file")
	only := flag.String("only", "", "comma-separated function names to instrument (default: all)")
	imp := flag.String("import", "berty.tech/weshnet/v2/internal/vsched", "import path of vsched")
	skip := flag.String("skip", "", "comma-separated substrings: lock operations on receivers containing one are left alone")
	fields := flag.String("fields", "", "comma-separated field names: every statement whose header reads or writes X.<field> gets a scheduling point before it")
	calls := flag.String("calls", "", "comma-separated method names: a call X.Name(...) becomes vsched.At(label, X).Name(...), i.e. a scheduling point right before the call")
	flag.Parse()
	callSet := map[string]bool{}
	for _, n := range strings.Split(*calls, ",") {
		if n != "" {
			callSet[n] = true
		}
	}
	skipRecv = strings.Split(*skip, ",")
	for _, n := range strings.Split(*fields, ",") {
		if n != "" {
			fieldSet[n] = true
		}
	}
	f, err := parser.ParseFile(fset, *in, nil, parser.ParseComments)
	if err != nil {
		fmt.Fprintln(os.Stderr, err)
		os.Exit(1)
	}
	want := map[string]bool{}
	if *only != "" {
		for _, n := range bytes.Split([]byte(*only), []byte(",")) {
			want[string(n)] = true
		}
	}
	for _, d := range f.Decls {
		fd, ok := d.(*ast.FuncDecl)
		if !ok || fd.Body == nil {
			continue
		}
		if len(want) > 0 && !want[fd.Name.Name] {
			continue
		}
		curFunc, counter = fd.Name.Name, 0
		fd.Body.List = rewriteBlock(fd.Body.List)
		if len(callSet) > 0 {
			ast.Inspect(fd.Body, func(n ast.Node) bool {
				c, ok := n.(*ast.CallExpr)
				if !ok {
					return true
				}
				sel, ok := c.Fun.(*ast.SelectorExpr)
				if !ok || !(callSet[sel.Sel.Name] || callSet[curFunc+"."+sel.Sel.Name]) {
					return true
				}
				if id, ok := sel.X.(*ast.Ident); ok && id.Name == "vsched" {
					return true
				}
				counter++
				nYields++
				lbl := &ast.BasicLit{Kind: token.STRING, Value: strconv.Quote(fmt.Sprintf("%s#%d:call:%s", curFunc, counter, sel.Sel.Name))}
				sel.X = &ast.CallExpr{Fun: &ast.SelectorExpr{X: ast.NewIdent("vsched"), Sel: ast.NewIdent("At")}, Args: []ast.Expr{lbl, sel.X}}
				return true
			})
		}
	}
	// add the import
	f.Decls = append([]ast.Decl{&ast.GenDecl{Tok: token.IMPORT, Specs: []ast.Spec{
		&ast.ImportSpec{Path: &ast.BasicLit{Kind: token.STRING, Value: strconv.Quote(*imp)}}}}}, f.Decls...)
	// comments would be misplaced by the inserted statements: drop them (the copy is only compiled)
	f.Comments = nil
	var buf bytes.Buffer
	if err := format.Node(&buf, fset, f); err != nil {
		fmt.Fprintln(os.Stderr, err)
		os.Exit(1)
	}
	// keep the compiler happy if a file ends up with no yield at all
	src := buf.Bytes()
	if nYields == 0 {
		src = append(src, []byte("\nvar _ = vsched.Yield\n")...)
	}
	if err := os.WriteFile(*out, src, 0o644); err != nil {
		fmt.Fprintln(os.Stderr, err)
		os.Exit(1)
	}
}
