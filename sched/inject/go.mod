module verif/inject

go 1.23
