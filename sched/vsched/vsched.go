//go:build verif

// Package vsched is the cooperative scheduler used by the verification harness (overlaid into
// the module at check time, never committed to /repo).  Instrumented code calls Yield before
// every synchronisation operation; when a controller is installed each registered goroutine
// parks there until the controller releases it.  Mutex enabledness is tracked by the
// controller; channel operations use the real primitives, and whether a released goroutine
// blocked inside the runtime is read from runtime.Stack (DESIGN.md section 4.2).
package vsched

import (
	"bytes"
	"fmt"
	"reflect"
	"regexp"
	"runtime"
	"sort"
	"strconv"
	"sync"
	"time"
)

type Thread struct {
	Name   string
	goid   int64
	resume chan struct{}
	// protected by ctl.mu
	atYield bool
	kind    string
	obj     uintptr
	label   string
	done    bool
	result  string
	last    string // label of the last yield passed
}

type Ctl struct {
	mu      sync.Mutex
	threads map[int64]*Thread
	order   []*Thread
	holders map[uintptr]*Thread // write-lock holders
	readers map[uintptr]int
	nGo     int
	buf     []byte
	lastBlk map[int64]bool // blocked set of the last quiescent snapshot
}

var (
	curMu sync.RWMutex
	cur   *Ctl
)

func Install() *Ctl {
	c := &Ctl{threads: map[int64]*Thread{}, holders: map[uintptr]*Thread{}, readers: map[uintptr]int{}}
	curMu.Lock()
	cur = c
	curMu.Unlock()
	return c
}

// Reinstall makes an existing controller current again (after an Uninstall used to run
// set-up code without scheduling points).
func Reinstall(c *Ctl) {
	curMu.Lock()
	cur = c
	curMu.Unlock()
}

func Uninstall() {
	curMu.Lock()
	cur = nil
	curMu.Unlock()
}

func current() *Ctl {
	curMu.RLock()
	defer curMu.RUnlock()
	return cur
}

func goid() int64 {
	var buf [64]byte
	n := runtime.Stack(buf[:], false)
	// "goroutine 123 [running]:..."
	b := buf[10:n]
	i := bytes.IndexByte(b, ' ')
	id, _ := strconv.ParseInt(string(b[:i]), 10, 64)
	return id
}

// Ref gives the identity of a mutex: p points to a sync.Mutex / sync.RWMutex field or to an
// interface variable (sync.Locker) holding a pointer to one.
func Ref(p any) uintptr {
	v := reflect.ValueOf(p)
	if v.Kind() != reflect.Ptr || v.IsNil() {
		return 0
	}
	e := v.Elem()
	switch e.Kind() {
	case reflect.Interface:
		if !e.IsNil() {
			if d := e.Elem(); d.Kind() == reflect.Ptr {
				return d.Pointer()
			}
		}
	case reflect.Ptr:
		// a field of type *sync.RWMutex: the mutex it points to
		if !e.IsNil() {
			return e.Pointer()
		}
	}
	return v.Pointer()
}

func objID(o any) uintptr {
	switch x := o.(type) {
	case nil:
		return 0
	case uintptr:
		return x
	}
	v := reflect.ValueOf(o)
	switch v.Kind() {
	case reflect.Chan, reflect.Ptr, reflect.UnsafePointer, reflect.Map, reflect.Func:
		return v.Pointer()
	}
	return 0
}

// Yield is a scheduling point. No-op unless a controller is installed and the calling
// goroutine is registered with it.
func Yield(kind string, obj any, label string) {
	c := current()
	if c == nil {
		return
	}
	id := goid()
	c.mu.Lock()
	t := c.threads[id]
	if t == nil {
		c.mu.Unlock()
		return
	}
	t.atYield, t.kind, t.obj, t.label = true, kind, objID(obj), label
	c.mu.Unlock()
	<-t.resume
}

// At is a scheduling point placed right before a method call: X.f(a) is rewritten by the injector
// into vsched.At(label, X).f(a).
func At[T any](label string, x T) T {
	Yield("call", nil, label)
	return x
}

// Spawn starts f as a controlled thread; it parks at an initial yield ("start").
func (c *Ctl) Spawn(name string, f func() string) *Thread {
	t := &Thread{Name: name, resume: make(chan struct{})}
	ready := make(chan struct{})
	go func() {
		t.goid = goid()
		c.mu.Lock()
		c.threads[t.goid] = t
		c.order = append(c.order, t)
		c.mu.Unlock()
		close(ready)
		Yield("start", nil, name+":start")
		r := f()
		c.mu.Lock()
		t.done, t.result, t.atYield = true, r, false
		c.mu.Unlock()
	}()
	<-ready
	c.waitQuiet()
	return t
}

// Go is what instrumented `go` statements call.
func Go(label string, f func()) {
	c := current()
	if c == nil {
		go f()
		return
	}
	c.mu.Lock()
	_, registered := c.threads[goid()]
	c.nGo++
	name := fmt.Sprintf("go%d:%s", c.nGo, label)
	c.mu.Unlock()
	if !registered {
		go f()
		return
	}
	// child of a controlled thread: controlled too (registered before the parent continues)
	t := &Thread{Name: name, resume: make(chan struct{})}
	ready := make(chan struct{})
	go func() {
		t.goid = goid()
		c.mu.Lock()
		c.threads[t.goid] = t
		c.order = append(c.order, t)
		c.mu.Unlock()
		close(ready)
		Yield("start", nil, name+":start")
		f()
		c.mu.Lock()
		t.done, t.atYield = true, false
		c.mu.Unlock()
	}()
	<-ready
}

var hdrRe = regexp.MustCompile(`(?m)^goroutine (\d+) \[([^\]]*)\]:`)

func blockedState(s string) bool {
	for _, p := range []string{"chan receive", "chan send", "select", "sync.Mutex.Lock", "sync.RWMutex", "semacquire", "sync.Cond.Wait", "sync.WaitGroup.Wait", "IO wait"} {
		if len(s) >= len(p) && s[:len(p)] == p {
			return true
		}
	}
	return false
}

// snapshot: for each live controlled thread that is neither done nor at a yield, is it
// blocked inside the runtime?
func (c *Ctl) snapshot() (allSettled bool, blocked map[int64]bool) {
	if c.buf == nil {
		c.buf = make([]byte, 1<<19)
	}
	buf := c.buf
	n := runtime.Stack(buf, true)
	// a truncated dump may lack the controlled goroutines (they would then never count as settled)
	for n == len(buf) && len(buf) < 1<<26 {
		c.buf = make([]byte, 2*len(buf))
		buf = c.buf
		n = runtime.Stack(buf, true)
	}
	states := map[int64]string{}
	for _, m := range hdrRe.FindAllSubmatch(buf[:n], -1) {
		id, _ := strconv.ParseInt(string(m[1]), 10, 64)
		states[id] = string(m[2])
	}
	blocked = map[int64]bool{}
	allSettled = true
	c.mu.Lock()
	defer c.mu.Unlock()
	for _, t := range c.order {
		if t.done || t.atYield {
			continue
		}
		st, ok := states[t.goid]
		if ok && blockedState(st) {
			blocked[t.goid] = true
			continue
		}
		allSettled = false
	}
	return
}

// waitQuiet returns when every controlled thread is done, parked at a yield, or blocked in the
// runtime (same blocked set in two consecutive samples).
func (c *Ctl) waitQuiet() {
	var prev map[int64]bool
	same := 0
	for i := 0; ; i++ {
		runtime.Gosched()
		ok, b := c.snapshot()
		if ok {
			// the same set of blocked threads in three consecutive samples, a little apart: a thread that
			// only waits a moment for a lock of code outside the controller is not "blocked"
			if prev != nil && sameSet(prev, b) {
				same++
				if same >= 2 {
					c.lastBlk = b
					return
				}
				if len(b) > 0 {
					time.Sleep(60 * time.Microsecond)
				}
			} else {
				same = 0
			}
			prev = b
		} else {
			prev, same = nil, 0
		}
		if i > 20 {
			time.Sleep(20 * time.Microsecond)
		}
		if i > 200000 {
			panic("vsched: no quiescence")
		}
	}
}

func sameSet(a, b map[int64]bool) bool {
	if len(a) != len(b) {
		return false
	}
	for k := range a {
		if !b[k] {
			return false
		}
	}
	return true
}

type Status struct {
	Name    string
	State   string // "at", "blocked", "done"
	Kind    string // pending operation when State=="at"; last passed when blocked
	Label   string
	Result  string
	Enabled bool
}

func (c *Ctl) lockFree(t *Thread) bool {
	switch t.kind {
	case "lock":
		return c.holders[t.obj] == nil && c.readers[t.obj] == 0
	case "rlock":
		return c.holders[t.obj] == nil
	}
	return true
}

// Statuses of all controlled threads, in spawn order.
func (c *Ctl) Statuses() []Status {
	blocked := c.lastBlk
	if blocked == nil {
		_, blocked = c.snapshot()
	}
	c.mu.Lock()
	defer c.mu.Unlock()
	var out []Status
	for _, t := range c.order {
		s := Status{Name: t.Name}
		switch {
		case t.done:
			s.State, s.Result = "done", t.result
		case t.atYield:
			s.State, s.Kind, s.Label = "at", t.kind, t.label
			s.Enabled = c.lockFree(t)
		case blocked[t.goid]:
			s.State, s.Kind, s.Label = "blocked", t.kind, t.last
		default:
			s.State = "running"
		}
		out = append(out, s)
	}
	return out
}

// Step releases the named thread from its yield (it must be at one and enabled) and waits for
// quiescence.
func (c *Ctl) Step(name string) error {
	c.mu.Lock()
	var t *Thread
	for _, x := range c.order {
		if x.Name == name {
			t = x
		}
	}
	if t == nil || !t.atYield {
		c.mu.Unlock()
		return fmt.Errorf("thread %s not at a yield", name)
	}
	if !c.lockFree(t) {
		c.mu.Unlock()
		return fmt.Errorf("thread %s not enabled (mutex held)", name)
	}
	switch t.kind {
	case "lock":
		c.holders[t.obj] = t
	case "unlock":
		delete(c.holders, t.obj)
	case "rlock":
		c.readers[t.obj]++
	case "runlock":
		if c.readers[t.obj] > 0 {
			c.readers[t.obj]--
		}
	}
	t.atYield, t.last = false, t.label
	c.mu.Unlock()
	t.resume <- struct{}{}
	c.waitQuiet()
	return nil
}

// Enabled threads, sorted by name.
func (c *Ctl) Enabled() []string {
	var out []string
	for _, s := range c.Statuses() {
		if s.State == "at" && s.Enabled {
			out = append(out, s.Name)
		}
	}
	sort.Strings(out)
	return out
}

// Abandon releases every parked thread so that the goroutines of a finished schedule can run
// to completion (or stay blocked and be garbage): used at the end of a schedule.
func (c *Ctl) Abandon() {
	Uninstall()
	c.mu.Lock()
	ts := append([]*Thread(nil), c.order...)
	c.mu.Unlock()
	for _, t := range ts {
		c.mu.Lock()
		park := t.atYield
		t.atYield = false
		c.mu.Unlock()
		if park {
			select {
			case t.resume <- struct{}{}:
			case <-time.After(10 * time.Millisecond):
			}
		}
	}
}
