//go:build verif

package vsched

import (
	"sort"
	"time"
)

// Run is one explored schedule.
type Run struct {
	Sched   []string   // thread released at each step
	Obs     [][]Status // statuses of all threads after each step
	Final   []Status
	Choices [][]string // enabled threads before each step (in exploration order)
	Passed  []string   // label of the scheduling point the released thread was parked at, per step
	Err     string
}

// Deadlock: some thread waits for a held mutex (or is blocked on one) and nobody can move.
func (r *Run) Deadlock() bool {
	for _, s := range r.Final {
		if s.State == "at" && !s.Enabled {
			return true
		}
	}
	return false
}

// RunSchedule installs a controller, lets setup spawn the threads, follows prefix and then
// always releases the first enabled thread (in the given order) until nothing is enabled.
// finish is called on the terminal state, before the threads are abandoned.
func RunSchedule(setup func(c *Ctl) (finish func(r *Run)), prefix []string, order map[string]int, maxSteps int) Run {
	var r Run
	ctl := Install()
	finish := setup(ctl)
	for step := 0; step < maxSteps; step++ {
		cur := ctl.Statuses()
		var en []string
		for _, st := range cur {
			if st.State == "at" && st.Enabled {
				en = append(en, st.Name)
			}
		}
		if len(en) == 0 {
			// nothing can move - unless a thread is only momentarily blocked in the runtime (a contended
			// lock of code that is not under the controller, the collector): look again a few times
			// before the run is declared over
			if !ctl.confirmQuiet() {
				step--
				continue
			}
			break
		}
		sort.SliceStable(en, func(i, j int) bool { return order[en[i]] < order[en[j]] })
		pick := en[0]
		if step < len(prefix) {
			pick = prefix[step]
		}
		r.Choices = append(r.Choices, en)
		passed := ""
		for _, st := range cur {
			if st.Name == pick && st.State == "at" {
				passed = st.Label
			}
		}
		if err := ctl.Step(pick); err != nil {
			r.Err = err.Error()
			break
		}
		r.Sched = append(r.Sched, pick)
		r.Passed = append(r.Passed, passed)
		r.Obs = append(r.Obs, ctl.Statuses())
	}
	r.Final = ctl.Statuses()
	if finish != nil {
		finish(&r)
	}
	ctl.Abandon()
	return r
}

// Explore enumerates the schedules depth-first (stateless: every schedule is re-executed from
// the start), at most max of them; returns how many were run and whether the space was exhausted.
func Explore(setup func(c *Ctl) (finish func(r *Run)), order map[string]int, maxSteps, max int, each func(r Run)) (n int, exhausted bool) {
	var prefix []string
	for n < max {
		r := RunSchedule(setup, prefix, order, maxSteps)
		// a replayed prefix that cannot be followed (the controller was asked to release a thread that is
		// not at a scheduling point) is a property of the run, not of the code: run it again, and only a
		// persistent failure is handed on
		for tries := 0; r.Err != "" && tries < 3; tries++ {
			r = RunSchedule(setup, prefix, order, maxSteps)
		}
		each(r)
		n++
		i := len(r.Sched) - 1
		for ; i >= 0; i-- {
			en := r.Choices[i]
			idx := -1
			for k, x := range en {
				if x == r.Sched[i] {
					idx = k
				}
			}
			if idx >= 0 && idx+1 < len(en) {
				prefix = append(append([]string(nil), r.Sched[:i]...), en[idx+1])
				break
			}
		}
		if i < 0 {
			return n, true
		}
	}
	return n, false
}

// Code maps a status to the small integers the Coq models use:
// 0 start, 1 at lock (free), 5 at lock (held), 2 at unlock, 3 at select, 4 at close,
// 6 at send/recv, 7 blocked in the runtime, 8 done, 9 other.
func Code(st Status) uint64 {
	switch st.State {
	case "done":
		return 8
	case "blocked":
		return 7
	case "at":
		switch st.Kind {
		case "start":
			return 0
		case "lock", "rlock":
			if st.Enabled {
				return 1
			}
			return 5
		case "unlock", "runlock":
			return 2
		case "select":
			return 3
		case "close":
			return 4
		case "send", "recv", "ds":
			return 6
		}
	}
	return 9
}

// RunRandom runs one schedule choosing uniformly among the enabled threads with the given
// source of choices (reproducible from the seed the harness derives it from).
func RunRandom(setup func(c *Ctl) (finish func(r *Run)), order map[string]int, maxSteps int, pick func(n int) int) Run {
	r := runRandomOnce(setup, order, maxSteps, pick)
	for tries := 0; r.Err != "" && tries < 3; tries++ {
		r = runRandomOnce(setup, order, maxSteps, pick)
	}
	return r
}

func runRandomOnce(setup func(c *Ctl) (finish func(r *Run)), order map[string]int, maxSteps int, pick func(n int) int) Run {
	var r Run
	ctl := Install()
	finish := setup(ctl)
	for step := 0; step < maxSteps; step++ {
		cur := ctl.Statuses()
		var en []string
		for _, st := range cur {
			if st.State == "at" && st.Enabled {
				en = append(en, st.Name)
			}
		}
		if len(en) == 0 {
			// nothing can move - unless a thread is only momentarily blocked in the runtime (a contended
			// lock of code that is not under the controller, the collector): look again a few times
			// before the run is declared over
			if !ctl.confirmQuiet() {
				step--
				continue
			}
			break
		}
		sort.SliceStable(en, func(i, j int) bool { return order[en[i]] < order[en[j]] })
		p := en[pick(len(en))]
		r.Choices = append(r.Choices, en)
		passed := ""
		for _, st := range cur {
			if st.Name == p && st.State == "at" {
				passed = st.Label
			}
		}
		if err := ctl.Step(p); err != nil {
			r.Err = err.Error()
			break
		}
		r.Sched = append(r.Sched, p)
		r.Passed = append(r.Passed, passed)
		r.Obs = append(r.Obs, ctl.Statuses())
	}
	r.Final = ctl.Statuses()
	if finish != nil {
		finish(&r)
	}
	ctl.Abandon()
	return r
}

// confirmQuiet re-samples the threads a few times, some milliseconds apart; false as soon as a
// thread has reached a scheduling point at which it is enabled.
func (c *Ctl) confirmQuiet() bool {
	for k := 0; k < 3; k++ {
		time.Sleep(2 * time.Millisecond)
		c.waitQuiet()
		for _, st := range c.Statuses() {
			if st.State == "at" && st.Enabled {
				return false
			}
		}
	}
	return true
}
