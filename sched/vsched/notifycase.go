//go:build verif

package vsched

import (
	"context"
	"fmt"
	"sort"
	"strings"
)

// Generic driver for the C16 correspondence: one notify client (connectedness manager,
// lifecycle manager, peer cache) explored under all/random schedules and emitted as
// CNotify cases of Model/C16_Notify.v.

type NotifyOp struct {
	Kind string // assoc, upd, touch
	K, V uint64
}

func (o NotifyOp) Coq() string {
	switch o.Kind {
	case "assoc":
		return fmt.Sprintf("UAssoc %d", o.K)
	case "touch":
		return fmt.Sprintf("UTouch %d %d", o.K, o.V)
	}
	return fmt.Sprintf("UUpd %d %d", o.K, o.V)
}

// NotifyWorld is one fresh instance of the client with two waiters' views.
type NotifyWorld interface {
	Wait(ctx context.Context, waiter int) (updated []uint64, ok bool)
	Apply(op NotifyOp)
	Missed(waiter int) []uint64 // keys whose tracked value differs from the waiter's view (read at a quiescent state)
}

type NotifyScenario struct {
	CallsA, CallsB int
	ViewA, ViewB   map[uint64]uint64
	Ops            []NotifyOp
	Cancel         bool
	// CancelFirstOnly: the canceller cancels the context of waiter 0 only; waiter 1 waits without a
	// deadline.  Such runs are decided by the oracle alone (the LTS of the model has one shared
	// cancellation flag).
	CancelFirstOnly bool
}

type NotifyCase struct {
	Coq, Note, Sig string
	OK, Preempt    bool
	Sched          []string
}

func coqView(m map[uint64]uint64) string {
	var ks []uint64
	for k := range m {
		ks = append(ks, k)
	}
	sort.Slice(ks, func(i, j int) bool { return ks[i] < ks[j] })
	var s []string
	for _, k := range ks {
		s = append(s, fmt.Sprintf("(%d, %d)", k, m[k]))
	}
	return "[" + strings.Join(s, "; ") + "]"
}

func coqNs(xs []uint64) string {
	s := make([]string, len(xs))
	for i, x := range xs {
		s[i] = fmt.Sprint(x)
	}
	return "[" + strings.Join(s, "; ") + "]"
}

type notifyRes struct {
	upd []uint64
	ok  bool
}

func coqRes(rs []notifyRes) string {
	var s []string
	for _, r := range rs {
		b := "false"
		if r.ok {
			b = "true"
		}
		s = append(s, fmt.Sprintf("(%s, %s)", coqNs(r.upd), b))
	}
	return "[" + strings.Join(s, "; ") + "]"
}

// ExploreNotify runs up to max schedules (half depth-first, half random unless the space is
// exhausted) and hands each as a case to emit.
func ExploreNotify(newWorld func(sc NotifyScenario) NotifyWorld, initData string, keep bool, what string,
	sc NotifyScenario, max int, pick func(int) int, emit func(NotifyCase)) int {
	order := map[string]int{"0": 0, "1": 1, "2": 2, "99": 99}
	two := sc.CallsB > 0
	var curA, curB *[]notifyRes
	var world NotifyWorld
	var ctx context.Context
	// releases, once a run has been judged, the waiters it left blocked (they would otherwise pile up
	// over thousands of runs and make every goroutine dump slower, and in the end too long)
	release := func() {}
	setup := func(c *Ctl) func(r *Run) {
		world = newWorld(sc)
		var cancel context.CancelFunc
		ctx, cancel = context.WithCancel(context.Background())
		ctx1, cancel1 := context.WithCancel(context.Background())
		release = func() { cancel(); cancel1() }
		// results and world of THIS run: the waiters of an earlier run, released after it was judged, must
		// not write into the results of the current one
		ra, rb := new([]notifyRes), new([]notifyRes)
		curA, curB = ra, rb
		world := world
		waiter := func(idx, calls int, res *[]notifyRes) func() string {
			return func() string {
				wctx := ctx
				if sc.CancelFirstOnly && idx == 1 {
					wctx = ctx1 // not cancelled during the run
				}
				for i := 0; i < calls; i++ {
					upd, ok := world.Wait(wctx, idx)
					sort.Slice(upd, func(i, j int) bool { return upd[i] < upd[j] })
					*res = append(*res, notifyRes{upd, ok})
					if !ok {
						break
					}
				}
				return ""
			}
		}
		c.Spawn("0", waiter(0, sc.CallsA, ra))
		if two {
			c.Spawn("1", waiter(1, sc.CallsB, rb))
		}
		c.Spawn("2", func() string {
			for _, o := range sc.Ops {
				world.Apply(o)
			}
			return ""
		})
		if sc.Cancel || sc.CancelFirstOnly {
			c.Spawn("99", func() string { cancel(); return "" })
		}
		return func(r *Run) { _ = cancel }
	}
	n := 0
	each := func(r Run) {
		defer func() { release() }()
		n++
		resA, resB := *curA, *curB
		var sched []string
		sched = append(sched, r.Sched...)
		var obs []string
		for _, sts := range r.Obs {
			var v []uint64
			for _, st := range sts {
				v = append(v, Code(st))
			}
			obs = append(obs, coqNs(v))
		}
		c := NotifyCase{OK: true, Sched: r.Sched}
		if r.Err != "" {
			c.OK, c.Note, c.Sig = false, r.Err, "harness error"
		}
		lockWait := 0
		for _, st := range r.Final {
			if (st.State == "at" && !st.Enabled) || (st.State == "blocked" && (st.Kind == "lock" || st.Kind == "rlock")) {
				lockWait++
			}
		}
		if lockWait > 0 && r.Err == "" {
			c.OK, c.Sig = false, "deadlock: threads wait for mutexes that are never released"
			c.Note = fmt.Sprintf("%s: schedule %v ends with %d thread(s) waiting for a held mutex", what, r.Sched, lockWait)
		}
		cancelled := ctx.Err() != nil
		if c.OK && (!cancelled || sc.CancelFirstOnly) {
			for _, st := range r.Final {
				if cancelled && st.Name == "0" {
					continue // waiter 0 was cancelled: handled below
				}
				if st.State == "blocked" && st.Kind == "select" && (st.Name == "0" || st.Name == "1") {
					idx := 0
					if st.Name == "1" {
						idx = 1
					}
					if missed := world.Missed(idx); len(missed) > 0 {
						c.OK, c.Sig = false, "missed update: waiter parked although the tracked state differs from what it saw"
						c.Note = fmt.Sprintf("%s: waiter %s stays blocked while keys %v differ from its view; schedule %v", what, st.Name, missed, r.Sched)
					}
				}
			}
		}
		if c.OK && cancelled {
			for _, st := range r.Final {
				if sc.CancelFirstOnly && st.Name == "1" {
					continue
				}
				if st.State == "blocked" && (st.Name == "0" || st.Name == "1") {
					c.OK, c.Sig = false, "cancelled wait does not return"
					c.Note = fmt.Sprintf("%s: waiter %s still blocked after cancellation; schedule %v", what, st.Name, r.Sched)
				}
			}
		}
		var ops []string
		for _, o := range sc.Ops {
			ops = append(ops, o.Coq())
		}
		b := func(x bool) string {
			if x {
				return "true"
			}
			return "false"
		}
		c.Coq = fmt.Sprintf("CNotify %s %d %s %d %s %s %s %s %s %s %s %s %s", initData, sc.CallsA, coqView(sc.ViewA), sc.CallsB, coqView(sc.ViewB),
			b(keep), b(two), "["+strings.Join(ops, "; ")+"]", b(sc.Cancel), "["+strings.Join(sched, "; ")+"]", "["+strings.Join(obs, "; ")+"]", coqRes(resA), coqRes(resB))
		if sc.CancelFirstOnly {
			c.Coq = fmt.Sprintf("CNotifyOracleOnly %d", len(r.Sched))
		}
		for i := 1; i < len(r.Sched); i++ {
			if r.Sched[i] != r.Sched[i-1] {
				c.Preempt = true
			}
		}
		emit(c)
	}
	_, exhausted := Explore(setup, order, 300, max/2, each)
	if !exhausted {
		for i := 0; i < max/2; i++ {
			each(RunRandom(setup, order, 300, pick))
		}
	}
	return n
}
