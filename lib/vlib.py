"""Shared machinery of the weshnet verification checks (see DESIGN.md section 2).

One check = prove (Coq, incl. generated facts) + correspond (Go harness built from /repo's
current tree through a build overlay, model evaluated by coqc) + decide + evidence.
"""
import json, os, re, subprocess, sys, time, hashlib, shutil, glob, concurrent.futures

VERIF = os.path.dirname(os.path.dirname(os.path.abspath(__file__)))
REPO = os.environ.get('VERIF_REPO', '/repo')
COQ = os.path.join(VERIF, 'coq')
WORK = os.path.join(VERIF, '.work')
GO = 'go1.26.8'
NCPU = os.cpu_count() or 4

FORBIDDEN = r'\b(Admitted|admit|Axiom|Axioms|Parameter|Parameters|Conjecture|Hypothesis|Variable|Variables|Hypotheses)\b|Unset Guard|bypass_check|type-in-type|impredicative-set|Admit Obligations'


def go_env():
    e = dict(os.environ)
    e.update(GOFLAGS='-mod=mod', GOPROXY='off', GOSUMDB='off', GOTOOLCHAIN='local',
             CGO_ENABLED=e.get('CGO_ENABLED', '1'))
    return e


def sh(cmd, cwd=None, env=None, timeout=1200, input=None):
    """run, return (rc, combined output); rc 124 on timeout"""
    try:
        p = subprocess.run(cmd, cwd=cwd, env=env, timeout=timeout, input=input,
                           stdout=subprocess.PIPE, stderr=subprocess.STDOUT, text=True,
                           shell=isinstance(cmd, str))
        return p.returncode, p.stdout
    except subprocess.TimeoutExpired as ex:
        out = ex.stdout or ''
        if isinstance(out, bytes):
            out = out.decode(errors='replace')
        return 124, out + '\n[timeout after %ss]' % timeout


def workdir(pid):
    d = os.path.join(WORK, pid)
    shutil.rmtree(d, ignore_errors=True)
    os.makedirs(d, exist_ok=True)
    return d


# ---------------------------------------------------------------- translator (generated facts)

def run_gen():
    """Regenerate coq/theories/Gen/*.v from /repo's current sources.  Returns (ok, log)."""
    genbin = os.path.join(VERIF, 'bin', 'gen')
    injbin = os.path.join(VERIF, 'bin', 'inject')
    srcs = glob.glob(os.path.join(VERIF, 'gen', '*.go')) + glob.glob(os.path.join(VERIF, 'sched', 'inject', '*.go'))
    if not os.path.exists(genbin) or not os.path.exists(injbin) or any(os.path.getmtime(f) > min(os.path.getmtime(genbin), os.path.getmtime(injbin)) for f in srcs):
        rc, out = build_tools()
        if rc != 0:
            return False, out
    tmp = os.path.join(WORK, 'gen.tmp')
    shutil.rmtree(tmp, ignore_errors=True)
    os.makedirs(tmp, exist_ok=True)
    rc, out = sh([genbin, '-repo', REPO, '-out', tmp], timeout=120)
    if rc != 0:
        return False, out
    dst = os.path.join(COQ, 'theories', 'Gen')
    os.makedirs(dst, exist_ok=True)
    for f in sorted(os.listdir(tmp)):
        src = os.path.join(tmp, f)
        d = os.path.join(dst, f)
        new = open(src).read()
        old = open(d).read() if os.path.exists(d) else None
        if new != old:
            with open(d, 'w') as fh:
                fh.write(new)
    return True, out


def build_tools():
    out_all = ''
    for name in ('gen', 'inject'):
        src = os.path.join(VERIF, name if name == 'gen' else 'sched/inject')
        if not os.path.isdir(src):
            continue
        rc, out = sh([GO, 'build', '-o', os.path.join(VERIF, 'bin', name), '.'], cwd=src,
                     env=go_env(), timeout=600)
        out_all += out
        if rc != 0:
            return rc, out_all
    return 0, out_all


# ---------------------------------------------------------------- Coq

def coq_makefile():
    vs = sorted(glob.glob(os.path.join(COQ, 'theories', '**', '*.v'), recursive=True))
    vs = [os.path.relpath(v, COQ) for v in vs if '/zz_' not in v]
    head = ['-Q theories Wesh',
            '-arg -w -arg -notation-overridden,-deprecated-hint-without-locality,-deprecated-instance-without-locality']
    txt = '\n'.join(head + vs) + '\n'
    p = os.path.join(COQ, '_CoqProject')
    if not os.path.exists(p) or open(p).read() != txt or not os.path.exists(os.path.join(COQ, 'Makefile')):
        open(p, 'w').write(txt)
        sh(['coq_makefile', '-f', '_CoqProject', '-o', 'Makefile'], cwd=COQ)


def coq_make(targets, timeout=1500, keep_going=True):
    """Full .vo build of the given targets. Returns (ok, log, failed_files)."""
    coq_makefile()
    cmd = ['make', '-j%d' % NCPU] + (['-k'] if keep_going else []) + targets
    rc, out = sh(cmd, cwd=COQ, timeout=timeout)
    failed = []
    for m in re.finditer(r'File "\./(theories/[^"]+\.v)", line (\d+)', out):
        failed.append((m.group(1), int(m.group(2))))
    for m in re.finditer(r'\*\*\* \[[^\]]*: (theories/\S+\.vo)\] Error', out):
        f = m.group(1)[:-1]
        if not any(f == x[0] for x in failed):
            failed.append((f, 0))
    return rc == 0, out, failed


def theorem_at(vfile, line):
    """name of the Theorem/Lemma enclosing the given line"""
    name = None
    try:
        for i, l in enumerate(open(os.path.join(COQ, vfile)), 1):
            m = re.match(r'\s*(Theorem|Lemma|Example|Corollary|Definition|Fixpoint)\s+(\w+)', l)
            if m:
                name = m.group(2)
            if i >= line:
                break
    except OSError:
        pass
    return name


def list_theorems(vfile):
    out = []
    for l in open(os.path.join(COQ, vfile)):
        m = re.match(r'\s*(Theorem|Lemma|Example|Corollary)\s+(\w+)', l)
        if m:
            out.append(m.group(2))
    return out


def forbidden_scan():
    """Admitted/Axiom/... anywhere in the development (comments stripped). Returns list of hits."""
    hits = []
    for v in glob.glob(os.path.join(COQ, 'theories', '**', '*.v'), recursive=True):
        src = open(v).read()
        # strip (nested) comments
        res, depth, i = [], 0, 0
        while i < len(src):
            if src.startswith('(*', i):
                depth += 1; i += 2
            elif src.startswith('*)', i) and depth > 0:
                depth -= 1; i += 2
            else:
                if depth == 0:
                    res.append(src[i])
                elif src[i] == '\n':
                    res.append('\n')
                i += 1
        txt = ''.join(res)
        in_section = 0
        for n, line in enumerate(txt.split('\n'), 1):
            if re.match(r'\s*Section\b', line): in_section += 1
            if re.match(r'\s*End\b', line) and in_section > 0: in_section -= 1
            for m in re.finditer(FORBIDDEN, line):
                w = m.group(0)
                if w in ('Variable', 'Variables', 'Hypothesis', 'Hypotheses') and in_section > 0:
                    continue
                hits.append('%s:%d: %s' % (os.path.relpath(v, COQ), n, line.strip()[:100]))
    return hits


def print_assumptions(module, theorems, wd):
    """coqc a scratch file printing the assumptions of each theorem. Returns dict name->text."""
    src = 'From Wesh Require Import %s.\n' % module
    for t in theorems:
        src += 'Goal True. idtac "@@ASSUME %s". Abort.\nPrint Assumptions %s.\n' % (t, t)
    f = os.path.join(wd, 'zz_assume.v')
    open(f, 'w').write(src)
    rc, out = sh(['coqc', '-Q', os.path.join(COQ, 'theories'), 'Wesh', '-w', 'none', f], cwd=wd, timeout=300)
    res = {}
    cur = None
    for line in out.split('\n'):
        m = re.match(r'@@ASSUME (\w+)', line)
        if m:
            cur = m.group(1); res[cur] = ''
        elif cur is not None:
            res[cur] += ('\n' + line.strip() if line[:1] not in (' ', '\t') else ' ' + line.strip())
    return rc == 0, {k: v.strip() for k, v in res.items()}, out


def coq_eval_cases(model_module, cases, wd, shard=800, extra_imports=(), timeout=900, tag='cases', scope='N_scope'):
    """Evaluate [mismatches] of the model on the cases (Coq terms of type [case]).
    Returns (ok, mismatching global indices, log)."""
    if not cases:
        return True, [], ''
    shards = [cases[i:i + shard] for i in range(0, len(cases), shard)]

    def run(k):
        f = os.path.join(wd, 'zz_%s_%d.v' % (tag, k))
        with open(f, 'w') as fh:
            fh.write('From Coq Require Import List NArith ZArith Bool String.\nImport ListNotations.\n')
            for imp in extra_imports:
                fh.write(imp + '\n')
            fh.write('From Wesh Require Import %s.\n' % model_module)
            fh.write('Open Scope %s.\n' % scope)
            fh.write('Definition cases : list case := [\n')
            fh.write(';\n'.join('  (' + c + ')' for c in shards[k]))
            fh.write('\n].\n')
            fh.write('Definition M := Eval vm_compute in mismatches cases.\n')
            fh.write('Goal True. idtac "@@M-BEGIN". Abort.\nPrint M.\nGoal True. idtac "@@M-END". Abort.\n')
        rc, out = sh(['coqc', '-Q', os.path.join(COQ, 'theories'), 'Wesh', '-w', 'none', f], cwd=wd, timeout=timeout)
        return k, rc, out

    mism, ok, logs = [], True, ''
    with concurrent.futures.ThreadPoolExecutor(max_workers=min(NCPU, 8)) as ex:
        for k, rc, out in ex.map(run, range(len(shards))):
            if rc != 0 or '@@M-BEGIN' not in out:
                ok = False
                logs += 'shard %d: rc=%d\n%s\n' % (k, rc, out[-3000:])
                continue
            body = out.split('@@M-BEGIN', 1)[1].split('@@M-END', 1)[0]
            body = body.split('=', 1)[1] if '=' in body else body
            body = body.split(':', 1)[0] if ':' in body else body
            for m in re.finditer(r'\d+', body):
                mism.append(k * shard + int(m.group(0)))
    return ok, sorted(mism), logs


# ---------------------------------------------------------------- Go harness

def write_overlay(wd, files, name='overlay.json'):
    """files: {path relative to /repo : absolute source path}"""
    rep = {os.path.join(REPO, k): v for k, v in files.items()}
    p = os.path.join(wd, name)
    json.dump({'Replace': rep}, open(p, 'w'), indent=1)
    return p


def harness_files(*rel):
    """map harness/<x>/<f> to the package dir in /repo; vharness always included"""
    files = {'internal/vharness/vharness.go': os.path.join(VERIF, 'harness/vharness/vharness.go')}
    for r in rel:
        pkg, src = r
        files[os.path.join(pkg, os.path.basename(src))] = os.path.join(VERIF, src)
    return files


def go_test(pkg, run, overlay, env_extra, timeout=900, tags='verif', extra_args=()):
    env = go_env()
    env.update(env_extra)
    cmd = [GO, 'test', '-tags', tags, '-vet=off', '-count=1', '-timeout', '%ds' % max(60, int(timeout) - 30), '-run', run]
    if overlay:
        cmd += ['-overlay', overlay]
    cmd += list(extra_args) + [pkg]
    return sh(cmd, cwd=REPO, env=env, timeout=timeout)


def go_build_plain(pkg, timeout=900):
    """does the package (with its tests) build without any overlay?"""
    return sh([GO, 'test', '-vet=off', '-count=1', '-run', '^$', pkg], cwd=REPO, env=go_env(), timeout=timeout)


def read_cases(path):
    cs = []
    if os.path.exists(path):
        for line in open(path):
            line = line.strip()
            if line:
                try:
                    cs.append(json.loads(line))
                except ValueError:
                    pass
    return cs


# ---------------------------------------------------------------- findings, evidence, verdict

def load_known():
    p = os.path.join(VERIF, 'KNOWN_FINDINGS.json')
    if not os.path.exists(p):
        return []
    return json.load(open(p)).get('findings', [])


def match_known(pid, signature):
    """a violation is suppressed only by a 'known' entry of the same property whose signature
    pattern matches the violation's signature"""
    for f in load_known():
        if f.get('property') == pid and f.get('status') == 'known':
            if re.search(f['signature'], signature or ''):
                return f
    return None


def write_replay(pid, seed, n, obj):
    d = os.path.join(VERIF, 'replays')
    os.makedirs(d, exist_ok=True)
    p = os.path.join(d, '%s-seed%s-%d.json' % (pid, seed, n))
    json.dump(obj, open(p, 'w'), indent=1, default=str)
    return p


def write_evidence(pid, tier, seed, coverage, assumptions, wall, violations):
    d = os.path.join(VERIF, 'evidence')
    os.makedirs(d, exist_ok=True)
    ev = {'property_id': pid, 'tier': tier, 'seed': int(seed), 'level': 'proof',
          'coverage': coverage, 'assumptions': assumptions, 'wall_s': round(wall, 1),
          'violations': violations}
    json.dump(ev, open(os.path.join(d, pid + '.json'), 'w'), indent=1, default=str)
