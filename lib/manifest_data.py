TECH = "machine-checked proof (Coq 8.16) about an executable model + differential correspondence check against the real code"
CHECKS = {
 'C18': ("Coq theorems over all message lists, all chunkings and all byte streams (round trip, chunking independence, allocation bound, totality, oversize/overflow/truncation reported with earlier frames intact) about an executable model of pkg/protoio; tied to the current source by running the real readers/writers and the model on the same chunk plans on every run",
         "Trusted: Coq kernel, Go harness + python driver; bufio/io.ReadFull/encoding-binary/protobuf are modelled (evidence.trusted_base)", TECH),
 'C02': ("Coq theorem: every history of registrations and deliveries (any senders, order, repetition, window) on the datastore-level model of the secret store behaves exactly like the abstract ratchet whose open rule is the property's formula; plus re-registration no-op, nothing before c, retry completeness for any W>=1. Tied to the code by replaying generated histories on real SecretStore instances and on the model",
         "Trusted: Coq kernel, harness; HKDF/secretbox/Ed25519 symbolic; defined CIDs; receiver is not the sender", TECH),
}
NOT_CLAIMED = {}
