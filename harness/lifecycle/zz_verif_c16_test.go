//go:build verif

package lifecycle

import (
	"context"
	"testing"
	"time"

	"berty.tech/weshnet/v2/internal/vharness"
	"berty.tech/weshnet/v2/internal/vsched"
)

type c16world struct {
	m      *Manager
	source [2]State
}

func (w *c16world) Wait(ctx context.Context, i int) ([]uint64, bool) {
	if w.m.WaitForStateChange(ctx, w.source[i]) {
		return []uint64{0}, true
	}
	return nil, false
}

func (w *c16world) Apply(o vsched.NotifyOp) { w.m.UpdateState(State(o.V)) }

// Missed reads the state through the public getter (which takes the manager's lock): at the end of a
// run a parked thread may hold that lock, so the read is given a moment and abandoned otherwise.
func (w *c16world) Missed(i int) []uint64 {
	got := make(chan State, 1)
	go func() { got <- w.m.GetCurrentState() }()
	select {
	case st := <-got:
		if st != w.source[i] {
			return []uint64{0}
		}
	case <-time.After(500 * time.Millisecond):
	}
	return nil
}

func TestVerifC16(t *testing.T) {
	out := vharness.Open()
	defer out.Close()
	rng := vharness.Rng()
	budget := vharness.Budget(500, 10000)
	U := func(v uint64) vsched.NotifyOp { return vsched.NotifyOp{Kind: "upd", K: 0, V: v} }
	// the manager starts Active (0); the waiter's view is the source state it waits to leave
	scenarios := []vsched.NotifyScenario{
		{CallsA: 1, ViewA: map[uint64]uint64{0: 0}, Ops: []vsched.NotifyOp{U(1)}},
		{CallsA: 1, ViewA: map[uint64]uint64{0: 0}, Ops: []vsched.NotifyOp{U(0), U(1)}},
		{CallsA: 1, ViewA: map[uint64]uint64{0: 0}, Ops: []vsched.NotifyOp{U(1), U(0)}, Cancel: true},
		{CallsA: 1, CallsB: 1, ViewA: map[uint64]uint64{0: 0}, ViewB: map[uint64]uint64{0: 1}, Ops: []vsched.NotifyOp{U(1), U(0)}},
		{CallsA: 1, ViewA: map[uint64]uint64{0: 1}, Ops: []vsched.NotifyOp{U(1)}, Cancel: true},
		{CallsA: 1, CallsB: 1, ViewA: map[uint64]uint64{0: 0}, ViewB: map[uint64]uint64{0: 0}, Ops: []vsched.NotifyOp{U(1)}, CancelFirstOnly: true},
	}
	newWorld := func(sc vsched.NotifyScenario) vsched.NotifyWorld {
		w := &c16world{m: NewManager(StateActive)}
		w.source[0], w.source[1] = State(sc.ViewA[0]), State(sc.ViewB[0])
		return w
	}
	total := 0
	for _, sc := range scenarios {
		total += vsched.ExploreNotify(newWorld, "[(0, (true, 0))]", false, "lifecycle.Manager", sc, budget/len(scenarios)+20, rng.Intn, func(c vsched.NotifyCase) {
			out.Emit(vharness.Case{Kind: "lifecycle", Coq: c.Coq, Key: c.Coq, Nontrivial: c.Preempt, OracleOK: c.OK, Note: c.Note, Sig: c.Sig,
				Replay: map[string]any{"schedule": c.Sched}})
		})
	}
	t.Logf("C16 harness (lifecycle): %d schedules", total)
}
