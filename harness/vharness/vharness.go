//go:build verif

// Package vharness is overlaid into the weshnet module at check time (never committed to
// /repo). It gives the in-package correspondence drivers a common way to emit cases.
package vharness

import (
	"bufio"
	"encoding/json"
	"fmt"
	"math/rand"
	"os"
	"strconv"
	"strings"
	"sync"
)

// Case is one correspondence case: the Coq term (input + observed output) evaluated by the
// model, plus what the implementation-side oracle of the property said about it.
type Case struct {
	Kind       string `json:"kind"`       // generator stream
	Coq        string `json:"coq"`        // Coq term of the model's [case] type
	Key        string `json:"key"`        // canonical form, for distinctness
	Nontrivial bool   `json:"nontrivial"` // takes a non-default branch (rule per property)
	OracleOK   bool   `json:"oracle_ok"`  // property's own oracle on the observed behaviour
	Note       string `json:"note"`       // human-readable description / oracle failure text
	Sig        string `json:"sig,omitempty"`  // violation signature (matched against KNOWN_FINDINGS)
	Replay     any    `json:"replay,omitempty"`
}

type Out struct {
	mu sync.Mutex
	f  *os.File
	w  *bufio.Writer
	N  int
}

func Open() *Out {
	p := os.Getenv("VERIF_OUT")
	if p == "" {
		p = os.DevNull
	}
	f, err := os.Create(p)
	if err != nil {
		panic(err)
	}
	return &Out{f: f, w: bufio.NewWriterSize(f, 1<<20)}
}

func (o *Out) Emit(c Case) {
	b, err := json.Marshal(c)
	if err != nil {
		panic(err)
	}
	o.mu.Lock()
	defer o.mu.Unlock()
	o.w.Write(b)
	o.w.WriteByte('\n')
	o.N++
}

func (o *Out) Close() {
	o.mu.Lock()
	defer o.mu.Unlock()
	o.w.Flush()
	o.f.Close()
}

func Seed() int64 {
	s, err := strconv.ParseInt(os.Getenv("VERIF_SEED"), 10, 64)
	if err != nil {
		return 1
	}
	return s
}

func Thorough() bool { return os.Getenv("VERIF_TIER") == "thorough" }

// Budget returns q in the quick tier and t in the thorough tier (overridable by VERIF_N).
func Budget(q, t int) int {
	if s := os.Getenv("VERIF_N"); s != "" {
		if n, err := strconv.Atoi(s); err == nil {
			return n
		}
	}
	if Thorough() {
		return t
	}
	return q
}

func Rng() *rand.Rand { return rand.New(rand.NewSource(Seed())) }

// Corpus returns the path of the corpus file for this run ("" if none).
func Corpus() string { return os.Getenv("VERIF_CORPUS") }

// ---- Coq term printers ----

func N(n uint64) string { return strconv.FormatUint(n, 10) }

func Bool(b bool) string {
	if b {
		return "true"
	}
	return "false"
}

func Bytes(b []byte) string {
	var sb strings.Builder
	sb.WriteByte('[')
	for i, x := range b {
		if i > 0 {
			sb.WriteByte(';')
		}
		sb.WriteString(strconv.Itoa(int(x)))
	}
	sb.WriteByte(']')
	return sb.String()
}

func List(xs []string) string { return "[" + strings.Join(xs, "; ") + "]" }

func Ns(xs []uint64) string {
	s := make([]string, len(xs))
	for i, x := range xs {
		s[i] = N(x)
	}
	return List(s)
}

func Bools(xs []bool) string {
	s := make([]string, len(xs))
	for i, x := range xs {
		s[i] = Bool(x)
	}
	return List(s)
}

func Pair(a, b string) string { return "(" + a + ", " + b + ")" }

func Opt(ok bool, v string) string {
	if !ok {
		return "None"
	}
	return "(Some " + v + ")"
}

func App(f string, args ...string) string {
	return "(" + f + " " + strings.Join(args, " ") + ")"
}

func Sprintf(f string, a ...any) string { return fmt.Sprintf(f, a...) }
