//go:build verif

package tinder

import (
	"context"
	"fmt"
	"sort"
	"testing"
	"time"

	"github.com/libp2p/go-libp2p/core/peer"
	ma "github.com/multiformats/go-multiaddr"

	"berty.tech/weshnet/v2/internal/vharness"
	"berty.tech/weshnet/v2/internal/vsched"
)

func c16pid(k uint64) peer.ID { return peer.ID(fmt.Sprintf("peer-%d", k)) }

type c16world struct {
	c    *peersCache
	cur  [2]PeersUpdate
	port int
}

func (w *c16world) Wait(ctx context.Context, i int) ([]uint64, bool) {
	upd, ok := w.c.WaitForPeerUpdate(ctx, "topic", w.cur[i])
	var ks []uint64
	for _, p := range upd {
		var k uint64
		fmt.Sscanf(string(p), "peer-%d", &k)
		ks = append(ks, k)
	}
	sort.Slice(ks, func(a, b int) bool { return ks[a] < ks[b] })
	return ks, ok
}

func (w *c16world) Apply(o vsched.NotifyOp) {
	// a new address every time: the update always carries new information
	w.port++
	w.c.UpdatePeer("topic", peer.AddrInfo{ID: c16pid(o.K), Addrs: []ma.Multiaddr{ma.StringCast(fmt.Sprintf("/ip4/127.0.0.1/tcp/%d", 1000+w.port))}})
}

func (w *c16world) Missed(i int) []uint64 {
	var missed []uint64
	tu := w.c.getTopicUpdate("topic")
	for p, upd := range tu.peerUpdate {
		if last, ok := w.cur[i][p]; !ok || upd.After(last) {
			var k uint64
			fmt.Sscanf(string(p), "peer-%d", &k)
			missed = append(missed, k)
		}
	}
	return missed
}

func TestVerifC16(t *testing.T) {
	out := vharness.Open()
	defer out.Close()
	rng := vharness.Rng()
	budget := vharness.Budget(500, 10000)
	T := func(k, stamp uint64) vsched.NotifyOp { return vsched.NotifyOp{Kind: "touch", K: k, V: stamp} }
	scenarios := []vsched.NotifyScenario{
		{CallsA: 1, Ops: []vsched.NotifyOp{T(1, 1)}},
		{CallsA: 2, Ops: []vsched.NotifyOp{T(1, 1), T(1, 2)}},
		{CallsA: 1, Ops: []vsched.NotifyOp{T(1, 1), T(2, 2)}, Cancel: true},
		{CallsA: 1, CallsB: 1, Ops: []vsched.NotifyOp{T(1, 1)}},
		{CallsA: 2, CallsB: 1, Ops: []vsched.NotifyOp{T(1, 1), T(2, 2)}},
		{CallsA: 1, CallsB: 1, Ops: []vsched.NotifyOp{T(1, 1)}, CancelFirstOnly: true},
	}
	newWorld := func(sc vsched.NotifyScenario) vsched.NotifyWorld {
		return &c16world{c: newPeerCache(), cur: [2]PeersUpdate{{}, {}}}
	}
	total := 0
	for _, sc := range scenarios {
		total += vsched.ExploreNotify(newWorld, "[]", true, "tinder.peersCache", sc, budget/len(scenarios)+20, rng.Intn, func(c vsched.NotifyCase) {
			out.Emit(vharness.Case{Kind: "peercache", Coq: c.Coq, Key: c.Coq, Nontrivial: c.Preempt, OracleOK: c.OK, Note: c.Note, Sig: c.Sig,
				Replay: map[string]any{"schedule": c.Sched}})
		})
	}
	_ = time.Now
	t.Logf("C16 harness (peer cache): %d schedules", total)
}
