//go:build verif

// C02 / C14, concurrent deliveries on one receiving store: the message store opens log entries while
// the push path opens push payloads, and several stores of one node share a secret store, so two opens
// of the same sender can run at the same time.  The datastore delays every access to the message-key
// namespaces at random (the stress wrapper of C09).  Two NEW messages of one sender (window 2,
// registered at 0) are opened by two tasks at once - the log path for both, or the log path for one and
// the push path for the same message - and then the message at the edge of the window,
// k = c + window + (number opened), is presented: by the formula of C02 it opens.  A push of a message
// that the log path is opening at the same moment must open as well (C14: the push path never prevents,
// and is never prevented by, the log path).  Oracle only.
package secretstore

import (
	"context"
	"fmt"
	"math/rand"
	"runtime"
	"sync"
	"testing"
	"time"

	datastore "github.com/ipfs/go-datastore"
	dssync "github.com/ipfs/go-datastore/sync"
	"google.golang.org/protobuf/proto"

	"berty.tech/weshnet/v2/internal/vharness"
	"berty.tech/weshnet/v2/pkg/protocoltypes"
)

// every access to the datastore is delayed at random (a few microseconds, or a yield of the processor)
type c02delayDS struct {
	datastore.Datastore
	mu  sync.Mutex
	rng *rand.Rand
}

func (d *c02delayDS) pause() {
	d.mu.Lock()
	n := d.rng.Intn(4)
	d.mu.Unlock()
	switch n {
	case 0:
		time.Sleep(time.Duration(1+n) * time.Microsecond)
	case 1:
		for i := 0; i < 3; i++ {
			runtime.Gosched()
		}
	}
}

func (d *c02delayDS) Get(ctx context.Context, k datastore.Key) ([]byte, error) {
	d.pause()
	return d.Datastore.Get(ctx, k)
}

func (d *c02delayDS) Put(ctx context.Context, k datastore.Key, v []byte) error {
	d.pause()
	return d.Datastore.Put(ctx, k, v)
}

func (d *c02delayDS) Has(ctx context.Context, k datastore.Key) (bool, error) {
	d.pause()
	return d.Datastore.Has(ctx, k)
}

func TestVerifC02Concurrent(t *testing.T) {
	ctx := context.Background()
	out := vharness.Open()
	defer out.Close()
	rounds := vharness.Budget(150, 3000)
	seed := vharness.Seed()
	for round := 0; round < rounds; round++ {
		mode := round % 2 // 0: two log opens of messages 1 and 2; 1: log open and push open of message 1, log open of 2 afterwards
		ds := &c02delayDS{Datastore: dssync.MutexWrap(datastore.NewMapDatastore()), rng: rand.New(rand.NewSource(seed*7919 + int64(round)))}
		acc := vNewAccount(t)
		r := acc.storeOn(t, ds, 2)
		g := vGroup(t, 0, r)
		rmd, _ := r.GetOwnMemberDeviceForGroup(g)
		gpk, _ := g.GetPubKey()
		snd := vNewSender(t, ctx, g, rmd.Member(), 5, 100000)
		if err := r.RegisterChainKey(ctx, g, snd.dev, snd.ann[0]); err != nil {
			t.Fatal(err)
		}
		open := func(k int) error {
			env, hdr, err := r.OpenEnvelopeHeaders(snd.env[k], g)
			if err != nil {
				return err
			}
			_, err = r.OpenEnvelopePayload(ctx, env, hdr, gpk, rmd.Device(), snd.cids[k])
			return err
		}
		push := func(k int) error {
			env := &protocoltypes.MessageEnvelope{}
			if err := proto.Unmarshal(snd.env[k], env); err != nil {
				return err
			}
			_, hdr, err := r.OpenEnvelopeHeaders(snd.env[k], g)
			if err != nil {
				return err
			}
			oos := &protocoltypes.OutOfStoreMessage{Cid: snd.cids[k].Bytes(), DevicePk: snd.devRaw, Counter: hdr.Counter, Sig: hdr.Sig, EncryptedPayload: env.Message}
			_, _, err = r.OutOfStoreMessageOpen(ctx, oos, gpk)
			return err
		}
		var wg sync.WaitGroup
		errs := make([]error, 2)
		wg.Add(2)
		if mode == 0 {
			go func() { defer wg.Done(); errs[0] = open(1) }()
			go func() { defer wg.Done(); errs[1] = open(2) }()
		} else {
			go func() { defer wg.Done(); errs[0] = open(1) }()
			go func() { defer wg.Done(); errs[1] = push(1) }()
		}
		wg.Wait()
		ok, note, sig := true, "", ""
		switch {
		case errs[0] != nil:
			ok, sig = false, "openable message refused"
			note = fmt.Sprintf("message 1 (registered at 0, window 2, nothing opened) does not open through the log while another delivery of the same sender runs: %v", errs[0])
		case errs[1] != nil && mode == 0:
			ok, sig = false, "openable message refused"
			note = fmt.Sprintf("message 2 does not open through the log while message 1 is being opened: %v", errs[1])
		case errs[1] != nil:
			ok, sig = false, "push payload of an openable message refused"
			note = fmt.Sprintf("the push payload of message 1 does not open while the log path opens the same message: %v", errs[1])
		}
		if ok && mode == 1 {
			if err := open(2); err != nil {
				ok, sig, note = false, "openable message refused", fmt.Sprintf("message 2 does not open after message 1 was opened by log and push at once: %v", err)
			}
		}
		if ok {
			// two messages opened: the window reaches c + 2 + 2 = 4
			if err := open(4); err != nil {
				ok, sig = false, "openable message refused"
				note = fmt.Sprintf("after messages 1 and 2 were opened (concurrently) message 4 = c + window + opened does not open: %v", err)
			}
		}
		out.Emit(vharness.Case{Kind: "concurrent-deliveries", Key: fmt.Sprintf("conc|%d", round), Nontrivial: true, OracleOK: ok, Note: note, Sig: sig,
			Replay: map[string]any{"mode": []string{"two log opens at once", "log open and push open of one message at once"}[mode], "window": 2, "registered_at": 0, "round": round}})
	}
}
