//go:build verif

package secretstore

import (
	"bytes"
	"context"
	"crypto/rand"
	"fmt"
	"testing"

	"github.com/ipfs/go-cid"
	"golang.org/x/crypto/nacl/secretbox"
	"google.golang.org/protobuf/proto"

	"berty.tech/weshnet/v2/internal/vharness"
	"berty.tech/weshnet/v2/pkg/cryptoutil"
	"berty.tech/weshnet/v2/pkg/protocoltypes"
)

func c01craft(g *protocoltypes.Group, devRaw []byte, ctr uint64, sig []byte, key *messageKey, payload []byte) []byte {
	hb, _ := proto.Marshal(&protocoltypes.MessageHeaders{Counter: ctr, DevicePk: devRaw, Sig: sig})
	nonce, _ := cryptoutil.GenerateNonce()
	encH := secretbox.Seal(nil, hb, nonce, g.GetSharedSecret())
	msg := secretbox.Seal(nil, payload, uint64AsNonce(ctr), (*[32]byte)(key))
	env, _ := proto.Marshal(&protocoltypes.MessageEnvelope{MessageHeaders: encH, Message: msg, Nonce: nonce[:]})
	return env
}

type c01open struct {
	ok      bool
	payload []byte
	dev     []byte
	ctr     uint64
	panic_  string
	err     string
}

func c01try(ctx context.Context, recv *secretStore, g *protocoltypes.Group, own []byte, data []byte, id cid.Cid) (r c01open) {
	defer func() {
		if x := recover(); x != nil {
			r.panic_ = fmt.Sprint(x)
		}
	}()
	env, hdr, err := recv.OpenEnvelopeHeaders(data, g)
	if err != nil {
		r.err = "headers: " + err.Error()
		return
	}
	gpk, _ := g.GetPubKey()
	md, _ := recv.GetOwnMemberDeviceForGroup(g)
	msg, err := recv.OpenEnvelopePayload(ctx, env, hdr, gpk, md.Device(), id)
	if err != nil {
		r.err = "payload: " + err.Error()
		return
	}
	r.ok, r.dev, r.ctr = true, hdr.DevicePk, hdr.Counter
	r.payload, _ = proto.Marshal(msg)
	return
}

func TestVerifC01(t *testing.T) {
	ctx := context.Background()
	out := vharness.Open()
	defer out.Close()
	rng := vharness.Rng()
	const W = 8
	const n = 7
	rounds := vharness.Budget(3, 40)
	sizes := []int{0, 1, 2, 63, 64, 65, 1024, 65536}

	for round := 0; round < rounds; round++ {
		kind := round % 3
		acc := vNewAccount(t)
		g := vGroup(t, kind, acc.store(t, W))
		recv0 := acc.store(t, W)
		rmd, _ := recv0.GetOwnMemberDeviceForGroup(g)
		gpk, _ := g.GetPubKey()
		// the sender, with payloads of the sizes under test
		snd, _ := newInMemSecretStore(nil)
		smd, _ := snd.GetOwnMemberDeviceForGroup(g)
		sdevRaw, _ := smd.Device().Raw()
		ann0, err := snd.GetShareableChainKey(ctx, g, rmd.Member())
		if err != nil {
			t.Fatal(err)
		}
		// the attacker is a fellow member: same group secret, registered the sender's chain key
		// (announcement made before the first message, like the receiver's)
		attAcc := vNewAccount(t)
		att := attAcc.store(t, W)
		amd, _ := att.GetOwnMemberDeviceForGroup(g)
		annA, _ := snd.GetShareableChainKey(ctx, g, amd.Member())
		if kind != 0 {
			// account/contact groups: the attacker plays a second device of the same account
			att = acc.store(t, W)
			amd, _ = att.GetOwnMemberDeviceForGroup(g)
			annA = ann0
		}
		if err := att.RegisterChainKey(ctx, g, smd.Device(), annA); err != nil {
			t.Fatal(err)
		}
		var envs, pays [][]byte
		envs, pays = append(envs, nil), append(pays, nil)
		for k := 1; k <= n; k++ {
			size := sizes[(k+round)%len(sizes)]
			if rng.Intn(3) == 0 {
				size = rng.Intn(3000)
			}
			body := make([]byte, size)
			rand.Read(body)
			p, _ := proto.Marshal(&protocoltypes.EncryptedMessage{Plaintext: body})
			e, err := snd.SealEnvelope(ctx, g, p)
			if err != nil {
				t.Fatal(err)
			}
			envs, pays = append(envs, e), append(pays, p)
		}
		keyAt := func(j uint64) *messageKey {
			k, err := att.getPrecomputedMessageKey(ctx, gpk, smd.Device(), j)
			if err != nil {
				return &messageKey{}
			}
			return k
		}
		_, hdr1, _ := att.OpenEnvelopeHeaders(envs[1], g)
		sig1 := hdr1.Sig
		adevRaw, _ := amd.Device().Raw()
		asig := func(p []byte) []byte { s, _ := amd.DeviceSign(p); return s }
		forgedPayload, _ := proto.Marshal(&protocoltypes.EncryptedMessage{Plaintext: []byte("forged by a fellow member")})

		freshRecv := func(opened ...int) (*secretStore, []string) {
			r := acc.store(t, W)
			hist := []string{"RReg 1 0"}
			if err := r.RegisterChainKey(ctx, g, smd.Device(), ann0); err != nil {
				t.Fatal(err)
			}
			for _, k := range opened {
				x := c01try(ctx, r, g, nil, envs[k], vCID(envs[k]))
				if !x.ok {
					t.Fatalf("honest message %d did not open", k)
				}
				hist = append(hist, fmt.Sprintf("ROpen 1 %d %d", k, 100000+k))
			}
			return r, hist
		}
		payloadID := func(p []byte) uint64 {
			for k := 1; k <= n; k++ {
				if bytes.Equal(p, pays[k]) {
					return uint64(100000 + k)
				}
			}
			if bytes.Equal(p, forgedPayload) {
				return 999999
			}
			return 888888
		}
		keySuffix := ""
		emit := func(kindName string, hist []string, presented string, cidNum uint64, x c01open, nontrivial bool, replay any) {
			obs := "OFail"
			ok, note, sig := true, x.err, ""
			if x.panic_ != "" {
				ok, note, sig = false, "panic: "+x.panic_, "panic while opening an envelope"
			}
			if x.ok {
				id := payloadID(x.payload)
				obs = fmt.Sprintf("OOk %d", id)
				// oracle: an accepted (payload, device, counter) must be one an honest seal produced
				honest := bytes.Equal(x.dev, sdevRaw) && x.ctr >= 1 && x.ctr <= n && bytes.Equal(x.payload, pays[x.ctr])
				if presented == "PGarbage" {
					// an envelope altered in any bit (or presented with another group's secret) is rejected,
					// even when what it would deliver is the original content
					ok, sig = false, "forged envelope accepted"
					note = fmt.Sprintf("an altered envelope was accepted (payload id %d, counter %d): %v", id, x.ctr, replay)
				} else if !honest {
					ok = false
					if id >= 100001 && id <= 100000+n && bytes.Equal(x.dev, sdevRaw) {
						sig = "signed payload replayed under another counter by a chain-key holder"
						note = fmt.Sprintf("payload of message %d, with the device's original signature, re-encrypted by a fellow member under the key of counter %d, is delivered as message %d of that device", id-100000, x.ctr, x.ctr)
					} else {
						sig = "forged envelope accepted"
						note = fmt.Sprintf("envelope %s accepted with payload id %d, counter %d", presented, id, x.ctr)
					}
				}
			}
			coq := fmt.Sprintf("CEnv %d %s (%s) %d (%s)", W, vharness.List(hist), presented, cidNum, obs)
			out.Emit(vharness.Case{Kind: kindName, Coq: coq, Key: coq + keySuffix, Nontrivial: nontrivial, OracleOK: ok, Note: note, Sig: sig, Replay: replay})
		}
		// the same bytes under the same CID presented again (the message store re-opens parked entries
		// and listings re-open the whole log): a rejected envelope must leave nothing behind that
		// lets a later presentation through
		again := func(kindName string, r *secretStore, hist []string, presented string, cidNum uint64, data []byte, first c01open, replay any) {
			if first.ok {
				return
			}
			for rep := 2; rep <= 3; rep++ {
				x := c01try(ctx, r, g, nil, data, vCID(data))
				keySuffix = fmt.Sprintf("#presentation-%d", rep)
				emit(kindName+"-again", hist, presented, cidNum, x, true, map[string]any{"presentation": rep, "of": replay})
				keySuffix = ""
				if x.ok {
					return
				}
			}
		}

		// (A) round trip, every payload size, opened after a reordered prefix
		for k := 1; k <= n; k++ {
			var before []int
			for j := n; j > k; j-- {
				if rng.Intn(3) == 0 {
					before = append(before, j)
				}
			}
			r, hist := freshRecv(before...)
			x := c01try(ctx, r, g, nil, envs[k], vCID(envs[k]))
			emit("roundtrip", hist, fmt.Sprintf("PHonest 1 %d", k), uint64(100000+k), x, len(before) > 0, nil)
			if !x.ok || !bytes.Equal(x.payload, pays[k]) {
				out.Emit(vharness.Case{Kind: "roundtrip", Key: fmt.Sprintf("rt-fail-%d-%d", round, k), OracleOK: false,
					Sig: "honest envelope not opened to the original payload", Note: fmt.Sprintf("message %d (payload %d bytes)", k, len(pays[k]))})
			}
		}

		// (B) every single-bit flip of a small envelope (sampled for large ones)
		{
			small := 1
			for k := 1; k <= n; k++ {
				if len(envs[k]) < len(envs[small]) {
					small = k
				}
			}
			r, hist := freshRecv()
			data := envs[small]
			step := 1
			if len(data)*8 > vharness.Budget(1600, 40000) {
				step = len(data) * 8 / vharness.Budget(1600, 40000)
			}
			for bit := 0; bit < len(data)*8; bit += step {
				m := append([]byte(nil), data...)
				m[bit/8] ^= 1 << (bit % 8)
				x := c01try(ctx, r, g, nil, m, vCID(m))
				emit("bitflip", hist, "PGarbage", uint64(700000+bit), x, true, map[string]any{"bit": bit, "message": small})
				if x.ok {
					r, hist = freshRecv() // state was disturbed by an (unexpected) acceptance
				}
			}
		}

		// (B2) the same flips AFTER the genuine envelope has been opened on that store (anything the store
		// keeps from the first opening must not let an altered copy through), presented under the CID
		// of the genuine entry; and the genuine envelope presented under the secret of another group
		{
			small := 1
			for k := 1; k <= n; k++ {
				if len(envs[k]) < len(envs[small]) {
					small = k
				}
			}
			r, hist := freshRecv(small)
			data := envs[small]
			budget := vharness.Budget(800, 20000)
			step := 1
			if len(data)*8 > budget {
				step = len(data) * 8 / budget
			}
			for bit := 0; bit < len(data)*8; bit += step {
				m := append([]byte(nil), data...)
				m[bit/8] ^= 1 << (bit % 8)
				x := c01try(ctx, r, g, nil, m, vCID(data))
				keySuffix = fmt.Sprintf("#after-open-bit-%d", bit)
				emit("bitflip-after-open", hist, "PGarbage", uint64(100000+small), x, true, map[string]any{"bit": bit, "message": small, "genuine_opened_first": true})
				keySuffix = ""
				if x.ok {
					r, hist = freshRecv(small)
				}
			}
			g2 := vGroup(t, 0, snd)
			_, _, err := r.OpenEnvelopeHeaders(data, g2)
			x := c01open{err: "headers: rejected"}
			if err == nil {
				x = c01open{ok: true, dev: sdevRaw, ctr: 0, payload: []byte("headers of an envelope of the group opened under the secret of another group")}
			}
			keySuffix = "#other-group-after-open"
			emit("other-group-after-open", hist, "PGarbage", uint64(100000+small), x, true, "genuine envelope, headers opened with another group's secret after a first opening")
			keySuffix = ""
		}

		// (C) field substitution between two honest envelopes, and envelopes of another group / device
		{
			e1, e2 := &protocoltypes.MessageEnvelope{}, &protocoltypes.MessageEnvelope{}
			_ = proto.Unmarshal(envs[1], e1)
			_ = proto.Unmarshal(envs[2], e2)
			mix := func(h, m, nn *protocoltypes.MessageEnvelope) []byte {
				b, _ := proto.Marshal(&protocoltypes.MessageEnvelope{MessageHeaders: h.MessageHeaders, Message: m.Message, Nonce: nn.Nonce})
				return b
			}
			subs := []struct {
				name string
				data []byte
				sym  string
			}{
				{"headers1+message2", mix(e1, e2, e1), "PForged 1 1 (1, 2) 100002 0"},
				{"headers2+message1", mix(e2, e1, e2), "PForged 1 2 (1, 1) 100001 0"},
				{"headers1+nonce2", mix(e1, e1, e2), "PGarbage"},
				{"empty message", mix(e1, &protocoltypes.MessageEnvelope{}, e1), "PGarbage"},
				{"empty headers", mix(&protocoltypes.MessageEnvelope{}, e1, e1), "PGarbage"},
				{"empty nonce", mix(e1, e1, &protocoltypes.MessageEnvelope{}), "PGarbage"},
			}
			g2 := vGroup(t, 0, snd)
			if eo, err := snd.SealEnvelope(ctx, g2, pays[1]); err == nil {
				subs = append(subs, struct {
					name string
					data []byte
					sym  string
				}{"sealed for another group", eo, "PGarbage"})
			}
			for i, sb := range subs {
				r, hist := freshRecv()
				x := c01try(ctx, r, g, nil, sb.data, vCID(sb.data))
				emit("substitution", hist, sb.sym, uint64(710000+i), x, true, sb.name)
				again("substitution", r, hist, sb.sym, uint64(710000+i), sb.data, x, sb.name)
			}
		}

		// (D) forgeries by a fellow member: knows the group secret and the sender's chain key, not its signing key
		forg := []struct {
			name    string
			opened  []int
			data    []byte
			sym     string
		}{
			{"signed payload of message 1 replayed under counter 5", nil, c01craft(g, sdevRaw, 5, sig1, keyAt(5), pays[1]), "PForged 1 5 (1, 5) 100001 1"},
			{"same, after message 1 was delivered", []int{1}, c01craft(g, sdevRaw, 5, sig1, keyAt(5), pays[1]), "PForged 1 5 (1, 5) 100001 1"},
			{"forged payload, no signature", nil, c01craft(g, sdevRaw, 5, nil, keyAt(5), forgedPayload), "PForged 1 5 (1, 5) 999999 0"},
			{"forged payload, signature of message 1", nil, c01craft(g, sdevRaw, 5, sig1, keyAt(5), forgedPayload), "PForged 1 5 (1, 5) 999999 0"},
			{"forged payload, signature of message 1, after message 1 was delivered (the store has verified that signature)", []int{1}, c01craft(g, sdevRaw, 5, sig1, keyAt(5), forgedPayload), "PForged 1 5 (1, 5) 999999 0"},
			{"forged payload, signature of message 1, after messages 1-3 were delivered", []int{1, 2, 3}, c01craft(g, sdevRaw, 5, sig1, keyAt(5), forgedPayload), "PForged 1 5 (1, 5) 999999 0"},
			{"forged payload signed by the attacker's device key", nil, c01craft(g, sdevRaw, 5, asig(forgedPayload), keyAt(5), forgedPayload), "PForged 1 5 (1, 5) 999999 2"},
			{"forged payload attributed to the attacker's device, sender's key", nil, c01craft(g, adevRaw, 5, asig(forgedPayload), keyAt(5), forgedPayload), "PForged 2 5 (1, 5) 999999 2"},
			{"replay under counter 5 with the key of counter 4", nil, c01craft(g, sdevRaw, 5, sig1, keyAt(4), pays[1]), "PForged 1 5 (1, 4) 100001 1"},
			{"replay of message 1 under its own counter after delivery (new bytes, new CID)", []int{1}, c01craft(g, sdevRaw, 1, sig1, keyAt(1), pays[1]), "PForged 1 1 (1, 1) 100001 1"},
			{"replay beyond the window", nil, c01craft(g, sdevRaw, 200, sig1, &messageKey{1}, pays[1]), "PForged 1 200 (1, 200) 100001 1"},
		}
		for i, f := range forg {
			r, hist := freshRecv(f.opened...)
			x := c01try(ctx, r, g, nil, f.data, vCID(f.data))
			emit("member-forgery", hist, f.sym, uint64(720000+i), x, true, f.name)
			again("member-forgery", r, hist, f.sym, uint64(720000+i), f.data, x, f.name)
		}
		// (D') the same fellow member on the PUSH path: an out-of-store message names its own identifier, so
		// the attacker can point at a message the receiver has already opened through the log (whose key is
		// then kept under that identifier), with another payload sealed under that message's key
		{
			type pushForgery struct {
				name   string
				opened []int
				ctr    uint64
				cidOf  int // identifier of this genuine message (0: none)
				sig    []byte
			}
			_, hdr2, _ := att.OpenEnvelopeHeaders(envs[2], g)
			pf := []pushForgery{
				{"names the identifier of delivered message 1, signature of message 1", []int{1}, 1, 1, sig1},
				{"names the identifier of delivered message 1, no signature", []int{1}, 1, 1, nil},
				{"names the identifier of delivered message 1, signed by the attacker's device", []int{1}, 1, 1, asig(forgedPayload)},
				{"names the identifier of delivered message 2 after messages 1-3 were delivered", []int{1, 2, 3}, 2, 2, hdr2.Sig},
				{"message 1 not yet delivered, its identifier, signature of message 1", nil, 1, 1, sig1},
				{"no identifier, counter 5, signature of message 1", []int{1}, 5, 0, sig1},
				{"identifier of delivered message 1 under counter 2", []int{1}, 2, 1, sig1},
			}
			for i, f := range pf {
				r, _ := freshRecv(f.opened...)
				oos := &protocoltypes.OutOfStoreMessage{DevicePk: sdevRaw, Counter: f.ctr, Sig: f.sig,
					EncryptedPayload: secretbox.Seal(nil, forgedPayload, uint64AsNonce(f.ctr), (*[32]byte)(keyAt(f.ctr)))}
				if f.cidOf > 0 {
					oos.Cid = vCID(envs[f.cidOf]).Bytes()
				}
				ok, note, sig := true, "", ""
				func() {
					defer func() {
						if x := recover(); x != nil {
							ok, note, sig = false, fmt.Sprintf("panic: %v", x), "panic while opening an envelope"
						}
					}()
					clear, _, err := r.OutOfStoreMessageOpen(ctx, oos, gpk)
					if err == nil {
						ok, sig = false, "forged envelope accepted"
						note = fmt.Sprintf("out-of-store message forged by a fellow member (%s) is delivered: payload id %d attributed to the sender's device at counter %d", f.name, payloadID(clear), f.ctr)
					}
				}()
				out.Emit(vharness.Case{Kind: "member-forgery-push", Key: fmt.Sprintf("push-forgery-%d-%d%s", round, i, keySuffix), Nontrivial: true, OracleOK: ok, Note: note, Sig: sig,
					Replay: map[string]any{"forgery": f.name, "delivered_before": f.opened, "counter": f.ctr}})
			}
		}
		// (D'') push first, log afterwards: the fellow member relays a GENUINE message of the sender as a push
		// payload (payload and signature are the sender's; that it opens is not the point) but lets it name the
		// identifier of a log entry of its own making - the same counter, the sender's message key, a payload
		// the sender never signed.  Whatever the push path keeps, the forged entry must still be rejected when
		// it arrives through the log, and the genuine entry must still open to its payload afterwards
		{
			for i, k := range []int{1, 2, 3} {
				envK := &protocoltypes.MessageEnvelope{}
				_ = proto.Unmarshal(envs[k], envK)
				_, hdrK, err := att.OpenEnvelopeHeaders(envs[k], g)
				if err != nil {
					t.Fatal(err)
				}
				for j, fsig := range [][]byte{nil, hdrK.Sig, asig(forgedPayload)} {
					var opened []int
					if i == 2 {
						opened = []int{1}
					}
					r, _ := freshRecv(opened...)
					forged := c01craft(g, sdevRaw, uint64(k), fsig, keyAt(uint64(k)), forgedPayload)
					oos := &protocoltypes.OutOfStoreMessage{Cid: vCID(forged).Bytes(), DevicePk: sdevRaw, Counter: uint64(k), Sig: hdrK.Sig,
						EncryptedPayload: envK.Message}
					ok, note, sig := true, "", ""
					func() {
						defer func() {
							if x := recover(); x != nil {
								ok, note, sig = false, fmt.Sprintf("panic: %v", x), "panic while opening an envelope"
							}
						}()
						clear, _, errPush := r.OutOfStoreMessageOpen(ctx, oos, gpk)
						if errPush == nil && payloadID(clear) != uint64(100000+k) {
							ok, sig = false, "forged envelope accepted"
							note = fmt.Sprintf("genuine message %d relayed as a push opens to another payload (id %d)", k, payloadID(clear))
							return
						}
						x := c01try(ctx, r, g, nil, forged, vCID(forged))
						if x.ok {
							ok, sig = false, "forged envelope accepted"
							note = fmt.Sprintf("after genuine message %d was relayed as a push that names the identifier of a forged log entry (push opened: %v), that entry - a payload the sender never signed, sealed by a fellow member under the key of counter %d - is delivered through the log and attributed to the sender", k, errPush == nil, k)
							return
						}
						y := c01try(ctx, r, g, nil, envs[k], vCID(envs[k]))
						if !y.ok || payloadID(y.payload) != uint64(100000+k) {
							ok, sig = false, "honest envelope no longer opens"
							note = fmt.Sprintf("after a push relay of genuine message %d under a foreign identifier and the rejected forged entry, the genuine entry no longer opens through the log (%s)", k, y.err)
						}
					}()
					out.Emit(vharness.Case{Kind: "member-forgery-push-then-log", Key: fmt.Sprintf("push-then-log-%d-%d-%d", round, k, j), Nontrivial: true, OracleOK: ok, Note: note, Sig: sig,
						Replay: map[string]any{"genuine_message_relayed_as_push": k, "push_names_identifier_of": "forged entry, same counter, sender's message key", "forged_entry_signature": []string{"none", "the genuine message's", "the attacker's"}[j], "delivered_before": opened}})
				}
			}
		}
	}
	// (E) a forged envelope that claims to come from the very device that opens it: the opener R has
	// sealed messages itself (so it still holds their keys), a fellow member who registered R's chain
	// key re-uses one of those counters with a payload R never signed
	for round := 0; round < rounds; round++ {
		kind := round % 3
		acc := vNewAccount(t)
		r := acc.store(t, W)
		g := vGroup(t, kind, r)
		if err := r.PutGroup(ctx, g); err != nil {
			t.Fatal(err)
		}
		rmd, _ := r.GetOwnMemberDeviceForGroup(g)
		rdevRaw, _ := rmd.Device().Raw()
		gpk, _ := g.GetPubKey()
		attAcc := vNewAccount(t)
		att := attAcc.store(t, W)
		amd, _ := att.GetOwnMemberDeviceForGroup(g)
		if kind != 0 {
			att = acc.store(t, W)
			amd, _ = att.GetOwnMemberDeviceForGroup(g)
		}
		ann, err := r.GetShareableChainKey(ctx, g, amd.Member())
		if err != nil {
			t.Fatal(err)
		}
		if err := att.RegisterChainKey(ctx, g, rmd.Device(), ann); err != nil {
			t.Fatal(err)
		}
		var own [][]byte
		hist := []string{}
		for k := 1; k <= 2; k++ {
			p, _ := proto.Marshal(&protocoltypes.EncryptedMessage{Plaintext: []byte(fmt.Sprintf("own-%d", k))})
			if _, err := r.SealEnvelope(ctx, g, p); err != nil {
				t.Fatal(err)
			}
			own = append(own, p)
			hist = append(hist, "RSealOwn 3")
		}
		forgedPayload, _ := proto.Marshal(&protocoltypes.EncryptedMessage{Plaintext: []byte("never written by the opening device")})
		sigA, _ := amd.DeviceSign(forgedPayload)
		for _, ctr := range []uint64{2, 1} {
			key, err := att.getPrecomputedMessageKey(ctx, gpk, rmd.Device(), ctr)
			if err != nil {
				t.Fatal(err)
			}
			for i, sg := range [][]byte{sigA, nil} {
				data := c01craft(g, rdevRaw, ctr, sg, key, forgedPayload)
				x := c01try(ctx, r, g, nil, data, vCID(data))
				signer := 2
				if sg == nil {
					signer = 0
				}
				obs := "OFail"
				ok, note, sig := true, x.err, ""
				if x.ok {
					obs = "OOk 999999"
					ok, sig = false, "forged envelope accepted"
					note = fmt.Sprintf("a payload the opening device never signed, attributed to that device at counter %d by a fellow member, is delivered by the device's own store", ctr)
				}
				coq := fmt.Sprintf("CEnv %d %s (PForgedOwn 3 %d (3, %d) 999999 %d) %d (%s)", W, vharness.List(hist), ctr, ctr, signer, 730000+int(ctr)*10+i, obs)
				out.Emit(vharness.Case{Kind: "own-device-forgery", Coq: coq, Key: coq + fmt.Sprint(round), Nontrivial: true, OracleOK: ok, Note: note, Sig: sig})
				if !x.ok {
					x2 := c01try(ctx, r, g, nil, data, vCID(data))
					obs2, ok2, note2, sig2 := "OFail", true, x2.err, ""
					if x2.ok {
						obs2, ok2, sig2 = "OOk 999999", false, "forged envelope accepted"
						note2 = fmt.Sprintf("second presentation of a rejected envelope (same CID): a payload the opening device never signed is delivered at counter %d", ctr)
					}
					coq2 := fmt.Sprintf("CEnv %d %s (PForgedOwn 3 %d (3, %d) 999999 %d) %d (%s)", W, vharness.List(hist), ctr, ctr, signer, 730000+int(ctr)*10+i, obs2)
					out.Emit(vharness.Case{Kind: "own-device-forgery-again", Coq: coq2, Key: coq2 + fmt.Sprint(round) + "#2", Nontrivial: true, OracleOK: ok2, Note: note2, Sig: sig2})
				}
			}
		}
	}
	t.Logf("C01 harness: %d cases", out.N)
}
