//go:build verif

package secretstore

import (
	"bytes"
	"context"
	"fmt"
	"testing"

	"github.com/libp2p/go-libp2p/core/crypto"

	"berty.tech/weshnet/v2/internal/vharness"
	"berty.tech/weshnet/v2/pkg/protocoltypes"
)

type c05ids struct {
	keys   map[string]uint64
	nonces map[string]uint64
}

func (y *c05ids) key(pk crypto.PubKey) uint64 {
	raw, _ := pk.Raw()
	if id, ok := y.keys[string(raw)]; ok {
		return id
	}
	id := uint64(len(y.keys) + 1)
	y.keys[string(raw)] = id
	return id
}

func (y *c05ids) nonce(g *protocoltypes.Group) uint64 {
	n := g.GetPublicKey()
	if len(n) > 24 {
		n = n[:24]
	}
	if id, ok := y.nonces[string(n)]; ok {
		return id
	}
	id := uint64(len(y.nonces) + 1)
	y.nonces[string(n)] = id
	return id
}

type c05party struct {
	name  string
	store *secretStore
}

func TestVerifC05(t *testing.T) {
	ctx := context.Background()
	out := vharness.Open()
	defer out.Close()
	rng := vharness.Rng()
	rounds := vharness.Budget(6, 150)

	for round := 0; round < rounds; round++ {
		ids := &c05ids{keys: map[string]uint64{}, nonces: map[string]uint64{}}
		// account A with two devices (S sends, R receives), accounts B and C
		accA := vNewAccount(t)
		S, R := accA.store(t, 4), accA.store(t, 4)
		B, _ := newInMemSecretStore(nil)
		C, _ := newInMemSecretStore(nil)
		bPK, _ := B.GetAccountPrivateKey()
		cPK, _ := C.GetAccountPrivateKey()
		gA, _, _ := S.GetGroupForAccount()
		gAB, _ := S.GetGroupForContact(bPK.GetPublic())
		gAC, _ := S.GetGroupForContact(cPK.GetPublic())
		gM1, _, _ := protocoltypes.NewGroupMultiMember()
		gM2, _, _ := protocoltypes.NewGroupMultiMember()
		groups := []*protocoltypes.Group{gA, gAB, gAC, gM1, gM2}
		parties := []c05party{{"R", R}, {"B", B}, {"C", C}}

		// chain table per (sender group): chain bytes -> (origin, idx)
		type ann struct {
			g      int
			to     int // party index the announcement is made for
			ctr    uint64
			data   []byte
			origin uint64
		}
		var anns []ann
		chainIdx := map[string]string{}
		for gi, g := range groups {
			if err := S.PutGroup(ctx, g); err != nil {
				t.Fatal(err)
			}
			ck0, err := S.getOwnDeviceChainKeyForGroup(ctx, g)
			if err != nil {
				t.Fatal(err)
			}
			origin := uint64(round*100 + gi + 1)
			cur := ck0.ChainKey
			chainIdx[string(cur)] = fmt.Sprintf("(%d, 0)", origin)
			for i := 1; i <= 6; i++ {
				next, _, _ := deriveNextKeys(cur, nil, g.GetPublicKey())
				chainIdx[string(next)] = fmt.Sprintf("(%d, %d)", origin, i)
				cur = next
			}
			// announcements produced at arbitrary points of the sender's message history
			for step := 0; step < 3; step++ {
				for pi, p := range parties {
					md, err := p.store.GetOwnMemberDeviceForGroup(g)
					if err != nil {
						continue
					}
					data, err := S.GetShareableChainKey(ctx, g, md.Member())
					if err != nil {
						t.Fatal(err)
					}
					anns = append(anns, ann{gi, pi, uint64(step * 2), data, origin})
				}
				for j := 0; j < 2; j++ {
					if _, err := S.SealEnvelope(ctx, g, vPayload(uint64(step*2+j), 3)); err != nil {
						t.Fatal(err)
					}
				}
			}
		}
		sDev := func(g *protocoltypes.Group) crypto.PubKey {
			md, _ := S.GetOwnMemberDeviceForGroup(g)
			return md.Device()
		}
		// every announcement x every (opening group, opening member, claimed sender)
		try := func(kind string, a ann, og int, op int, claimed crypto.PubKey, altered bool, data []byte) {
			g, ogrp := groups[a.g], groups[og]
			omd, err := parties[op].store.deviceKeystore.memberDeviceForGroup(ogrp)
			if err != nil {
				return
			}
			toMD, _ := parties[a.to].store.GetOwnMemberDeviceForGroup(g)
			ck, derr := decryptDeviceChainKey(data, ogrp, omd.member, claimed)
			obs := "None"
			ok, note, sig := true, "", ""
			intended := og == a.g && omd.Member().Equals(toMD.Member()) && claimed.Equals(sDev(g)) && !altered
			if derr == nil {
				sym, known := chainIdx[string(ck.ChainKey)]
				if !known {
					sym = "(999, 0)"
				}
				obs = fmt.Sprintf("(Some (%d, %s))", ck.Counter, sym)
				if !intended {
					ok, sig = false, "chain-key announcement opened by the wrong party / in the wrong group / under the wrong sender"
					note = fmt.Sprintf("announcement of group %d for party %s opened in group %d by party %s (claimed sender ok=%v, altered=%v)", a.g, parties[a.to].name, og, parties[op].name, claimed.Equals(sDev(g)), altered)
				} else if ck.Counter != a.ctr || sym != fmt.Sprintf("(%d, %d)", a.origin, a.ctr) {
					ok, sig = false, "announcement does not open to the chain key and counter at sealing time"
					note = fmt.Sprintf("got counter %d chain %s, sealed at counter %d", ck.Counter, sym, a.ctr)
				}
			} else if intended {
				ok, sig, note = false, "intended recipient cannot open the announcement", derr.Error()
			}
			coq := fmt.Sprintf("CAnn %d %d %d %d (%d, %d) %s %d %d %d %s", ids.key(sDev(g)), ids.key(toMD.Member()), ids.nonce(g), a.ctr, a.origin, a.ctr,
				vharness.Bool(altered), ids.nonce(ogrp), ids.key(omd.Member()), ids.key(claimed), obs)
			out.Emit(vharness.Case{Kind: kind, Coq: coq, Key: coq + fmt.Sprint(round), Nontrivial: !intended, OracleOK: ok, Note: note, Sig: sig})
		}
		for _, a := range anns {
			g := groups[a.g]
			for og := range groups {
				for op := range parties {
					try("matrix", a, og, op, sDev(g), false, a.data)
				}
			}
			// claimed sender: another device key (the recipient's own device, another group's device key)
			rmd, _ := R.GetOwnMemberDeviceForGroup(g)
			try("wrong-sender", a, a.g, a.to, rmd.Device(), false, a.data)
			try("wrong-sender", a, a.g, a.to, sDev(groups[(a.g+3)%len(groups)]), false, a.data)
		}
		// every single-bit flip of one announcement's ciphertext
		if len(anns) > 0 {
			a := anns[rng.Intn(len(anns))]
			step := 1
			if len(a.data)*8 > vharness.Budget(400, 4000) {
				step = len(a.data) * 8 / vharness.Budget(400, 4000)
			}
			for bit := 0; bit < len(a.data)*8; bit += step {
				m := append([]byte(nil), a.data...)
				m[bit/8] ^= 1 << (bit % 8)
				try("bitflip", a, a.g, a.to, sDev(groups[a.g]), true, m)
			}
			_ = bytes.Equal
		}
	}
	t.Logf("C05 harness: %d cases", out.N)
}
