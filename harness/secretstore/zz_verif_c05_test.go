//go:build verif

package secretstore

import (
	"bytes"
	"context"
	"fmt"
	"testing"

	"github.com/libp2p/go-libp2p/core/crypto"

	"berty.tech/weshnet/v2/internal/vharness"
	"berty.tech/weshnet/v2/pkg/protocoltypes"
)

type c05ids struct {
	keys   map[string]uint64
	nonces map[string]uint64
}

func (y *c05ids) key(pk crypto.PubKey) uint64 {
	raw, _ := pk.Raw()
	if id, ok := y.keys[string(raw)]; ok {
		return id
	}
	id := uint64(len(y.keys) + 1)
	y.keys[string(raw)] = id
	return id
}

func (y *c05ids) nonce(g *protocoltypes.Group) uint64 {
	n := g.GetPublicKey()
	if len(n) > 24 {
		n = n[:24]
	}
	if id, ok := y.nonces[string(n)]; ok {
		return id
	}
	id := uint64(len(y.nonces) + 1)
	y.nonces[string(n)] = id
	return id
}

type c05party struct {
	name  string
	store *secretStore
}

func TestVerifC05(t *testing.T) {
	ctx := context.Background()
	out := vharness.Open()
	defer out.Close()
	rng := vharness.Rng()
	rounds := vharness.Budget(6, 150)

	for round := 0; round < rounds; round++ {
		ids := &c05ids{keys: map[string]uint64{}, nonces: map[string]uint64{}}
		// account A with two devices (S sends, R receives), accounts B and C
		accA := vNewAccount(t)
		S, R := accA.store(t, 4), accA.store(t, 4)
		B, _ := newInMemSecretStore(nil)
		C, _ := newInMemSecretStore(nil)
		bPK, _ := B.GetAccountPrivateKey()
		cPK, _ := C.GetAccountPrivateKey()
		gA, _, _ := S.GetGroupForAccount()
		gAB, _ := S.GetGroupForContact(bPK.GetPublic())
		gAC, _ := S.GetGroupForContact(cPK.GetPublic())
		gM1, _, _ := protocoltypes.NewGroupMultiMember()
		gM2, _, _ := protocoltypes.NewGroupMultiMember()
		groups := []*protocoltypes.Group{gA, gAB, gAC, gM1, gM2}
		parties := []c05party{{"R", R}, {"B", B}, {"C", C}}

		// chain table per (sender group): chain bytes -> (origin, idx)
		type ann struct {
			g      int
			to     int // party index the announcement is made for
			ctr    uint64
			data   []byte
			origin uint64
		}
		var anns []ann
		chainIdx := map[string]string{}
		for gi, g := range groups {
			if err := S.PutGroup(ctx, g); err != nil {
				t.Fatal(err)
			}
			ck0, err := S.getOwnDeviceChainKeyForGroup(ctx, g)
			if err != nil {
				t.Fatal(err)
			}
			origin := uint64(round*100 + gi + 1)
			cur := ck0.ChainKey
			chainIdx[string(cur)] = fmt.Sprintf("(%d, 0)", origin)
			for i := 1; i <= 6; i++ {
				next, _, _ := deriveNextKeys(cur, nil, g.GetPublicKey())
				chainIdx[string(next)] = fmt.Sprintf("(%d, %d)", origin, i)
				cur = next
			}
			// announcements produced at arbitrary points of the sender's message history
			for step := 0; step < 3; step++ {
				for pi, p := range parties {
					md, err := p.store.GetOwnMemberDeviceForGroup(g)
					if err != nil {
						continue
					}
					data, err := S.GetShareableChainKey(ctx, g, md.Member())
					if err != nil {
						t.Fatal(err)
					}
					anns = append(anns, ann{gi, pi, uint64(step * 2), data, origin})
				}
				for j := 0; j < 2; j++ {
					if _, err := S.SealEnvelope(ctx, g, vPayload(uint64(step*2+j), 3)); err != nil {
						t.Fatal(err)
					}
				}
			}
		}
		sDev := func(g *protocoltypes.Group) crypto.PubKey {
			md, _ := S.GetOwnMemberDeviceForGroup(g)
			return md.Device()
		}
		// every announcement x every (opening group, opening member, claimed sender)
		try := func(kind string, a ann, og int, op int, claimed crypto.PubKey, altered bool, data []byte) {
			g, ogrp := groups[a.g], groups[og]
			omd, err := parties[op].store.deviceKeystore.memberDeviceForGroup(ogrp)
			if err != nil {
				return
			}
			toMD, _ := parties[a.to].store.GetOwnMemberDeviceForGroup(g)
			ck, derr := decryptDeviceChainKey(data, ogrp, omd.member, claimed)
			obs := "None"
			ok, note, sig := true, "", ""
			intended := og == a.g && omd.Member().Equals(toMD.Member()) && claimed.Equals(sDev(g)) && !altered
			if derr == nil {
				sym, known := chainIdx[string(ck.ChainKey)]
				if !known {
					sym = "(999, 0)"
				}
				obs = fmt.Sprintf("(Some (%d, %s))", ck.Counter, sym)
				if !intended {
					ok, sig = false, "chain-key announcement opened by the wrong party / in the wrong group / under the wrong sender"
					note = fmt.Sprintf("announcement of group %d for party %s opened in group %d by party %s (claimed sender ok=%v, altered=%v)", a.g, parties[a.to].name, og, parties[op].name, claimed.Equals(sDev(g)), altered)
				} else if ck.Counter != a.ctr || sym != fmt.Sprintf("(%d, %d)", a.origin, a.ctr) {
					ok, sig = false, "announcement does not open to the chain key and counter at sealing time"
					note = fmt.Sprintf("got counter %d chain %s, sealed at counter %d", ck.Counter, sym, a.ctr)
				}
			} else if intended {
				ok, sig, note = false, "intended recipient cannot open the announcement", derr.Error()
			}
			coq := fmt.Sprintf("CAnn %d %d %d %d (%d, %d) %s %d %d %d %s", ids.key(sDev(g)), ids.key(toMD.Member()), ids.nonce(g), a.ctr, a.origin, a.ctr,
				vharness.Bool(altered), ids.nonce(ogrp), ids.key(omd.Member()), ids.key(claimed), obs)
			out.Emit(vharness.Case{Kind: kind, Coq: coq, Key: coq + fmt.Sprint(round), Nontrivial: !intended, OracleOK: ok, Note: note, Sig: sig})
		}
		for _, a := range anns {
			g := groups[a.g]
			for og := range groups {
				for op := range parties {
					try("matrix", a, og, op, sDev(g), false, a.data)
				}
			}
			// claimed sender: another device key (the recipient's own device, another group's device key)
			rmd, _ := R.GetOwnMemberDeviceForGroup(g)
			try("wrong-sender", a, a.g, a.to, rmd.Device(), false, a.data)
			try("wrong-sender", a, a.g, a.to, sDev(groups[(a.g+3)%len(groups)]), false, a.data)
		}
		// every single-bit flip of one announcement's ciphertext
		if len(anns) > 0 {
			a := anns[rng.Intn(len(anns))]
			step := 1
			if len(a.data)*8 > vharness.Budget(400, 4000) {
				step = len(a.data) * 8 / vharness.Budget(400, 4000)
			}
			for bit := 0; bit < len(a.data)*8; bit += step {
				m := append([]byte(nil), a.data...)
				m[bit/8] ^= 1 << (bit % 8)
				try("bitflip", a, a.g, a.to, sDev(groups[a.g]), true, m)
			}
			_ = bytes.Equal
		}
		// ---- through RegisterChainKey of the receiving store (R is another device of the sender's
		// account: it meets the SAME sender device key on the account group and on every contact group,
		// and a per-group device key on the multi-member groups), groups in a random order: an altered
		// copy before and AFTER the valid announcement, the announcement presented for another group,
		// then IsChainKeyKnownForDevice and a message sealed after the announcement
		order := rng.Perm(len(groups))
		for _, gi := range order {
			g := groups[gi]
			var mine *ann
			for i := range anns {
				// the latest announcement made for R: the message sealed below lies within its window (C02)
				if anns[i].g == gi && anns[i].to == 0 && (mine == nil || anns[i].ctr > mine.ctr) {
					mine = &anns[i]
				}
			}
			if mine == nil {
				continue
			}
			if err := R.PutGroup(ctx, g); err != nil {
				t.Fatal(err)
			}
			rmd, _ := R.GetOwnMemberDeviceForGroup(g)
			dev := sDev(g)
			gpk, _ := g.GetPubKey()
			reg := func(kind string, target *protocoltypes.Group, data []byte, altered bool, wantOK bool, what string) {
				err := R.RegisterChainKey(ctx, target, dev, data)
				obs := "None"
				if err == nil {
					obs = fmt.Sprintf("(Some (%d, (%d, %d)))", mine.ctr, mine.origin, mine.ctr)
				}
				ok, note, sig := true, "", ""
				if (err == nil) != wantOK {
					ok = false
					if err == nil {
						sig = "chain-key announcement opened by the wrong party / in the wrong group / under the wrong sender"
						note = fmt.Sprintf("RegisterChainKey accepted %s (group %d)", what, gi)
					} else {
						sig = "intended recipient cannot open the announcement"
						note = fmt.Sprintf("RegisterChainKey refused %s (group %d): %v", what, gi, err)
					}
				}
				coq := fmt.Sprintf("CAnn %d %d %d %d (%d, %d) %s %d %d %d %s", ids.key(dev), ids.key(rmd.Member()), ids.nonce(g), mine.ctr, mine.origin, mine.ctr,
					vharness.Bool(altered), ids.nonce(target), ids.key(rmd.Member()), ids.key(dev), obs)
				out.Emit(vharness.Case{Kind: kind, Coq: coq, Key: fmt.Sprintf("%s|%d|%d|%s", coq, round, gi, what), Nontrivial: true, OracleOK: ok, Note: note, Sig: sig})
			}
			flip := func() []byte {
				m := append([]byte(nil), mine.data...)
				bit := rng.Intn(len(m) * 8)
				m[bit/8] ^= 1 << (bit % 8)
				return m
			}
			reg("register", g, flip(), true, false, "an altered copy before the valid announcement")
			reg("register", g, mine.data, false, true, "the valid announcement")
			known := R.IsChainKeyKnownForDevice(ctx, gpk, dev)
			reg("register", g, flip(), true, false, "an altered copy after the valid announcement")
			other := groups[(gi+1+rng.Intn(len(groups)-1))%len(groups)]
			if err := R.PutGroup(ctx, other); err == nil {
				reg("register", other, mine.data, false, false, "the announcement of this group presented for another group")
			}
			// a message sealed after every announcement opens
			okMsg, noteMsg := known, ""
			if !known {
				noteMsg = fmt.Sprintf("IsChainKeyKnownForDevice is false after the valid announcement was registered (group %d, registered after %d other groups of the same round)", gi, 0)
			} else if e, err := S.SealEnvelope(ctx, g, vPayload(uint64(900+gi), 5)); err == nil {
				if env, hdr, err := R.OpenEnvelopeHeaders(e, g); err != nil {
					okMsg, noteMsg = false, "headers of a message of the announced device do not open: "+err.Error()
				} else if _, err := R.OpenEnvelopePayload(ctx, env, hdr, gpk, rmd.Device(), vCID(e)); err != nil {
					okMsg, noteMsg = false, fmt.Sprintf("a message sealed after the announcement does not open on the recipient (group %d): %v", gi, err)
				}
			}
			out.Emit(vharness.Case{Kind: "register-then-open", Key: fmt.Sprintf("reg-open|%d|%d", round, gi), Nontrivial: true, OracleOK: okMsg, Note: noteMsg,
				Sig: "announcement registered but the sender's messages do not open"})
		}
	}
	t.Logf("C05 harness: %d cases", out.N)
}
