//go:build verif

package secretstore

import (
	"bytes"
	"context"
	"encoding/hex"
	"fmt"
	"strconv"
	"strings"
	"sync"
	"testing"

	"github.com/ipfs/go-datastore"
	dssync "github.com/ipfs/go-datastore/sync"
	"google.golang.org/protobuf/proto"

	"berty.tech/weshnet/v2/internal/vharness"
	"berty.tech/weshnet/v2/pkg/protocoltypes"
)

// ---- recording datastore: every mutation (put, delete, batch commit) is logged; batches are
// atomic as on badger ----

type c10kv struct {
	key string
	val []byte // nil = delete (inside a batch)
}

type c10mut struct {
	kind string // put, del, batch
	kvs  []c10kv
}

type c10ds struct {
	datastore.Datastore
	mu  sync.Mutex
	log []c10mut
}

func c10newDS() *c10ds { return &c10ds{Datastore: dssync.MutexWrap(datastore.NewMapDatastore())} }

func (d *c10ds) Put(ctx context.Context, k datastore.Key, v []byte) error {
	d.mu.Lock()
	d.log = append(d.log, c10mut{"put", []c10kv{{k.String(), append([]byte(nil), v...)}}})
	d.mu.Unlock()
	return d.Datastore.Put(ctx, k, v)
}

func (d *c10ds) Delete(ctx context.Context, k datastore.Key) error {
	d.mu.Lock()
	d.log = append(d.log, c10mut{"del", []c10kv{{k.String(), nil}}})
	d.mu.Unlock()
	return d.Datastore.Delete(ctx, k)
}

type c10batch struct {
	d   *c10ds
	kvs []c10kv
}

func (d *c10ds) Batch(ctx context.Context) (datastore.Batch, error) { return &c10batch{d: d}, nil }
func (b *c10batch) Put(ctx context.Context, k datastore.Key, v []byte) error {
	b.kvs = append(b.kvs, c10kv{k.String(), append([]byte(nil), v...)})
	return nil
}
func (b *c10batch) Delete(ctx context.Context, k datastore.Key) error {
	b.kvs = append(b.kvs, c10kv{k.String(), nil})
	return nil
}
func (b *c10batch) Commit(ctx context.Context) error {
	b.d.mu.Lock()
	b.d.log = append(b.d.log, c10mut{"batch", b.kvs})
	b.d.mu.Unlock()
	for _, kv := range b.kvs {
		if kv.val == nil {
			_ = b.d.Datastore.Delete(ctx, datastore.NewKey(kv.key))
		} else {
			_ = b.d.Datastore.Put(ctx, datastore.NewKey(kv.key), kv.val)
		}
	}
	b.kvs = nil
	return nil
}

// state after the first n mutations
func c10replay(log []c10mut, n int) datastore.Datastore {
	ctx := context.Background()
	ds := dssync.MutexWrap(datastore.NewMapDatastore())
	for _, m := range log[:n] {
		for _, kv := range m.kvs {
			if kv.val == nil {
				_ = ds.Delete(ctx, datastore.NewKey(kv.key))
			} else {
				_ = ds.Put(ctx, datastore.NewKey(kv.key), kv.val)
			}
		}
	}
	return ds
}

// ---- symbolic translation of the message-key namespaces ----

type c10sym struct {
	devID  map[string]int    // hex(device) -> model id
	chain  map[string]string // chain value bytes -> "(o, i)"
	mkey   map[string]string // message key bytes -> "(o, i)"
	cidNum map[string]uint64 // cid string -> model cid
}

func (y *c10sym) addChain(origin int, ck0 []byte, gid []byte, n int) {
	cur := ck0
	y.chain[string(cur)] = fmt.Sprintf("(%d, 0)", origin)
	for i := 1; i <= n; i++ {
		next, mk, _ := deriveNextKeys(cur, nil, gid)
		y.chain[string(next)] = fmt.Sprintf("(%d, %d)", origin, i)
		y.mkey[string(mk[:])] = fmt.Sprintf("(%d, %d)", origin, i)
		cur = next
	}
}

func (y *c10sym) kv(kv c10kv) (string, string, bool) {
	p := strings.Split(strings.TrimPrefix(kv.key, "/"), "/")
	switch p[0] {
	case dsNamespaceChainKeyForDeviceOnGroup:
		d := y.devID[p[2]]
		k := fmt.Sprintf("KChain 0 %d", d)
		if kv.val == nil {
			return k, "", true
		}
		ck := &protocoltypes.DeviceChainKey{}
		_ = proto.Unmarshal(kv.val, ck)
		v, ok := y.chain[string(ck.ChainKey)]
		if !ok {
			v = "(999, 0)"
		}
		return k, fmt.Sprintf("VChain %d %s", ck.Counter, v), true
	case dsNamespacePrecomputedMessageKeys:
		d := y.devID[p[2]]
		ctr, _ := strconv.ParseUint(p[3], 10, 64)
		k := fmt.Sprintf("KPre 0 %d %d", d, ctr)
		if kv.val == nil {
			return k, "", true
		}
		v, ok := y.mkey[string(kv.val)]
		if !ok {
			v = "(999, 0)"
		}
		return k, "VKey " + v, true
	case dsNamespaceMessageKeyForCIDs:
		k := fmt.Sprintf("KCid %d", y.cidNum[p[1]])
		if kv.val == nil {
			return k, "", true
		}
		v, ok := y.mkey[string(kv.val)]
		if !ok {
			v = "(999, 0)"
		}
		return k, "VKey " + v, true
	}
	return "", "", false
}

func (y *c10sym) muts(ms []c10mut) string {
	var out []string
	for _, m := range ms {
		switch m.kind {
		case "put", "del":
			k, v, ok := y.kv(m.kvs[0])
			if !ok {
				continue
			}
			if m.kind == "put" {
				out = append(out, fmt.Sprintf("MPut (%s) (%s)", k, v))
			} else {
				out = append(out, fmt.Sprintf("MDel (%s)", k))
			}
		case "batch":
			var kvs []string
			for _, kv := range m.kvs {
				if k, v, ok := y.kv(kv); ok {
					kvs = append(kvs, fmt.Sprintf("(%s, %s)", k, v))
				}
			}
			if len(kvs) > 0 {
				out = append(out, "MBatch "+vharness.List(kvs))
			}
		}
	}
	return vharness.List(out)
}

type c10op struct {
	kind string // reg, open, seal
	d, n int
}

func (o c10op) coq() string {
	switch o.kind {
	case "reg":
		return fmt.Sprintf("RReg %d %d", o.d, o.n)
	case "open":
		return fmt.Sprintf("ROpen %d %d %d", o.d, o.n, o.d*100000+o.n)
	}
	return "RSealOwn 3"
}

func TestVerifC10(t *testing.T) {
	ctx := context.Background()
	out := vharness.Open()
	defer out.Close()
	rng := vharness.Rng()
	nWorkloads := vharness.Budget(8, 400)
	totalCrash := 0

	for wl := 0; wl < nWorkloads; wl++ {
		W := 1 + rng.Intn(3)
		if wl == 0 {
			W = 1 // scripted workload, see below
		}
		kind := wl % 3
		nMsg := W + 3
		acc := vNewAccount(t)
		probe := acc.store(t, W)
		g := vGroup(t, kind, probe)
		rmd, _ := probe.GetOwnMemberDeviceForGroup(g)
		gpk, _ := g.GetPubKey()
		senders := []*vSender{vNewSender(t, ctx, g, rmd.Member(), nMsg, 100000), vNewSender(t, ctx, g, rmd.Member(), nMsg, 200000)}

		// the receiver's store on the recording datastore
		rec := c10newDS()
		mk := func(ds datastore.Datastore) *secretStore {
			s, err := newSecretStore(ds, &NewSecretStoreOptions{PreComputedKeysCount: W, PrecomputeOutOfStoreGroupRefsCount: 2})
			if err != nil {
				t.Fatal(err)
			}
			return s
		}
		r := mk(rec)
		if err := r.ImportAccountKeys(acc.sk, acc.proofSK); err != nil {
			t.Fatal(err)
		}
		ownMD, _ := r.GetOwnMemberDeviceForGroup(g)
		ownDevRaw, _ := ownMD.Device().Raw()

		// workload: scripted skeleton + random fill
		var ops []c10op
		ops = append(ops, c10op{"reg", 1, rng.Intn(2)})
		nfill := 6 + rng.Intn(8)
		if wl == 0 {
			// scripted: window 1, sender 1 registered at 0, its messages opened in order — every mutation
			// of every open is a crash point after which the remaining messages must still open
			ops = []c10op{{"reg", 1, 0}, {"open", 1, 1}, {"open", 1, 2}, {"open", 1, 3}}
			nfill = 0
		}
		sealsSoFar := 0
		for i := 0; i < nfill; i++ {
			switch x := rng.Intn(10); {
			case x < 5:
				ops = append(ops, c10op{"open", 1 + rng.Intn(2), 1 + rng.Intn(nMsg)})
			case x < 7:
				ops = append(ops, c10op{"seal", 3, 0})
				sealsSoFar++
			case x < 8:
				ops = append(ops, c10op{"reg", 2, rng.Intn(2)})
			case x < 9 && rng.Intn(2) == 0 && sealsSoFar > 0:
				// an own message can only be presented once it has been sealed (the model would open a
				// not-yet-sealed counter whose key is precomputed; there is no such envelope to present)
				ops = append(ops, c10op{"open", 3, 1 + rng.Intn(sealsSoFar)})
			default:
				ops = append(ops, c10op{"reg", 1 + rng.Intn(2), rng.Intn(nMsg)})
			}
		}

		sym := &c10sym{devID: map[string]int{}, chain: map[string]string{}, mkey: map[string]string{}, cidNum: map[string]uint64{}}
		for i, s := range senders {
			sym.devID[hex.EncodeToString(s.devRaw)] = i + 1
			for k := 1; k <= nMsg; k++ {
				sym.cidNum[s.cids[k].String()] = uint64((i+1)*100000 + k)
			}
		}
		sym.devID[hex.EncodeToString(ownDevRaw)] = 3

		type opRec struct {
			from, to int // mutation indices [from, to)
			ok       bool
			payload  []byte
			counter  uint64
		}
		recs := make([]opRec, len(ops))
		ownSealed := 0
		var ownEnvs [][]byte
		runOp := func(s *secretStore, o c10op) (ok bool, payload []byte, ctr uint64, env []byte) {
			switch o.kind {
			case "reg":
				return s.RegisterChainKey(ctx, g, senders[o.d-1].dev, senders[o.d-1].ann[o.n]) == nil, nil, 0, nil
			case "open":
				var data []byte
				var id = senders[0].cids[1]
				if o.d == 3 {
					if o.n > len(ownEnvs) {
						return false, nil, 0, nil
					}
					data, id = ownEnvs[o.n-1], vCID(ownEnvs[o.n-1])
				} else {
					data, id = senders[o.d-1].env[o.n], senders[o.d-1].cids[o.n]
				}
				e, h, err := s.OpenEnvelopeHeaders(data, g)
				if err != nil {
					return false, nil, 0, nil
				}
				md, _ := s.GetOwnMemberDeviceForGroup(g)
				m, err := s.OpenEnvelopePayload(ctx, e, h, gpk, md.Device(), id)
				if err != nil {
					return false, nil, 0, nil
				}
				b, _ := proto.Marshal(m)
				return true, b, h.Counter, nil
			default:
				// first use creates the own chain key, exactly like PutGroup does
				if _, err := s.GetShareableChainKey(ctx, g, rmd.Member()); err != nil {
					return false, nil, 0, nil
				}
				e, err := s.SealEnvelope(ctx, g, vPayload(uint64(300000+ownSealed+1), 4))
				if err != nil {
					return false, nil, 0, nil
				}
				_, h, _ := s.OpenEnvelopeHeaders(e, g)
				return true, nil, h.Counter, e
			}
		}
		ownChainKnown := false
		for i, o := range ops {
			recs[i].from = len(rec.log)
			ok, p, c, env := runOp(r, o)
			recs[i].to = len(rec.log)
			recs[i].ok, recs[i].payload, recs[i].counter = ok, p, c
			if o.kind == "seal" && ok {
				ownSealed++
				ownEnvs = append(ownEnvs, env)
				sym.cidNum[vCID(env).String()] = uint64(300000 + ownSealed)
				if !ownChainKnown {
					// derive the own chain from the very first chain value written
					for _, m := range rec.log[recs[i].from:recs[i].to] {
						for _, kv := range m.kvs {
							if strings.Contains(kv.key, dsNamespaceChainKeyForDeviceOnGroup) && strings.HasSuffix(kv.key, hex.EncodeToString(ownDevRaw)) && !ownChainKnown {
								ck := &protocoltypes.DeviceChainKey{}
								_ = proto.Unmarshal(kv.val, ck)
								sym.addChain(3, ck.ChainKey, g.GetPublicKey(), 64)
								ownChainKnown = true
							}
						}
					}
				}
			}
		}
		// sender chains: the announcement at 0 carries the initial chain value
		for i, s := range senders {
			ck, err := s.store.getDeviceChainKeyForGroupAndDevice(ctx, gpk, s.dev)
			if err == nil {
				_ = ck
			}
			// recover chain value 0 by decrypting the announcement with the receiver's member key
			omd, err := probe.deviceKeystore.memberDeviceForGroup(g)
			if err != nil {
				t.Fatal(err)
			}
			dk, err := decryptDeviceChainKey(s.ann[0], g, omd.member, s.dev)
			if err != nil {
				t.Fatal(err)
			}
			sym.addChain(i+1, dk.ChainKey, g.GetPublicKey(), 64)
		}

		// correspondence: mutation sequence and result of every operation
		var opsCoq, obsCoq []string
		for i, o := range ops {
			if o.kind == "open" && o.d == 3 {
				// own messages are opened under the cid of the envelope sealed in this run
				opsCoq = append(opsCoq, fmt.Sprintf("ROpen 3 %d %d", o.n, 300000+o.n))
			} else {
				opsCoq = append(opsCoq, o.coq())
			}
			res := "ODone"
			if o.kind == "open" {
				res = "OFail"
				if recs[i].ok {
					res = fmt.Sprintf("OOk %d", c10payloadID(recs[i].payload, senders, o, nMsg))
				}
			}
			obsCoq = append(obsCoq, fmt.Sprintf("(%s, %s)", sym.muts(rec.log[recs[i].from:recs[i].to]), res))
		}
		coq := fmt.Sprintf("CCrash %d %s %s", W, vharness.List(opsCoq), vharness.List(obsCoq))

		// ---- every mutation index is a crash point ----
		okAll, noteAll, sigAll := true, "", ""
		fail := func(sig, note string) {
			if okAll {
				okAll, sigAll, noteAll = false, sig, note
			}
		}
		total := len(rec.log)
		// crash points: every mutation of the workload (the account import that precedes it is set-up)
		for cp := recs[0].from; cp <= total; cp++ {
			totalCrash++
			// which operations had completed (been reported to the caller) before the crash?
			done := 0
			for done < len(ops) && recs[done].to <= cp {
				done++
			}
			// the operation in progress is not reported; if cp falls on a boundary nothing is in progress
			restart := func() *secretStore { return mk(c10replay(rec.log, cp)) }
			before := func() *secretStore { // state in which the interrupted operation started
				b := cp
				if done < len(ops) {
					b = recs[done].from
				}
				return mk(c10replay(rec.log, b))
			}
			// (1) every message reported opened can still be opened
			s1 := restart()
			for i := 0; i < done; i++ {
				if ops[i].kind == "open" && recs[i].ok {
					ok, p, _, _ := runOp(s1, ops[i])
					if !ok || !bytes.Equal(p, recs[i].payload) {
						fail("opened message lost after a crash", fmt.Sprintf("workload %d crash after mutation %d/%d (during op %d %v): message %d of sender %d had been opened but no longer opens", wl, cp, total, done, opAt(ops, done), ops[i].n, ops[i].d))
					}
				}
			}
			// (2) every message openable when the interrupted operation started is still openable (one retry allowed)
			for d := 1; d <= 2; d++ {
				for k := 1; k <= nMsg; k++ {
					o := c10op{"open", d, k}
					if ok, _, _, _ := runOp(before(), o); !ok {
						continue
					}
					s2 := restart()
					ok, _, _, _ := runOp(s2, o)
					if !ok {
						ok, _, _, _ = runOp(s2, o)
					}
					if !ok {
						fail("openable message lost after a crash", fmt.Sprintf("workload %d crash after mutation %d/%d (during op %d %v): message %d of sender %d was openable before and cannot be opened after restart", wl, cp, total, done, opAt(ops, done), k, d))
					}
				}
			}
			// (3) no counter handed out before the stop is reused by a seal after restart
			s3 := restart()
			if ok, _, c, _ := runOp(s3, c10op{"seal", 3, 0}); ok {
				for i := 0; i < done; i++ {
					if ops[i].kind == "seal" && recs[i].ok && recs[i].counter == c {
						fail("counter reused after a crash", fmt.Sprintf("workload %d crash after mutation %d/%d: the envelope sealed after restart reuses counter %d handed out before the stop", wl, cp, total, c))
					}
				}
			}
			// (4) keys read after restart are the ones in use before
			s4 := restart()
			if cp >= recs[0].from && done > 0 {
				md4, err := s4.GetOwnMemberDeviceForGroup(g)
				if err != nil || !md4.Device().Equals(ownMD.Device()) || !md4.Member().Equals(ownMD.Member()) {
					fail("keys changed after a crash", fmt.Sprintf("workload %d crash after mutation %d/%d: own member/device keys differ after restart", wl, cp, total))
				}
			}
			// (5) continuing after restart: with retries every message of a registered sender, and of a
			// sender registered afterwards, eventually opens (no key is lost for later messages)
			if cp%3 == 0 || wl == 0 || vharness.Thorough() {
				s5 := restart()
				for d := 1; d <= 2; d++ {
					// registration point: the first announcement delivered for d in the workload if its chain key
					// survived the crash, else the announcement at 0 delivered now
					regAt := 0
					if s5.IsChainKeyKnownForDevice(ctx, gpk, senders[d-1].dev) {
						for i := 0; i < len(ops); i++ {
							if ops[i].kind == "reg" && ops[i].d == d {
								regAt = ops[i].n
								break
							}
						}
					} else {
						_ = s5.RegisterChainKey(ctx, g, senders[d-1].dev, senders[d-1].ann[0])
					}
					pending := map[int]bool{}
					for k := 1; k <= nMsg; k++ {
						pending[k] = true
					}
					for pass := 0; pass < nMsg+2; pass++ {
						for k := 1; k <= nMsg; k++ {
							if pending[k] {
								if ok, _, _, _ := runOp(s5, c10op{"open", d, k}); ok {
									delete(pending, k)
								}
							}
						}
					}
					for k := range pending {
						if k > regAt {
							sig := "message key lost after a crash"
							// the stop fell strictly inside the writes of an open of this sender: the retried message
							// opens by its identifier and skips the advance of the ratchet
							if done < len(ops) && ops[done].kind == "open" && ops[done].d == d && cp > recs[done].from && cp < recs[done].to && k > ops[done].n {
								// ... and that is the whole story: at the stop the message key is stored under the
								// message identifier while the stored chain key is still the one the open started
								// with (a chain key that moved, or a missing by-identifier key, is another defect)
								sb, sc := before(), restart()
								ckb, errb := sb.getDeviceChainKeyForGroupAndDevice(ctx, gpk, senders[d-1].dev)
								ckc, errc := sc.getDeviceChainKeyForGroupAndDevice(ctx, gpk, senders[d-1].dev)
								_, errk := sc.getKeyForCID(ctx, senders[d-1].cids[ops[done].n])
								if errb == nil && errc == nil && errk == nil && ckb.Counter == ckc.Counter && bytes.Equal(ckb.ChainKey, ckc.ChainKey) {
									sig = "ratchet advance lost by a stop inside the post-decrypt writes of an open"
								}
							}
							fail(sig, fmt.Sprintf("workload %d crash after mutation %d/%d (during op %d %v): continuing after restart, message %d of sender %d (registered at %d, window %d) never opens", wl, cp, total, done, opAt(ops, done), k, d, regAt, W))
						}
					}
				}
			}
		}
		out.Emit(vharness.Case{Kind: "workload", Coq: coq, Key: coq, Nontrivial: total > len(ops), OracleOK: okAll, Note: noteAll, Sig: sigAll,
			Replay: map[string]any{"workload": wl, "window": W, "ops": opsCoq, "mutations": total}})
	}
	// ---- first use: the writes of the very first operations on a store (account keys, the keys of a
	// group on its first use, the own chain key, the first seal) are crash points too.  After a stop at
	// any of them the store must start again and be usable: the member/device of the group can be
	// obtained (twice, the same), an envelope can be sealed, and keys that had been written before the
	// stop are the ones in use afterwards.  Decided by this oracle alone (the key-value model of C10
	// starts after the first use).
	nFirst := vharness.Budget(6, 90)
	for fi := 0; fi < nFirst; fi++ {
		kind := fi % 3
		acc := vNewAccount(t)
		imported := fi%2 == 0
		rec := c10newDS()
		mk := func(ds datastore.Datastore) *secretStore {
			s, err := newSecretStore(ds, &NewSecretStoreOptions{PreComputedKeysCount: 2, PrecomputeOutOfStoreGroupRefsCount: 2})
			if err != nil {
				t.Fatal(err)
			}
			return s
		}
		r := mk(rec)
		if imported {
			if err := r.ImportAccountKeys(acc.sk, acc.proofSK); err != nil {
				t.Fatal(err)
			}
		}
		g := vGroup(t, kind, r) // first use of the account keys when they were not imported
		md0, err := r.GetOwnMemberDeviceForGroup(g)
		if err != nil {
			t.Fatal(err)
		}
		identityReturnedAt := len(rec.log) // from this write on the member/device pair has been handed to a caller
		if err := r.PutGroup(ctx, g); err != nil {
			t.Fatal(err)
		}
		if _, err := r.SealEnvelope(ctx, g, vPayload(1, 4)); err != nil {
			t.Fatal(err)
		}
		accA, accP, _ := r.ExportAccountKeysForBackup()
		total := len(rec.log)
		ok, note := true, ""
		for cp := 0; cp <= total && ok; cp++ {
			s := mk(c10replay(rec.log, cp))
			gg := g
			if kind != 0 {
				// account and contact groups are derived from the account keys: derive them again
				// (a store that lost its not-yet-complete account keys makes new ones; that is a new account)
				gg = vGroup(t, kind, s)
			}
			md1, err := s.GetOwnMemberDeviceForGroup(gg)
			if err != nil {
				ok, note = false, fmt.Sprintf("first use of a group of kind %d (account keys imported: %v), stop after write %d/%d: GetOwnMemberDeviceForGroup fails after restart: %v", kind, imported, cp, total, err)
				break
			}
			// C10_named_keys_survive_a_stop: what GetOwnMemberDeviceForGroup had returned before the stop it returns after it
			if cp >= identityReturnedAt && (!md1.Device().Equals(md0.Device()) || !md1.Member().Equals(md0.Member())) {
				ok, note = false, fmt.Sprintf("first use of a group of kind %d (account keys imported: %v), stop after write %d/%d (the member/device pair had been returned after write %d): after the restart GetOwnMemberDeviceForGroup gives another identity", kind, imported, cp, total, identityReturnedAt)
				break
			}
			md2, err := s.GetOwnMemberDeviceForGroup(gg)
			if err != nil || !md2.Device().Equals(md1.Device()) || !md2.Member().Equals(md1.Member()) {
				ok, note = false, fmt.Sprintf("first use of a group of kind %d, stop after write %d/%d: two calls after restart give two identities (%v)", kind, cp, total, err)
				break
			}
			if err := s.PutGroup(ctx, gg); err != nil {
				ok, note = false, fmt.Sprintf("first use of a group of kind %d, stop after write %d/%d: PutGroup fails after restart: %v", kind, cp, total, err)
				break
			}
			// what OpenGroup does before anything is sent in a group (orbitdb.go: "force secret generation
			// if missing"): PutGroup alone does not complete a group record written without its chain key
			if _, err := s.GetShareableChainKey(ctx, gg, md1.Member()); err != nil {
				ok, note = false, fmt.Sprintf("first use of a group of kind %d, stop after write %d/%d: GetShareableChainKey (own chain key) fails after restart: %v", kind, cp, total, err)
				break
			}
			if _, err := s.SealEnvelope(ctx, gg, vPayload(2, 4)); err != nil {
				ok, note = false, fmt.Sprintf("first use of a group of kind %d, stop after write %d/%d: SealEnvelope fails after restart: %v", kind, cp, total, err)
				break
			}
			if cp == total {
				a2, p2, _ := s.ExportAccountKeysForBackup()
				if !bytes.Equal(a2, accA) || !bytes.Equal(p2, accP) || !md1.Device().Equals(md0.Device()) || !md1.Member().Equals(md0.Member()) {
					ok, note = false, fmt.Sprintf("first use of a group of kind %d: after a clean restart the account or the group identity differs", kind)
				}
			}
		}
		out.Emit(vharness.Case{Kind: "first-use", Key: fmt.Sprintf("first-use|%d", fi), Nontrivial: true, OracleOK: ok, Note: note,
			Sig: "store unusable after a stop during the first use of a group", Replay: map[string]any{"kind": kind, "imported": imported, "writes": total}})
	}
	t.Logf("C10 harness: %d workloads, %d crash points", nWorkloads, totalCrash)
}

func opAt(ops []c10op, i int) string {
	if i < len(ops) {
		return ops[i].coq()
	}
	return "<none>"
}

func c10payloadID(p []byte, senders []*vSender, o c10op, nMsg int) uint64 {
	if o.d == 3 {
		return uint64(300000 + o.n)
	}
	for d, s := range senders {
		for k := 1; k <= nMsg; k++ {
			if bytes.Equal(p, s.pay[k]) {
				return uint64((d+1)*100000 + k)
			}
		}
	}
	return 888888
}
