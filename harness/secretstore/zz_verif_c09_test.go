//go:build verif

package secretstore

import (
	"context"
	"fmt"
	"math/rand"
	"sort"
	"strings"
	"sync"
	"testing"
	"time"

	"github.com/ipfs/go-datastore"
	dssync "github.com/ipfs/go-datastore/sync"
	"google.golang.org/protobuf/proto"

	"berty.tech/weshnet/v2/internal/vharness"
	"berty.tech/weshnet/v2/internal/vsched"
	"berty.tech/weshnet/v2/pkg/protocoltypes"
)

// c09ds wraps the root datastore: every read/write of the message-key namespaces is a
// scheduling point (controlled mode) or gets a seeded random delay (stress mode); it also
// checks that the stored chain-key counter of a device never decreases.
type c09ds struct {
	datastore.Datastore
	mu        sync.Mutex
	rng       *rand.Rand
	stress    bool
	lastCtr   map[string]uint64
	decreased string
	// failPut > 0: the failPut-th write into one of the message-key namespaces fails (once)
	failPut int
	failed  string
}

func c09interesting(k datastore.Key) bool {
	s := k.String()
	return strings.HasPrefix(s, "/"+dsNamespaceChainKeyForDeviceOnGroup) || strings.HasPrefix(s, "/"+dsNamespacePrecomputedMessageKeys)
}

func (d *c09ds) point(op string, k datastore.Key) {
	if !c09interesting(k) {
		return
	}
	if d.stress {
		d.mu.Lock()
		n := d.rng.Intn(4)
		d.mu.Unlock()
		switch n {
		case 0:
			time.Sleep(time.Duration(1+n) * time.Microsecond)
		case 1:
			for i := 0; i < 3; i++ {
				runtimeGosched()
			}
		}
		return
	}
	vsched.Yield("ds", nil, op)
}

func (d *c09ds) Get(ctx context.Context, k datastore.Key) ([]byte, error) {
	d.point("ds.Get", k)
	return d.Datastore.Get(ctx, k)
}

func (d *c09ds) Put(ctx context.Context, k datastore.Key, v []byte) error {
	d.point("ds.Put", k)
	if c09interesting(k) {
		d.mu.Lock()
		hit := false
		if d.failPut > 0 {
			d.failPut--
			hit = d.failPut == 0
		}
		if hit {
			d.failed = k.String()
		}
		d.mu.Unlock()
		if hit {
			return fmt.Errorf("injected write failure")
		}
	}
	if strings.HasPrefix(k.String(), "/"+dsNamespaceChainKeyForDeviceOnGroup) {
		ck := &protocoltypes.DeviceChainKey{}
		if proto.Unmarshal(v, ck) == nil {
			d.mu.Lock()
			if last, ok := d.lastCtr[k.String()]; ok && ck.Counter < last {
				d.decreased = fmt.Sprintf("stored chain-key counter went from %d to %d", last, ck.Counter)
			}
			d.lastCtr[k.String()] = ck.Counter
			d.mu.Unlock()
		}
	}
	return d.Datastore.Put(ctx, k, v)
}

type c09world struct {
	ds    *c09ds
	store *secretStore
	g     *protocoltypes.Group
	mu    sync.Mutex
	envs  [][]byte
}

func c09new(t testing.TB, kind int, c0 int, stress bool, seed int64) *c09world {
	ds := &c09ds{Datastore: dssync.MutexWrap(datastore.NewMapDatastore()), rng: rand.New(rand.NewSource(seed)), stress: stress, lastCtr: map[string]uint64{}}
	s, err := newSecretStore(ds, nil)
	if err != nil {
		t.Fatal(err)
	}
	g := vGroup(t, kind, s)
	if err := s.PutGroup(context.Background(), g); err != nil {
		t.Fatal(err)
	}
	w := &c09world{ds: ds, store: s, g: g}
	for i := 0; i < c0; i++ {
		if _, err := s.SealEnvelope(context.Background(), g, vPayload(uint64(i), 3)); err != nil {
			t.Fatal(err)
		}
	}
	return w
}

func (w *c09world) counters(t testing.TB) []uint64 {
	var cs []uint64
	for _, e := range w.envs {
		_, h, err := w.store.OpenEnvelopeHeaders(e, w.g)
		if err != nil {
			t.Fatal(err)
		}
		cs = append(cs, h.Counter)
	}
	return cs
}

func (w *c09world) finalCtr() uint64 {
	md, _ := w.store.GetOwnMemberDeviceForGroup(w.g)
	gpk, _ := w.g.GetPubKey()
	ck, err := w.store.getDeviceChainKeyForGroupAndDevice(context.Background(), gpk, md.Device())
	if err != nil {
		return 0
	}
	return ck.Counter
}

// receiver registered at counter c0 opens every envelope (in return order, with retries)
func (w *c09world) receiverOpensAll(t testing.TB, annAtC0 []byte, recv *secretStore) string {
	ctx := context.Background()
	md, _ := w.store.GetOwnMemberDeviceForGroup(w.g)
	gpk, _ := w.g.GetPubKey()
	rmd, _ := recv.GetOwnMemberDeviceForGroup(w.g)
	if err := recv.RegisterChainKey(ctx, w.g, md.Device(), annAtC0); err != nil {
		return "receiver could not register the chain key: " + err.Error()
	}
	pending := append([][]byte(nil), w.envs...)
	for round := 0; round < 3 && len(pending) > 0; round++ {
		var next [][]byte
		for _, e := range pending {
			env, h, err := recv.OpenEnvelopeHeaders(e, w.g)
			if err != nil {
				return "receiver cannot open headers: " + err.Error()
			}
			if _, err := recv.OpenEnvelopePayload(ctx, env, h, gpk, rmd.Device(), vCID(e)); err != nil {
				next = append(next, e)
			}
		}
		pending = next
	}
	if len(pending) > 0 {
		return fmt.Sprintf("%d of %d envelopes cannot be opened by a receiver that registered the chain key before them", len(pending), len(w.envs))
	}
	return ""
}

func TestVerifC09(t *testing.T) {
	out := vharness.Open()
	defer out.Close()
	rng := vharness.Rng()
	ctx := context.Background()

	oracle := func(c0 uint64, cs []uint64, fin uint64, decreased string) (bool, string, string) {
		sorted := append([]uint64(nil), cs...)
		sort.Slice(sorted, func(i, j int) bool { return sorted[i] < sorted[j] })
		for i, c := range sorted {
			if c != c0+uint64(i)+1 {
				return false, "counter reused or skipped by concurrent sends", fmt.Sprintf("envelope counters %v are not exactly %d..%d", sorted, c0+1, c0+uint64(len(sorted)))
			}
		}
		if decreased != "" {
			return false, "stored chain-key counter decreased", decreased
		}
		if fin != c0+uint64(len(cs)) {
			return false, "counter reused or skipped by concurrent sends", fmt.Sprintf("stored counter %d after %d sends from %d", fin, len(cs), c0)
		}
		return true, "", ""
	}

	// ---- controlled schedules: all interleavings at lock/unlock and at every datastore access ----
	type scen struct {
		c0    int
		lefts []int
		kind  int
	}
	scenarios := []scen{{0, []int{1, 1}, 0}, {2, []int{2, 1}, 1}, {0, []int{2, 2}, 2}, {1, []int{1, 1, 1}, 0}}
	budget := vharness.Budget(400, 60000)
	for _, sc := range scenarios {
		order := map[string]int{}
		for i := range sc.lefts {
			order[fmt.Sprint(i)] = i
		}
		var w *c09world
		setup := func(c *vsched.Ctl) func(r *vsched.Run) {
			vsched.Uninstall() // build the world without scheduling points
			w = c09new(t, sc.kind, sc.c0, false, 1)
			vsched.Reinstall(c)
			for i, n := range sc.lefts {
				i, n := i, n
				c.Spawn(fmt.Sprint(i), func() string {
					for j := 0; j < n; j++ {
						e, err := w.store.SealEnvelope(ctx, w.g, vPayload(uint64(i*100+j), 5))
						if err != nil {
							return "err"
						}
						w.mu.Lock()
						w.envs = append(w.envs, e)
						w.mu.Unlock()
					}
					return ""
				})
			}
			return nil
		}
		each := func(r vsched.Run) {
			var sched []uint64
			for _, s := range r.Sched {
				var x uint64
				fmt.Sscan(s, &x)
				sched = append(sched, x)
			}
			var obs []string
			for _, sts := range r.Obs {
				var v []uint64
				for _, st := range sts {
					v = append(v, vsched.Code(st))
				}
				obs = append(obs, vharness.Ns(v))
			}
			cs := w.counters(t)
			fin := w.finalCtr()
			ok, sig, note := oracle(uint64(sc.c0), cs, fin, w.ds.decreased)
			if r.Err != "" {
				ok, sig, note = false, "harness error", r.Err
			}
			if r.Deadlock() && r.Err == "" {
				ok, sig, note = false, "deadlock", fmt.Sprintf("schedule %v ends with a thread waiting for a held mutex", r.Sched)
			}
			var lefts []string
			for _, n := range sc.lefts {
				lefts = append(lefts, fmt.Sprint(n))
			}
			coq := fmt.Sprintf("CSeal %d %s%%nat %s %s %s %d", sc.c0, vharness.List(lefts), vharness.Ns(sched), vharness.List(obs), vharness.Ns(cs), fin)
			preempt := false
			for i := 1; i < len(r.Sched); i++ {
				if r.Sched[i] != r.Sched[i-1] {
					preempt = true
				}
			}
			out.Emit(vharness.Case{Kind: "schedule", Coq: coq, Key: coq, Nontrivial: preempt, OracleOK: ok, Note: note, Sig: sig,
				Replay: map[string]any{"schedule": r.Sched, "c0": sc.c0, "lefts": sc.lefts}})
		}
		n, exhausted := vsched.Explore(setup, order, 400, budget/len(scenarios)/2, each)
		if !exhausted {
			for i := 0; i < budget/len(scenarios)/2; i++ {
				each(vsched.RunRandom(setup, order, 400, rng.Intn))
			}
		}
		_ = n
	}

	// ---- stress: real parallelism with seeded delays in every datastore access ----
	nStress := vharness.Budget(6, 120)
	for it := 0; it < nStress; it++ {
		kind := it % 3
		c0 := rng.Intn(4)
		w := c09new(t, kind, c0, true, rng.Int63())
		recvAcc := vNewAccount(t)
		recv := recvAcc.store(t, 100)
		rmd, _ := recv.GetOwnMemberDeviceForGroup(w.g)
		var ann []byte
		if kind == 0 {
			ann, _ = w.store.GetShareableChainKey(ctx, w.g, rmd.Member())
		}
		senders, per := 16, vharness.Budget(20, 200)
		if per > 90 {
			per = 90 // keep all envelopes within one receiver window + opened
		}
		var wg sync.WaitGroup
		for i := 0; i < senders; i++ {
			wg.Add(1)
			go func(i int) {
				defer wg.Done()
				for j := 0; j < per; j++ {
					e, err := w.store.SealEnvelope(ctx, w.g, vPayload(uint64(i*1000+j), 4))
					if err != nil {
						continue
					}
					w.mu.Lock()
					w.envs = append(w.envs, e)
					w.mu.Unlock()
				}
			}(i)
		}
		wg.Wait()
		cs := w.counters(t)
		fin := w.finalCtr()
		ok, sig, note := oracle(uint64(c0), cs, fin, w.ds.decreased)
		if ok && kind == 0 {
			if msg := w.receiverOpensAll(t, ann, recv); msg != "" {
				ok, sig, note = false, "envelope of a concurrent send cannot be opened", msg
			}
		}
		sorted := append([]uint64(nil), cs...)
		sort.Slice(sorted, func(i, j int) bool { return sorted[i] < sorted[j] })
		coq := fmt.Sprintf("CStress %d %d %s %d", c0, len(cs), vharness.Ns(sorted), fin)
		out.Emit(vharness.Case{Kind: "stress", Coq: coq, Key: fmt.Sprintf("stress-%d-%s", it, coq[:20]), Nontrivial: true, OracleOK: ok, Note: note, Sig: sig})
	}
	// ---- first use: the own chain key of a group is created by whoever uses the group first (PutGroup,
	// GetShareableChainKey, SealEnvelope of an opened group); several tasks doing that at once, each
	// sealing right afterwards, must still share ONE chain: counters 1..n, no restart ----
	nFirst := vharness.Budget(40, 800)
	for it := 0; it < nFirst; it++ {
		kind := it % 3
		ds := &c09ds{Datastore: dssync.MutexWrap(datastore.NewMapDatastore()), rng: rand.New(rand.NewSource(rng.Int63())), stress: true, lastCtr: map[string]uint64{}}
		st, err := newSecretStore(ds, nil)
		if err != nil {
			t.Fatal(err)
		}
		w := &c09world{ds: ds, store: st, g: vGroup(t, kind, st)}
		recv := vNewAccount(t).store(t, 100)
		rmd, _ := recv.GetOwnMemberDeviceForGroup(w.g)
		tasks, per := 2+rng.Intn(5), 1+rng.Intn(4)
		var wg sync.WaitGroup
		var firstErr error
		early := 0 // sends that failed because the chain key was not there yet
		for i := 0; i < tasks; i++ {
			wg.Add(1)
			go func(i int) {
				defer wg.Done()
				var err error
				if i%2 == 0 {
					err = w.store.PutGroup(ctx, w.g)
				} else {
					_, err = w.store.GetShareableChainKey(ctx, w.g, rmd.Member())
				}
				if err != nil {
					w.mu.Lock()
					firstErr = err
					w.mu.Unlock()
					return
				}
				for j := 0; j < per; j++ {
					e, err := w.store.SealEnvelope(ctx, w.g, vPayload(uint64(i*1000+j), 4))
					if err != nil {
						// PutGroup returns at once when the group record exists, also while the task that wrote
						// it is still creating the chain key: a seal at that moment finds no chain key and fails
						// without producing an envelope.  The property speaks of the envelopes produced; the
						// send is repeated below, when every first use has returned
						w.mu.Lock()
						early++
						w.mu.Unlock()
						continue
					}
					w.mu.Lock()
					w.envs = append(w.envs, e)
					w.mu.Unlock()
				}
			}(i)
		}
		wg.Wait()
		for k := 0; k < early; k++ {
			e, err := w.store.SealEnvelope(ctx, w.g, vPayload(uint64(900000+k), 4))
			if err != nil {
				firstErr = err
				break
			}
			w.envs = append(w.envs, e)
		}
		cs := w.counters(t)
		fin := w.finalCtr()
		ok, sig, note := oracle(0, cs, fin, w.ds.decreased)
		if ok && firstErr != nil {
			ok, sig, note = false, "concurrent first use of a group fails", firstErr.Error()
		}
		if ok && len(cs) != tasks*per {
			ok, sig, note = false, "concurrent first use of a group fails", fmt.Sprintf("%d envelopes for %d sends", len(cs), tasks*per)
		}
		if note != "" {
			note = fmt.Sprintf("%d tasks use a fresh group at once (PutGroup / GetShareableChainKey) and seal %d messages each: %s", tasks, per, note)
		}
		sorted := append([]uint64(nil), cs...)
		sort.Slice(sorted, func(i, j int) bool { return sorted[i] < sorted[j] })
		coq := fmt.Sprintf("CStress 0 %d %s %d", len(cs), vharness.Ns(sorted), fin)
		out.Emit(vharness.Case{Kind: "first-use", Coq: coq, Key: fmt.Sprintf("first-use-%d-%d-%d", it, tasks, per), Nontrivial: true, OracleOK: ok, Note: note, Sig: sig,
			Replay: map[string]any{"tasks": tasks, "messages_each": per, "group_kind": kind, "counters": sorted, "stored_counter": fin, "sends_repeated_after_first_use": early}})
	}
	// ---- a datastore write that fails during a send: the send may fail, but the envelopes that ARE
	// returned still carry pairwise distinct, gap-free counters and the stored counter follows them ----
	nFault := vharness.Budget(40, 800)
	for it := 0; it < nFault; it++ {
		kind := it % 3
		c0 := rng.Intn(3)
		w := c09new(t, kind, c0, false, rng.Int63())
		w.ds.stress = true // no controlled scheduler here; the seeded delays are harmless in a sequential run
		sends := 4 + rng.Intn(5)
		w.ds.failPut = 1 + rng.Intn(2*sends) // every send writes the next message key and the chain key
		refused := 0
		for j := 0; j < sends; j++ {
			e, err := w.store.SealEnvelope(ctx, w.g, vPayload(uint64(j), 4))
			if err != nil {
				refused++
				continue
			}
			w.envs = append(w.envs, e)
		}
		cs := w.counters(t)
		fin := w.finalCtr()
		ok, sig, note := oracle(uint64(c0), cs, fin, w.ds.decreased)
		if note != "" {
			note = fmt.Sprintf("%d sends, the write of %s failed once (%d sends refused): %s", sends, w.ds.failed, refused, note)
		}
		sorted := append([]uint64(nil), cs...)
		sort.Slice(sorted, func(i, j int) bool { return sorted[i] < sorted[j] })
		coq := fmt.Sprintf("CStress %d %d %s %d", c0, len(cs), vharness.Ns(sorted), fin)
		out.Emit(vharness.Case{Kind: "write-fault", Coq: coq, Key: fmt.Sprintf("fault-%d-%d-%s", it, sends, w.ds.failed), Nontrivial: w.ds.failed != "", OracleOK: ok, Note: note, Sig: sig,
			Replay: map[string]any{"sends": sends, "failed_write": w.ds.failed, "refused": refused, "counters": sorted, "stored_counter": fin}})
	}
	// ---- several groups of one store: the account group and the contact groups of an account share
	// the device key; every group keeps its own chain and its own gap-free run of counters ----
	nMulti := vharness.Budget(6, 100)
	for it := 0; it < nMulti; it++ {
		w := c09new(t, 1, 0, it%2 == 1, rng.Int63()) // the account group of a fresh store
		groups := []*protocoltypes.Group{w.g, vGroup(t, 2, w.store), vGroup(t, 2, w.store), vGroup(t, 0, w.store)}
		for _, g := range groups[1:] {
			if err := w.store.PutGroup(ctx, g); err != nil {
				t.Fatal(err)
			}
		}
		per := 3 + rng.Intn(5)
		envs := make([][][]byte, len(groups))
		var mu sync.Mutex
		seal := func(gi, k int) {
			e, err := w.store.SealEnvelope(ctx, groups[gi], vPayload(uint64(gi*1000+k), 4))
			if err != nil {
				return
			}
			mu.Lock()
			envs[gi] = append(envs[gi], e)
			mu.Unlock()
		}
		if it%2 == 0 {
			// sequential, round robin over the groups
			for k := 0; k < per; k++ {
				for gi := range groups {
					seal(gi, k)
				}
			}
		} else {
			var wg sync.WaitGroup
			for gi := range groups {
				for s := 0; s < 2; s++ {
					wg.Add(1)
					go func(gi, s int) {
						defer wg.Done()
						for k := 0; k < per; k++ {
							seal(gi, s*100+k)
						}
					}(gi, s)
				}
			}
			wg.Wait()
		}
		for gi, g := range groups {
			var cs []uint64
			for _, e := range envs[gi] {
				_, h, err := w.store.OpenEnvelopeHeaders(e, g)
				if err != nil {
					t.Fatal(err)
				}
				cs = append(cs, h.Counter)
			}
			md, _ := w.store.GetOwnMemberDeviceForGroup(g)
			gpk, _ := g.GetPubKey()
			fin := uint64(0)
			if ck, err := w.store.getDeviceChainKeyForGroupAndDevice(ctx, gpk, md.Device()); err == nil {
				fin = ck.Counter
			}
			ok, sig, note := oracle(0, cs, fin, "")
			if !ok {
				note = fmt.Sprintf("one store sealing on %d groups (group %d of them, type %v): %s", len(groups), gi, g.GroupType, note)
			}
			sorted := append([]uint64(nil), cs...)
			sort.Slice(sorted, func(i, j int) bool { return sorted[i] < sorted[j] })
			coq := fmt.Sprintf("CStress 0 %d %s %d", len(cs), vharness.Ns(sorted), fin)
			out.Emit(vharness.Case{Kind: "groups", Coq: coq, Key: fmt.Sprintf("groups-%d-%d", it, gi), Nontrivial: true, OracleOK: ok, Note: note, Sig: sig})
		}
	}
	t.Logf("C09 harness: %d cases", out.N)
}
