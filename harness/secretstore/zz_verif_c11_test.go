//go:build verif

package secretstore

import (
	datastore "github.com/ipfs/go-datastore"
	dssync "github.com/ipfs/go-datastore/sync"
	crand "crypto/rand"
	"sync"
	"fmt"
	"testing"

	"github.com/libp2p/go-libp2p/core/crypto"
	cryptopb "github.com/libp2p/go-libp2p/core/crypto/pb"
	"google.golang.org/protobuf/proto"

	"berty.tech/weshnet/v2/internal/vharness"
	"berty.tech/weshnet/v2/pkg/protocoltypes"
)

type c11canon struct{ seen map[string]int }

func (c *c11canon) id(b []byte) int {
	if i, ok := c.seen[string(b)]; ok {
		return i
	}
	i := len(c.seen)
	c.seen[string(b)] = i
	return i
}

func c11pub(k interface{ Raw() ([]byte, error) }) []byte { b, _ := k.Raw(); return b }

// op codes: 0 account, 1 proof, 2 contact(i,j), 5 member/device in contact group, 6 multi-member
// member/device (g), 9 account group pair, 10 export, 11 import from j (mode)
var c11scripts = [][][5]int{
	{{10, 0, 0, 0, 0}, {6, 1, 0, 0, 0}, {11, 1, 0, 0, 0}, {6, 1, 0, 0, 0}, {6, 0, 0, 0, 0}},
	{{10, 0, 0, 0, 0}, {11, 1, 0, 0, 0}, {6, 1, 0, 0, 0}, {6, 0, 0, 0, 0}, {6, 1, 0, 0, 0}},
	{{6, 1, 0, 1, 0}, {10, 0, 0, 0, 0}, {11, 1, 0, 0, 0}, {6, 1, 0, 1, 0}, {6, 0, 0, 1, 0}},
	{{1, 1, 0, 0, 0}, {10, 0, 0, 0, 0}, {11, 1, 0, 0, 0}, {6, 1, 0, 0, 0}},
	{{0, 1, 0, 0, 0}, {10, 0, 0, 0, 0}, {11, 1, 0, 0, 0}, {2, 1, 0, 0, 0}},
	{{10, 0, 0, 0, 0}, {2, 1, 0, 0, 0}, {11, 1, 0, 0, 0}, {2, 1, 0, 0, 0}, {2, 0, 1, 0, 0}},
	{{10, 0, 0, 0, 0}, {11, 1, 0, 0, 0}, {2, 1, 0, 0, 0}, {2, 0, 1, 0, 0}, {10, 1, 0, 0, 0}},
	{{10, 0, 0, 0, 0}, {11, 1, 0, 0, 1}, {10, 1, 0, 0, 0}, {11, 1, 0, 0, 2}},
	{{9, 1, 0, 0, 0}, {10, 0, 0, 0, 0}, {11, 1, 0, 0, 0}},
	{{5, 1, 0, 0, 0}, {10, 0, 0, 0, 0}, {11, 1, 0, 0, 0}, {5, 1, 0, 0, 0}},
}

func TestVerifC11(t *testing.T) {
	out := vharness.Open()
	defer out.Close()
	rng := vharness.Rng()
	nHist := vharness.Budget(400, 20000)

	groups := make([]*protocoltypes.Group, 4)
	for i := range groups {
		groups[i], _, _ = protocoltypes.NewGroupMultiMember()
	}
	_, rsaPub, _ := crypto.GenerateRSAKeyPair(2048, crand.Reader)
	_ = rsaPub
	rsaPriv, _, _ := crypto.GenerateRSAKeyPair(2048, crand.Reader)
	rsaBlob, _ := crypto.MarshalPrivateKey(rsaPriv)
	secpPriv, _, _ := crypto.GenerateSecp256k1Key(crand.Reader)
	secpBlob, _ := crypto.MarshalPrivateKey(secpPriv)
	edPriv, _, _ := crypto.GenerateEd25519Key(crand.Reader)
	edBlob, _ := crypto.MarshalPrivateKey(edPriv)
	// the SAME Ed25519 key in the other serialisation UnmarshalPrivateKey accepts (legacy 96 bytes:
	// seed | public | public): two equal keys that differ as bytes
	edRaw, _ := edPriv.Raw()
	edAlt, _ := proto.Marshal(&cryptopb.PrivateKey{Type: cryptopb.KeyType_Ed25519.Enum(), Data: append(append([]byte(nil), edRaw...), edRaw[32:]...)})
	if k, err := crypto.UnmarshalPrivateKey(edAlt); err != nil || !k.Equals(edPriv) {
		edAlt = edBlob // this libp2p no longer accepts the legacy form: nothing to try
	}

	for it := 0; it < nHist; it++ {
		nStores := 2 + rng.Intn(2)
		stores := make([]*secretStore, nStores)
		dss := make([]datastore.Batching, nStores)
		for i := range stores {
			dss[i] = dssync.MutexWrap(datastore.NewMapDatastore())
			stores[i], _ = newSecretStore(dss[i], nil)
		}
		restarts := 0
		type exp struct{ a, p []byte }
		lastExport := map[int]exp{}
		cn := &c11canon{seen: map[string]int{}}
		var ops, obs []string
		ok, note, sig := true, "", ""
		fail := func(s, n string) {
			if ok {
				ok, sig, note = false, s, n
			}
		}
		// property-level bookkeeping for the oracle
		accountOf := map[int][]byte{} // store -> account public key once observed
		contact := map[string][]byte{} // unordered pair of account keys -> group identity
		memberOf := map[string][]byte{} // proof key | group -> member key
		nontrivial := false
		// scripted histories first: every order of first use around an import (derive member key /
		// contact group before or after the import, cached vs recomputed)
		type spec struct{ x, i, j, g, mode int }
		var script []spec
		if it < len(c11scripts) {
			for _, q := range c11scripts[it] {
				script = append(script, spec{q[0], q[1], q[2], q[3], q[4]})
			}
		}
		n := 3 + rng.Intn(9)
		if script != nil {
			n = len(script)
		}
		for j := 0; j < n; j++ {
			sp := spec{rng.Intn(14), rng.Intn(nStores), rng.Intn(nStores), rng.Intn(len(groups)), rng.Intn(4)}
			if script != nil {
				sp = script[j]
			}
			i := sp.i
			// now and then the store is closed and opened again on the same datastore: whatever it keeps
			// in memory is gone, what it answers must not change (the model has no such operation: a
			// restart is invisible)
			if rng.Intn(4) == 0 {
				_ = stores[i].Close()
				ns, err := newSecretStore(dss[i], nil)
				if err != nil {
					t.Fatal(err)
				}
				stores[i] = ns
				restarts++
			}
			s := stores[i]
			switch x := sp.x; {
			case x < 1:
				k, err := s.GetAccountPrivateKey()
				ops = append(ops, fmt.Sprintf("WOp %d OAccount", i))
				if err != nil {
					obs = append(obs, "CRefused")
				} else {
					obs = append(obs, fmt.Sprintf("CKey %d", cn.id(c11pub(k.GetPublic()))))
					accountOf[i] = c11pub(k.GetPublic())
				}
			case x < 2:
				k, err := s.deviceKeystore.getAccountProofPrivateKey()
				ops = append(ops, fmt.Sprintf("WOp %d OProof", i))
				if err != nil {
					obs = append(obs, "CRefused")
				} else {
					obs = append(obs, fmt.Sprintf("CKey %d", cn.id(c11pub(k.GetPublic()))))
				}
			case x < 5: // contact group with another store's account
				jx := sp.j
				if jx == i {
					jx = (i + 1) % nStores
				}
				ok2, _ := stores[jx].GetAccountPrivateKey()
				accountOf[jx] = c11pub(ok2.GetPublic())
				g, err := s.GetGroupForContact(ok2.GetPublic())
				ops = append(ops, fmt.Sprintf("WContact %d %d", i, jx))
				if err != nil {
					obs = append(obs, "CRefused")
					fail("contact group derivation failed", err.Error())
				} else {
					ident := append(append(append([]byte(nil), g.PublicKey...), g.Secret...), byte(g.GroupType))
					obs = append(obs, fmt.Sprintf("CGroup %d", cn.id(ident)))
					own, _ := s.GetAccountPrivateKey()
					accountOf[i] = c11pub(own.GetPublic())
					a, b := string(accountOf[i]), string(accountOf[jx])
					if a > b {
						a, b = b, a
					}
					if prev, seen := contact[a+"|"+b]; seen && string(prev) != string(ident) {
						fail("the two sides (or two derivations) of a contact pair disagree on the contact group", fmt.Sprintf("stores %d and %d", i, jx))
					}
					for pair, other := range contact {
						if pair != a+"|"+b && string(other) == string(ident) {
							fail("different account pairs derive the same contact group", "")
						}
					}
					contact[a+"|"+b] = ident
					nontrivial = true
				}
			case x < 6: // member/device pair in a contact group
				jx := (i + 1) % nStores
				ok2, _ := stores[jx].GetAccountPrivateKey()
				accountOf[jx] = c11pub(ok2.GetPublic())
				g, err := s.GetGroupForContact(ok2.GetPublic())
				ops = append(ops, fmt.Sprintf("WMemberContact %d %d", i, jx))
				if err != nil {
					obs = append(obs, "CRefused")
					continue
				}
				md, err := s.GetOwnMemberDeviceForGroup(g)
				if err != nil {
					obs = append(obs, "CRefused")
				} else {
					obs = append(obs, fmt.Sprintf("CPair %d %d", cn.id(c11pub(md.Member())), cn.id(c11pub(md.Device()))))
				}
			case x < 9: // member/device pair in a multi-member group
				gi := sp.g
				md, err := s.GetOwnMemberDeviceForGroup(groups[gi])
				ops = append(ops, fmt.Sprintf("WOp %d (OMemberDevice GMulti %d)", i, 500000+gi))
				if err != nil {
					obs = append(obs, "CRefused")
					fail("member key derivation failed", err.Error())
				} else {
					m, d := c11pub(md.Member()), c11pub(md.Device())
					obs = append(obs, fmt.Sprintf("CPair %d %d", cn.id(m), cn.id(d)))
					pk, _ := s.deviceKeystore.getAccountProofPrivateKey()
					key := string(c11pub(pk.GetPublic())) + "|" + fmt.Sprint(gi)
					if prev, seen := memberOf[key]; seen && string(prev) != string(m) {
						fail("devices of one account derive different member keys for a group (or a cached key differs from the recomputed one)", fmt.Sprintf("store %d group %d", i, gi))
					}
					memberOf[key] = m
					nontrivial = true
				}
			case x < 10:
				g, md0, err := s.GetGroupForAccount()
				ops = append(ops, fmt.Sprintf("WOp %d (OMemberDevice GAccount 0)", i))
				if err != nil {
					obs = append(obs, "CRefused")
				} else {
					md, _ := s.GetOwnMemberDeviceForGroup(g)
					obs = append(obs, fmt.Sprintf("CPair %d %d", cn.id(c11pub(md.Member())), cn.id(c11pub(md.Device()))))
					_ = md0
				}
			case x < 11:
				a, p, err := s.ExportAccountKeysForBackup()
				ops = append(ops, fmt.Sprintf("WOp %d OExport", i))
				if err != nil {
					obs = append(obs, "CRefused")
				} else {
					ka, _ := crypto.UnmarshalPrivateKey(a)
					kp, _ := crypto.UnmarshalPrivateKey(p)
					obs = append(obs, fmt.Sprintf("CPair %d %d", cn.id(c11pub(ka.GetPublic())), cn.id(c11pub(kp.GetPublic()))))
					lastExport[i] = exp{a, p}
				}
			case x < 13: // import what another store exported (plain, swapped, or the same key twice)
				jx := sp.j
				e, has := lastExport[jx]
				mode := sp.mode
				if mode == 3 {
					mode = 0
				}
				ops = append(ops, fmt.Sprintf("WImportFrom %d %d %d", i, jx, mode))
				if !has {
					obs = append(obs, "CRefused")
					continue
				}
				a, p := e.a, e.p
				switch mode {
				case 1:
					a, p = e.p, e.a
				case 2:
					p = e.a
				}
				hadAccount, _ := s.deviceKeystore.keystore.Has(keyAccount)
				hadProof, _ := s.deviceKeystore.keystore.Has(keyAccountProof)
				err := s.ImportAccountKeys(a, p)
				if err != nil {
					obs = append(obs, "CRefused")
				} else {
					obs = append(obs, "CDone")
					if hadAccount || hadProof {
						fail("import accepted on a store that already has an account", fmt.Sprintf("store %d had account key=%v proof key=%v", i, hadAccount, hadProof))
					}
					if mode == 2 {
						fail("import accepted with equal account and proof keys", "")
					}
				}
				nontrivial = true
			default: // malformed blobs
				kinds := []struct {
					coq  string
					a, p []byte
				}{
					{"(OImport BEmpty (BKey (Fresh 7)))", nil, edBlob},
					{"(OImport (BKey (Fresh 7)) BEmpty)", edBlob, []byte{}},
					{"(OImport BGarbage (BKey (Fresh 7)))", []byte{1, 2, 3}, edBlob},
					{"(OImport BNotEd25519 (BKey (Fresh 7)))", rsaBlob, edBlob},
					{"(OImport (BKey (Fresh 7)) BNotEd25519)", edBlob, secpBlob},
					{"(OImport (BKey (Fresh 7)) (BKey (Fresh 7)))", edBlob, edAlt},
					{"(OImport (BKey (Fresh 7)) (BKey (Fresh 7)))", edAlt, edBlob},
				}
				kx := kinds[rng.Intn(len(kinds))]
				ops = append(ops, fmt.Sprintf("WOp %d %s", i, kx.coq))
				if err := s.ImportAccountKeys(kx.a, kx.p); err != nil {
					obs = append(obs, "CRefused")
				} else {
					obs = append(obs, "CDone")
					fail("malformed or non-Ed25519 key blob imported, or the same key as account and proof key", kx.coq)
				}
				nontrivial = true
			}
		}
		coq := fmt.Sprintf("CKeys %d %s %s", nStores, vharness.List(ops), vharness.List(obs))
		if note != "" && restarts > 0 {
			note += fmt.Sprintf(" (the stores were reopened on their datastores %d times during the history)", restarts)
		}
		out.Emit(vharness.Case{Kind: "history", Coq: coq, Key: coq, Nontrivial: nontrivial, OracleOK: ok, Note: note, Sig: sig, Replay: map[string]any{"ops": ops, "restarts": restarts}})
	}
	// ---- concurrent first use: several goroutines make the first use of the keys of a FRESH store at
	// the same moment (a service starts several of them); every one of them must be handed the keys
	// the store keeps: the account group, the exported account keys, the member and the device key
	// for a group, the contact group.  Decided by the oracle alone (the model is sequential).
	nConc := vharness.Budget(60, 2000)
	if vharness.Budget(1, 1) == 0 {
		nConc = 2
	}
	for it := 0; it < nConc; it++ {
		s, err := newInMemSecretStore(nil)
		if err != nil {
			t.Fatal(err)
		}
		g, _, _ := protocoltypes.NewGroupMultiMember()
		_, cpk, _ := crypto.GenerateEd25519Key(crand.Reader)
		const G = 8
		res := make([][]string, G)
		start := make(chan struct{})
		var wg sync.WaitGroup
		use := func(k int) []string {
			var out []string
			switch k % 4 {
			case 0:
				if ag, _, err := s.GetGroupForAccount(); err == nil {
					out = append(out, fmt.Sprintf("account-group %x %x", ag.PublicKey, ag.Secret))
				}
			case 1:
				if a, p, err := s.ExportAccountKeysForBackup(); err == nil {
					out = append(out, fmt.Sprintf("export %x %x", a, p))
				}
			case 2:
				if md, err := s.GetOwnMemberDeviceForGroup(g); err == nil {
					out = append(out, fmt.Sprintf("member %x", c11pub(md.Member())), fmt.Sprintf("device %x", c11pub(md.Device())))
				}
			case 3:
				if cg, err := s.GetGroupForContact(cpk); err == nil {
					out = append(out, fmt.Sprintf("contact-group %x %x", cg.PublicKey, cg.Secret))
				}
			}
			return out
		}
		for k := 0; k < G; k++ {
			wg.Add(1)
			go func(k int) {
				defer wg.Done()
				<-start
				res[k] = use(k)
			}(k)
		}
		close(start)
		wg.Wait()
		// what the store keeps, read afterwards
		kept := map[string]string{}
		for k := 0; k < 4; k++ {
			for _, line := range use(k) {
				var name string
				fmt.Sscanf(line, "%s", &name)
				kept[name] = line
			}
		}
		ok, note := true, ""
		for k := 0; k < G && ok; k++ {
			for _, line := range res[k] {
				var name string
				fmt.Sscanf(line, "%s", &name)
				if kept[name] != line {
					ok = false
					note = fmt.Sprintf("concurrent first use of a fresh store: a caller was handed another %s than the one the store keeps", name)
				}
			}
		}
		out.Emit(vharness.Case{Kind: "concurrent-first-use", Key: fmt.Sprintf("conc|%d", it), Nontrivial: true, OracleOK: ok, Note: note,
			Sig: "concurrent first use hands out keys the store does not keep"})
	}
	t.Logf("C11 harness: %d cases", out.N)
}
