//go:build verif

// C11, identities across a read that fails: a store derives its identities (account and proof key,
// device key, the group of a contact, member and device key of a multi-member group); then ONE read of
// its datastore fails with an error that is not "no such key" (a timeout, say) while the same
// derivations are asked for again - they may fail; then the datastore works again.  The identities
// obtained afterwards (and any obtained during the fault) must be the ones obtained before: a store must
// not turn into another account, or give a group another member, because one read failed.  Every read
// of the second pass is made to fail in turn.  Oracle only (the keystore model has no failing reads).
package secretstore

import (
	"context"
	"errors"
	"fmt"
	"sync"
	"testing"

	datastore "github.com/ipfs/go-datastore"
	dssync "github.com/ipfs/go-datastore/sync"

	"berty.tech/weshnet/v2/internal/vharness"
	"berty.tech/weshnet/v2/pkg/protocoltypes"
)

type c11faultDS struct {
	datastore.Batching
	mu     sync.Mutex
	reads  int
	failAt int // the read with this number fails (0: none)
}

var errC11Fault = errors.New("i/o timeout (injected)")

func (d *c11faultDS) hit() bool {
	d.mu.Lock()
	defer d.mu.Unlock()
	d.reads++
	return d.failAt > 0 && d.reads == d.failAt
}

func (d *c11faultDS) Get(ctx context.Context, k datastore.Key) ([]byte, error) {
	if d.hit() {
		return nil, errC11Fault
	}
	return d.Batching.Get(ctx, k)
}

func (d *c11faultDS) Has(ctx context.Context, k datastore.Key) (bool, error) {
	if d.hit() {
		return false, errC11Fault
	}
	return d.Batching.Has(ctx, k)
}

func (d *c11faultDS) GetSize(ctx context.Context, k datastore.Key) (int, error) {
	if d.hit() {
		return 0, errC11Fault
	}
	return d.Batching.GetSize(ctx, k)
}

type c11identities struct {
	account, proof, contactGroup, member, device, accDevice string
}

func c11derive(s *secretStore, other interface{ Raw() ([]byte, error) }, otherPK any, mm *protocoltypes.Group) (id c11identities, errs []string) {
	note := func(what string, err error) {
		if err != nil {
			errs = append(errs, what+": "+err.Error())
		}
	}
	if sk, err := s.GetAccountPrivateKey(); err == nil {
		id.account = string(c11pub(sk.GetPublic()))
	} else {
		note("account key", err)
	}
	if a, p, err := s.ExportAccountKeysForBackup(); err == nil {
		id.proof = string(a) + "|" + string(p)
	} else {
		note("export", err)
	}
	if md, err := s.GetOwnMemberDeviceForGroup(mm); err == nil {
		id.member, id.device = string(c11pub(md.Member())), string(c11pub(md.Device()))
	} else {
		note("member/device of a multi-member group", err)
	}
	if g, _, err := s.GetGroupForAccount(); err == nil {
		if md, err := s.GetOwnMemberDeviceForGroup(g); err == nil {
			id.accDevice = string(c11pub(md.Device()))
		} else {
			note("device of the account group", err)
		}
	} else {
		note("account group", err)
	}
	return
}

func TestVerifC11Fault(t *testing.T) {
	out := vharness.Open()
	defer out.Close()
	rounds := vharness.Budget(4, 40)
	for round := 0; round < rounds; round++ {
		imported := round%2 == 0
		mm, _, err := protocoltypes.NewGroupMultiMember()
		if err != nil {
			t.Fatal(err)
		}
		acc := vNewAccount(t)
		otherStore, _ := newInMemSecretStore(nil)
		otherSK, _ := otherStore.GetAccountPrivateKey()
		// how many reads does the second pass make?  measure on a store of its own
		probe := func(failAt int) (before, during, after c11identities, contactBefore, contactDuring, contactAfter string, duringErrs []string, reads int) {
			ds := &c11faultDS{Batching: dssync.MutexWrap(datastore.NewMapDatastore())}
			s, err := newSecretStore(ds, nil)
			if err != nil {
				t.Fatal(err)
			}
			if imported {
				if err := s.ImportAccountKeys(acc.sk, acc.proofSK); err != nil {
					t.Fatal(err)
				}
			}
			contact := func() string {
				g, err := s.GetGroupForContact(otherSK.GetPublic())
				if err != nil {
					return ""
				}
				return string(g.PublicKey)
			}
			before, _ = c11derive(s, nil, nil, mm)
			contactBefore = contact()
			ds.mu.Lock()
			ds.reads, ds.failAt = 0, failAt
			ds.mu.Unlock()
			during, duringErrs = c11derive(s, nil, nil, mm)
			contactDuring = contact()
			ds.mu.Lock()
			reads = ds.reads
			ds.failAt = 0
			ds.mu.Unlock()
			after, _ = c11derive(s, nil, nil, mm)
			contactAfter = contact()
			return
		}
		_, _, _, _, _, _, _, nreads := probe(0)
		for failAt := 1; failAt <= nreads; failAt++ {
			b, d, a, cb, cd, ca, derrs, _ := probe(failAt)
			ok, note := true, ""
			cmp := func(what, x, y, when string) {
				if ok && y != "" && x != y {
					ok = false
					note = fmt.Sprintf("%s %s read number %d of the second pass failed (errors returned during it: %v) differs from the one obtained before", what, when, failAt, derrs)
				}
			}
			for _, w := range []struct{ when string; x c11identities; c string }{{"obtained while", d, cd}, {"obtained after", a, ca}} {
				cmp("the account key", b.account, w.x.account, w.when)
				cmp("the exported account and proof keys", b.proof, w.x.proof, w.when)
				cmp("the member key of the multi-member group", b.member, w.x.member, w.when)
				cmp("the device key of the multi-member group", b.device, w.x.device, w.when)
				cmp("the device key of the account group", b.accDevice, w.x.accDevice, w.when)
				cmp("the group of the contact", cb, w.c, w.when)
			}
			if ok && (a.account == "" || a.member == "" || ca == "") {
				ok, note = false, fmt.Sprintf("after the failed read number %d the store no longer gives its identities", failAt)
			}
			out.Emit(vharness.Case{Kind: "read-fault", Key: fmt.Sprintf("fault|%d|%d", round, failAt), Nontrivial: true, OracleOK: ok, Note: note,
				Sig:    "identity changed after a failed read",
				Replay: map[string]any{"account_keys_imported": imported, "failing_read_of_second_pass": failAt, "errors_during": derrs}})
		}
	}
}
