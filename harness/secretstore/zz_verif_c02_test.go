//go:build verif

package secretstore

import (
	"bytes"
	"context"
	"fmt"
	"testing"

	"google.golang.org/protobuf/proto"

	"berty.tech/weshnet/v2/internal/vharness"
)

type c02op struct {
	kind string // reg, open, known
	d    int
	n    int // reg: counter c; open: k
}

func (o c02op) coq() string {
	switch o.kind {
	case "reg":
		return fmt.Sprintf("RReg %d %d", o.d, o.n)
	case "open":
		return fmt.Sprintf("ROpen %d %d %d", o.d, o.n, o.d*100000+o.n)
	default:
		return fmt.Sprintf("RKnown %d", o.d)
	}
}

func TestVerifC02(t *testing.T) {
	ctx := context.Background()
	out := vharness.Open()
	defer out.Close()
	rng := vharness.Rng()
	acc := vNewAccount(t)

	sameDeviceMode := false
	run := func(kindName string, w, n, nSenders int, gen func(senders int, n int) []c02op, count int) {
		g := vGroup(t, rng.Intn(3), acc.store(t, w))
		recv0 := acc.store(t, w)
		md, err := recv0.GetOwnMemberDeviceForGroup(g)
		if err != nil {
			t.Fatal(err)
		}
		var senders []*vSender
		if sameDeviceMode {
			// ONE sender device (another device of the receiver's account) on several account/contact
			// groups, where the device key is the same everywhere: each (device, group) stream is one
			// "sender" of the model
			sd := acc.store(t, w)
			for i := 0; i < nSenders; i++ {
				gi := vGroup(t, 1+i%2, recv0)
				if i >= 2 {
					gi = vGroup(t, 2, recv0)
				}
				mdi, err := recv0.GetOwnMemberDeviceForGroup(gi)
				if err != nil {
					t.Fatal(err)
				}
				senders = append(senders, vSenderWith(t, ctx, sd, gi, mdi.Member(), n, uint64(i+1)*100000))
			}
		} else {
			for i := 0; i < nSenders; i++ {
				senders = append(senders, vNewSender(t, ctx, g, md.Member(), n, uint64(i+1)*100000))
			}
		}
		for it := 0; it < count; it++ {
			ops := gen(nSenders, n)
			recv := acc.store(t, w)
			// oracle state per sender
			type ost struct {
				reg    bool
				c      int
				opened map[int]bool
			}
			or := make([]ost, nSenders)
			for i := range or {
				or[i].opened = map[int]bool{}
			}
			var obs, opsCoq []string
			ok, note := true, ""
			nontrivial := false
			for _, o := range ops {
				opsCoq = append(opsCoq, o.coq())
				s := senders[o.d]
				switch o.kind {
				case "reg":
					err := recv.RegisterChainKey(ctx, s.g, s.dev, s.ann[o.n])
					if err != nil {
						obs = append(obs, "OFail")
						ok, note = false, fmt.Sprintf("RegisterChainKey failed: %v", err)
					} else {
						obs = append(obs, "ODone")
					}
					if !or[o.d].reg {
						or[o.d].reg, or[o.d].c = true, o.n
					} else {
						nontrivial = true
					}
				case "open":
					env, hdr, err := recv.OpenEnvelopeHeaders(s.env[o.n], s.g)
					if err != nil {
						obs = append(obs, "OFail")
						ok, note = false, fmt.Sprintf("OpenEnvelopeHeaders failed: %v", err)
						continue
					}
					sgpk, _ := s.g.GetPubKey()
					ownDev := md.Device()
					if smd, err := recv.GetOwnMemberDeviceForGroup(s.g); err == nil {
						ownDev = smd.Device()
					}
					msg, err := recv.OpenEnvelopePayload(ctx, env, hdr, sgpk, ownDev, s.cids[o.n])
					st := &or[o.d]
					want := st.reg && (st.opened[o.n] || (o.n > st.c && o.n <= st.c+w+len(st.opened)))
					if err != nil {
						obs = append(obs, "OFail")
						nontrivial = true
						if want {
							ok, note = false, fmt.Sprintf("message %d of sender %d should be openable (c=%d, W=%d, opened=%d) but failed: %v", o.n, o.d, st.c, w, len(st.opened), err)
						}
					} else {
						obs = append(obs, fmt.Sprintf("OOk %d", o.d*100000+o.n))
						got, _ := proto.Marshal(msg)
						if !bytes.Equal(got, s.pay[o.n]) {
							ok, note = false, fmt.Sprintf("message %d of sender %d opened to a different payload", o.n, o.d)
						}
						if !want {
							ok, note = false, fmt.Sprintf("message %d of sender %d opened although not openable (registered=%v c=%d W=%d opened=%d)", o.n, o.d, st.reg, st.c, w, len(st.opened))
						}
						if st.opened[o.n] {
							nontrivial = true
						}
						st.opened[o.n] = true
					}
				case "known":
					sgpk, _ := s.g.GetPubKey()
					k := recv.IsChainKeyKnownForDevice(ctx, sgpk, s.dev)
					obs = append(obs, "OBool "+vharness.Bool(k))
					if k != or[o.d].reg {
						ok, note = false, "IsChainKeyKnownForDevice disagrees with registration history"
					}
				}
			}
			coq := fmt.Sprintf("CRatchet %d %s %s", w, vharness.List(opsCoq), vharness.List(obs))
			out.Emit(vharness.Case{Kind: kindName, Coq: coq, Key: coq, Nontrivial: nontrivial, OracleOK: ok, Note: note,
				Sig: ""})
		}
	}

	randomGen := func(maxLen int, regBias int) func(int, int) []c02op {
		return func(ns, n int) []c02op {
			l := 1 + rng.Intn(maxLen)
			var ops []c02op
			for i := 0; i < l; i++ {
				d := rng.Intn(ns)
				switch r := rng.Intn(10); {
				case r < regBias:
					ops = append(ops, c02op{"reg", d, rng.Intn(n + 1)})
				case r == 9:
					ops = append(ops, c02op{"known", d, 0})
				default:
					ops = append(ops, c02op{"open", d, 1 + rng.Intn(n)})
				}
			}
			return ops
		}
	}
	// permutation-with-repetition style: register early, then shuffled deliveries with retries
	permGen := func(retries int) func(int, int) []c02op {
		return func(ns, n int) []c02op {
			var ops []c02op
			for d := 0; d < ns; d++ {
				c := rng.Intn(n/2 + 1)
				ops = append(ops, c02op{"reg", d, c})
			}
			var del []c02op
			for r := 0; r < retries; r++ {
				for d := 0; d < ns; d++ {
					for k := 1; k <= n; k++ {
						del = append(del, c02op{"open", d, k})
					}
				}
			}
			rng.Shuffle(len(del), func(i, j int) { del[i], del[j] = del[j], del[i] })
			// re-deliver an announcement somewhere
			pos := rng.Intn(len(del) + 1)
			del = append(del[:pos], append([]c02op{{"reg", rng.Intn(ns), rng.Intn(n + 1)}}, del[pos:]...)...)
			return append(ops, del...)
		}
	}

	q := vharness.Budget(1, 12)
	for w := 1; w <= 4; w++ {
		run("small-window-random", w, 7, 1+rng.Intn(2), randomGen(14, 2), 60*q)
		run("small-window-perm", w, 6, 1+rng.Intn(2), permGen(3), 25*q)
	}
	// the same sender device on several account/contact groups of the receiver's account
	sameDeviceMode = true
	for w := 1; w <= 3; w++ {
		run("one-device-several-groups-random", w, 6, 2+rng.Intn(2), randomGen(16, 2), 30*q)
		run("one-device-several-groups-perm", w, 5, 2, permGen(2), 10*q)
	}
	sameDeviceMode = false
	run("default-window-random", 100, 300, 2, randomGen(120, 1), 6*q)
	run("default-window-perm", 100, 260, 1, permGen(2), 3*q)

	// exhaustive: all sequences up to length L over {open 1..n, reg 0..1} for one sender
	if vharness.Thorough() {
		for w := 1; w <= 2; w++ {
			alphabet := []c02op{{"open", 0, 1}, {"open", 0, 2}, {"open", 0, 3}, {"open", 0, 4}, {"reg", 0, 0}, {"reg", 0, 1}}
			L := 6
			total := 1
			for i := 0; i < L; i++ {
				total *= len(alphabet)
			}
			idx := 0
			run("exhaustive", w, 4, 1, func(ns, n int) []c02op {
				x := idx
				idx++
				ops := make([]c02op, L)
				for i := 0; i < L; i++ {
					ops[i] = alphabet[x%len(alphabet)]
					x /= len(alphabet)
				}
				return ops
			}, total)
		}
	}
	t.Logf("C02 harness: %d cases", out.N)
}
