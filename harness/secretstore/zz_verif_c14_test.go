//go:build verif

package secretstore

import (
	"bytes"
	"context"
	"fmt"
	"testing"

	"google.golang.org/protobuf/proto"

	"berty.tech/weshnet/v2/internal/vharness"
	"berty.tech/weshnet/v2/pkg/protocoltypes"
)

func TestVerifC14(t *testing.T) {
	ctx := context.Background()
	out := vharness.Open()
	defer out.Close()
	rng := vharness.Rng()

	// ---- reference window bookkeeping, incl. uint64 wrap-around at both ends ----
	nWin := vharness.Budget(40, 1500)
	for i := 0; i < nWin; i++ {
		nr := []int{1, 2, 3, 5, 100}[rng.Intn(5)]
		var first uint64
		switch rng.Intn(5) {
		case 0:
			first = uint64(rng.Intn(2*nr + 2)) // below N: first-N wraps
		case 1:
			first = ^uint64(0) - uint64(rng.Intn(2*nr+2)) // near 2^64: first+N wraps
		case 2:
			first = uint64(nr)
		default:
			first = uint64(rng.Int63())
		}
		s, err := newInMemSecretStore(&NewSecretStoreOptions{PrecomputeOutOfStoreGroupRefsCount: nr})
		if err != nil {
			t.Fatal(err)
		}
		g, _, _ := protocoltypes.NewGroupMultiMember()
		dev := bytes.Repeat([]byte{7}, 32)
		if err := s.UpdateOutOfStoreGroupReferences(ctx, dev, first, g); err != nil {
			t.Fatal(err)
		}
		var probes []string
		ok, note := true, ""
		inWindow := 0
		for _, off := range []int64{-int64(nr) - 2, -int64(nr) - 1, -int64(nr), -int64(nr) + 1, -1, 0, 1, int64(nr) - 1, int64(nr), int64(nr) + 1} {
			k := first + uint64(off)
			ref, _ := createOutOfStoreGroupReference(g, dev, k)
			_, err := s.OutOfStoreGetGroupPublicKeyByGroupReference(ctx, ref)
			probes = append(probes, fmt.Sprintf("(%d, %s)", k, vharness.Bool(err == nil)))
			want := off >= -int64(nr) && off < int64(nr)
			if (err == nil) != want {
				ok, note = false, fmt.Sprintf("reference of counter first%+d (first=%d, N=%d) stored=%v, expected %v", off, first, nr, err == nil, want)
			}
			if err == nil {
				inWindow++
			}
		}
		coq := fmt.Sprintf("CWindow %d %d %s", nr, first, vharness.List(probes))
		out.Emit(vharness.Case{Kind: "window", Coq: coq, Key: coq, Nontrivial: first < uint64(nr) || first > ^uint64(0)-uint64(nr), OracleOK: ok, Note: note, Sig: "reference window wrong"})
	}

	// ---- sessions mixing log delivery and push delivery ----
	nSess := vharness.Budget(150, 6000)
	for it := 0; it < nSess; it++ {
		W := 1 + rng.Intn(3)
		nr := 1 + rng.Intn(4)
		if it%10 == 9 {
			W, nr = 100, 100
		}
		nMsg := 6
		if W == 100 {
			nMsg = 40
		}
		kind := it % 3
		acc := vNewAccount(t)
		mk := func() *secretStore {
			s, err := newInMemSecretStore(&NewSecretStoreOptions{PreComputedKeysCount: W, PrecomputeOutOfStoreGroupRefsCount: nr})
			if err != nil {
				t.Fatal(err)
			}
			_ = s.ImportAccountKeys(acc.sk, acc.proofSK)
			return s
		}
		r := mk()
		g := vGroup(t, kind, r)
		if err := r.PutGroup(ctx, g); err != nil {
			t.Fatal(err)
		}
		rmd, _ := r.GetOwnMemberDeviceForGroup(g)
		_ = g
		nSenders := 1 + rng.Intn(2)
		var senders []*vSender
		var pushes [][][]byte
		// every fourth session on account / contact groups: ONE sender device (another device of the
		// receiver's account) on SEVERAL groups of that account - the account group and contact groups,
		// where the device key is the same everywhere; each (device, group) stream is one "sender" of the model
		sameDevice := it%4 == 3 && kind != 0
		var sameStore *secretStore
		if sameDevice {
			nSenders = 2 + rng.Intn(2)
			sameStore = mk()
		}
		for d := 0; d < nSenders; d++ {
			var s *vSender
			if sameDevice {
				gd := vGroup(t, 1+(d+kind)%2, r) // account group / a contact group, alternating
				if d >= 2 {
					gd = vGroup(t, 2, r)
				}
				if err := r.PutGroup(ctx, gd); err != nil {
					t.Fatal(err)
				}
				s = vSenderWith(t, ctx, sameStore, gd, rmd.Member(), nMsg, uint64(d+1)*100000)
			} else {
				s = vNewSender(t, ctx, g, rmd.Member(), nMsg, uint64(d+1)*100000)
			}
			senders = append(senders, s)
			ps := [][]byte{nil}
			for k := 1; k <= nMsg; k++ {
				env, hdr, err := s.store.OpenEnvelopeHeaders(s.env[k], s.g)
				if err != nil {
					t.Fatal(err)
				}
				oe, err := s.store.SealOutOfStoreMessageEnvelope(s.cids[k], env, hdr, s.g)
				if err != nil {
					t.Fatal(err)
				}
				b, _ := proto.Marshal(oe)
				ps = append(ps, b)
			}
			pushes = append(pushes, ps)
		}
		type shadow struct {
			reg    bool
			c      int
			logged map[int]bool
			center int // last counter seen from that sender (window centre)
		}
		sh := make([]shadow, nSenders)
		for i := range sh {
			sh[i].logged = map[int]bool{}
		}
		var ops, obs []string
		ok, note, sig := true, "", ""
		fail := func(s, n string) {
			if ok {
				ok, sig, note = false, s, n
			}
		}
		nOps := 4 + rng.Intn(12)
		// every fifth session starts at the edge of the precomputed keys: the key is registered at c, the
		// push of message c+W is opened (which derives key c+W+1 ahead of the chain key), the log then
		// delivers message c+W+1 BEFORE the older ones, and the push of that same message follows
		// (op kind, message index or announcement index)
		var script [][2]int
		if it%5 == 2 && W < 100 {
			c0 := rng.Intn(3)
			script = [][2]int{{0, c0}, {6, c0 + W}, {2, c0 + W + 1}, {6, c0 + W + 1}}
			if nOps < len(script)+2 {
				nOps = len(script) + 2
			}
		}
		for j := 0; j < nOps; j++ {
			d := rng.Intn(nSenders)
			k := 1 + rng.Intn(nMsg)
			x := rng.Intn(12)
			c := rng.Intn(3)
			if j < len(script) {
				d, x = 0, script[j][0]
				if x == 0 {
					c = script[j][1]
				} else {
					k = script[j][1]
				}
			}
			s := senders[d]
			cidNum := (d+1)*100000 + k
			switch {
			case x < 2:
				err := r.RegisterChainKey(ctx, s.g, s.dev, s.ann[c])
				ops = append(ops, fmt.Sprintf("PReg %d %d", d+1, c))
				obs = append(obs, "PDone")
				if err != nil {
					fail("registration failed", err.Error())
				}
				if !sh[d].reg {
					sh[d].reg, sh[d].c, sh[d].center = true, c, c+W
				}
			case x < 6:
				ops = append(ops, fmt.Sprintf("PLog %d %d %d", d+1, k, cidNum))
				env, hdr, err := r.OpenEnvelopeHeaders(s.env[k], s.g)
				if err != nil {
					t.Fatal(err)
				}
				sgpk, _ := s.g.GetPubKey()
				msg, err := r.OpenEnvelopePayload(ctx, env, hdr, sgpk, rmd.Device(), s.cids[k])
				want := sh[d].reg && (sh[d].logged[k] || (k > sh[d].c && k <= sh[d].c+W+len(sh[d].logged)))
				if err != nil {
					obs = append(obs, "PFail")
					if want {
						fail("push delivery prevented a later log delivery", fmt.Sprintf("message %d of sender %d is openable through the log (c=%d W=%d opened=%d) but failed after the session's pushes: %v", k, d+1, sh[d].c, W, len(sh[d].logged), err))
					}
				} else {
					// MessageStore moves the reference window after a log delivery
					_ = r.UpdateOutOfStoreGroupReferences(ctx, s.devRaw, hdr.Counter, s.g)
					b, _ := proto.Marshal(msg)
					if !bytes.Equal(b, s.pay[k]) {
						fail("wrong payload", "log delivery returned a different payload")
					}
					obs = append(obs, fmt.Sprintf("PLogOk %d", cidNum))
					sh[d].logged[k] = true
					sh[d].center = k
				}
			case x < 10:
				ops = append(ops, fmt.Sprintf("PPush %d %d %d", d+1, k, cidNum))
				oosMsg, grp, clear, already, err := r.OpenOutOfStoreMessage(ctx, pushes[d][k])
				inWindow := sh[d].reg && k < sh[d].center+nr && k+nr >= sh[d].center
				openable := sh[d].reg && (sh[d].logged[k] || (k > sh[d].c && k <= sh[d].c+W+len(sh[d].logged)))
				if err != nil {
					obs = append(obs, "PFail")
					if inWindow && openable {
						fail("push payload of an openable message within the reference window rejected", fmt.Sprintf("push of message %d of sender %d (registered at %d, window %d, %d delivered, last counter seen %d, %d references each side): %v", k, d+1, sh[d].c, W, len(sh[d].logged), sh[d].center, nr, err))
					}
				} else {
					sh[d].center = k
					obs = append(obs, fmt.Sprintf("POk %d %s", cidNum, vharness.Bool(already)))
					if !bytes.Equal(clear, s.pay[k]) || oosMsg.Counter != uint64(k) || !bytes.Equal(oosMsg.DevicePk, s.devRaw) || !bytes.Equal(grp.PublicKey, s.g.PublicKey) {
						fail("push payload opened to the wrong message", fmt.Sprintf("push of message %d of sender %d: payload/sender/counter/group differ from the original", k, d+1))
					}
					if already != sh[d].logged[k] {
						fail("AlreadyReceived flag is not truthful", fmt.Sprintf("push of message %d of sender %d reports alreadyReceived=%v, log delivered=%v", k, d+1, already, sh[d].logged[k]))
					}
				}
			case x < 11:
				// altered payload: flip one bit
				ops = append(ops, fmt.Sprintf("PPushBad %d %d %d", d+1, k, cidNum))
				m := append([]byte(nil), pushes[d][k]...)
				bit := rng.Intn(len(m) * 8)
				m[bit/8] ^= 1 << (bit % 8)
				_, _, _, _, err := r.OpenOutOfStoreMessage(ctx, m)
				if err == nil {
					obs = append(obs, "POk 0 false")
					fail("altered push payload accepted", fmt.Sprintf("bit %d flipped", bit))
				} else {
					obs = append(obs, "PFail")
				}
			default:
				// unknown group reference: a push payload of another group
				ops = append(ops, fmt.Sprintf("PPushBad %d %d %d", d+1, k, cidNum))
				g2, _, _ := protocoltypes.NewGroupMultiMember()
				env, hdr, _ := s.store.OpenEnvelopeHeaders(s.env[k], s.g)
				oe, _ := s.store.SealOutOfStoreMessageEnvelope(s.cids[k], env, hdr, g2)
				b, _ := proto.Marshal(oe)
				if _, _, _, _, err := r.OpenOutOfStoreMessage(ctx, b); err == nil {
					obs = append(obs, "POk 0 false")
					fail("push with an unknown group reference accepted", "")
				} else {
					obs = append(obs, "PFail")
				}
			}
		}
		coq := fmt.Sprintf("CPush %d %d %s %s", W, nr, vharness.List(ops), vharness.List(obs))
		sk := "session"
		if sameDevice {
			sk = "session-one-device-several-groups"
		}
		out.Emit(vharness.Case{Kind: sk, Coq: coq, Key: coq, Nontrivial: true, OracleOK: ok, Note: note, Sig: sig})
	}
	t.Logf("C14 harness: %d cases", out.N)
}
