//go:build verif

package secretstore

import (
	"context"
	"fmt"
	"testing"

	"github.com/ipfs/go-cid"
	"github.com/ipfs/go-datastore"
	dssync "github.com/ipfs/go-datastore/sync"
	"github.com/libp2p/go-libp2p/core/crypto"
	mh "github.com/multiformats/go-multihash"
	"google.golang.org/protobuf/proto"

	"berty.tech/weshnet/v2/pkg/protocoltypes"
)

// vAccount is a fixed account (exported keys) so that fresh stores of the same account can
// be created cheaply (same member key in every group).
type vAccount struct{ sk, proofSK []byte }

func vNewAccount(t testing.TB) *vAccount {
	s, err := newInMemSecretStore(nil)
	if err != nil {
		t.Fatal(err)
	}
	a, b, err := s.ExportAccountKeysForBackup()
	if err != nil {
		t.Fatal(err)
	}
	return &vAccount{a, b}
}

func (a *vAccount) storeOn(t testing.TB, ds datastore.Datastore, w int) *secretStore {
	s, err := newSecretStore(ds, &NewSecretStoreOptions{PreComputedKeysCount: w})
	if err != nil {
		t.Fatal(err)
	}
	if err := s.ImportAccountKeys(a.sk, a.proofSK); err != nil {
		// keys already present on this datastore (restart): fine
		_ = err
	}
	return s
}

func (a *vAccount) store(t testing.TB, w int) *secretStore {
	return a.storeOn(t, dssync.MutexWrap(datastore.NewMapDatastore()), w)
}

func vCID(b []byte) cid.Cid {
	h, err := mh.Sum(b, mh.SHA2_256, -1)
	if err != nil {
		panic(err)
	}
	return cid.NewCidV1(cid.Raw, h)
}

func vPayload(id uint64, size int) []byte {
	p := make([]byte, size)
	for i := range p {
		p[i] = byte(id*31 + uint64(i)*7)
	}
	b, _ := proto.Marshal(&protocoltypes.EncryptedMessage{Plaintext: append([]byte(fmt.Sprintf("msg-%d-", id)), p...)})
	return b
}

// vSender is a sending device with its prepared material: announcements made for the
// receiver after c seals (c = 0..n) and the envelopes 1..n.
type vSender struct {
	store  *secretStore
	dev    crypto.PubKey
	devRaw []byte
	ann    [][]byte // ann[c]
	env    [][]byte // env[k], k>=1 (env[0] unused)
	pay    [][]byte
	cids   []cid.Cid
	g      *protocoltypes.Group // the group this stream of messages was sealed for
}

func vNewSender(t testing.TB, ctx context.Context, g *protocoltypes.Group, recvMember crypto.PubKey, n int, idBase uint64) *vSender {
	s, err := newInMemSecretStore(nil)
	if err != nil {
		t.Fatal(err)
	}
	return vSenderWith(t, ctx, s, g, recvMember, n, idBase)
}

// vSenderWith: the messages and announcements of the device of store s on group g (the same store can
// be used for several groups: on account and contact groups the device key is the same everywhere)
func vSenderWith(t testing.TB, ctx context.Context, s *secretStore, g *protocoltypes.Group, recvMember crypto.PubKey, n int, idBase uint64) *vSender {
	md, err := s.GetOwnMemberDeviceForGroup(g)
	if err != nil {
		t.Fatal(err)
	}
	v := &vSender{store: s, dev: md.Device(), g: g}
	v.devRaw, _ = v.dev.Raw()
	v.env = [][]byte{nil}
	v.pay = [][]byte{nil}
	v.cids = []cid.Cid{cid.Undef}
	for c := 0; c <= n; c++ {
		a, err := s.GetShareableChainKey(ctx, g, recvMember)
		if err != nil {
			t.Fatal(err)
		}
		v.ann = append(v.ann, a)
		if c == n {
			break
		}
		p := vPayload(idBase+uint64(c+1), (c*13)%40)
		e, err := s.SealEnvelope(ctx, g, p)
		if err != nil {
			t.Fatal(err)
		}
		v.env = append(v.env, e)
		v.pay = append(v.pay, p)
		v.cids = append(v.cids, vCID(e))
	}
	return v
}

func vGroup(t testing.TB, kind int, acc *secretStore) *protocoltypes.Group {
	switch kind {
	case 0:
		g, _, err := protocoltypes.NewGroupMultiMember()
		if err != nil {
			t.Fatal(err)
		}
		return g
	case 1:
		g, _, err := acc.GetGroupForAccount()
		if err != nil {
			t.Fatal(err)
		}
		return g
	default:
		other, _ := newInMemSecretStore(nil)
		opk, _ := other.GetAccountPrivateKey()
		g, err := acc.GetGroupForContact(opk.GetPublic())
		if err != nil {
			t.Fatal(err)
		}
		return g
	}
}
