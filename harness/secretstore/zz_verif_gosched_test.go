//go:build verif

package secretstore

import "runtime"

func runtimeGosched() { runtime.Gosched() }
