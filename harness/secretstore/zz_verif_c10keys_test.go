//go:build verif

// C10, named keys: the names the keystore writes, in order, while a store is used for the first time
// (the group of a kind is obtained, its member/device pair is asked for, the account keys are exported),
// compared with the model's sequence of puts (Model.C10_Keys.names_written): the states a stop can
// leave behind ([kstates]) are the states between these puts.
package secretstore

import (
	"fmt"
	"strings"
	"testing"

	"berty.tech/weshnet/v2/internal/vharness"
)

func TestVerifC10Keys(t *testing.T) {
	out := vharness.Open()
	defer out.Close()
	rounds := vharness.Budget(12, 60)
	for fi := 0; fi < rounds; fi++ {
		kind := fi % 3
		imported := (fi/3)%2 == 0
		acc := vNewAccount(t)
		rec := c10newDS()
		r, err := newSecretStore(rec, &NewSecretStoreOptions{PreComputedKeysCount: 2, PrecomputeOutOfStoreGroupRefsCount: 2})
		if err != nil {
			t.Fatal(err)
		}
		if imported {
			if err := r.ImportAccountKeys(acc.sk, acc.proofSK); err != nil {
				t.Fatal(err)
			}
		}
		from := len(rec.log)
		g := vGroup(t, kind, r)
		if _, err := r.GetOwnMemberDeviceForGroup(g); err != nil {
			t.Fatal(err)
		}
		if _, _, err := r.ExportAccountKeysForBackup(); err != nil {
			t.Fatal(err)
		}
		var names []string
		other := 0
		for _, m := range rec.log[from:] {
			for _, kv := range m.kvs {
				k := kv.key
				base := k[strings.LastIndex(k, "/")+1:]
				switch {
				case base == "accountSK":
					names = append(names, "NAccount")
				case base == "accountProofSK":
					names = append(names, "NProof")
				case base == "deviceSK":
					names = append(names, "NDevice")
				case strings.HasPrefix(base, "memberDeviceSK_"):
					names = append(names, "NMemberDevice 7")
				case strings.HasPrefix(base, "memberSK_"):
					names = append(names, "NMember 7")
				case strings.HasPrefix(base, "contactGroupSK_"):
					names = append(names, "NContact 9")
				default:
					other++
				}
			}
		}
		coq := fmt.Sprintf("CKeyWrites %v %d %s", imported, kind, vharness.List(names))
		out.Emit(vharness.Case{Kind: "first-use-writes", Coq: coq, Key: fmt.Sprintf("%s#%d", coq, fi), Nontrivial: len(names) > 0, OracleOK: true,
			Note: fmt.Sprintf("%d keystore puts, %d other writes", len(names), other)})
	}
}
