//go:build verif

package handshake

import (
	"context"
	crand "crypto/rand"
	"fmt"
	"net"
	"testing"
	"time"

	p2pcrypto "github.com/libp2p/go-libp2p/core/crypto"
	"go.uber.org/zap"
	"golang.org/x/crypto/nacl/box"
	"google.golang.org/protobuf/proto"

	"berty.tech/weshnet/v2/internal/vharness"
	"berty.tech/weshnet/v2/pkg/cryptoutil"
	"berty.tech/weshnet/v2/pkg/protoio"
)

// the known low-order / non-canonical X25519 points (public-key encodings whose scalar
// multiplication by a clamped scalar is the all-zero secret)
var c06lowOrder = [][32]byte{
	{0},
	{1},
	{0xe0, 0xeb, 0x7a, 0x7c, 0x3b, 0x41, 0xb8, 0xae, 0x16, 0x56, 0xe3, 0xfa, 0xf1, 0x9f, 0xc4, 0x6a, 0xda, 0x09, 0x8d, 0xeb, 0x9c, 0x32, 0xb1, 0xfd, 0x86, 0x62, 0x05, 0x16, 0x5f, 0x49, 0xb8, 0x00},
	{0x5f, 0x9c, 0x95, 0xbc, 0xa3, 0x50, 0x8c, 0x24, 0xb1, 0xd0, 0xb1, 0x55, 0x9c, 0x83, 0xef, 0x5b, 0x04, 0x44, 0x5c, 0xc4, 0x58, 0x1c, 0x8e, 0x86, 0xd8, 0x22, 0x4e, 0xdd, 0xd0, 0x9f, 0x11, 0x57},
	{0xec, 0xff, 0xff, 0xff, 0xff, 0xff, 0xff, 0xff, 0xff, 0xff, 0xff, 0xff, 0xff, 0xff, 0xff, 0xff, 0xff, 0xff, 0xff, 0xff, 0xff, 0xff, 0xff, 0xff, 0xff, 0xff, 0xff, 0xff, 0xff, 0xff, 0xff, 0x7f},
	{0xed, 0xff, 0xff, 0xff, 0xff, 0xff, 0xff, 0xff, 0xff, 0xff, 0xff, 0xff, 0xff, 0xff, 0xff, 0xff, 0xff, 0xff, 0xff, 0xff, 0xff, 0xff, 0xff, 0xff, 0xff, 0xff, 0xff, 0xff, 0xff, 0xff, 0xff, 0x7f},
	{0xee, 0xff, 0xff, 0xff, 0xff, 0xff, 0xff, 0xff, 0xff, 0xff, 0xff, 0xff, 0xff, 0xff, 0xff, 0xff, 0xff, 0xff, 0xff, 0xff, 0xff, 0xff, 0xff, 0xff, 0xff, 0xff, 0xff, 0xff, 0xff, 0xff, 0xff, 0x7f},
	// the same points with the (ignored) top bit set
	{0, 0, 0, 0, 0, 0, 0, 0, 0, 0, 0, 0, 0, 0, 0, 0, 0, 0, 0, 0, 0, 0, 0, 0, 0, 0, 0, 0, 0, 0, 0, 0x80},
	{1, 0, 0, 0, 0, 0, 0, 0, 0, 0, 0, 0, 0, 0, 0, 0, 0, 0, 0, 0, 0, 0, 0, 0, 0, 0, 0, 0, 0, 0, 0, 0x80},
	{0xe0, 0xeb, 0x7a, 0x7c, 0x3b, 0x41, 0xb8, 0xae, 0x16, 0x56, 0xe3, 0xfa, 0xf1, 0x9f, 0xc4, 0x6a, 0xda, 0x09, 0x8d, 0xeb, 0x9c, 0x32, 0xb1, 0xfd, 0x86, 0x62, 0x05, 0x16, 0x5f, 0x49, 0xb8, 0x80},
	{0x5f, 0x9c, 0x95, 0xbc, 0xa3, 0x50, 0x8c, 0x24, 0xb1, 0xd0, 0xb1, 0x55, 0x9c, 0x83, 0xef, 0x5b, 0x04, 0x44, 0x5c, 0xc4, 0x58, 0x1c, 0x8e, 0x86, 0xd8, 0x22, 0x4e, 0xdd, 0xd0, 0x9f, 0x11, 0xd7},
	{0xec, 0xff, 0xff, 0xff, 0xff, 0xff, 0xff, 0xff, 0xff, 0xff, 0xff, 0xff, 0xff, 0xff, 0xff, 0xff, 0xff, 0xff, 0xff, 0xff, 0xff, 0xff, 0xff, 0xff, 0xff, 0xff, 0xff, 0xff, 0xff, 0xff, 0xff, 0xff},
}

type c06end struct {
	conn net.Conn
	r    protoio.Reader
	w    protoio.Writer
}

func c06pipe() (*c06end, *c06end) {
	a, b := net.Pipe()
	_ = a.SetDeadline(time.Now().Add(5 * time.Second))
	_ = b.SetDeadline(time.Now().Add(5 * time.Second))
	return &c06end{a, protoio.NewDelimitedReader(a, 2048), protoio.NewDelimitedWriter(a)},
		&c06end{b, protoio.NewDelimitedReader(b, 2048), protoio.NewDelimitedWriter(b)}
}

// a transport that hands over at most n bytes per Read (a frame split across segments)
type c06chunked struct {
	net.Conn
	n int
}

func (c c06chunked) Read(p []byte) (int, error) {
	if len(p) > c.n {
		p = p[:c.n]
	}
	return c.Conn.Read(p)
}

func c06pipeChunked(n int) (*c06end, *c06end) {
	a, b := net.Pipe()
	_ = a.SetDeadline(time.Now().Add(5 * time.Second))
	_ = b.SetDeadline(time.Now().Add(5 * time.Second))
	return &c06end{a, protoio.NewDelimitedReader(c06chunked{a, n}, 2048), protoio.NewDelimitedWriter(a)},
		&c06end{b, protoio.NewDelimitedReader(c06chunked{b, n}, 2048), protoio.NewDelimitedWriter(b)}
}

type c06resp struct {
	pk  p2pcrypto.PubKey
	err error
}

func c06startResponder(own p2pcrypto.PrivKey, e *c06end) chan c06resp {
	ch := make(chan c06resp, 1)
	go func() {
		pk, err := ResponseUsingReaderWriter(context.Background(), zap.NewNop(), e.r, e.w, own)
		e.conn.Close()
		ch <- c06resp{pk, err}
	}()
	return ch
}

func c06startRequester(own p2pcrypto.PrivKey, target p2pcrypto.PubKey, e *c06end) chan error {
	ch := make(chan error, 1)
	go func() {
		err := RequestUsingReaderWriter(context.Background(), zap.NewNop(), e.r, e.w, own, target)
		if err != nil {
			e.conn.Close()
		}
		ch <- err
	}()
	return ch
}

func c06key() p2pcrypto.PrivKey { k, _, _ := p2pcrypto.GenerateEd25519Key(crand.Reader); return k }

func c06boxKey(s1, s2 *[32]byte) *[32]byte { return cryptoutil.ConcatAndHashSha256(s1[:], s2[:]) }

func c06pre(pub, priv *[32]byte) *[32]byte { var s [32]byte; box.Precompute(&s, pub, priv); return &s }

func c06arr(b []byte) *[32]byte { var a [32]byte; copy(a[:], b); return &a }

func TestVerifC06(t *testing.T) {
	out := vharness.Open()
	defer out.Close()
	rng := vharness.Rng()
	chk := "handshake_validates_peer_ephemeral"
	rounds := vharness.Budget(3, 60)
	eph := uint64(0)
	fresh := func() uint64 { eph++; return eph }
	optN := func(pk p2pcrypto.PubKey, table map[string]uint64) string {
		if pk == nil {
			return "None"
		}
		raw, _ := pk.Raw()
		if id, ok := table[string(raw)]; ok {
			return fmt.Sprintf("(Some %d)", id)
		}
		return "(Some 9999)"
	}

	for round := 0; round < rounds; round++ {
		A, B, B2, E := c06key(), c06key(), c06key(), c06key()
		ids := map[string]uint64{}
		for i, k := range []p2pcrypto.PrivKey{A, B, B2, E} {
			raw, _ := k.GetPublic().Raw()
			ids[string(raw)] = uint64(1001 + i)
		}
		emit := func(kind, coq string, ok bool, sig, note string) {
			out.Emit(vharness.Case{Kind: kind, Coq: coq, Key: fmt.Sprintf("%s#%d", coq, round), Nontrivial: kind != "honest", OracleOK: ok, Note: note, Sig: sig})
		}
		// oracle for the responder: it reports an account key only if that key's owner proved possession in
		// this session; in these scripts the honest owner of A never talks to this responder except in "honest"
		respOracle := func(kind string, res c06resp, aParticipates bool) (bool, string, string) {
			if res.pk != nil {
				raw, _ := res.pk.Raw()
				if ids[string(raw)] == 1001 && !aParticipates {
					return false, "responder reports an account key whose owner did not take part in the session", kind + ": the responder returned A's key to an attacker who only holds material from another session"
				}
			}
			return true, "", ""
		}

		// ---- honest run, and wrong target ----
		for _, target := range []p2pcrypto.PrivKey{B, B2} {
			e1, e2 := c06pipe()
			rc := c06startResponder(B, e2)
			qc := c06startRequester(A, target.GetPublic(), e1)
			qerr := <-qc
			res := <-rc
			e1.conn.Close()
			a, b := fresh(), fresh()
			tid := uint64(1002)
			if target == B2 {
				tid = 1003
			}
			ok, sig, note := true, "", ""
			if target == B && (qerr != nil || res.pk == nil || !res.pk.Equals(A.GetPublic())) {
				ok, sig, note = false, "honest handshake does not complete", fmt.Sprintf("requester err=%v responder err=%v", qerr, res.err)
			}
			if target == B2 && (qerr == nil || res.pk != nil) {
				ok, sig, note = false, "handshake succeeds although the requester targeted another account", ""
			}
			emit("honest", fmt.Sprintf("CHonest %s 1001 %d %d 1002 %d %s %s", chk, a, tid, b, vharness.Bool(qerr == nil), optN(res.pk, ids)), ok, sig, note)
		}

		// ---- honest run over a transport that delivers every frame in pieces ----
		for _, n := range []int{1, 3, 16, 40} {
			e1, e2 := c06pipeChunked(n)
			rc := c06startResponder(B, e2)
			qc := c06startRequester(A, B.GetPublic(), e1)
			qerr := <-qc
			res := <-rc
			e1.conn.Close()
			a, b := fresh(), fresh()
			ok, sig, note := true, "", ""
			if qerr != nil || res.pk == nil || !res.pk.Equals(A.GetPublic()) {
				ok, sig, note = false, "honest handshake does not complete", fmt.Sprintf("transport hands over at most %d bytes per read: requester err=%v responder err=%v", n, qerr, res.err)
			}
			emit("honest", fmt.Sprintf("CHonest %s 1001 %d 1002 1002 %d %s %s", chk, a, b, vharness.Bool(qerr == nil), optN(res.pk, ids)), ok, sig, note)
		}

		// ---- record an honest session A -> B (frames on the wire) for replays ----
		var recHelloA, recAuth, recHelloB, recAccept []byte
		{
			e1, e2 := c06pipe()
			m1, m2 := c06pipe() // attacker relays and records
			rc := c06startResponder(B, m2)
			qc := c06startRequester(A, B.GetPublic(), e1)
			go func() { // requester -> responder
				var h HelloPayload
				if e2.r.ReadMsg(&h) == nil {
					recHelloA = h.EphemeralPubKey
					_ = m1.w.WriteMsg(&h)
				}
				var bx BoxEnvelope
				if e2.r.ReadMsg(&bx) == nil {
					recAuth = bx.Box
					_ = m1.w.WriteMsg(&bx)
				}
				var ack RequesterAcknowledgePayload
				if e2.r.ReadMsg(&ack) == nil {
					_ = m1.w.WriteMsg(&ack)
				}
			}()
			go func() { // responder -> requester
				var h HelloPayload
				if m1.r.ReadMsg(&h) == nil {
					recHelloB = h.EphemeralPubKey
					_ = e2.w.WriteMsg(&h)
				}
				var bx BoxEnvelope
				if m1.r.ReadMsg(&bx) == nil {
					recAccept = bx.Box
					_ = e2.w.WriteMsg(&bx)
				}
			}()
			<-qc
			<-rc
			e1.conn.Close()
			m1.conn.Close()
		}
		aOld, bOld := fresh(), fresh()

		// ---- attacks on the responder B ----
		type respAttack struct {
			name  string
			hello []byte
			symX  string
			frame func(bPub *[32]byte) ([]byte, string) // auth frame bytes + symbolic frame, given B's ephemeral
			ack   *bool
			oversize bool
		}
		tr, fa := true, false
		xPub, xPriv, _ := box.GenerateKey(crand.Reader)
		xID := fresh()
		bMont, _ := cryptoutil.EdwardsToMontgomeryPub(B.GetPublic())
		authPayload := func(acct p2pcrypto.PubKey, sig []byte) []byte {
			id, _ := p2pcrypto.MarshalPublicKey(acct)
			b, _ := proto.Marshal(&RequesterAuthenticatePayload{RequesterAccountId: id, RequesterAccountSig: sig})
			return b
		}
		sealAuth := func(key *[32]byte, payload []byte) []byte {
			return box.SealAfterPrecomputation(nil, payload, &nonceRequesterAuthenticate, key)
		}
		rsaKey, _, _ := p2pcrypto.GenerateRSAKeyPair(2048, crand.Reader)
		secpKey, _, _ := p2pcrypto.GenerateSecp256k1Key(crand.Reader)

		// proof-of-A over the all-zero secret: obtained by playing responder E towards the honest requester A
		// with a low-order ephemeral key (A is a legitimate party of that recorded session: it wanted to reach E)
		zeroProof := func(low [32]byte) []byte {
			e1, e2 := c06pipe()
			qc := c06startRequester(A, E.GetPublic(), e1)
			defer func() { e2.conn.Close(); <-qc }()
			var h HelloPayload
			if e2.r.ReadMsg(&h) != nil {
				return nil
			}
			if e2.w.WriteMsg(&HelloPayload{EphemeralPubKey: low[:]}) != nil {
				return nil
			}
			var bx BoxEnvelope
			if e2.r.ReadMsg(&bx) != nil {
				return nil
			}
			// key = sha256(zero-secret | dh(a, E)); the attacker knows E's private key
			eMont, _ := cryptoutil.EdwardsToMontgomeryPriv(E)
			key := c06boxKey(c06pre(&low, eMont), c06pre(c06arr(h.EphemeralPubKey), eMont))
			plain, ok := box.OpenAfterPrecomputation(nil, bx.Box, &nonceRequesterAuthenticate, key)
			if !ok {
				return nil
			}
			var p RequesterAuthenticatePayload
			if proto.Unmarshal(plain, &p) != nil {
				return nil
			}
			return p.RequesterAccountSig
		}

		var attacks []respAttack
		for li, low := range c06lowOrder {
			low := low
			attacks = append(attacks, respAttack{
				name: fmt.Sprintf("low-order hello #%d + proof of A replayed from a session A had with the attacker", li), hello: low[:], symX: "LowOrder",
				frame: func(bPub *[32]byte) ([]byte, string) {
					sig := zeroProof(low)
					if sig == nil {
						return []byte{1, 2, 3}, "AuthJunk"
					}
					key := c06boxKey(c06pre(&low, xPriv), c06pre(&low, xPriv))
					return sealAuth(key, authPayload(A.GetPublic(), sig)), "(AuthF Zero Zero 1 1001 Ed25519 1001 Zero)"
				}, ack: &tr})
		}
		honestFrame := func(acct p2pcrypto.PrivKey, acctID uint64, kt string) func(bPub *[32]byte) ([]byte, string) {
			return func(bPub *[32]byte) ([]byte, string) {
				shared := c06pre(bPub, xPriv)
				key := c06boxKey(shared, c06pre(bMont, xPriv))
				sig, _ := acct.Sign(shared[:])
				return sealAuth(key, authPayload(acct.GetPublic(), sig)), fmt.Sprintf("(AuthF (dh %d (Pt B_EPH)) (dh %d (Pt 1002)) 1 %d %s %d (dh %d (Pt B_EPH)))", xID, xID, acctID, kt, acctID, xID)
			}
		}
		attacks = append(attacks,
			respAttack{name: "replay of A's recorded hello and authenticate frame", hello: recHelloA, symX: fmt.Sprintf("(Pt %d)", aOld),
				frame: func(*[32]byte) ([]byte, string) {
					return recAuth, fmt.Sprintf("(AuthF (dh %d (Pt %d)) (dh %d (Pt 1002)) 1 1001 Ed25519 1001 (dh %d (Pt %d)))", aOld, bOld, aOld, aOld, bOld)
				}, ack: &tr},
			respAttack{name: "attacker's own ephemeral, replayed authenticate frame of A", hello: xPub[:], symX: fmt.Sprintf("(Pt %d)", xID),
				frame: func(*[32]byte) ([]byte, string) {
					return recAuth, fmt.Sprintf("(AuthF (dh %d (Pt %d)) (dh %d (Pt 1002)) 1 1001 Ed25519 1001 (dh %d (Pt %d)))", aOld, bOld, aOld, aOld, bOld)
				}, ack: &tr},
			respAttack{name: "reflection of the recorded accept frame as authenticate frame", hello: xPub[:], symX: fmt.Sprintf("(Pt %d)", xID),
				frame: func(*[32]byte) ([]byte, string) { return recAccept, "AuthJunk" }, ack: &tr},
			respAttack{name: "attacker completes with its own account, then negative acknowledge", hello: xPub[:], symX: fmt.Sprintf("(Pt %d)", xID),
				frame: honestFrame(E, 1004, "Ed25519"), ack: &fa},
			respAttack{name: "attacker completes with its own account, no acknowledge", hello: xPub[:], symX: fmt.Sprintf("(Pt %d)", xID),
				frame: honestFrame(E, 1004, "Ed25519"), ack: nil},
			respAttack{name: "RSA identity key", hello: xPub[:], symX: fmt.Sprintf("(Pt %d)", xID),
				frame: honestFrame(rsaKey, 1005, "OtherKeyType"), ack: &tr},
			respAttack{name: "secp256k1 identity key", hello: xPub[:], symX: fmt.Sprintf("(Pt %d)", xID),
				frame: honestFrame(secpKey, 1006, "OtherKeyType"), ack: &tr},
			respAttack{name: "claims A's key with the attacker's signature", hello: xPub[:], symX: fmt.Sprintf("(Pt %d)", xID),
				frame: func(bPub *[32]byte) ([]byte, string) {
					shared := c06pre(bPub, xPriv)
					key := c06boxKey(shared, c06pre(bMont, xPriv))
					sig, _ := E.Sign(shared[:])
					return sealAuth(key, authPayload(A.GetPublic(), sig)), fmt.Sprintf("(AuthF (dh %d (Pt B_EPH)) (dh %d (Pt 1002)) 1 1001 Ed25519 1004 (dh %d (Pt B_EPH)))", xID, xID, xID)
				}, ack: &tr},
			respAttack{name: "claims A's key with A's signature from the recorded session", hello: xPub[:], symX: fmt.Sprintf("(Pt %d)", xID),
				frame: func(bPub *[32]byte) ([]byte, string) {
					shared := c06pre(bPub, xPriv)
					key := c06boxKey(shared, c06pre(bMont, xPriv))
					// the attacker cannot open A's recorded frame; it signs nothing: empty signature
					return sealAuth(key, authPayload(A.GetPublic(), nil)), fmt.Sprintf("(AuthF (dh %d (Pt B_EPH)) (dh %d (Pt 1002)) 1 1001 Ed25519 0 Zero)", xID, xID)
				}, ack: &tr},
			respAttack{name: "truncated authenticate frame", hello: xPub[:], symX: fmt.Sprintf("(Pt %d)", xID),
				frame: func(bPub *[32]byte) ([]byte, string) { f, _ := honestFrame(E, 1004, "Ed25519")(bPub); return f[:len(f)/2], "AuthJunk" }, ack: &tr},
			respAttack{name: "oversize authenticate frame (> 2048)", hello: xPub[:], symX: fmt.Sprintf("(Pt %d)", xID),
				frame: func(bPub *[32]byte) ([]byte, string) { return make([]byte, 4096), "AuthJunk" }, ack: &tr, oversize: true},
			respAttack{name: "short hello (31 bytes)", hello: xPub[:31], symX: "JUNKHELLO",
				frame: func(bPub *[32]byte) ([]byte, string) { return nil, "AuthJunk" }, ack: &tr},
		)
		// bit flips of an otherwise valid authenticate frame
		for k := 0; k < vharness.Budget(12, 200); k++ {
			bit := rng.Intn(8 * 100)
			attacks = append(attacks, respAttack{name: fmt.Sprintf("bit %d of a valid authenticate frame flipped", bit), hello: xPub[:], symX: fmt.Sprintf("(Pt %d)", xID),
				frame: func(bPub *[32]byte) ([]byte, string) {
					f, _ := honestFrame(E, 1004, "Ed25519")(bPub)
					f = append([]byte(nil), f...)
					f[(bit/8)%len(f)] ^= 1 << (bit % 8)
					return f, "AuthJunk"
				}, ack: &tr})
		}

		for _, at := range attacks {
			e1, e2 := c06pipe()
			rc := c06startResponder(B, e2)
			b := fresh()
			symF := "AuthJunk"
			func() {
				defer e1.conn.Close()
				if e1.w.WriteMsg(&HelloPayload{EphemeralPubKey: at.hello}) != nil {
					return
				}
				var h HelloPayload
				if e1.r.ReadMsg(&h) != nil || len(h.EphemeralPubKey) != 32 {
					return
				}
				fb, sym := at.frame(c06arr(h.EphemeralPubKey))
				symF = sym
				if e1.w.WriteMsg(&BoxEnvelope{Box: fb}) != nil {
					return
				}
				var acc BoxEnvelope
				if e1.r.ReadMsg(&acc) != nil {
					return
				}
				if at.ack != nil {
					_ = e1.w.WriteMsg(&RequesterAcknowledgePayload{Success: *at.ack})
				}
			}()
			res := <-rc
			ok, sig, note := respOracle(at.name, res, false)
			ack := "None"
			if at.ack != nil {
				ack = fmt.Sprintf("(Some %s)", vharness.Bool(*at.ack))
			}
			symX := at.symX
			if symX == "JUNKHELLO" {
				// a hello that is not 32 bytes long never yields a key: same as a junk frame on any point
				symX, symF = fmt.Sprintf("(Pt %d)", xID), "AuthJunk"
			}
			coq := fmt.Sprintf("CResp %s 1002 %d %s %s %s %s", chk, b, symX, replaceB(symF, b), ack, optN(res.pk, ids))
			emit("responder-attack", coq, ok, sig, note)
		}

		// ---- live relay (splice): the honest requester A runs its handshake towards ANOTHER account (B2);
		// an attacker in the middle, holding no account key at all, hands A's frames to the honest responder
		// B, swallows B's accept frame and writes the (plaintext) acknowledge itself.  B must not report A:
		// A's authenticate box is keyed for the account A asked for
		for _, rsp := range []struct {
			key p2pcrypto.PrivKey
			id  uint64
			who string
		}{{B, 1002, "the responder B"}, {A, 1001, "the requester's own responder (reflection)"}} {
			e1, e2 := c06pipe()
			m1, m2 := c06pipe()
			rc := c06startResponder(rsp.key, m2)
			qc := c06startRequester(A, B2.GetPublic(), e1)
			go func() { // requester -> responder, then the forged acknowledge
				var h HelloPayload
				if e2.r.ReadMsg(&h) != nil || m1.w.WriteMsg(&h) != nil {
					return
				}
				var bx BoxEnvelope
				if e2.r.ReadMsg(&bx) != nil || m1.w.WriteMsg(&bx) != nil {
					return
				}
				_ = m1.w.WriteMsg(&RequesterAcknowledgePayload{Success: true})
			}()
			go func() { // responder -> requester: the hello is forwarded, the accept frame is swallowed
				var h HelloPayload
				if m1.r.ReadMsg(&h) != nil || e2.w.WriteMsg(&h) != nil {
					return
				}
				var bx BoxEnvelope
				_ = m1.r.ReadMsg(&bx)
			}()
			res := <-rc
			e2.conn.Close()
			m1.conn.Close()
			<-qc
			e1.conn.Close()
			a, b := fresh(), fresh()
			ok, sig, note := true, "", ""
			if res.pk != nil {
				ok, sig = false, "responder reports an account key whose owner did not take part in the session"
				note = "live relay: " + rsp.who + " reports the key of a requester that was running its handshake towards another account (B2); the attacker in the middle holds no account key"
			}
			frame := fmt.Sprintf("(AuthF (dh %d (Pt %d)) (dh %d (Pt 1003)) 1 1001 Ed25519 1001 (dh %d (Pt %d)))", a, b, a, a, b)
			emit("responder-attack", fmt.Sprintf("CResp %s %d %d (Pt %d) %s (Some true) %s", chk, rsp.id, b, a, frame, optN(res.pk, ids)), ok, sig, note)
		}

		// ---- attacks on the requester A (targets B) ----
		type reqAttack struct {
			name  string
			hello []byte
			symY  string
			frame func(aPub *[32]byte) ([]byte, string)
		}
		aMontPub, _ := cryptoutil.EdwardsToMontgomeryPub(A.GetPublic())
		eMontPriv, _ := cryptoutil.EdwardsToMontgomeryPriv(E)
		var rattacks []reqAttack
		for li, low := range c06lowOrder {
			low := low
			rattacks = append(rattacks, reqAttack{name: fmt.Sprintf("low-order hello #%d from the responder side", li), hello: low[:], symY: "LowOrder",
				frame: func(*[32]byte) ([]byte, string) { return []byte{9, 9, 9}, "AccJunk" }})
		}
		rattacks = append(rattacks,
			reqAttack{name: "responder is the attacker with its own account key", hello: xPub[:], symY: fmt.Sprintf("(Pt %d)", xID),
				frame: func(aPub *[32]byte) ([]byte, string) {
					shared := c06pre(aPub, xPriv)
					key := c06boxKey(shared, c06pre(aMontPub, eMontPriv))
					sig, _ := E.Sign(shared[:])
					pl, _ := proto.Marshal(&ResponderAcceptPayload{ResponderAccountSig: sig})
					return box.SealAfterPrecomputation(nil, pl, &nonceResponderAccept, key),
						fmt.Sprintf("(AccF (dh %d (Pt A_EPH)) (dh 1004 (Pt 1001)) 2 1004 (dh %d (Pt A_EPH)))", xID, xID)
				}},
			reqAttack{name: "replay of B's recorded hello and accept frame", hello: recHelloB, symY: fmt.Sprintf("(Pt %d)", bOld),
				frame: func(*[32]byte) ([]byte, string) {
					return recAccept, fmt.Sprintf("(AccF (dh %d (Pt %d)) (dh 1001 (Pt 1002)) 2 1002 (dh %d (Pt %d)))", aOld, bOld, aOld, bOld)
				}},
			reqAttack{name: "attacker's ephemeral, replayed accept frame of B", hello: xPub[:], symY: fmt.Sprintf("(Pt %d)", xID),
				frame: func(*[32]byte) ([]byte, string) {
					return recAccept, fmt.Sprintf("(AccF (dh %d (Pt %d)) (dh 1001 (Pt 1002)) 2 1002 (dh %d (Pt %d)))", aOld, bOld, aOld, bOld)
				}},
			reqAttack{name: "reflection of the requester's own authenticate frame", hello: xPub[:], symY: fmt.Sprintf("(Pt %d)", xID),
				frame: func(*[32]byte) ([]byte, string) { return nil, "REFLECT" }},
		)
		for _, at := range rattacks {
			e1, e2 := c06pipe()
			qc := c06startRequester(A, B.GetPublic(), e1)
			a := fresh()
			symG := "AccJunk"
			func() {
				defer e2.conn.Close()
				var h HelloPayload
				if e2.r.ReadMsg(&h) != nil {
					return
				}
				if e2.w.WriteMsg(&HelloPayload{EphemeralPubKey: at.hello}) != nil {
					return
				}
				var auth BoxEnvelope
				if e2.r.ReadMsg(&auth) != nil {
					return
				}
				fb, sym := at.frame(c06arr(h.EphemeralPubKey))
				if sym == "REFLECT" {
					fb, sym = auth.Box, "AccJunk"
				}
				symG = sym
				if e2.w.WriteMsg(&BoxEnvelope{Box: fb}) != nil {
					return
				}
				var ack RequesterAcknowledgePayload
				_ = e2.r.ReadMsg(&ack)
			}()
			qerr := <-qc
			e1.conn.Close()
			ok, sig, note := true, "", ""
			if qerr == nil {
				ok, sig = false, "requester succeeds although its peer does not hold the private key of the account it wanted to reach"
				note = at.name
			}
			coq := fmt.Sprintf("CReq %s 1001 %d 1002 %s %s %s", chk, a, at.symY, replaceA(symG, a), vharness.Bool(qerr == nil))
			emit("requester-attack", coq, ok, sig, note)
		}
	}
	t.Logf("C06 harness: %d cases", out.N)
}

func replaceB(s string, b uint64) string { return replaceAll(s, "B_EPH", fmt.Sprint(b)) }
func replaceA(s string, a uint64) string { return replaceAll(s, "A_EPH", fmt.Sprint(a)) }
func replaceAll(s, old, new string) string {
	for {
		i := indexOf(s, old)
		if i < 0 {
			return s
		}
		s = s[:i] + new + s[i+len(old):]
	}
}
func indexOf(s, sub string) int {
	for i := 0; i+len(sub) <= len(s); i++ {
		if s[i:i+len(sub)] == sub {
			return i
		}
	}
	return -1
}
