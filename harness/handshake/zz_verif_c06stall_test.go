//go:build verif

// C06, a peer that stops sending: the honest opposite role is put behind a gate that lets its first n
// frames through and then holds every further frame back, the stream staying open (no deadline on the
// transport, no cancellation by the caller).  The role under test must not report success while the
// frame it waits for has not come - however long the peer stays silent: it is observed for a stretch of
// time (12 s quick, 40 s thorough; all cases at once), after which the transport is torn down.  A role
// that is still waiting then, or that has returned an error, is what the model says; a success (for the
// responder: an account key) is a handshake that authenticated nobody.
package handshake

import (
	"context"
	"fmt"
	"io"
	"net"
	"sync"
	"testing"
	"time"

	p2pcrypto "github.com/libp2p/go-libp2p/core/crypto"
	"go.uber.org/zap"
	"google.golang.org/protobuf/proto"

	"berty.tech/weshnet/v2/internal/vharness"
	"berty.tech/weshnet/v2/pkg/protoio"
)

type c06gate struct {
	w     protoio.Writer
	n     int
	mu    sync.Mutex
	cnt   int
	block chan struct{}
}

func (g *c06gate) WriteMsg(m proto.Message) error {
	g.mu.Lock()
	k := g.cnt
	g.cnt++
	g.mu.Unlock()
	if k >= g.n {
		<-g.block
		return io.ErrClosedPipe
	}
	return g.w.WriteMsg(m)
}

func TestVerifC06Stall(t *testing.T) {
	out := vharness.Open()
	defer out.Close()
	watch := 12 * time.Second
	if vharness.Thorough() {
		watch = 40 * time.Second
	}
	type run struct {
		role    string // role under test
		sends   int    // frames the peer sends before it falls silent
		ids     [2]uint64
		reqDone chan error
		rspDone chan c06resp
		a, b    net.Conn
		gate    *c06gate
	}
	var runs []*run
	rounds := vharness.Budget(2, 6)
	for round := 0; round < rounds; round++ {
		for _, role := range []string{"requester", "responder"} {
			max := 2 // sends of a responder: hello, accept
			if role == "responder" {
				max = 3 // sends of a requester: hello, authenticate, acknowledge
			}
			for sends := 0; sends <= max; sends++ {
				A, B := c06key(), c06key()
				ca, cb := net.Pipe() // no deadline: the peer is silent, not gone
				ra, wa := protoio.NewDelimitedReader(ca, 2048), protoio.NewDelimitedWriter(ca)
				rb, wb := protoio.NewDelimitedReader(cb, 2048), protoio.NewDelimitedWriter(cb)
				r := &run{role: role, sends: sends, a: ca, b: cb, reqDone: make(chan error, 1), rspDone: make(chan c06resp, 1)}
				var reqW, rspW protoio.Writer = wa, wb
				r.gate = &c06gate{n: sends, block: make(chan struct{})}
				if role == "requester" {
					r.gate.w = wb
					rspW = r.gate
				} else {
					r.gate.w = wa
					reqW = r.gate
				}
				go func() {
					r.reqDone <- RequestUsingReaderWriter(context.Background(), zap.NewNop(), ra, reqW, A, B.GetPublic())
				}()
				go func() {
					pk, err := ResponseUsingReaderWriter(context.Background(), zap.NewNop(), rb, rspW, B)
					r.rspDone <- c06resp{pk, err}
				}()
				runs = append(runs, r)
			}
		}
	}
	time.Sleep(watch)
	for i, r := range runs {
		// 1001 = A (requester account), 1002 = B; ephemerals 1, 2
		coq, ok, note, sig := "", true, "", ""
		complete := (r.role == "requester" && r.sends == 2) || (r.role == "responder" && r.sends == 3)
		if r.role == "requester" {
			obs, state := false, "still waiting"
			select {
			case err := <-r.reqDone:
				obs, state = err == nil, fmt.Sprintf("returned %v", err)
			default:
			}
			coq = fmt.Sprintf("CStallReq true 1001 1 1002 2 %d %v", r.sends, obs)
			if obs && !complete {
				ok, sig = false, "handshake succeeded without authentication"
				note = fmt.Sprintf("the requester reports success although its peer sent only %d of its 2 frames and then stayed silent for %v with the stream open", r.sends, watch)
			} else if !obs && complete {
				ok, sig = false, "honest handshake fails"
				note = "the requester did not succeed against an honest responder: " + state
			} else {
				note = fmt.Sprintf("requester against a peer silent after %d frames: %s", r.sends, state)
			}
		} else {
			obs, state := "None", "still waiting"
			select {
			case x := <-r.rspDone:
				state = fmt.Sprintf("returned key=%v err=%v", x.pk != nil, x.err)
				if x.err == nil || x.pk != nil {
					obs = "(Some 1001)"
				}
			default:
			}
			coq = fmt.Sprintf("CStallResp true 1001 1 1002 2 %d %s", r.sends, obs)
			if obs != "None" && !complete {
				ok, sig = false, "handshake succeeded without authentication"
				note = fmt.Sprintf("the responder reports a peer (or no error) although the requester sent only %d of its 3 frames and then stayed silent for %v with the stream open: %s", r.sends, watch, state)
			} else if obs == "None" && complete {
				ok, sig = false, "honest handshake fails"
				note = "the responder did not complete against an honest requester: " + state
			} else {
				note = fmt.Sprintf("responder against a peer silent after %d frames: %s", r.sends, state)
			}
		}
		out.Emit(vharness.Case{Kind: "stalling-peer", Coq: coq, Key: fmt.Sprintf("%s#%d", coq, i), Nontrivial: !complete, OracleOK: ok, Note: note, Sig: sig,
			Replay: map[string]any{"role": r.role, "peer_frames_before_silence": r.sends, "watched_seconds": watch.Seconds()}})
		close(r.gate.block)
		r.a.Close()
		r.b.Close()
	}
	_ = p2pcrypto.Ed25519
}
