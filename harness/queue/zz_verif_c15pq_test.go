//go:build verif

// C15, several tasks on ONE priority queue: in the message store the registrar drains a device queue
// (NextAll, its callback feeding the message queue) while the consumer loop parks messages in it again
// (Add) and may take single items (Next).  The queue is instrumented at every mutex operation, the
// callback of NextAll contains a scheduling point of its own (a real callback takes the lock of another
// queue), and every schedule of small scenarios is explored on the real code.  Oracle: at the end what
// was queued or added is exactly what was handed out plus what is still queued (nothing lost, nothing
// twice), and every NextAll handed its items out in ascending counter order.  The model
// (Model.C15_Queue.pq_conc) replays the schedule with one atomic step per operation, the operations
// taken in the order in which the tasks passed the queue's lock.
package queue

import (
	"fmt"
	"sort"
	"strings"
	"testing"

	"berty.tech/weshnet/v2/internal/vharness"
	"berty.tech/weshnet/v2/internal/vsched"
)

type c15pqScenario struct {
	initial []uint64
	progs   [][]string // per task: "add N", "nextall", "next"
}

func TestVerifC15PQ(t *testing.T) {
	out := vharness.Open()
	defer out.Close()
	scenarios := []c15pqScenario{
		{[]uint64{3, 1, 2}, [][]string{{"nextall"}, {"add 10", "add 11"}}},
		{[]uint64{5, 4}, [][]string{{"nextall", "nextall"}, {"add 1", "add 9"}}},
		{[]uint64{2, 7, 3}, [][]string{{"nextall"}, {"add 1"}, {"next", "add 8"}}},
		{[]uint64{6}, [][]string{{"add 2", "nextall"}, {"add 4", "next"}}},
	}
	budget := vharness.Budget(400, 6000)
	for si, sc := range scenarios {
		sc := sc
		var pq *PriorityQueue[c15item]
		var handed [][]uint64 // per Next / NextAll, in the order in which they started handing out
		setup := func(c *vsched.Ctl) func(r *vsched.Run) {
			pq = NewPriorityQueue[c15item]("p", &noopTracer[c15item]{})
			for _, x := range sc.initial {
				pq.Add(c15item(x))
			}
			handed = nil
			for ti, prog := range sc.progs {
				ti, prog := ti, prog
				c.Spawn(fmt.Sprint(ti), func() string {
					for _, op := range prog {
						switch {
						case strings.HasPrefix(op, "add "):
							var x uint64
							fmt.Sscanf(op, "add %d", &x)
							pq.Add(c15item(x))
						case op == "nextall":
							idx := -1
							_ = pq.NextAll(func(it c15item) error {
								if idx < 0 {
									handed = append(handed, nil)
									idx = len(handed) - 1
								}
								// a real callback takes another lock here
								vsched.Yield("call", nil, fmt.Sprintf("cb:%d", ti))
								handed[idx] = append(handed[idx], uint64(it))
								return nil
							})
						case op == "next":
							// counters are >= 1: the zero value is "the queue was empty"
							if it := pq.Next(); it != 0 {
								handed = append(handed, []uint64{uint64(it)})
							}
						}
					}
					return ""
				})
			}
			return nil
		}
		order := map[string]int{}
		for ti := range sc.progs {
			order[fmt.Sprint(ti)] = ti
		}
		seen := map[string]bool{}
		n, exhausted := vsched.Explore(setup, order, 400, budget/len(scenarios), func(r vsched.Run) {
			key := strings.Join(r.Sched, ",")
			if seen[key] {
				return
			}
			seen[key] = true
			// terminal state: take what is left (no controller involved: this goroutine is not a controlled thread)
			var left []uint64
			for pq.Size() > 0 {
				left = append(left, uint64(pq.Next()))
			}
			want := append([]uint64{}, sc.initial...)
			for _, prog := range sc.progs {
				for _, op := range prog {
					var x uint64
					if _, err := fmt.Sscanf(op, "add %d", &x); err == nil {
						want = append(want, x)
					}
				}
			}
			var got []uint64
			for _, h := range handed {
				got = append(got, h...)
			}
			got = append(got, left...)
			sort.Slice(want, func(i, j int) bool { return want[i] < want[j] })
			sorted := append([]uint64{}, got...)
			sort.Slice(sorted, func(i, j int) bool { return sorted[i] < sorted[j] })
			ok, note, sig := true, "", ""
			done := true
			for _, st := range r.Final {
				if st.State != "done" {
					done = false
				}
			}
			switch {
			case r.Err != "":
				return // the schedule could not be replayed: no verdict
			case !done:
				ok, sig = false, "priority queue: a task never finishes"
				note = fmt.Sprintf("schedule %v ends with a task that cannot move: %v", r.Sched, r.Final)
			case fmt.Sprint(want) != fmt.Sprint(sorted):
				ok, sig = false, "priority queue lost or duplicated an item"
				note = fmt.Sprintf("queued or added %v, handed out %v and left %v (schedule %v)", want, handed, left, r.Sched)
			default:
				for _, h := range handed {
					if !sort.SliceIsSorted(h, func(i, j int) bool { return h[i] < h[j] }) {
						ok, sig = false, "priority queue did not yield the smallest counter"
						note = fmt.Sprintf("one NextAll handed out %v (schedule %v)", h, r.Sched)
					}
				}
			}
			// the model: one atomic step per operation, in the order in which the tasks passed the queue's lock
			var lin []string
			for i, lbl := range r.Passed {
				if strings.HasSuffix(lbl, ":lock") {
					lin = append(lin, r.Sched[i]+"%nat")
				}
			}
			var progs, hs []string
			for _, prog := range sc.progs {
				var ops []string
				for _, op := range prog {
					var x uint64
					switch {
					case op == "nextall":
						ops = append(ops, "PNextAll")
					case op == "next":
						ops = append(ops, "PNext")
					default:
						fmt.Sscanf(op, "add %d", &x)
						ops = append(ops, fmt.Sprintf("PAdd %d", x))
					}
				}
				progs = append(progs, vharness.List(ops))
			}
			for _, h := range handed {
				hs = append(hs, vharness.Ns(h))
			}
			coq := ""
			if done {
				coq = fmt.Sprintf("CPrioConc %s %s %s %s %s", vharness.Ns(sc.initial), vharness.List(progs), vharness.List(lin), vharness.List(hs), vharness.Ns(left))
			}
			out.Emit(vharness.Case{Kind: "priority-concurrent", Coq: coq, Key: fmt.Sprintf("%d|%s", si, key), Nontrivial: len(r.Sched) > 4, OracleOK: ok, Note: note, Sig: sig,
				Replay: map[string]any{"initial": sc.initial, "tasks": sc.progs, "schedule": r.Sched}})
		})
		t.Logf("scenario %d: %d schedules, exhausted=%v", si, n, exhausted)
	}
}
