//go:build verif

package queue

import (
	"time"
	"reflect"
	"context"
	"fmt"
	"sort"
	"strings"
	"testing"

	"berty.tech/weshnet/v2/internal/vharness"
	"berty.tech/weshnet/v2/internal/vsched"
)

type c15item uint64

func (c c15item) Counter() uint64 { return uint64(c) }

type c15scenario struct {
	items  [][]uint64
	want   int
	cancel bool
	// prePop: the consumer first calls Pop this many times (taking what is there, without blocking)
	// and only then waits; such scenarios mix the two ways of taking an item and are decided by the
	// oracle alone (the LTS of the model has no Pop step)
	prePop int
}

func (s c15scenario) coq() string {
	var ps []string
	for _, l := range s.items {
		ps = append(ps, vharness.Ns(l))
	}
	return fmt.Sprintf("%s %d %s", vharness.List(ps), s.want, vharness.Bool(s.cancel))
}

func c15code(st vsched.Status) uint64 {
	switch st.State {
	case "done":
		return 8
	case "blocked":
		return 7
	case "at":
		switch st.Kind {
		case "start":
			return 0
		case "lock":
			if st.Enabled {
				return 1
			}
			return 5
		case "unlock":
			return 2
		case "select":
			return 3
		}
	}
	return 9
}

type c15result struct {
	sched    []uint64
	obs      [][]uint64
	got      []string // consumer results as Coq option terms
	gotOK    []uint64
	finalQ   []uint64
	pushSeq  []uint64
	stuck    bool
	deadlock bool
	note     string
	enabledAt [][]string
}

// runs one schedule: follows `prefix`, then always picks the first enabled thread.
// Returns the enabled sets met at each step (for the DFS) and the observations.
func c15run(sc c15scenario, prefix []string) (res c15result, choices [][]string, taken []string) {
	ctl := vsched.Install()
	q := NewSimpleQueue[c15item]("v", &noopTracer[c15item]{})
	ctx, cancel := context.WithCancel(context.Background())
	var got []string
	var gotOK []uint64
	ctl.Spawn("0", func() string {
		for i := 0; i < sc.prePop; i++ {
			if it, ok := q.Pop(); ok {
				got = append(got, fmt.Sprintf("(Some %d)", uint64(it)))
				gotOK = append(gotOK, uint64(it))
			}
		}
		for i := 0; i < sc.want; i++ {
			it, ok := q.WaitForItem(ctx)
			if !ok {
				got = append(got, "None")
				break
			}
			got = append(got, fmt.Sprintf("(Some %d)", uint64(it)))
			gotOK = append(gotOK, uint64(it))
		}
		return ""
	})
	for i, items := range sc.items {
		items := items
		ctl.Spawn(fmt.Sprint(i+1), func() string {
			for _, x := range items {
				q.Add(c15item(x))
			}
			return ""
		})
	}
	if sc.cancel {
		ctl.Spawn("99", func() string { cancel(); return "" })
	}
	names := map[string]uint64{"0": 0, "99": 99}
	for i := range sc.items {
		names[fmt.Sprint(i+1)] = uint64(i + 1)
	}
	remaining := make([][]uint64, len(sc.items))
	for i := range sc.items {
		remaining[i] = append([]uint64(nil), sc.items[i]...)
	}
	for step := 0; step < 400; step++ {
		cur := ctl.Statuses()
		var en []string
		for _, st := range cur {
			if st.State == "at" && st.Enabled {
				en = append(en, st.Name)
			}
		}
		if len(en) == 0 {
			break
		}
		// order: consumer, producers, canceller
		sort.Slice(en, func(i, j int) bool { return names[en[i]] < names[en[j]] })
		pick := en[0]
		if step < len(prefix) {
			pick = prefix[step]
		}
		choices = append(choices, en)
		taken = append(taken, pick)
		// a producer released at its lock yield pushes its next item
		for _, st := range cur {
			if st.Name == pick && st.State == "at" && st.Kind == "lock" && pick != "0" {
				i := int(names[pick]) - 1
				res.pushSeq = append(res.pushSeq, remaining[i][0])
				remaining[i] = remaining[i][1:]
			}
		}
		if err := ctl.Step(pick); err != nil {
			res.note = "harness: " + err.Error()
			break
		}
		res.sched = append(res.sched, names[pick])
		var vec []uint64
		for _, st := range ctl.Statuses() {
			vec = append(vec, c15code(st))
		}
		res.obs = append(res.obs, vec)
	}
	// terminal state
	sts := ctl.Statuses()
	prodDone := true
	consumerBlocked := false
	for _, st := range sts {
		if st.Name == "0" {
			consumerBlocked = st.State == "blocked"
		} else if st.Name != "99" && st.State != "done" {
			prodDone = false
		}
	}
	// what is still queued, read through the public API (Pop) so that the harness builds whatever the
	// queue keeps its items in; a parked thread may hold the queue's mutex at the end of a run, so the
	// read is given a moment and abandoned otherwise
	drained := make(chan []uint64, 1)
	go func() {
		var xs []uint64
		for {
			it, ok := q.Pop()
			if !ok {
				break
			}
			xs = append(xs, uint64(it))
		}
		drained <- xs
	}()
	select {
	case res.finalQ = <-drained:
	case <-time.After(500 * time.Millisecond):
	}
	cancelled := ctx.Err() != nil
	if consumerBlocked && len(res.finalQ) > 0 && prodDone && !cancelled {
		res.stuck = true
	}
	for _, st := range sts {
		if st.State == "at" && !st.Enabled {
			res.deadlock = true
		}
	}
	res.got, res.gotOK = append([]string(nil), got...), append([]uint64(nil), gotOK...)
	cancel()
	ctl.Abandon()
	return
}

func c15emit(out *vharness.Out, kind string, sc c15scenario, r c15result, capacity int) {
	var obs []string
	for _, v := range r.obs {
		obs = append(obs, vharness.Ns(v))
	}
	ok, note, sig := true, "", ""
	if r.note != "" {
		ok, note, sig = false, r.note, "harness error"
	}
	if r.stuck && r.note == "" {
		ok, sig = false, "lost wake-up: consumer parked with a non-empty queue"
		note = fmt.Sprintf("consumer stays blocked in WaitForItem with %d item(s) queued, all producers finished, not cancelled; schedule %v", len(r.finalQ), r.sched)
	}
	if r.deadlock {
		ok, sig = false, "deadlock: a thread waits for a mutex nobody will release"
		note = fmt.Sprintf("schedule %v ends with a thread waiting for a held mutex", r.sched)
	}
	// FIFO / exactly once: delivered items are a prefix of the push order
	for i, x := range r.gotOK {
		if i >= len(r.pushSeq) || r.pushSeq[i] != x {
			ok, sig = false, "FIFO order or exactly-once delivery broken"
			note = fmt.Sprintf("delivered %v, pushed in order %v", r.gotOK, r.pushSeq)
			break
		}
	}
	if len(r.gotOK)+len(r.finalQ) != len(r.pushSeq) {
		ok, sig = false, "FIFO order or exactly-once delivery broken"
		note = fmt.Sprintf("delivered %v + queued %v != pushed %v", r.gotOK, r.finalQ, r.pushSeq)
	}
	coq := fmt.Sprintf("CSched %d %s %s %s %s %s", capacity, sc.coq(), vharness.Ns(r.sched), vharness.List(obs), vharness.List(r.got), vharness.Ns(r.finalQ))
	if sc.prePop > 0 {
		// the consumer first Pops: the model's consumer has the same program (CSchedPop)
		coq = fmt.Sprintf("CSchedPop %d %d %s %s %s %s %s", capacity, sc.prePop, sc.coq(), vharness.Ns(r.sched), vharness.List(obs), vharness.List(r.got), vharness.Ns(r.finalQ))
		kind += "-pop-then-wait"
	}
	preempt := false
	for i := 1; i < len(r.sched); i++ {
		if r.sched[i] != r.sched[i-1] {
			preempt = true
		}
	}
	out.Emit(vharness.Case{Kind: kind, Coq: coq, Key: coq, Nontrivial: preempt, OracleOK: ok, Note: note, Sig: sig,
		Replay: map[string]any{"scenario": sc, "schedule": r.sched}})
}

// explore all schedules of the scenario by stateless depth-first search (bounded by max)
func c15explore(out *vharness.Out, sc c15scenario, capacity int, max int) (n int, violations int) {
	var prefix []string
	for n < max {
		r, choices, taken := c15run(sc, prefix)
		for tries := 0; strings.HasPrefix(r.note, "harness:") && tries < 3; tries++ {
			r, choices, taken = c15run(sc, prefix) // a prefix that could not be followed: run it again
		}
		c15emit(out, "exhaustive", sc, r, capacity)
		n++
		if r.stuck || r.deadlock {
			violations++
		}
		// backtrack: last position with an untried alternative
		i := len(taken) - 1
		for ; i >= 0; i-- {
			en := choices[i]
			idx := -1
			for k, x := range en {
				if x == taken[i] {
					idx = k
				}
			}
			if idx >= 0 && idx+1 < len(en) {
				prefix = append(append([]string(nil), taken[:i]...), en[idx+1])
				break
			}
		}
		if i < 0 {
			break
		}
	}
	return
}

func c15capacity() int {
	q := NewSimpleQueue[c15item]("v", &noopTracer[c15item]{})
	// by reflection: the harness must still build when the field is renamed or retyped
	f := reflect.ValueOf(q).Elem().FieldByName("signal")
	if !f.IsValid() || f.Kind() != reflect.Chan {
		return -1
	}
	return f.Cap()
}

func TestVerifC15(t *testing.T) {
	out := vharness.Open()
	defer out.Close()
	rng := vharness.Rng()
	capacity := c15capacity()

	budget := vharness.Budget(1200, 200000)
	scenarios := []c15scenario{
		{items: [][]uint64{{1}}, want: 1},
		{items: [][]uint64{{1, 2}}, want: 2},
		{items: [][]uint64{{1}}, want: 1, cancel: true},
		{items: [][]uint64{{1}, {2}}, want: 2},
		{items: [][]uint64{{1, 2}}, want: 3, cancel: true},
		{items: [][]uint64{{1}, {2}}, want: 2, cancel: true},
		{items: [][]uint64{{1, 2, 3}}, want: 3},
		{items: [][]uint64{{1, 2}, {3}}, want: 3},
		{items: [][]uint64{{1, 2}}, want: 1, prePop: 1},
		{items: [][]uint64{{1}, {2}}, want: 1, prePop: 1},
		{items: [][]uint64{{1, 2, 3}}, want: 2, prePop: 1},
		{items: [][]uint64{{1, 2, 3}}, want: 1, prePop: 2},
	}
	total := 0
	for _, sc := range scenarios {
		n, _ := c15explore(out, sc, capacity, budget/len(scenarios)+50)
		total += n
	}

	// sequential contract of SimpleQueue and PriorityQueue against their models
	nSeq := vharness.Budget(300, 20000)
	for i := 0; i < nSeq; i++ {
		pq := NewPriorityQueue[c15item]("p", &noopTracer[c15item]{})
		var ops, obs []string
		var pending []uint64
		ok, note, sig := true, "", ""
		l := 1 + rng.Intn(30)
		for j := 0; j < l; j++ {
			switch r := rng.Intn(10); {
			case r < 6:
				x := uint64(1 + rng.Intn(12))
				if rng.Intn(3) == 0 {
					x = uint64(1 + rng.Intn(1000))
				}
				pq.Add(c15item(x))
				pending = append(pending, x)
				ops = append(ops, fmt.Sprintf("PAdd %d", x))
				obs = append(obs, "PNone")
			case r < 8:
				it := pq.Next()
				ops = append(ops, "PNext")
				obs = append(obs, fmt.Sprintf("PItem %d", uint64(it)))
				if len(pending) > 0 {
					sort.Slice(pending, func(a, b int) bool { return pending[a] < pending[b] })
					if pending[0] != uint64(it) {
						ok, sig = false, "priority queue did not yield the smallest counter"
						note = fmt.Sprintf("Next returned %d while %d is pending", uint64(it), pending[0])
					}
					pending = pending[1:]
				} else if it != 0 {
					ok, sig, note = false, "priority queue invented an item", "Next on empty queue returned an item"
				}
			case r < 9:
				var xs []uint64
				_ = pq.NextAll(func(n c15item) error { xs = append(xs, uint64(n)); return nil })
				ops = append(ops, "PNextAll")
				obs = append(obs, "PItems "+vharness.Ns(xs))
				sort.Slice(pending, func(a, b int) bool { return pending[a] < pending[b] })
				if fmt.Sprint(xs) != fmt.Sprint(pending) && !(len(xs) == 0 && len(pending) == 0) {
					ok, sig = false, "priority queue did not yield the smallest counter"
					note = fmt.Sprintf("NextAll returned %v, pending sorted %v", xs, pending)
				}
				pending = nil
			default:
				ops = append(ops, "PSize")
				obs = append(obs, fmt.Sprintf("PLen %d", pq.Size()))
				if pq.Size() != len(pending) {
					ok, sig, note = false, "priority queue lost or duplicated an item", fmt.Sprintf("Size %d, expected %d", pq.Size(), len(pending))
				}
			}
		}
		coq := fmt.Sprintf("CPrio %s %s", vharness.List(ops), vharness.List(obs))
		out.Emit(vharness.Case{Kind: "priority-seq", Coq: coq, Key: coq, Nontrivial: strings.Contains(coq, "PNext"), OracleOK: ok, Note: note, Sig: sig})
	}
	t.Logf("C15 harness: %d schedules, %d cases, signal capacity %d", total, out.N, capacity)
}
