//go:build verif

package rendezvous

import (
	"sort"
	"sync"
	"time"
)

// Fake clock substituted for time.Now / time.Until / time.AfterFunc in the overlaid copy of
// rotation.go (see DESIGN.md section 4.4).  With vclockReal set the calls go to package time.
var (
	vclockMu     sync.Mutex
	vclockReal   bool
	vclockT      time.Time
	vclockTimers []*vclockTimer
	vclockSeq    int
)

type vclockTimer struct {
	at  time.Time
	seq int
	f   func()
}

func vclockNow() time.Time {
	vclockMu.Lock()
	defer vclockMu.Unlock()
	if vclockReal {
		return time.Now()
	}
	return vclockT
}

func vclockUntil(t time.Time) time.Duration {
	vclockMu.Lock()
	defer vclockMu.Unlock()
	if vclockReal {
		return time.Until(t)
	}
	return t.Sub(vclockT)
}

func vclockSince(t time.Time) time.Duration {
	vclockMu.Lock()
	defer vclockMu.Unlock()
	if vclockReal {
		return time.Since(t)
	}
	return vclockT.Sub(t)
}

func vclockAfterFunc(d time.Duration, f func()) *time.Timer {
	vclockMu.Lock()
	defer vclockMu.Unlock()
	if vclockReal {
		return time.AfterFunc(d, f)
	}
	vclockSeq++
	vclockTimers = append(vclockTimers, &vclockTimer{at: vclockT.Add(d), seq: vclockSeq, f: f})
	return nil
}

func vclockSet(t time.Time) {
	vclockMu.Lock()
	vclockT = t
	vclockTimers = nil
	vclockMu.Unlock()
}

// vclockAdvance moves the clock and runs the due timers synchronously, in creation order.
func vclockAdvance(d time.Duration) {
	vclockMu.Lock()
	vclockT = vclockT.Add(d)
	now := vclockT
	var due, keep []*vclockTimer
	for _, t := range vclockTimers {
		if !t.at.After(now) {
			due = append(due, t)
		} else {
			keep = append(keep, t)
		}
	}
	vclockTimers = keep
	vclockMu.Unlock()
	sort.SliceStable(due, func(i, j int) bool { return due[i].seq < due[j].seq })
	for _, t := range due {
		t.f()
	}
}

// exported handles on the fake clock for harnesses of other packages (the head-exchange marshaler
// of the root package reads rotation values through a RotationInterval)
func VClockSet(t time.Time)          { vclockSet(t) }
func VClockAdvance(d time.Duration)  { vclockAdvance(d) }
func VClockNow() time.Time           { return vclockNow() }
func VClockSince(t time.Time) time.Duration { return vclockSince(t) }
func VClockUntil(t time.Time) time.Duration { return vclockUntil(t) }
