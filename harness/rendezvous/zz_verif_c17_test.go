//go:build verif

package rendezvous

import (
	"bytes"
	"fmt"
	"math/rand"
	"strings"
	"testing"
	"time"

	"berty.tech/weshnet/v2/internal/vharness"
)

func c17bytes(b []byte) string {
	s := make([]string, len(b))
	for i, x := range b {
		s[i] = fmt.Sprint(int(x))
	}
	return "[" + strings.Join(s, ";") + "]"
}

type c17ts struct {
	topic string
	seed  []byte
}

func c17z(v int64) string {
	if v < 0 {
		return fmt.Sprintf("(%d)", v)
	}
	return fmt.Sprint(v)
}

// symbolic form of an observed rotation value: find (topic ++ seed, period) among the known
// pairs and the periods around now
func c17sym(rot []byte, pairs []c17ts, nowSec int64, interval int64) string {
	base := (nowSec / interval) * interval
	for _, p := range pairs {
		for k := int64(-6); k <= 6; k++ {
			per := base + k*interval
			if bytes.Equal(rot, GenerateRendezvousPointForPeriod([]byte(p.topic), p.seed, time.Unix(per, 0))) {
				return fmt.Sprintf("(%s, %s)", c17bytes(append([]byte(p.topic), p.seed...)), c17z(per))
			}
		}
	}
	return "([999], 0)"
}

func c17obs(p *Point, err error, pairs []c17ts, nowSec, interval int64) string {
	if err != nil || p == nil {
		return "None"
	}
	return fmt.Sprintf("(Some (%s, %s, %s))", c17sym(p.RawRotationTopic(), pairs, nowSec, interval), c17z(p.Deadline().Unix()), c17bytes([]byte(p.Topic())))
}

func TestVerifC17(t *testing.T) {
	out := vharness.Open()
	defer out.Close()
	rng := vharness.Rng()

	// ---- pure functions: period rounding on boundaries, determinism of the point ----
	nPure := vharness.Budget(300, 20000)
	for i := 0; i < nPure; i++ {
		interval := []int64{1, 2, 3, 60, 3600, 86400, 1 + rng.Int63n(100000)}[rng.Intn(7)]
		sec := rng.Int63n(4_000_000_000)
		switch rng.Intn(4) {
		case 0:
			sec = (sec / interval) * interval // exact boundary
		case 1:
			sec = (sec/interval)*interval + interval - 1
		case 2:
			sec = (sec/interval)*interval + 1
		}
		nsec := int64(0)
		switch rng.Intn(3) {
		case 0:
			nsec = 999999999
		case 1:
			nsec = 1
		}
		d := time.Unix(sec, nsec)
		iv := time.Duration(interval) * time.Second
		r := RoundTimePeriod(d, iv).Unix()
		n := NextTimePeriod(d, iv).Unix()
		ok, note := true, ""
		if !(r <= sec && sec < r+interval && r%interval == 0 && n == r+interval) {
			ok, note = false, fmt.Sprintf("RoundTimePeriod(%d,%d)=%d next=%d is not the period containing the instant", sec, interval, r, n)
		}
		// determinism and sensitivity of the point
		topic, seed := []byte(fmt.Sprintf("topic-%d", rng.Intn(5))), []byte(fmt.Sprintf("seed-%d", rng.Intn(5)))
		p1 := GenerateRendezvousPointForPeriod(topic, seed, time.Unix(r, 0))
		p2 := GenerateRendezvousPointForPeriod(append([]byte(nil), topic...), append([]byte(nil), seed...), RoundTimePeriod(time.Unix(r+interval-1, 5), iv))
		p3 := GenerateRendezvousPointForPeriod(topic, seed, time.Unix(n, 0))
		p4 := GenerateRendezvousPointForPeriod(topic, append([]byte("x"), seed[1:]...), time.Unix(r, 0))
		p5 := GenerateRendezvousPointForPeriod(append([]byte("x"), topic[1:]...), seed, time.Unix(r, 0))
		if !bytes.Equal(p1, p2) {
			ok, note = false, "two instants of the same period give different points"
		}
		if bytes.Equal(p1, p3) || bytes.Equal(p1, p4) || bytes.Equal(p1, p5) {
			ok, note = false, "point does not change with period / seed / topic"
		}
		coq := fmt.Sprintf("CRound %d %d %d %d", sec, interval, r, n)
		out.Emit(vharness.Case{Kind: "pure", Coq: coq, Key: coq, Nontrivial: sec%interval == 0 || sec%interval == interval-1, OracleOK: ok, Note: note})
	}

	// ---- histories of two RotationIntervals sharing a fake clock ----
	nHist := vharness.Budget(250, 8000)
	for i := 0; i < nHist; i++ {
		c17history(t, out, rng, "history")
	}
	t.Logf("C17 harness: %d cases", out.N)
}

func c17history(t *testing.T, out *vharness.Out, rng *rand.Rand, kind string) {
	interval := []int64{1, 2, 5, 60, 3600}[rng.Intn(5)]
	iv := time.Duration(interval) * time.Second
	start := int64(1_700_000_000) + rng.Int63n(100000)
	startNs := rng.Int63n(1_000_000_000)
	if rng.Intn(3) == 0 {
		start = (start / interval) * interval
		startNs = 0
	}
	vclockSet(time.Unix(start, startNs))
	peers := []*RotationInterval{NewRotationInterval(iv), NewRotationInterval(iv)}
	// seeds of one fixed length, as in weshnet; a fraction of the histories additionally uses a pair whose
	// concatenation topic||seed collides with another pair ("ta"+"seed-1" = "tas"+"eed-1"): those only
	// validate the model (which keeps the plain concatenation), the property's oracle is stated for
	// fixed-length seeds and is switched off for them
	pairs := []c17ts{{"ta", []byte("seed-1")}, {"tb", []byte("seed-2")}, {"ta", []byte("seed-3")}, {"tc", []byte("seed-1")}}
	collision := rng.Intn(8) == 0
	if collision {
		pairs = append(pairs, c17ts{"tas", []byte("eed-1")})
		kind = "history-colliding-concatenation"
	}
	nowNs := func() int64 { return vclockNow().UnixNano() }
	nowSec := func() int64 { return vclockNow().Unix() }
	var ops, obs []string
	ok, note, sig := true, "", ""
	nontrivial := false
	registered := [2]map[string]c17ts{{}, {}}
	everRegistered := [2]map[string]bool{{}, {}}  // topic|seed pairs ever registered on the peer
	resolvedPeriod := [2]map[string]int64{{}, {}} // topic -> period in which the peer last resolved it
	history := [2]map[string][]int64{{}, {}}      // topic -> periods whose point the peer has held (oldest first)
	noteHeld := func(b int, topic string, per int64) {
		h := history[b][topic]
		if len(h) == 0 || h[len(h)-1] != per {
			history[b][topic] = append(h, per)
		}
	}
	fail := func(s, n string) {
		if ok && !collision {
			ok, sig, note = false, s, n
		}
	}
	pb := func(b int) string {
		if b == 1 {
			return "true"
		}
		return "false"
	}
	// one history in four starts with a script: a peer registers a topic, a period boundary passes, the
	// peer registers the SAME topic and seed again (a store of the group is opened again) and is then
	// presented its own rotation value of the period before
	if !collision && rng.Intn(4) == 0 {
		b := rng.Intn(2)
		p := pairs[rng.Intn(2)]
		reg := func() {
			peers[b].RegisterRotation(vclockNow(), p.topic, p.seed)
			registered[b][p.topic] = p
			everRegistered[b][p.topic+"|"+string(p.seed)] = true
			noteHeld(b, p.topic, (nowSec()/interval)*interval)
			ops = append(ops, fmt.Sprintf("ORegister %s %s %s", pb(b), c17bytes([]byte(p.topic)), c17bytes(p.seed)))
			obs = append(obs, "None")
		}
		reg()
		per0 := (nowSec() / interval) * interval
		dt := (nowSec()/interval+1)*interval*1e9 - nowNs() + rng.Int63n(interval*1e9)
		vclockAdvance(time.Duration(dt))
		ops = append(ops, fmt.Sprintf("OAdvance %d", dt))
		obs = append(obs, "None")
		if rng.Intn(2) == 0 {
			pt, err := peers[b].PointForTopic(p.topic)
			ops = append(ops, fmt.Sprintf("OTopic %s %s", pb(b), c17bytes([]byte(p.topic))))
			obs = append(obs, c17obs(pt, err, pairs, nowSec(), interval))
			if err == nil {
				resolvedPeriod[b][p.topic] = (nowSec() / interval) * interval
				noteHeld(b, p.topic, (nowSec()/interval)*interval)
			}
		}
		reg()
		rot := GenerateRendezvousPointForPeriod([]byte(p.topic), p.seed, time.Unix(per0, 0))
		// presented once, or several times in a row (every head exchange of the grace period carries it)
		for rep, reps := 0, 1+rng.Intn(4); rep < reps; rep++ {
			ops = append(ops, fmt.Sprintf("ORot %s (%s, %s)", pb(b), c17bytes(append([]byte(p.topic), p.seed...)), c17z(per0)))
			q, err := peers[b].PointForRawRotation(rot)
			obs = append(obs, c17obs(q, err, pairs, nowSec(), interval))
			if err != nil {
				fail("own previous rotation value refused during the grace period", fmt.Sprintf("topic %q period %d at unix %d (interval %ds), after the same topic and seed were registered again, presentation %d: %v", p.topic, per0, nowSec(), interval, rep+1, err))
			} else if q.Topic() != p.topic {
				fail("rotation value mapped to another topic", fmt.Sprintf("topic %q mapped to %q", p.topic, q.Topic()))
			}
		}
		nontrivial = true
	}
	n := 3 + rng.Intn(14)
	for j := 0; j < n; j++ {
		b := rng.Intn(2)
		switch r := rng.Intn(10); {
		case r < 2: // register
			p := pairs[rng.Intn(len(pairs))]
			if len(registered[b]) > 0 && rng.Intn(2) == 0 {
				// the very pair the peer already has for a topic (a store of the group is opened again)
				for _, q := range registered[b] {
					p = q
					break
				}
			}
			peers[b].RegisterRotation(vclockNow(), p.topic, p.seed)
			if prevReg, was := registered[b][p.topic]; !was || !bytes.Equal(prevReg.seed, p.seed) {
				history[b][p.topic] = nil // a registration with another seed: start over
			}
			// (a registration with the SAME seed - what storeForGroup does on every opening of a store -
			// must not make the peer forget its previous rotation values: they stay in the history)
			registered[b][p.topic] = p
			everRegistered[b][p.topic+"|"+string(p.seed)] = true
			noteHeld(b, p.topic, (nowSec()/interval)*interval)
			ops = append(ops, fmt.Sprintf("ORegister %s %s %s", pb(b), c17bytes([]byte(p.topic)), c17bytes(p.seed)))
			obs = append(obs, "None")
		case r < 5: // resolve topic
			p := pairs[rng.Intn(len(pairs))]
			pt, err := peers[b].PointForTopic(p.topic)
			ops = append(ops, fmt.Sprintf("OTopic %s %s", pb(b), c17bytes([]byte(p.topic))))
			obs = append(obs, c17obs(pt, err, pairs, nowSec(), interval))
			if reg, isReg := registered[b][p.topic]; isReg {
				// oracle (resolve_current): point of the period containing now, deadline in the future
				per := (nowSec() / interval) * interval
				want := GenerateRendezvousPointForPeriod([]byte(reg.topic), reg.seed, time.Unix(per, 0))
				if err != nil {
					fail("registered topic not resolved", fmt.Sprintf("PointForTopic(%q) failed %d ns after start: %v", p.topic, nowNs()-(start*1e9+startNs), err))
				} else {
					if !bytes.Equal(pt.RawRotationTopic(), want) {
						fail("stale rendezvous point after the deadline", fmt.Sprintf("PointForTopic(%q) at unix %d (interval %ds) returned a point that is not the one of the period containing now", p.topic, nowSec(), interval))
					}
					if !(pt.Deadline().UnixNano() > nowNs()) {
						fail("stale rendezvous point after the deadline", fmt.Sprintf("PointForTopic(%q) at unix %d returned deadline %d, not in the future", p.topic, nowSec(), pt.Deadline().Unix()))
					}
					resolvedPeriod[b][p.topic] = per
					noteHeld(b, p.topic, per)
				}
			} else if err == nil {
				fail("unknown topic resolved", fmt.Sprintf("PointForTopic(%q) succeeded although never registered on that peer", p.topic))
			} else {
				nontrivial = true
			}
		case r < 7: // exchange
			p := pairs[rng.Intn(len(pairs))]
			ops = append(ops, fmt.Sprintf("OXchg %s %s", pb(b), c17bytes([]byte(p.topic))))
			pt, err := peers[b].PointForTopic(p.topic)
			if err != nil {
				obs = append(obs, "None")
				continue
			}
			per := (nowSec() / interval) * interval
			resolvedPeriod[b][p.topic] = per
			if _, isReg := registered[b][p.topic]; isReg {
				noteHeld(b, p.topic, per)
			}
			q, err2 := peers[1-b].PointForRawRotation(pt.RawRotationTopic())
			obs = append(obs, c17obs(q, err2, pairs, nowSec(), interval))
			// oracle (peers_agree): if the other peer registered the same (topic, seed) and has resolved
			// the topic in the current period, it accepts the value and maps it to the same topic
			regA, okA := registered[b][p.topic]
			regB, okB := registered[1-b][p.topic]
			if okA && okB && bytes.Equal(regA.seed, regB.seed) && resolvedPeriod[1-b][p.topic] == per {
				if err2 != nil {
					fail("peers in the same period do not accept each other's rotation value", fmt.Sprintf("topic %q at unix %d: %v", p.topic, nowSec(), err2))
				} else if q.Topic() != p.topic {
					fail("rotation value mapped to another topic", fmt.Sprintf("topic %q mapped to %q", p.topic, q.Topic()))
				}
			}
			if okA && okB && !bytes.Equal(regA.seed, regB.seed) && !everRegistered[1-b][p.topic+"|"+string(regA.seed)] && err2 == nil {
				fail("rotation value of another seed accepted", fmt.Sprintf("topic %q", p.topic))
			}
			// the HMAC key is the plain concatenation topic||seed: ("ta","seed-1") and ("tas","eed-1") share
			// their points; the property (and the theorem) is about seeds of one fixed length, as in weshnet
			sameLenOnly := true
			for _, other := range registered[1-b] {
				if okA && len(other.seed) != len(regA.seed) {
					sameLenOnly = false
				}
			}
			if okA && !okB && err2 == nil && sameLenOnly && !everRegistered[1-b][p.topic+"|"+string(regA.seed)] {
				fail("rotation value of an unknown topic accepted", fmt.Sprintf("topic %q", p.topic))
			}
			nontrivial = true
		case r < 8 && len(history[b][pairs[0].topic])+len(history[b][pairs[1].topic]) > 0 && rng.Intn(4) != 0:
			// the peer's own earlier rotation value for a topic it still has registered (grace period)
			topic := pairs[0].topic
			if len(history[b][topic]) == 0 || (len(history[b][pairs[1].topic]) > 0 && rng.Intn(2) == 0) {
				topic = pairs[1].topic
			}
			h := history[b][topic]
			per := h[rng.Intn(len(h))]
			reg := registered[b][topic]
			rot := GenerateRendezvousPointForPeriod([]byte(reg.topic), reg.seed, time.Unix(per, 0))
			ops = append(ops, fmt.Sprintf("ORot %s (%s, %s)", pb(b), c17bytes(append([]byte(reg.topic), reg.seed...)), c17z(per)))
			q, err := peers[b].PointForRawRotation(rot)
			obs = append(obs, c17obs(q, err, pairs, nowSec(), interval))
			if nowNs() < (per+2*interval)*1e9+86400*1e9 {
				if err != nil {
					fail("own previous rotation value refused during the grace period", fmt.Sprintf("topic %q period %d at unix %d (interval %ds): %v", topic, per, nowSec(), interval, err))
				} else if q.Topic() != topic {
					fail("rotation value mapped to another topic", fmt.Sprintf("topic %q mapped to %q", topic, q.Topic()))
				}
			}
			nontrivial = true
		case r < 8: // explicit rotation value (previous / current / next period, any pair)
			p := pairs[rng.Intn(len(pairs))]
			per := (nowSec()/interval)*interval + int64(rng.Intn(4)-2)*interval
			rot := GenerateRendezvousPointForPeriod([]byte(p.topic), p.seed, time.Unix(per, 0))
			ops = append(ops, fmt.Sprintf("ORot %s (%s, %s)", pb(b), c17bytes(append([]byte(p.topic), p.seed...)), c17z(per)))
			q, err := peers[b].PointForRawRotation(rot)
			obs = append(obs, c17obs(q, err, pairs, nowSec(), interval))
			nontrivial = true
		default: // advance the clock: within the period, to the boundary +-1ns, across one or two periods
			var dt int64
			rem := (nowSec()/interval+1)*interval*1e9 - nowNs()
			switch rng.Intn(6) {
			case 0:
				dt = rem - 1
			case 1:
				dt = rem
			case 2:
				dt = rem + 1
			case 3:
				dt = rem + interval*1e9 + rng.Int63n(interval*1e9)
			case 4:
				dt = 86400*1e9 + rng.Int63n(3*interval*1e9+1)
			default:
				dt = rng.Int63n(interval*1e9) + 1
			}
			if dt <= 0 {
				dt = 1
			}
			vclockAdvance(time.Duration(dt))
			ops = append(ops, fmt.Sprintf("OAdvance %d", dt))
			obs = append(obs, "None")
			nontrivial = true
		}
	}
	coq := fmt.Sprintf("CHist is_expired_op %d %d %s %s", start*1e9+startNs, interval, vharness.List(ops), vharness.List(obs))
	out.Emit(vharness.Case{Kind: kind, Coq: coq, Key: coq, Nontrivial: nontrivial, OracleOK: ok, Note: note, Sig: sig})
}
