//go:build verif

package weshnet

// C06, outgoing contact request: the real SendContactRequest of contact_request_manager.go of an
// account A (real account-group MetadataStore with the contact enqueued) over an in-memory pipe
// handed out by a stub of the ipfs API, against: the real handleIncomingRequest of the account B
// the request is meant for; the same handler of ANOTHER account (the peer reached is not the one
// asked for); a peer that closes, stays silent after the hello, or answers garbage.  Observed: did
// the peer receive A's contact card (account key, rendezvous seed, metadata), did A mark the
// request as sent, what did an honest B record.

import (
	"bytes"
	"context"
	crand "crypto/rand"
	"fmt"
	"net"
	"testing"
	"time"

	coreiface "github.com/ipfs/kubo/core/coreiface"
	"github.com/libp2p/go-libp2p/core/network"
	"github.com/libp2p/go-libp2p/core/peer"
	"github.com/libp2p/go-libp2p/core/protocol"
	"go.uber.org/zap"

	"berty.tech/weshnet/v2/internal/handshake"
	"berty.tech/weshnet/v2/internal/vharness"
	"berty.tech/weshnet/v2/pkg/ipfsutil"
	"berty.tech/weshnet/v2/pkg/protocoltypes"
	"berty.tech/weshnet/v2/pkg/protoio"
)

type c06swarm struct{ coreiface.SwarmAPI }

func (c06swarm) Connect(context.Context, peer.AddrInfo) error { return nil }

type c06api struct {
	ipfsutil.ExtendedCoreAPI // nil: SendContactRequest uses Swarm().Connect and NewStream only
	conn                     net.Conn
}

func (a *c06api) Swarm() coreiface.SwarmAPI { return c06swarm{} }
func (a *c06api) NewStream(context.Context, peer.ID, ...protocol.ID) (network.Stream, error) {
	return &c06stream{c: a.conn}, nil
}

func TestVerifC06Outgoing(t *testing.T) {
	out := vharness.Open()
	defer out.Close()
	ctx, cancel := context.WithCancel(context.Background())
	defer cancel()
	node := vNewNode(ctx, t)
	rounds := vharness.Budget(5, 60)
	if vharness.Budget(1, 1) == 0 {
		rounds = 1
	}
	mkCRM := func(r *vReplica) (*contactRequestsManager, *MetadataStore) {
		ms := r.openMeta(r.accountGroup())
		sk, err := r.ss.GetAccountPrivateKey()
		if err != nil {
			t.Fatal(err)
		}
		return &contactRequestsManager{
			lookupProcess: make(map[string]context.CancelFunc), metadataStore: ms, logger: zap.NewNop(),
			accountPrivateKey: sk, ctx: ctx, cancel: func() {},
		}, ms
	}
	scenarios := []string{"the account asked for answers", "another account answers", "the peer closes at once", "the peer reads the hello and stays silent", "the peer answers garbage", "the account asked for answers, no own metadata"}
	for round := 0; round < rounds; round++ {
		for si, sc := range scenarios {
			ra, rb, rc := node.newAccount(), node.newAccount(), node.newAccount()
			crmA, msA := mkCRM(ra)
			crmB, msB := mkCRM(rb)
			crmC, msC := mkCRM(rc)
			if _, err := msA.ContactRequestReferenceReset(ctx); err != nil {
				t.Fatal(err)
			}
			_, ownA := msA.GetIncomingContactRequestsStatus()
			bsk, _ := rb.ss.GetAccountPrivateKey()
			braw, _ := bsk.GetPublic().Raw()
			araw := ownA.Pk
			seedB := make([]byte, 32)
			crand.Read(seedB)
			toB := &protocoltypes.ShareableContact{Pk: braw, PublicRendezvousSeed: seedB}
			ownMD := []byte(fmt.Sprintf("own metadata %d/%d", round, si))
			if si == 5 {
				ownMD = nil
			}
			if _, err := msA.ContactRequestOutgoingEnqueue(ctx, toB, ownMD); err != nil {
				t.Fatal(err)
			}
			c1, c2 := net.Pipe()
			crmA.ipfs = &c06api{conn: c1}
			// the peer
			peerDone := make(chan string, 1) // what the peer got after the handshake: "" nothing, else a description
			go func() {
				defer c2.Close()
				_ = c2.SetDeadline(time.Now().Add(40 * time.Second))
				switch si {
				case 0, 5:
					err := crmB.handleIncomingRequest(ctx, &c06stream{c: c2})
					peerDone <- fmt.Sprint("handler: ", err)
				case 1:
					err := crmC.handleIncomingRequest(ctx, &c06stream{c: c2})
					peerDone <- fmt.Sprint("handler: ", err)
				case 2:
					peerDone <- ""
				case 3, 4:
					// the requester's hello: one length-delimited frame
					hello := &handshake.HelloPayload{}
					if err := protoio.NewDelimitedReader(c2, 2048).ReadMsg(hello); err != nil {
						peerDone <- ""
						return
					}
					if si == 4 {
						g := make([]byte, 60)
						crand.Read(g)
						g[0] = 59
						_, _ = c2.Write(g)
					}
					// anything the requester sends from now on would be a leak of its card
					_ = c2.SetDeadline(time.Now().Add(700 * time.Millisecond))
					buf := make([]byte, 4096)
					m, _ := c2.Read(buf)
					if m > 0 && bytes.Contains(buf[:m], araw) {
						peerDone <- "the requester's account key in clear"
					} else if m > 0 {
						peerDone <- fmt.Sprintf("%d more bytes", m)
					} else {
						peerDone <- ""
					}
				}
			}()
			// generous for the honest exchanges (a loaded machine must not turn them into failures); the
			// silent and garbage peers only end when this expires
			patience := 2 * time.Second
			if si == 0 || si == 1 || si == 5 {
				patience = 30 * time.Second
			}
			sctx, scancel := context.WithTimeout(ctx, patience)
			serr := crmA.SendContactRequest(sctx, toB, bsk.GetPublic(), peer.AddrInfo{})
			scancel()
			c1.Close()
			got := <-peerDone
			// observations
			marked := false
			if c, ok := msA.ListContacts()[string(braw)]; ok && c.state == protocoltypes.ContactState_ContactStateAdded {
				marked = true
			}
			recB, recC := msB.ListContacts()[string(araw)], msC.ListContacts()[string(araw)]
			cardWritten := recB != nil || recC != nil || (si >= 2 && got != "")
			hsOK := si == 0 || si == 5
			ok, note := true, ""
			switch {
			case hsOK && (serr != nil || !marked || recB == nil):
				ok, note = false, fmt.Sprintf("%s: SendContactRequest error %v, marked sent %v, recorded by the peer %v (%s)", sc, serr, marked, recB != nil, got)
			case hsOK && (recB.state != protocoltypes.ContactState_ContactStateReceived || !bytes.Equal(recB.contact.PublicRendezvousSeed, ownA.PublicRendezvousSeed) || !bytes.Equal(recB.contact.Metadata, ownMD)):
				ok, note = false, sc+": the peer recorded another seed or metadata than the requester's own"
			case !hsOK && marked:
				ok, note = false, fmt.Sprintf("%s: the request is marked as sent although the peer never proved the key asked for (error: %v)", sc, serr)
			case !hsOK && cardWritten:
				ok, note = false, fmt.Sprintf("%s: the own contact card reached a peer that never proved the key asked for (%s)", sc, got)
			case !hsOK && serr == nil:
				ok, note = false, sc+": SendContactRequest reports success"
			}
			out.Emit(vharness.Case{
				Kind: "outgoing", Coq: fmt.Sprintf("COutgoing %v %v %v", hsOK, cardWritten, marked),
				Key:  fmt.Sprintf("%d|%s", round, sc), Nontrivial: si > 0, OracleOK: ok, Note: note,
				Sig:    "outgoing contact request: " + sc,
				Replay: map[string]any{"scenario": sc},
			})
			for _, m := range []*MetadataStore{msA, msB, msC} {
				m.Close()
			}
			for _, r := range []*vReplica{ra, rb, rc} {
				r.db.Close()
			}
		}
	}
}
