//go:build verif

package weshnet

// C13, RPC level: GroupMetadataList / GroupMessageList of a real service (in-process, stub stream)
// for every (since_id, until_id | until_now, reverse_order) over the entries of a real group.

import (
	"context"
	"fmt"
	"sync"
	"testing"
	"time"

	"google.golang.org/grpc"
	"google.golang.org/grpc/metadata"

	"berty.tech/weshnet/v2/internal/vharness"
	"berty.tech/weshnet/v2/pkg/errcode"
	"berty.tech/weshnet/v2/pkg/protocoltypes"
)

type c13stream struct {
	ctx context.Context
	mu  sync.Mutex
	ids []string
}

func (s *c13stream) count() int { s.mu.Lock(); defer s.mu.Unlock(); return len(s.ids) }

func (s *c13stream) SetHeader(metadata.MD) error  { return nil }
func (s *c13stream) SendHeader(metadata.MD) error { return nil }
func (s *c13stream) SetTrailer(metadata.MD)       {}
func (s *c13stream) Context() context.Context     { return s.ctx }
func (s *c13stream) RecvMsg(m any) error          { return fmt.Errorf("no input") }
func (s *c13stream) SendMsg(m any) error {
	s.mu.Lock()
	defer s.mu.Unlock()
	switch x := m.(type) {
	case *protocoltypes.GroupMetadataEvent:
		s.ids = append(s.ids, string(x.EventContext.Id))
	case *protocoltypes.GroupMessageEvent:
		s.ids = append(s.ids, string(x.EventContext.Id))
	}
	return nil
}

func TestVerifC13RPC(t *testing.T) {
	out := vharness.Open()
	defer out.Close()
	ctx, cancel := context.WithCancel(context.Background())
	defer cancel()
	rng := vharness.Rng()
	tp, cleanup := NewTestingProtocol(ctx, t, nil, nil)
	defer cleanup()
	svc := tp.Service.(*service)
	ngroups := vharness.Budget(6, 60)
	if vharness.Budget(1, 1) == 0 {
		ngroups = 1
	}
	for gi := 0; gi < ngroups; gi++ {
		cr, err := svc.MultiMemberGroupCreate(ctx, &protocoltypes.MultiMemberGroupCreate_Request{})
		if err != nil {
			t.Fatal(err)
		}
		if _, err := svc.ActivateGroup(ctx, &protocoltypes.ActivateGroup_Request{GroupPk: cr.GroupPk}); err != nil {
			t.Fatal(err)
		}
		n := 1 + rng.Intn(5)
		for i := 0; i < n; i++ {
			if _, err := svc.AppMessageSend(ctx, &protocoltypes.AppMessageSend_Request{GroupPk: cr.GroupPk, Payload: []byte(fmt.Sprint("p", i))}); err != nil {
				t.Fatal(err)
			}
			if _, err := svc.AppMetadataSend(ctx, &protocoltypes.AppMetadataSend_Request{GroupPk: cr.GroupPk, Payload: []byte(fmt.Sprint("m", i))}); err != nil {
				t.Fatal(err)
			}
		}
		gc, err := svc.GetContextGroupForID(cr.GroupPk)
		if err != nil {
			t.Fatal(err)
		}
		for _, kind := range []string{"metadata", "messages"} {
			st := gc.metadataStore.OpLog()
			if kind == "messages" {
				st = gc.messageStore.OpLog()
			}
			arrival := st.GetEntries().Slice()
			canon := vCanonical(st)
			ranks := c04rank(arrival)
			idOf := map[string]uint64{}
			pos := map[string]int{}
			es := make([]string, len(arrival))
			for i, e := range arrival {
				idOf[string(e.GetHash().Bytes())] = ranks[e.GetHash().String()]
				es[i] = fmt.Sprintf("mkE %d %d (ENoop 0)", e.GetClock().GetTime(), ranks[e.GetHash().String()])
			}
			for i, e := range canon {
				pos[string(e.GetHash().Bytes())] = i
			}
			entriesCoq := vharness.List(es)
			type bound struct {
				b         []byte
				coq, name string
			}
			bounds := []bound{{nil, "None", "-"}}
			for i, e := range canon {
				b := e.GetHash().Bytes()
				bounds = append(bounds, bound{b, fmt.Sprintf("(Some %d)", idOf[string(b)]), fmt.Sprint(i)})
			}
			bounds = append(bounds, bound{c13unknownID(), "(Some 9999)", "unknown"})
			for _, s := range bounds {
				for _, u := range bounds {
					for _, rev := range []bool{false, true} {
						if len(canon) > 6 && rng.Intn(3) != 0 {
							continue
						}
						untilNow := u.b == nil
						// expectation from the log order
						lo, hi, wantErr := 0, len(canon)-1, false
						if s.b != nil {
							if p, ok := pos[string(s.b)]; ok {
								lo = p
							} else {
								wantErr = true
							}
						}
						if u.b != nil {
							if p, ok := pos[string(u.b)]; ok {
								hi = p
							} else {
								wantErr = true
							}
						}
						if !wantErr && lo > hi && len(canon) > 0 {
							wantErr = true
						}
						var want []string
						if !wantErr {
							for i := lo; i <= hi; i++ {
								want = append(want, string(canon[i].GetHash().Bytes()))
							}
							if rev {
								for i, j := 0, len(want)-1; i < j; i, j = i+1, j-1 {
									want[i], want[j] = want[j], want[i]
								}
							}
						}
						// a listing bounded by until_id keeps the stream open until the client goes away: the
						// call runs in its own goroutine and its context is cancelled once the expected number
						// of events (and a grace period for surplus ones) has been seen, or after 5 s
						cctx, ccancel := context.WithCancel(ctx)
						str := &c13stream{ctx: cctx}
						done := make(chan error, 1)
						go func() {
							if kind == "metadata" {
								done <- svc.GroupMetadataList(&protocoltypes.GroupMetadataList_Request{GroupPk: cr.GroupPk, SinceId: s.b, UntilId: u.b, UntilNow: untilNow, ReverseOrder: rev},
									&grpc.GenericServerStream[protocoltypes.GroupMetadataList_Request, protocoltypes.GroupMetadataEvent]{ServerStream: str})
							} else {
								done <- svc.GroupMessageList(&protocoltypes.GroupMessageList_Request{GroupPk: cr.GroupPk, SinceId: s.b, UntilId: u.b, UntilNow: untilNow, ReverseOrder: rev},
									&grpc.GenericServerStream[protocoltypes.GroupMessageList_Request, protocoltypes.GroupMessageEvent]{ServerStream: str})
							}
						}()
						var rerr error
						deadline := time.After(5 * time.Second)
					wait:
						for {
							select {
							case rerr = <-done:
								break wait
							case <-deadline:
								ccancel()
								rerr = <-done
								break wait
							case <-time.After(2 * time.Millisecond):
								if str.count() >= len(want) && !wantErr {
									time.Sleep(15 * time.Millisecond)
									ccancel()
									rerr = <-done
									break wait
								}
							}
						}
						ccancel()
						ok, note := true, ""
						show := func(xs []string) string {
							r := "["
							for _, x := range xs {
								if p, ok := pos[x]; ok {
									r += fmt.Sprint(p, " ")
								} else {
									r += "? "
								}
							}
							return r + "]"
						}
						switch {
						case wantErr && rerr == nil:
							ok, note = false, fmt.Sprintf("%s RPC (since=%s until=%s reverse=%v, %d entries): no error, an invalid-range error was due; sent %s", kind, s.name, u.name, rev, len(canon), show(str.ids))
						case wantErr && !errcode.Is(rerr, errcode.ErrCode_ErrInvalidRange):
							ok, note = false, fmt.Sprintf("%s RPC (since=%s until=%s): error %v is not an invalid-range error", kind, s.name, u.name, rerr)
						case !wantErr && rerr != nil:
							ok, note = false, fmt.Sprintf("%s RPC (since=%s until=%s reverse=%v): refused with %v", kind, s.name, u.name, rev, rerr)
						case !wantErr && fmt.Sprint(str.ids) != fmt.Sprint(want):
							ok, note = false, fmt.Sprintf("%s RPC (since=%s until=%s reverse=%v, %d entries): sent log positions %s, expected %s", kind, s.name, u.name, rev, len(canon), show(str.ids), show(want))
						}
						obs := "None"
						if rerr == nil {
							ids := make([]uint64, len(str.ids))
							for i, g := range str.ids {
								ids[i] = idOf[g]
							}
							obs = "(Some " + vharness.Ns(ids) + ")"
						}
						out.Emit(vharness.Case{
							Kind: "rpc-" + kind,
							Coq:  fmt.Sprintf("CList %s %s %s %v %s", entriesCoq, s.coq, u.coq, rev, obs),
							Key:  fmt.Sprintf("rpc|%d|%s|%s|%s|%v", gi, kind, s.name, u.name, rev), Nontrivial: len(canon) >= 2,
							OracleOK: ok, Note: note, Sig: "listing is not the requested range of the log order",
							Replay: map[string]any{"rpc": kind, "entries": len(canon), "since": s.name, "until": u.name, "reverse": rev},
						})
					}
				}
			}
		}
	}
}
