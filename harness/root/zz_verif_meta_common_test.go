//go:build verif

package weshnet

// Shared world for the metadata-log properties (C03, C04, C07, C12, C13): several replicas
// (WeshOrbitDB instances with their own datastore, cache and secret store) over ONE in-memory
// IPFS node, with a pubsub that never delivers anything, so that the harness alone decides which
// entries reach which replica, in which batches and in which order. Entries are fetched from the
// shared block store by the real replicator (BaseStore.Sync), joined by the real ipfs-log and
// indexed by the real metadataStoreIndex.

import (
	"context"
	"fmt"
	"sort"
	"testing"
	"time"

	ipfslog "berty.tech/go-ipfs-log"
	"berty.tech/go-ipfs-log/entry/sorting"
	orbitdb "berty.tech/go-orbit-db"
	"berty.tech/go-orbit-db/iface"
	"berty.tech/go-orbit-db/stores"
	datastore "github.com/ipfs/go-datastore"
	ds_sync "github.com/ipfs/go-datastore/sync"
	"berty.tech/go-orbit-db/events"
	peer "github.com/libp2p/go-libp2p/core/peer"
	mocknet "github.com/libp2p/go-libp2p/p2p/net/mock"
	"go.uber.org/zap"
	"google.golang.org/protobuf/proto"
	"google.golang.org/protobuf/reflect/protoreflect"

	"berty.tech/weshnet/v2/pkg/ipfsutil"
	"berty.tech/weshnet/v2/pkg/protocoltypes"
	"berty.tech/weshnet/v2/pkg/secretstore"
)

// ---- a pubsub that is deaf and mute ----

type vNoPubSub struct{}

type vNoTopic struct{ name string }

func (vNoPubSub) TopicSubscribe(_ context.Context, topic string) (iface.PubSubTopic, error) {
	return &vNoTopic{name: topic}, nil
}
func (*vNoTopic) Publish(context.Context, []byte) error          { return nil }
func (*vNoTopic) Peers(context.Context) ([]peer.ID, error)        { return nil, nil }
func (t *vNoTopic) Topic() string                                 { return t.name }
func (*vNoTopic) WatchPeers(ctx context.Context) (<-chan events.Event, error) {
	ch := make(chan events.Event)
	go func() { <-ctx.Done(); close(ch) }()
	return ch, nil
}
func (*vNoTopic) WatchMessages(ctx context.Context) (<-chan *iface.EventPubSubMessage, error) {
	ch := make(chan *iface.EventPubSubMessage)
	go func() { <-ctx.Done(); close(ch) }()
	return ch, nil
}

// ---- node and replicas ----

type vNode struct {
	t   testing.TB
	ctx context.Context
	api ipfsutil.CoreAPIMock
}

func vNewNode(ctx context.Context, t testing.TB) *vNode {
	api := ipfsutil.TestingCoreAPIUsingMockNet(ctx, t, &ipfsutil.TestingAPIOpts{
		Logger:    zap.NewNop(),
		Mocknet:   mocknet.New(),
		Datastore: ds_sync.MutexWrap(datastore.NewMapDatastore()),
	})
	return &vNode{t: t, ctx: ctx, api: api}
}

type vReplica struct {
	n  *vNode
	db *WeshOrbitDB
	ss secretstore.SecretStore
	ds datastore.Batching
}

func (n *vNode) replicaWith(ss secretstore.SecretStore) *vReplica {
	ds := ds_sync.MutexWrap(datastore.NewMapDatastore())
	db, err := NewWeshOrbitDB(n.ctx, n.api.API(), &NewOrbitDBOptions{
		Datastore:   ds,
		SecretStore: ss,
		NewOrbitDBOptions: orbitdb.NewOrbitDBOptions{
			Logger: zap.NewNop(),
			PubSub: vNoPubSub{},
		},
	})
	if err != nil {
		n.t.Fatal(err)
	}
	return &vReplica{n: n, db: db, ss: ss, ds: ds}
}

// newAccount: a replica with a fresh account.
func (n *vNode) newAccount() *vReplica {
	ss, err := secretstore.NewInMemSecretStore(nil)
	if err != nil {
		n.t.Fatal(err)
	}
	return n.replicaWith(ss)
}

// newDevice: another device of r's account (account keys imported, own device key).
func (n *vNode) newDevice(r *vReplica) *vReplica {
	sk, proof, err := r.ss.ExportAccountKeysForBackup()
	if err != nil {
		n.t.Fatal(err)
	}
	ss, err := secretstore.NewInMemSecretStore(nil)
	if err != nil {
		n.t.Fatal(err)
	}
	if err := ss.ImportAccountKeys(sk, proof); err != nil {
		n.t.Fatal(err)
	}
	return n.replicaWith(ss)
}

func (r *vReplica) accountGroup() *protocoltypes.Group {
	g, _, err := r.ss.GetGroupForAccount()
	if err != nil {
		r.n.t.Fatal(err)
	}
	return g
}

// openMeta opens (or reopens after close) the metadata store of g on this replica, without the
// group context machinery: the store, its index and its emitters are the real ones.
func (r *vReplica) openMeta(g *protocoltypes.Group) *MetadataStore {
	r.db.groups.Store(g.GroupIDAsString(), g)
	if err := r.db.registerGroupPrivateKey(g); err != nil {
		r.n.t.Fatal(err)
	}
	ms, err := r.db.groupMetadataStore(r.n.ctx, g, nil)
	if err != nil {
		r.n.t.Fatal(err)
	}
	return ms
}

func (r *vReplica) openMessages(g *protocoltypes.Group) *MessageStore {
	r.db.groups.Store(g.GroupIDAsString(), g)
	if err := r.db.registerGroupPrivateKey(g); err != nil {
		r.n.t.Fatal(err)
	}
	// OpenGroup forces the generation of the device's chain key; so do we
	if md, err := r.ss.GetOwnMemberDeviceForGroup(g); err == nil {
		if _, err := r.ss.GetShareableChainKey(r.n.ctx, g, md.Member()); err != nil {
			r.n.t.Fatal(err)
		}
	}
	ms, err := r.db.groupMessageStore(r.n.ctx, g, nil)
	if err != nil {
		r.n.t.Fatal(err)
	}
	return ms
}

// vDeliver hands the given entries (as heads) to the store's replicator and waits until the
// store's log holds all of them: one call is one batch (the entries and all their ancestors the
// replica does not hold yet).
func vDeliver(ctx context.Context, t testing.TB, st iface.Store, heads ...ipfslog.Entry) {
	missing := false
	for _, h := range heads {
		if !vHas(st.OpLog(), h) {
			missing = true
		}
	}
	if !missing {
		return
	}
	sub, err := st.EventBus().Subscribe(new(stores.EventReplicated))
	if err != nil {
		t.Fatal(err)
	}
	defer sub.Close()
	if err := st.Sync(ctx, heads); err != nil {
		t.Fatal(err)
	}
	deadline := time.After(20 * time.Second)
	for {
		// replicationLoadComplete joins, updates the index, then emits EventReplicated: an event
		// received while every head is present means the index covers them
		select {
		case <-sub.Out():
		case <-deadline:
			t.Fatalf("delivery did not complete")
		}
		all := true
		for _, h := range heads {
			if !vHas(st.OpLog(), h) {
				all = false
			}
		}
		if all {
			return
		}
	}
}

func vHas(l ipfslog.Log, e ipfslog.Entry) bool {
	_, ok := l.GetEntries().Get(e.GetHash().String())
	return ok
}

// vCanonical returns the entries of a log in the deterministic ipfs-log order
// (clock time, clock id, hash), oldest first.
func vCanonical(l ipfslog.Log) []ipfslog.Entry {
	es := append([]ipfslog.Entry(nil), l.GetEntries().Slice()...)
	sorting.Sort(sorting.SortByEntryHash, es, false)
	return es
}

func vHashes(es []ipfslog.Entry) []string {
	out := make([]string, len(es))
	for i, e := range es {
		out[i] = e.GetHash().String()
	}
	return out
}

// vIDs numbers strings in order of first appearance (1, 2, ...).
type vIDs struct {
	m map[string]uint64
}

func (v *vIDs) id(s string) uint64 {
	if v.m == nil {
		v.m = map[string]uint64{}
	}
	if k, ok := v.m[s]; ok {
		return k
	}
	k := uint64(len(v.m) + 1)
	v.m[s] = k
	return k
}

func vSortedU64(xs []uint64) []uint64 {
	ys := append([]uint64(nil), xs...)
	sort.Slice(ys, func(i, j int) bool { return ys[i] < ys[j] })
	return ys
}

var _ = fmt.Sprintf

// vStructMutants: structural alterations of a protobuf message - every bytes field emptied, removed,
// cut by one byte at either end, halved, reduced to one byte, extended by one byte; every
// sub-message removed; every integer field set to 0 and to its maximum.
type vMutant struct {
	what string
	data []byte
}

func vStructMutants(m proto.Message) []vMutant {
	var out []vMutant
	fs := m.ProtoReflect().Descriptor().Fields()
	for i := 0; i < fs.Len(); i++ {
		fd := fs.Get(i)
		if fd.IsList() || fd.IsMap() {
			continue
		}
		add := func(what string, f func(r protoreflect.Message)) {
			c := proto.Clone(m)
			f(c.ProtoReflect())
			b, err := proto.Marshal(c)
			if err == nil {
				out = append(out, vMutant{string(fd.Name()) + " " + what, b})
			}
		}
		switch fd.Kind() {
		case protoreflect.BytesKind:
			b := m.ProtoReflect().Get(fd).Bytes()
			add("removed", func(r protoreflect.Message) { r.Clear(fd) })
			add("extended by one byte", func(r protoreflect.Message) { r.Set(fd, protoreflect.ValueOfBytes(append(append([]byte(nil), b...), 0))) })
			if len(b) > 0 {
				add("cut by its last byte", func(r protoreflect.Message) { r.Set(fd, protoreflect.ValueOfBytes(b[:len(b)-1])) })
				add("cut by its first byte", func(r protoreflect.Message) { r.Set(fd, protoreflect.ValueOfBytes(b[1:])) })
				add("halved", func(r protoreflect.Message) { r.Set(fd, protoreflect.ValueOfBytes(b[:len(b)/2])) })
				add("reduced to one byte", func(r protoreflect.Message) { r.Set(fd, protoreflect.ValueOfBytes(b[:1])) })
			}
		case protoreflect.MessageKind:
			if m.ProtoReflect().Has(fd) {
				add("removed", func(r protoreflect.Message) { r.Clear(fd) })
			}
		case protoreflect.Uint64Kind, protoreflect.Fixed64Kind:
			add("zero", func(r protoreflect.Message) { r.Set(fd, protoreflect.ValueOfUint64(0)) })
			add("maximal", func(r protoreflect.Message) { r.Set(fd, protoreflect.ValueOfUint64(^uint64(0))) })
		}
	}
	return out
}
