//go:build verif

// C08, long backlogs: the secret store keeps message keys for a bounded number of counters beyond the
// last one it opened, so a decryptable message far ahead of what has been opened so far does not open
// YET: it is parked and has to be tried again each time an older message opens, until the window has
// reached it.  This stream runs the real consumer loop (no controlled scheduler: the injected
// scheduling points do nothing outside a controlled run) on one sender with up to 140 messages, in
// arrival orders that put late messages first, entry by entry (each one handled before the next
// arrives) or in batches; oracle only: at the end every message the announcement opens was delivered
// exactly once, with its payload.
package weshnet

import (
	"context"
	"fmt"
	"sort"
	"strings"
	"sync"
	"testing"
	"time"

	"github.com/ipfs/go-cid"
	"github.com/libp2p/go-libp2p/p2p/host/eventbus"
	"github.com/prometheus/client_golang/prometheus"
	"go.uber.org/zap"

	"berty.tech/weshnet/v2/internal/vharness"
	"berty.tech/weshnet/v2/pkg/protocoltypes"
	"berty.tech/weshnet/v2/pkg/secretstore"
)

// the number of message keys the receiver precomputes beyond the last opened counter (the model's W)
const c08windowKeys = secretstore.PrecomputeMessageKeyCount

func TestVerifC08Window(t *testing.T) {
	out := vharness.Open()
	defer out.Close()
	rng := vharness.Rng()
	ncases := vharness.Budget(24, 400)
	for ci := 0; ci < ncases; ci++ {
		n := 1 + rng.Intn(140)
		if ci%2 == 0 {
			n = 101 + rng.Intn(40) // longer than the window
		}
		ann := 0
		if rng.Intn(4) == 0 {
			ann = rng.Intn(n + 1)
		}
		w := c08build(t, c08scenario{msgs: []int{n}, announce: []int{ann}})
		// arrival order
		order := make([]int, n)
		for i := range order {
			order[i] = i
		}
		mode := []string{"newest-first", "reverse", "shuffled", "late-block-first", "in-order", "far-ahead-then-batch-ending-unopenable"}[ci%6]
		batchFrom := -1 // from this arrival on everything is handed over at once
		if mode == "far-ahead-then-batch-ending-unopenable" {
			// the newest message first (beyond the precomputed keys: parked with the key known), then, in ONE
			// batch, enough older ones to bring it within reach, the batch ending with an entry that never
			// opens (sealed before the announcement); nothing else arrives
			n = 105 + rng.Intn(30)
			ann = 1 + rng.Intn(3)
			w = c08build(t, c08scenario{msgs: []int{n}, announce: []int{ann}})
			k := n - 1 - 100 - ann + 1 + rng.Intn(5)
			order = []int{n - 1}
			for i := ann; i <= ann+k && i < n-1; i++ {
				order = append(order, i)
			}
			order = append(order, 0)
			batchFrom = 1
		}
		switch mode {
		case "newest-first":
			k := 1 + rng.Intn(3)
			if k > n {
				k = n
			}
			order = append(append([]int{}, order[n-k:]...), order[:n-k]...)
		case "reverse":
			for i, j := 0, n-1; i < j; i, j = i+1, j-1 {
				order[i], order[j] = order[j], order[i]
			}
		case "shuffled":
			rng.Shuffle(n, func(i, j int) { order[i], order[j] = order[j], order[i] })
		case "late-block-first":
			k := rng.Intn(n)
			order = append(append([]int{}, order[k:]...), order[:k]...)
		}
		paced := rng.Intn(3) != 0 // each entry handled before the next arrives / all at once
		registerAt := 0           // the chain key is registered before this arrival
		if rng.Intn(3) == 0 {
			registerAt = rng.Intn(len(order) + 1)
		}
		if batchFrom >= 0 {
			paced, registerAt = true, 0
		}
		arrivedIdx := map[int]bool{}
		for _, idx := range order {
			arrivedIdx[idx] = true
		}

		ctx, cancel := context.WithCancel(context.Background())
		bus := eventbus.NewBus()
		tracer := newMessageMetricsTracer(prometheus.NewRegistry())
		gpk, _ := w.g.GetPubKey()
		rmd, _ := w.recv.GetOwnMemberDeviceForGroup(w.g)
		rraw, _ := rmd.Device().Raw()
		ms := &MessageStore{
			eventBus: bus, secretStore: w.recv, messagesQueue: newMessageQueue("cache", tracer),
			group: w.g, groupPublicKey: gpk, logger: zap.NewNop(), deviceCaches: make(map[string]*groupCache),
			currentDevicePublicKey: rmd.Device(), currentDevicePublicKeyRaw: rraw,
		}
		ms.ctx, ms.cancel = ctx, cancel
		var err error
		if ms.emitters.groupMessage, err = bus.Emitter(new(*protocoltypes.GroupMessageEvent)); err != nil {
			t.Fatal(err)
		}
		if ms.emitters.groupCacheMessage, err = bus.Emitter(new(messageItem)); err != nil {
			t.Fatal(err)
		}
		sub, err := bus.Subscribe(new(*protocoltypes.GroupMessageEvent), eventbus.BufSize(1024))
		if err != nil {
			t.Fatal(err)
		}
		var mu sync.Mutex
		delivered := map[int]int{}
		total := 0
		payloadOK := true
		go func() {
			for e := range sub.Out() {
				ev := e.(*protocoltypes.GroupMessageEvent)
				mu.Lock()
				total++
				if c, err := cid.Cast(ev.EventContext.Id); err != nil || w.byHash[c.String()] == nil {
					payloadOK = false
				} else {
					m := w.byHash[c.String()]
					delivered[m.index]++
					if string(ev.Message) != fmt.Sprintf("payload %d/%d", m.sender, m.index) || string(ev.Headers.DevicePk) != string(w.devRaw[0]) {
						payloadOK = false
					}
				}
				mu.Unlock()
			}
		}()
		loopDone := make(chan struct{})
		go func() { ms.processMessageLoop(ctx, tracer); close(loopDone) }()

		parked := func() int {
			ms.muDeviceCaches.Lock()
			defer ms.muDeviceCaches.Unlock()
			k := 0
			for _, dc := range ms.deviceCaches {
				k += dc.queue.Size()
			}
			return k
		}
		arrived := 0
		// every arrived entry is either delivered or parked (so none is queued or being handled): seen three times in a row
		quiet := func(limit time.Duration) bool {
			deadline := time.Now().Add(limit)
			stable := 0
			for time.Now().Before(deadline) {
				mu.Lock()
				d := total
				mu.Unlock()
				if d+parked() == arrived {
					stable++
					if stable >= 3 {
						return true
					}
				} else {
					stable = 0
				}
				time.Sleep(200 * time.Microsecond)
			}
			return false
		}
		register := func() {
			if w.enc[0] == nil {
				return
			}
			if err := w.recv.RegisterChainKey(ctx, w.g, w.devPK[0], w.enc[0]); err != nil {
				t.Fatal(err)
			}
			ms.ProcessMessageQueueForDevicePK(ctx, w.devRaw[0])
		}
		note := ""
		var steps []string // (delivered, parked) each time the loop has come to rest after a paced arrival
		for i, idx := range order {
			if i == registerAt {
				register()
			}
			if err := ms.addToMessageQueue(ctx, w.find(0, idx).entry); err != nil {
				t.Fatal(err)
			}
			arrived++
			if paced && (batchFrom < 0 || i < batchFrom) && !quiet(10*time.Second) {
				mu.Lock()
				note = fmt.Sprintf("10 s after arrival %d (message %d) %d of the %d arrived entries are neither delivered nor parked (%d delivered, %d parked): lost, or the pipeline never comes to rest", i, idx, arrived-total-parked(), arrived, total, parked())
				mu.Unlock()
				break
			}
			if paced && (batchFrom < 0 || i < batchFrom) {
				mu.Lock()
				steps = append(steps, vharness.Pair(vharness.N(uint64(total)), vharness.N(uint64(parked()))))
				mu.Unlock()
			}
		}
		if registerAt >= len(order) {
			register()
		}
		expect := 0
		for _, m := range w.msgs {
			if arrivedIdx[m.index] && w.decryptable(m) {
				expect++
			}
		}
		if note == "" {
			// wait for the expected deliveries, then for rest
			deadline := time.Now().Add(20 * time.Second)
			for time.Now().Before(deadline) {
				mu.Lock()
				d := total
				mu.Unlock()
				if d >= expect {
					break
				}
				time.Sleep(time.Millisecond)
			}
			quiet(2 * time.Second)
			mu.Lock()
			for _, m := range w.msgs {
				if !arrivedIdx[m.index] {
					continue
				}
				switch {
				case w.decryptable(m) && delivered[m.index] == 0:
					if note == "" {
						note = fmt.Sprintf("message %d (counter %d, chain key opens from %d) was never delivered: %d of %d decryptable messages delivered, %d still parked", m.index, m.counter, w.first[0], total, expect, parked())
					}
				case delivered[m.index] > 1:
					note = fmt.Sprintf("message %d delivered %d times for one arrival", m.index, delivered[m.index])
				case !w.decryptable(m) && delivered[m.index] > 0:
					note = fmt.Sprintf("message %d delivered although the announcement does not open it", m.index)
				}
			}
			if !payloadOK {
				note = "a delivered event carries another payload or sender than the sealed message"
			}
			mu.Unlock()
		}
		finalParked := parked()
		cancel()
		<-loopDone
		sub.Close()
		first := order
		if len(first) > 6 {
			first = first[:6]
		}
		desc := fmt.Sprintf("messages=%d announce-after=%d order=%s (first %v) paced=%v register-before-arrival=%d", n, ann, mode, first, paced, registerAt)
		// the same history for the model with the key window (Model.C08_Window): counters in arrival order,
		// the observations at rest, the counters delivered at the end and what stays parked
		coq := ""
		if w.enc[0] != nil && (note == "" || !strings.HasPrefix(note, "10 s after")) {
			ctrs := make([]uint64, len(order))
			for i, idx := range order {
				ctrs[i] = w.find(0, idx).counter
			}
			var fin []uint64
			mu.Lock()
			for _, m := range w.msgs {
				for k := 0; k < delivered[m.index]; k++ {
					fin = append(fin, m.counter)
				}
			}
			mu.Unlock()
			sort.Slice(fin, func(i, j int) bool { return fin[i] < fin[j] })
			bf := len(order)
			if batchFrom >= 0 {
				bf = batchFrom
			}
			coq = fmt.Sprintf("CWindow %d %d %s %d %v %d %s %s %d", c08windowKeys, w.first[0]-1, vharness.Ns(ctrs), registerAt, paced, bf,
				vharness.List(steps), vharness.Ns(fin), finalParked)
		}
		out.Emit(vharness.Case{
			Kind: "window", Coq: coq, Key: fmt.Sprintf("%d|%s", ci, desc), Nontrivial: n > 100 && expect > 100, OracleOK: note == "", Note: note + " [" + desc + "]",
			Sig:    "message pipeline: decryptable message never delivered",
			Replay: map[string]any{"messages": n, "announce_after": ann, "order": order, "paced": paced, "register_before_arrival": registerAt},
		})
	}
}
