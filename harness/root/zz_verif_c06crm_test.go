//go:build verif

package weshnet

// C06, contact request manager: the real handleIncomingRequest of contact_request_manager.go
// (handshake as responder, then the peer's contact card) driven over an in-memory pipe by a
// scripted peer holding real keys; what gets recorded in the real account-group MetadataStore.

import (
	"context"
	crand "crypto/rand"
	"fmt"
	"net"
	"testing"
	"time"

	"github.com/libp2p/go-libp2p/core/crypto"
	"github.com/libp2p/go-libp2p/core/network"
	"go.uber.org/zap"

	"berty.tech/weshnet/v2/internal/handshake"
	"berty.tech/weshnet/v2/internal/vharness"
	"berty.tech/weshnet/v2/pkg/protocoltypes"
	"berty.tech/weshnet/v2/pkg/protoio"
)

type c06stream struct {
	network.Stream // nil: only the byte stream is used by handleIncomingRequest
	c              net.Conn
}

func (s *c06stream) Read(p []byte) (int, error)  { return s.c.Read(p) }
func (s *c06stream) Write(p []byte) (int, error) { return s.c.Write(p) }
func (s *c06stream) Close() error                { return s.c.Close() }

func TestVerifC06CRM(t *testing.T) {
	out := vharness.Open()
	defer out.Close()
	ctx, cancel := context.WithCancel(context.Background())
	defer cancel()
	rng := vharness.Rng()
	node := vNewNode(ctx, t)
	rounds := vharness.Budget(6, 80)
	if vharness.Budget(1, 1) == 0 {
		rounds = 1
	}
	for round := 0; round < rounds; round++ {
		victim := node.newAccount()
		ms := victim.openMeta(victim.accountGroup())
		vsk, err := victim.ss.GetAccountPrivateKey()
		if err != nil {
			t.Fatal(err)
		}
		vraw, _ := vsk.GetPublic().Raw()
		crm := &contactRequestsManager{
			lookupProcess: make(map[string]context.CancelFunc), metadataStore: ms, logger: zap.NewNop(),
			accountPrivateKey: vsk, ctx: ctx, cancel: func() {},
		}
		type scenario struct {
			name       string
			hsOK       bool   // the peer runs an honest handshake as key A
			wrongTarget bool  // ... but towards another account's key
			card       string // "own" | "other" | "victim" | "short-seed" | "no-seed" | "none" | "garbage" | "bad-pk"
		}
		scs := []scenario{
			{"honest request", true, false, "own"},
			{"honest request without rendezvous seed", true, false, "no-seed"},
			{"card names another account", true, false, "other"},
			{"card names the receiving account itself", true, false, "victim"},
			{"card with a short rendezvous seed", true, false, "short-seed"},
			{"card with a key that is no key", true, false, "bad-pk"},
			{"no card", true, false, "none"},
			{"garbage instead of a card", true, false, "garbage"},
			{"handshake towards another account, then a card", false, true, "own"},
			{"no handshake, card only", false, false, "own"},
		}
		for si, sc := range scs {
			ask, apk, _ := crypto.GenerateEd25519Key(crand.Reader)
			araw, _ := apk.Raw()
			_, opk, _ := crypto.GenerateEd25519Key(crand.Reader)
			oraw, _ := opk.Raw()
			seed := make([]byte, 32)
			crand.Read(seed)
			card := &protocoltypes.ShareableContact{Pk: araw, PublicRendezvousSeed: seed, Metadata: []byte(fmt.Sprintf("md-%d-%d", round, si))}
			cardCoq := "Card 11 true"
			switch sc.card {
			case "other":
				card.Pk, cardCoq = oraw, "Card 12 true"
			case "victim":
				card.Pk, cardCoq = vraw, "Card 1 true"
			case "short-seed":
				card.PublicRendezvousSeed, cardCoq = seed[:16], "Card 11 false"
			case "no-seed":
				card.PublicRendezvousSeed = nil
			case "bad-pk":
				card.Pk, cardCoq = araw[:31], "Card 13 false"
			case "none", "garbage":
				cardCoq = "NoCard"
			}
			c1, c2 := net.Pipe()
			done := make(chan error, 1)
			go func() {
				hctx, hcancel := context.WithTimeout(ctx, 20*time.Second)
				defer hcancel()
				done <- crm.handleIncomingRequest(hctx, &c06stream{c: c1})
				c1.Close()
			}()
			// the peer
			func() {
				defer c2.Close()
				_ = c2.SetDeadline(time.Now().Add(20 * time.Second))
				reader := protoio.NewDelimitedReader(c2, 2048)
				writer := protoio.NewDelimitedWriter(c2)
				if sc.hsOK || sc.wrongTarget {
					target := vsk.GetPublic()
					if sc.wrongTarget {
						target = opk
					}
					if err := handshake.RequestUsingReaderWriter(ctx, zap.NewNop(), reader, writer, ask, target); err != nil {
						return
					}
				}
				switch sc.card {
				case "none":
				case "garbage":
					g := make([]byte, 40)
					crand.Read(g)
					g[0] = 39
					_, _ = c2.Write(g)
				default:
					_ = writer.WriteMsg(card)
				}
			}()
			var herr error
			select {
			case herr = <-done:
			case <-time.After(40 * time.Second):
				t.Fatalf("handleIncomingRequest did not return")
			}
			// what was recorded
			contacts := ms.ListContacts()
			recorded := "None"
			var recKeys []string
			for k, c := range contacts {
				if c.state == protocoltypes.ContactState_ContactStateReceived {
					switch k {
					case string(araw):
						recorded = "(Some 11)"
						recKeys = append(recKeys, "the peer's key")
					case string(oraw):
						recorded = "(Some 12)"
						recKeys = append(recKeys, "ANOTHER account's key")
					case string(vraw):
						recorded = "(Some 1)"
						recKeys = append(recKeys, "the account's OWN key")
					}
				}
			}
			want := "None"
			if sc.hsOK && (sc.card == "own" || sc.card == "no-seed") {
				want = "(Some 11)"
			}
			ok, note := true, ""
			if recorded != want {
				ok = false
				note = fmt.Sprintf("%s: recorded %v (handler error: %v), expected %s", sc.name, recKeys, herr, want)
			}
			if ok && want == "(Some 11)" {
				c := contacts[string(araw)]
				if string(c.contact.Metadata) != string(card.Metadata) || string(c.contact.PublicRendezvousSeed) != string(card.PublicRendezvousSeed) {
					ok, note = false, sc.name+": recorded metadata or seed differ from the card"
				}
			}
			hs := "None"
			if sc.hsOK {
				hs = "(Some 11)"
			}
			out.Emit(vharness.Case{
				Kind: "incoming", Coq: fmt.Sprintf("CIncoming 1 %s (%s) %s", hs, cardCoq, recorded),
				Key:  fmt.Sprintf("%d|%s", round, sc.name), Nontrivial: si > 0, OracleOK: ok, Note: note,
				Sig:    "contact request recorded for a key that was not authenticated: " + sc.name,
				Replay: map[string]any{"scenario": sc.name},
			})
			_ = rng
		}
		ms.Close()
		victim.db.Close()
	}
}
