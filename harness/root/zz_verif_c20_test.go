//go:build verif

package weshnet

// C20 correspondence driver: random account histories (contacts, joined groups, metadata and
// messages in several groups, a second writer for concurrent heads) on a real node; the real
// service.export; the archive checked file by file; restored by the real RestoreAccountExport into
// fresh in-memory nodes, as exported and under a catalogue of mutations.

import (
	"archive/tar"
	"bytes"
	"context"
	crand "crypto/rand"
	"encoding/base64"
	"fmt"
	"io"
	"math/rand"
	"sort"
	"strings"
	"testing"
	"time"

	ipfslog "berty.tech/go-ipfs-log"
	"github.com/ipfs/go-cid"
	cbornode "github.com/ipfs/go-ipld-cbor"
	"github.com/libp2p/go-libp2p/core/crypto"
	mh "github.com/multiformats/go-multihash"
	"go.uber.org/zap"
	"google.golang.org/grpc"
	"google.golang.org/grpc/metadata"
	"google.golang.org/protobuf/proto"

	"berty.tech/weshnet/v2/internal/vharness"
	"berty.tech/weshnet/v2/pkg/protocoltypes"
)

type c20exportStream struct {
	ctx context.Context
	buf bytes.Buffer
}

func (s *c20exportStream) SetHeader(metadata.MD) error  { return nil }
func (s *c20exportStream) SendHeader(metadata.MD) error { return nil }
func (s *c20exportStream) SetTrailer(metadata.MD)       {}
func (s *c20exportStream) Context() context.Context     { return s.ctx }
func (s *c20exportStream) RecvMsg(m any) error          { return fmt.Errorf("no input") }
func (s *c20exportStream) SendMsg(m any) error {
	s.buf.Write(m.(*protocoltypes.ServiceExportData_Reply).ExportedData)
	return nil
}

type c20file struct {
	name string
	data []byte
	typ  byte
}

func c20parse(b []byte) []c20file {
	tr := tar.NewReader(bytes.NewReader(b))
	var fs []c20file
	for {
		h, err := tr.Next()
		if err != nil {
			break
		}
		d, _ := io.ReadAll(tr)
		fs = append(fs, c20file{h.Name, d, h.Typeflag})
	}
	return fs
}

func c20write(fs []c20file) []byte {
	var buf bytes.Buffer
	tw := tar.NewWriter(&buf)
	for _, f := range fs {
		ty := f.typ
		if ty == 0 {
			ty = tar.TypeReg
		}
		_ = tw.WriteHeader(&tar.Header{Typeflag: ty, Name: f.name, Mode: 0o600, Size: int64(len(f.data))})
		_, _ = tw.Write(f.data)
	}
	tw.Close()
	return buf.Bytes()
}

type c20group struct {
	g    *protocoltypes.Group
	gc   *GroupContext
	id   uint64
	name string // heads file name
}

type c20world struct {
	t      *testing.T
	ctx    context.Context
	cids   vIDs
	keys   vIDs
	groups []*c20group
}

// ancestors of every entry of a log (identifiers), by walking the parent links
func c20ancestors(l ipfslog.Log) map[string][]string {
	es := l.GetEntries().Slice()
	by := map[string]ipfslog.Entry{}
	for _, e := range es {
		by[e.GetHash().String()] = e
	}
	memo := map[string]map[string]bool{}
	var anc func(h string) map[string]bool
	anc = func(h string) map[string]bool {
		if m, ok := memo[h]; ok {
			return m
		}
		m := map[string]bool{}
		memo[h] = m
		if e, ok := by[h]; ok {
			for _, n := range e.GetNext() {
				m[n.String()] = true
				for a := range anc(n.String()) {
					m[a] = true
				}
			}
		}
		return m
	}
	out := map[string][]string{}
	for h := range by {
		var xs []string
		for a := range anc(h) {
			xs = append(xs, a)
		}
		sort.Strings(xs)
		out[h] = xs
	}
	return out
}

func (w *c20world) idsOf(hs []string) string {
	xs := make([]uint64, len(hs))
	for i, h := range hs {
		xs[i] = w.cids.id(h)
	}
	return vharness.Ns(xs)
}

// symbolic form of an archive
func (w *c20world) archiveCoq(fs []c20file, anc map[string][]string, keyBlobs map[string]uint64) string {
	var out []string
	for _, f := range fs {
		switch {
		case f.typ != 0 && f.typ != tar.TypeReg:
			out = append(out, "FOther")
		case f.name == exportAccountKeyFilename || f.name == exportAccountProofKeyFilename:
			which := "KAccount"
			if f.name == exportAccountProofKeyFilename {
				which = "KProof"
			}
			b := "BBad"
			if len(f.data) == 0 {
				b = "BEmpty"
			} else if _, err := crypto.UnmarshalPrivateKey(f.data); err == nil {
				if _, ok := keyBlobs[string(f.data)]; !ok {
					keyBlobs[string(f.data)] = uint64(len(keyBlobs) + 1)
				}
				b = fmt.Sprintf("(BKey %d)", keyBlobs[string(f.data)])
			}
			out = append(out, fmt.Sprintf("FKey %s %s", which, b))
		case strings.HasPrefix(f.name, exportOrbitDBEntriesPrefix):
			claimed := strings.TrimPrefix(f.name, exportOrbitDBEntriesPrefix)
			if _, err := cid.Parse(claimed); err != nil {
				out = append(out, "FEntry 0 None")
				continue
			}
			content := "None"
			if len(f.data) > 0 {
				if nd, err := cbornode.Decode(f.data, mh.SHA2_256, -1); err == nil {
					real := nd.Cid().String()
					content = fmt.Sprintf("(Some (mkNode %d %s))", w.cids.id(real), w.idsOf(anc[real]))
				}
			}
			out = append(out, fmt.Sprintf("FEntry %d %s", w.cids.id(claimed), content))
		case strings.HasPrefix(f.name, exportOrbitDBHeadsPrefix):
			he := &protocoltypes.GroupHeadsExport{}
			ok := len(f.data) > 0 && proto.Unmarshal(f.data, he) == nil
			var meta, msg []string
			if ok {
				for _, b := range he.MetadataHeadsCids {
					c, err := cid.Parse(b)
					if err != nil {
						ok = false
						break
					}
					meta = append(meta, c.String())
				}
				for _, b := range he.MessagesHeadsCids {
					c, err := cid.Parse(b)
					if err != nil {
						ok = false
						break
					}
					msg = append(msg, c.String())
				}
			}
			gid := uint64(0)
			if ok {
				gid = w.keys.id(string(he.PublicKey))
			}
			out = append(out, fmt.Sprintf("FHeads %d %v %s %s", gid, ok, w.idsOf(meta), w.idsOf(msg)))
		default:
			out = append(out, "FOther")
		}
	}
	return vharness.List(out)
}

type c20outcome struct {
	class   int // 0 restored, 1 rejected, 2 no completion
	err     error
	account []byte
	proof   []byte
	logs    map[string][4][]string // group id -> meta heads, meta entries, msg heads, msg entries
	state   map[string]string
	lost    string // an exported group the restored node cannot find by its key (what ActivateGroup needs)
}

func c20sorted(es []ipfslog.Entry) []string {
	out := make([]string, len(es))
	for i, e := range es {
		out[i] = e.GetHash().String()
	}
	sort.Strings(out)
	return out
}

func (w *c20world) logsOf(open func(g *protocoltypes.Group) (*GroupContext, error)) (map[string][4][]string, map[string]string, error) {
	logs := map[string][4][]string{}
	state := map[string]string{}
	for _, g := range w.groups {
		gc, err := open(g.g)
		if err != nil {
			return nil, nil, err
		}
		logs[g.name] = [4][]string{
			c20sorted(gc.metadataStore.OpLog().Heads().Slice()), c20sorted(gc.metadataStore.OpLog().GetEntries().Slice()),
			c20sorted(gc.messageStore.OpLog().Heads().Slice()), c20sorted(gc.messageStore.OpLog().GetEntries().Slice()),
		}
		ms := gc.metadataStore
		var parts []string
		for k, c := range ms.ListContacts() {
			parts = append(parts, fmt.Sprintf("c%x=%d/%x/%x", []byte(k)[:4], c.state, c.contact.PublicRendezvousSeed, c.contact.Metadata))
		}
		for _, gg := range ms.ListMultiMemberGroups() {
			parts = append(parts, fmt.Sprintf("g%x", gg.PublicKey[:4]))
		}
		for _, m := range ms.ListMembers() {
			r, _ := m.Raw()
			parts = append(parts, fmt.Sprintf("m%x", r[:4]))
		}
		for _, d := range ms.ListDevices() {
			r, _ := d.Raw()
			parts = append(parts, fmt.Sprintf("d%x", r[:4]))
		}
		en, sc := ms.GetIncomingContactRequestsStatus()
		if sc != nil {
			parts = append(parts, fmt.Sprintf("cr=%v/%x", en, sc.PublicRendezvousSeed))
		}
		sort.Strings(parts)
		state[g.name] = strings.Join(parts, " ")
	}
	return logs, state, nil
}

// restore an archive into a fresh node (with an account already present if hasAccount)
func (w *c20world) restore(archive []byte, hasAccount bool, patience time.Duration) *c20outcome {
	return w.restoreOnto(archive, hasAccount, false, patience)
}

// proofOnly: the store has been used for a multi-member group before its account was ever looked at,
// which creates the account PROOF key (member keys derive from it) and no account key: half an account
func (w *c20world) restoreOnto(archive []byte, hasAccount, proofOnly bool, patience time.Duration) *c20outcome {
	ctx, cancel := context.WithCancel(w.ctx)
	defer cancel()
	n := vNewNode(ctx, w.t)
	r := n.newAccount()
	if proofOnly {
		mg, _, err := NewGroupMultiMember()
		if err != nil {
			w.t.Fatal(err)
		}
		if _, err := r.ss.GetOwnMemberDeviceForGroup(mg); err != nil {
			w.t.Fatal(err)
		}
	} else if !hasAccount {
		// a store without any account key: nothing may be generated before the restore
	} else {
		if _, err := r.ss.GetAccountPrivateKey(); err != nil {
			w.t.Fatal(err)
		}
	}
	done := make(chan error, 1)
	go func() {
		done <- RestoreAccountExport(ctx, bytes.NewReader(archive), n.api.API(), r.db, zap.NewNop())
	}()
	o := &c20outcome{}
	select {
	case err := <-done:
		if err != nil {
			o.class, o.err = 1, err
			return o
		}
	case <-time.After(patience):
		o.class = 2
		return o
	}
	o.account, o.proof, _ = r.ss.ExportAccountKeysForBackup()
	var err error
	o.logs, o.state, err = w.logsOf(func(g *protocoltypes.Group) (*GroupContext, error) { return r.db.OpenGroup(ctx, g, nil) })
	if err != nil {
		o.class, o.err = 1, fmt.Errorf("restored, but a group does not open: %w", err)
		return o
	}
	// what a node does when it starts on the restored state: it rebuilds the group registry of its
	// secret store from the account log (NewService -> reindexGroupDatastore); every exported group must
	// then be found by its public key, which is all ActivateGroup has
	if accGC, err := r.db.OpenGroup(ctx, r.accountGroup(), nil); err == nil {
		if err := reindexGroupDatastore(ctx, r.ss, accGC.metadataStore); err != nil {
			o.lost = "reindexGroupDatastore: " + err.Error()
		}
		for _, g := range w.groups {
			if g.g.GroupType == protocoltypes.GroupType_GroupTypeAccount {
				continue // derived from the account keys when the service starts, not looked up
			}
			pk, _ := g.g.GetPubKey()
			got, err := r.ss.FetchGroupByPublicKey(ctx, pk)
			if err != nil || !bytes.Equal(got.GetSecret(), g.g.GetSecret()) {
				o.lost = fmt.Sprintf("group %s (%v) is in the archive but the restored node does not find it by its key: %v", g.name[:8], g.g.GroupType, err)
			}
		}
	}
	return o
}

func (w *c20world) restoredCoq(o *c20outcome) string {
	if o.class != 0 {
		return "[]"
	}
	var out []string
	for _, g := range w.groups {
		l := o.logs[g.name]
		out = append(out, fmt.Sprintf("(%d, (%s, %s, %s, %s))", g.id, w.idsOf(l[0]), w.idsOf(l[1]), w.idsOf(l[2]), w.idsOf(l[3])))
	}
	return vharness.List(out)
}

func TestVerifC20(t *testing.T) {
	out := vharness.Open()
	defer out.Close()
	ctx, cancel := context.WithCancel(context.Background())
	defer cancel()
	rng := vharness.Rng()
	nh := vharness.Budget(6, 60)
	if vharness.Budget(1, 1) == 0 {
		nh = 1
	}
	for hi := 0; hi < nh; hi++ {
		c20history(t, ctx, out, rng, hi)
	}
}

func c20history(t *testing.T, pctx context.Context, out *vharness.Out, rng *rand.Rand, hi int) {
	ctx, cancel := context.WithCancel(pctx)
	defer cancel()
	w := &c20world{t: t, ctx: ctx}
	node := vNewNode(ctx, t)
	a := node.newAccount()
	other := node.newAccount()
	must := func(_ any, err error) {
		if err != nil {
			t.Fatal(err)
		}
	}
	// --- history
	accG := a.accountGroup()
	accGC, err := a.db.OpenGroup(ctx, accG, nil)
	if err != nil {
		t.Fatal(err)
	}
	var desc []string
	addGroup := func(g *protocoltypes.Group, gc *GroupContext) {
		w.groups = append(w.groups, &c20group{g: g, gc: gc, id: w.keys.id(string(g.PublicKey)), name: base64.RawURLEncoding.EncodeToString(g.PublicKey)})
	}
	addGroup(accG, accGC)
	ms := accGC.metadataStore
	must(ms.AddDeviceToGroup(ctx))
	nops := 1 + rng.Intn(8)
	for i := 0; i < nops; i++ {
		_, cpk, _ := crypto.GenerateEd25519Key(crand.Reader)
		craw, _ := cpk.Raw()
		seed := make([]byte, 32)
		crand.Read(seed)
		sc := &protocoltypes.ShareableContact{Pk: craw, PublicRendezvousSeed: seed, Metadata: []byte(fmt.Sprintf("m%d", i))}
		choice := rng.Intn(6)
		forceBlocked := hi%3 == 1 && i == 0 // every third history has the one-to-one group of a blocked contact
		if forceBlocked {
			choice = 5
		}
		if i == nops-1 && len(w.groups) < 2 {
			choice = 4 // every history has at least one joined group with messages next to the account group (whose message log is empty)
		}
		switch choice {
		case 0:
			must(ms.ContactRequestOutgoingEnqueue(ctx, sc, []byte("own")))
			desc = append(desc, "enqueue")
		case 1:
			must(ms.ContactRequestIncomingReceived(ctx, sc))
			if rng.Intn(2) == 0 {
				must(ms.ContactRequestIncomingAccept(ctx, cpk))
			}
			desc = append(desc, "received")
		case 2:
			must(ms.ContactRequestReferenceReset(ctx))
			must(ms.ContactRequestEnable(ctx))
			desc = append(desc, "reference")
		case 3:
			must(ms.ContactBlock(ctx, cpk))
			desc = append(desc, "block")
		case 5:
			// a contact whose one-to-one group is opened and used, and who may then be blocked / unblocked
			if len(w.groups) < 4 {
				must(ms.ContactRequestIncomingReceived(ctx, sc))
				must(ms.ContactRequestIncomingAccept(ctx, cpk))
				g, err := a.ss.GetGroupForContact(cpk)
				if err != nil {
					t.Fatal(err)
				}
				gc, err := a.db.OpenGroup(ctx, g, nil)
				if err != nil {
					t.Fatal(err)
				}
				addGroup(g, gc)
				must(gc.metadataStore.AddDeviceToGroup(ctx))
				for k := 0; k < 1+rng.Intn(3); k++ {
					must(gc.messageStore.AddMessage(ctx, []byte(fmt.Sprintf("to the contact %d", k))))
				}
				d := "contact-group"
				bk := rng.Intn(3)
				if forceBlocked {
					bk = rng.Intn(2)
				}
				switch bk {
				case 0:
					must(ms.ContactBlock(ctx, cpk))
					d += "+block"
				case 1:
					must(ms.ContactBlock(ctx, cpk))
					must(ms.ContactUnblock(ctx, cpk))
					d += "+block+unblock"
				}
				desc = append(desc, d)
			}
		case 4:
			if len(w.groups) < 3 {
				g, _, _ := NewGroupMultiMember()
				must(ms.GroupJoin(ctx, g))
				gc, err := a.db.OpenGroup(ctx, g, nil)
				if err != nil {
					t.Fatal(err)
				}
				addGroup(g, gc)
				must(gc.metadataStore.AddDeviceToGroup(ctx))
				// a second writer with concurrent entries, merged into ours
				ogc, err := other.db.OpenGroup(ctx, g, nil)
				if err != nil {
					t.Fatal(err)
				}
				must(ogc.metadataStore.AddDeviceToGroup(ctx))
				must(ogc.metadataStore.SendAppMetadata(ctx, []byte("from the other")))
				must(ogc.messageStore.AddMessage(ctx, []byte("hello from the other")))
				for k := 0; k < rng.Intn(4); k++ {
					must(gc.messageStore.AddMessage(ctx, []byte(fmt.Sprintf("message %d", k))))
					must(gc.metadataStore.SendAppMetadata(ctx, []byte(fmt.Sprintf("payload %d", k))))
				}
				vDeliver(ctx, t, gc.metadataStore, ogc.metadataStore.OpLog().Heads().Slice()...)
				vDeliver(ctx, t, gc.messageStore, ogc.messageStore.OpLog().Heads().Slice()...)
				if rng.Intn(2) == 0 {
					must(gc.messageStore.AddMessage(ctx, []byte("after the merge")))
				}
				// weshnet puts no limit on the size of a message: one log entry of well over a megabyte
				if rng.Intn(3) == 0 {
					big := make([]byte, 1300000+rng.Intn(200000))
					crand.Read(big)
					must(gc.messageStore.AddMessage(ctx, big))
					desc = append(desc, "large-message")
				}
				desc = append(desc, "group")
			}
		}
	}

	// --- export through the real service method
	svc := &service{secretStore: a.ss, openedGroups: map[string]*GroupContext{}, ipfsCoreAPI: node.api.API(), logger: zap.NewNop()}
	for _, g := range w.groups {
		svc.openedGroups[string(g.g.PublicKey)] = g.gc
	}
	// through the streaming RPC handler (ServiceExportData), which wraps service.export; the groups are
	// written in map-iteration order, so several exports are taken and every one is checked file by file
	doExport := func() []byte {
		exp := &c20exportStream{ctx: ctx}
		if err := svc.ServiceExportData(&protocoltypes.ServiceExportData_Request{},
			&grpc.GenericServerStream[protocoltypes.ServiceExportData_Request, protocoltypes.ServiceExportData_Reply]{ServerStream: exp}); err != nil {
			t.Fatal(err)
		}
		return exp.buf.Bytes()
	}
	archive := doExport()
	files := c20parse(archive)
	wantLogs, wantState, _ := w.logsOf(func(g *protocoltypes.Group) (*GroupContext, error) {
		for _, x := range w.groups {
			if x.g == g {
				return x.gc, nil
			}
		}
		return nil, fmt.Errorf("unknown")
	})
	anc := map[string][]string{}
	for _, g := range w.groups {
		for h, a := range c20ancestors(g.gc.metadataStore.OpLog()) {
			anc[h] = a
		}
		for h, a := range c20ancestors(g.gc.messageStore.OpLog()) {
			anc[h] = a
		}
	}
	accKey, proofKey, _ := a.ss.ExportAccountKeysForBackup()

	// --- the archive itself: keys, every entry byte-for-byte under its identifier, heads
	for exportNo := 0; exportNo < 6; exportNo++ {
		files := files
		if exportNo > 0 {
			files = c20parse(doExport())
		}
		ok, note := true, ""
		byName := map[string][]byte{}
		for _, f := range files {
			byName[f.name] = f.data
		}
		if !bytes.Equal(byName[exportAccountKeyFilename], accKey) || !bytes.Equal(byName[exportAccountProofKeyFilename], proofKey) {
			ok, note = false, "the archive does not contain the two private keys of the account"
		}
		for _, g := range w.groups {
			for li, l := range []ipfslog.Log{g.gc.metadataStore.OpLog(), g.gc.messageStore.OpLog()} {
				for _, e := range l.GetEntries().Slice() {
					nd, err := node.api.API().Dag().Get(ctx, e.GetHash())
					if err != nil {
						t.Fatal(err)
					}
					got, has := byName[exportOrbitDBEntriesPrefix+e.GetHash().String()]
					if !has {
						ok, note = false, fmt.Sprintf("entry %s of log %d of group %s is missing from the archive", e.GetHash(), li, g.name[:6])
					} else if !bytes.Equal(got, nd.RawData()) {
						ok, note = false, fmt.Sprintf("entry %s is not exported byte-for-byte", e.GetHash())
					}
				}
			}
			he := &protocoltypes.GroupHeadsExport{}
			if err := proto.Unmarshal(byName[exportOrbitDBHeadsPrefix+g.name], he); err != nil || len(byName[exportOrbitDBHeadsPrefix+g.name]) == 0 {
				ok, note = false, "heads file missing for group "+g.name[:6]
			} else {
				var hm, hs []string
				for _, b := range he.MetadataHeadsCids {
					c, _ := cid.Parse(b)
					hm = append(hm, c.String())
				}
				for _, b := range he.MessagesHeadsCids {
					c, _ := cid.Parse(b)
					hs = append(hs, c.String())
				}
				sort.Strings(hm)
				sort.Strings(hs)
				if fmt.Sprint(hm) != fmt.Sprint(wantLogs[g.name][0]) || fmt.Sprint(hs) != fmt.Sprint(wantLogs[g.name][2]) {
					ok, note = false, "exported heads differ from the current heads of group "+g.name[:6]
				}
			}
		}
		out.Emit(vharness.Case{
			Kind: "archive", Coq: "CRestore false [FKey KAccount (BKey 1); FKey KProof (BKey 2)] 0 []",
			Key:  fmt.Sprintf("archive|%d|%d|%v", hi, exportNo, desc), Nontrivial: len(files) > 4, OracleOK: ok, Note: note,
			Sig: "account export: archive content wrong", Replay: map[string]any{"history": desc},
		})
	}

	// --- restore, as exported and mutated
	type mutation struct {
		name    string
		files   []c20file
		account bool
		expect  string // "same" | "rejected" | "any"
		wait    time.Duration
	}
	clone := func() []c20file { return append([]c20file(nil), files...) }
	var entryIdx, headIdx []int
	for i, f := range files {
		if strings.HasPrefix(f.name, exportOrbitDBEntriesPrefix) {
			entryIdx = append(entryIdx, i)
		}
		if strings.HasPrefix(f.name, exportOrbitDBHeadsPrefix) {
			headIdx = append(headIdx, i)
		}
	}
	muts := []mutation{{"as exported", files, false, "same", 30 * time.Second}}
	muts = append(muts, mutation{"onto a store that already holds an account", files, true, "rejected", 30 * time.Second})
	muts = append(muts, mutation{"onto a store that already holds half an account (the proof key, created by the use of a multi-member group)", files, false, "rejected", 30 * time.Second})
	// entry bytes that do not match their identifier
	for k := 0; k < 3 && len(entryIdx) > 0; k++ {
		fs := clone()
		i := entryIdx[rng.Intn(len(entryIdx))]
		d := append([]byte(nil), fs[i].data...)
		d[rng.Intn(len(d))] ^= byte(1 << rng.Intn(8))
		fs[i].data = d
		muts = append(muts, mutation{"entry byte flipped", fs, false, "rejected", 30 * time.Second})
	}
	if len(entryIdx) >= 2 {
		fs := clone()
		i, j := entryIdx[0], entryIdx[len(entryIdx)-1]
		fs[i].data, fs[j].data = fs[j].data, fs[i].data
		muts = append(muts, mutation{"contents of two entry files swapped", fs, false, "rejected", 30 * time.Second})
		fs = clone()
		fs[i].data = fs[i].data[:len(fs[i].data)-1]
		muts = append(muts, mutation{"entry truncated", fs, false, "rejected", 30 * time.Second})
	}
	// key files
	for _, kn := range []string{exportAccountKeyFilename, exportAccountProofKeyFilename} {
		var fs []c20file
		for _, f := range files {
			if f.name != kn {
				fs = append(fs, f)
			}
		}
		muts = append(muts, mutation{"missing " + kn, fs, false, "rejected", 30 * time.Second})
		fs = clone()
		for _, f := range files {
			if f.name == kn {
				fs = append(fs, f)
			}
		}
		muts = append(muts, mutation{"duplicated " + kn + " (at the end)", fs, false, "rejected", 30 * time.Second})
		fs = nil
		for _, f := range files {
			fs = append(fs, f)
			if f.name == kn {
				fs = append(fs, f)
			}
		}
		muts = append(muts, mutation{"duplicated " + kn + " (adjacent)", fs, false, "rejected", 30 * time.Second})
		fs = clone()
		for i := range fs {
			if fs[i].name == kn {
				fs[i].data = nil
			}
		}
		muts = append(muts, mutation{"empty " + kn, fs, false, "rejected", 30 * time.Second})
		fs = clone()
		for i := range fs {
			if fs[i].name == kn {
				fs[i].data = []byte("not a key")
			}
		}
		muts = append(muts, mutation{"garbage in " + kn, fs, false, "rejected", 30 * time.Second})
	}
	{
		fs := clone()
		for i := range fs {
			if fs[i].name == exportAccountProofKeyFilename {
				fs[i].data = accKey
			}
		}
		muts = append(muts, mutation{"both key files hold the account key", fs, false, "rejected", 30 * time.Second})
	}
	// reorderings that keep every heads file after the entries it needs
	{
		fs := clone()
		perm := rng.Perm(len(entryIdx))
		for k, i := range entryIdx {
			fs[i] = files[entryIdx[perm[k]]]
		}
		// all entries first (any order), then heads, keys last
		var es, hs, ks, rest []c20file
		for _, f := range fs {
			switch {
			case strings.HasPrefix(f.name, exportOrbitDBEntriesPrefix):
				es = append(es, f)
			case strings.HasPrefix(f.name, exportOrbitDBHeadsPrefix):
				hs = append(hs, f)
			case f.name == exportAccountKeyFilename || f.name == exportAccountProofKeyFilename:
				ks = append(ks, f)
			default:
				rest = append(rest, f)
			}
		}
		muts = append(muts, mutation{"entries shuffled, then heads, keys last", append(append(append(es, hs...), rest...), ks...), false, "same", 30 * time.Second})
		fs2 := append(clone(), c20file{name: "unknown/file", data: []byte("x")}, c20file{name: "dir/", typ: tar.TypeDir})
		muts = append(muts, mutation{"unknown extra files", fs2, false, "same", 30 * time.Second})
		if len(entryIdx) > 0 {
			fs3 := clone()
			fs3 = append(fs3[:entryIdx[0]+1], fs3[entryIdx[0]:]...)
			muts = append(muts, mutation{"an entry file duplicated", fs3, false, "any", 30 * time.Second})
		}
	}
	// mutations whose outcome the property does not fix: recorded, compared with the model only
	if len(entryIdx) > 0 && hi%2 == 0 {
		var fs []c20file
		drop := entryIdx[rng.Intn(len(entryIdx))]
		for i, f := range files {
			if i != drop {
				fs = append(fs, f)
			}
		}
		muts = append(muts, mutation{"an entry file dropped", fs, false, "any", 4 * time.Second})
	}
	if len(headIdx) > 0 && hi%2 == 1 {
		var es, hs, rest []c20file
		for _, f := range files {
			switch {
			case strings.HasPrefix(f.name, exportOrbitDBEntriesPrefix):
				es = append(es, f)
			case strings.HasPrefix(f.name, exportOrbitDBHeadsPrefix):
				hs = append(hs, f)
			default:
				rest = append(rest, f)
			}
		}
		muts = append(muts, mutation{"heads before entries", append(append(rest, hs...), es...), false, "any", 4 * time.Second})
	}

	keyBlobs := map[string]uint64{}
	for mi, m := range muts {
		o := w.restoreOnto(c20write(m.files), m.account, strings.Contains(m.name, "half an account"), m.wait)
		ok, note := true, ""
		same := o.class == 0 && bytes.Equal(o.account, accKey) && bytes.Equal(o.proof, proofKey) &&
			fmt.Sprint(o.logs) == fmt.Sprint(wantLogs) && fmt.Sprint(o.state) == fmt.Sprint(wantState) && o.lost == ""
		what := []string{"restored", "rejected", "did not complete"}[o.class]
		switch m.expect {
		case "same":
			if !same {
				ok = false
				note = fmt.Sprintf("archive %s: %s", m.name, what)
				if o.class == 0 {
					switch {
					case !bytes.Equal(o.account, accKey) || !bytes.Equal(o.proof, proofKey):
						note += " with another account identity"
					case fmt.Sprint(o.logs) != fmt.Sprint(wantLogs):
						note += " with other log entries or heads"
					case o.lost != "":
						note += ", but " + o.lost
					default:
						note += " with a different derived group state"
					}
				} else if o.err != nil {
					note += ": " + o.err.Error()
				}
			}
		case "rejected":
			if o.class != 1 {
				ok, note = false, fmt.Sprintf("archive with %s was not rejected: %s", m.name, what)
			}
		}
		out.Emit(vharness.Case{
			Kind: "restore",
			Coq:  fmt.Sprintf("CRestore %v %s %d %s", m.account || strings.Contains(m.name, "half an account"), w.archiveCoq(m.files, anc, keyBlobs), o.class, w.restoredCoq(o)),
			Key:  fmt.Sprintf("%d|%v|%s|%d", hi, desc, m.name, mi), Nontrivial: m.name != "as exported" || len(entryIdx) > 3,
			OracleOK: ok, Note: note, Sig: "account restore: " + m.name,
			Replay: map[string]any{"history": desc, "mutation": m.name, "files": len(m.files)},
		})
	}
	for _, g := range w.groups {
		g.gc.Close()
	}
	a.db.Close()
	other.db.Close()
}
