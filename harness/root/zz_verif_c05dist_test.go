//go:build verif

package weshnet

// C05, distribution half: real GroupContexts (OpenGroup + ActivateGroupContext: the event loop of
// group_context.go that answers device announcements with chain-key announcements and registers
// the ones addressed to it) of several accounts/devices in one multi-member group, over replicas
// whose metadata entries the harness delivers in orders of its choosing, until nothing changes.
// The converged metadata log must be quiescent for the rule system of the model, and every device
// must hold the chain key of every other device.

import (
	"context"
	"fmt"
	"sync"
	"sync/atomic"
	"testing"
	"time"

	ipfslog "berty.tech/go-ipfs-log"
	"berty.tech/go-orbit-db/iface"
	"berty.tech/go-orbit-db/stores"
	"github.com/ipfs/go-datastore"
	ds_sync "github.com/ipfs/go-datastore/sync"
	"github.com/libp2p/go-libp2p/core/crypto"
	"github.com/libp2p/go-libp2p/p2p/host/eventbus"

	"berty.tech/weshnet/v2/pkg/secretstore"

	"berty.tech/weshnet/v2/internal/vharness"
	"berty.tech/weshnet/v2/pkg/protocoltypes"
)

// a datastore that calls a hook, once, right before its first write after the hook was armed: the
// harness uses it to let metadata entries reach a replica WHILE its group is being activated (the
// activation's scan of the log registers a chain key, which writes to the secret store)
type c05hookDS struct {
	datastore.Batching
	mu   sync.Mutex
	hook func()
}

func (d *c05hookDS) fire() {
	d.mu.Lock()
	h := d.hook
	d.hook = nil
	d.mu.Unlock()
	if h != nil {
		h()
	}
}

func (d *c05hookDS) arm(h func()) { d.mu.Lock(); d.hook = h; d.mu.Unlock() }

func (d *c05hookDS) Put(ctx context.Context, k datastore.Key, v []byte) error {
	d.fire()
	return d.Batching.Put(ctx, k, v)
}

func (d *c05hookDS) Batch(ctx context.Context) (datastore.Batch, error) {
	d.fire()
	return d.Batching.Batch(ctx)
}

// another device of r's account whose secret store sits on a hooked datastore
func c05newHookedDevice(n *vNode, r *vReplica) (*vReplica, *c05hookDS) {
	sk, proof, err := r.ss.ExportAccountKeysForBackup()
	if err != nil {
		n.t.Fatal(err)
	}
	hd := &c05hookDS{Batching: ds_sync.MutexWrap(datastore.NewMapDatastore())}
	ss, err := secretstore.NewSecretStore(hd, nil)
	if err != nil {
		n.t.Fatal(err)
	}
	if err := ss.ImportAccountKeys(sk, proof); err != nil {
		n.t.Fatal(err)
	}
	return n.replicaWith(ss), hd
}

// vDeliver without a verdict of its own: hand the heads over and wait (a few seconds at most) until they are there
func c05deliverSoft(ctx context.Context, st iface.Store, heads ...ipfslog.Entry) {
	sub, err := st.EventBus().Subscribe(new(stores.EventReplicated))
	if err != nil {
		return
	}
	defer sub.Close()
	if err := st.Sync(ctx, heads); err != nil {
		return
	}
	deadline := time.After(5 * time.Second)
	for {
		all := true
		for _, h := range heads {
			if !vHas(st.OpLog(), h) {
				all = false
			}
		}
		if all {
			return
		}
		select {
		case <-sub.Out():
		case <-time.After(20 * time.Millisecond):
		case <-deadline:
			return
		}
	}
}

func TestVerifC05Dist(t *testing.T) {
	out := vharness.Open()
	defer out.Close()
	ctx, cancel := context.WithCancel(context.Background())
	defer cancel()
	rng := vharness.Rng()
	node := vNewNode(ctx, t)
	ns := vharness.Budget(40, 800)
	if vharness.Budget(1, 1) == 0 {
		ns = 2
	}
	for si := 0; si < ns; si++ {
		g, _, _ := NewGroupMultiMember()
		gpk, _ := g.GetPubKey()
		// 2-3 accounts, the first with 1-2 devices
		var reps []*vReplica
		a := node.newAccount()
		reps = append(reps, a)
		scripted := si%3 == 0 // a late second device of the first account, see below
		during := si%3 == 1  // ... whose activation is under way when the entries of a third account arrive
		var hooked *c05hookDS
		if during {
			var r1 *vReplica
			r1, hooked = c05newHookedDevice(node, a)
			reps = append(reps, r1)
		} else if scripted || rng.Intn(2) == 0 {
			reps = append(reps, node.newDevice(a))
		}
		for k := 0; k < 1+rng.Intn(2) || (during && k < 2); k++ {
			reps = append(reps, node.newAccount())
		}
		type party struct {
			r      *vReplica
			gc     *GroupContext
			dev    crypto.PubKey
			devID  uint64
			active bool
			// entries the store has announced on its bus so far
			announced atomic.Int64
			// the log held at activation, as model entries, and the hashes of those entries
			before    []string
			beforeSet map[string]bool
		}
		var ids vIDs
		ps := make([]*party, len(reps))
		for i, r := range reps {
			gc, err := r.db.OpenGroup(ctx, g, nil)
			if err != nil {
				t.Fatal(err)
			}
			raw, _ := gc.DevicePubKey().Raw()
			ps[i] = &party{r: r, gc: gc, dev: gc.DevicePubKey(), devID: ids.id(string(raw))}
			sub, err := gc.metadataStore.EventBus().Subscribe(new(EventMetadataReceived), eventbus.BufSize(256))
			if err != nil {
				t.Fatal(err)
			}
			go func(p *party) {
				for range sub.Out() {
					p.announced.Add(1)
				}
			}(ps[i])
			defer sub.Close()
		}
		var desc []string
		// a log as entries of the model (announcements of devices and of chain keys), in canonical order
		modelLog := func(ms *MetadataStore) (entries []string, hashes map[string]bool) {
			hashes = map[string]bool{}
			for _, e := range vCanonical(ms.OpLog()) {
				_, ev, err := openMetadataEntry(ms.OpLog(), e, g)
				if err != nil {
					continue
				}
				switch x := ev.(type) {
				case *protocoltypes.GroupMemberDeviceAdded:
					entries = append(entries, fmt.Sprintf("MemberDevice %d %d", ids.id(string(x.MemberPk)), ids.id(string(x.DevicePk))))
				case *protocoltypes.GroupDeviceChainKeyAdded:
					entries = append(entries, fmt.Sprintf("ChainKeyFor %d %d", ids.id(string(x.DevicePk)), ids.id(string(x.DestMemberPk))))
				default:
					continue
				}
				hashes[e.GetHash().String()] = true
			}
			return entries, hashes
		}
		deliver := func(from, to int) {
			vDeliver(ctx, t, ps[to].gc.metadataStore, ps[from].gc.metadataStore.OpLog().Heads().Slice()...)
			desc = append(desc, fmt.Sprintf("%d->%d", from, to))
		}
		activate := func(i int) {
			if ps[i].active {
				return
			}
			actx, acancel := context.WithTimeout(ctx, 20*time.Second)
			defer acancel()
			done := make(chan error, 1)
			// what the device holds when it is activated (the history path scans this)
			ps[i].before, ps[i].beforeSet = modelLog(ps[i].gc.metadataStore)
			go func() { done <- ps[i].gc.ActivateGroupContext(nil) }()
			select {
			case err := <-done:
				if err != nil {
					t.Fatal(err)
				}
			case <-actx.Done():
				t.Fatalf("activation of party %d did not complete", i)
			}
			ps[i].active = true
			desc = append(desc, fmt.Sprintf("activate %d", i))
		}
		// a causally closed PREFIX of a log: some entry (not necessarily a head) and its ancestors - what a
		// replica holds when replication was interrupted: e.g. the chain keys a joining device published
		// for the existing members, without the announcement of that device, which it writes afterwards
		deliverPrefix := func(from, to int) {
			es := ps[from].gc.metadataStore.OpLog().GetEntries().Slice()
			if len(es) == 0 {
				return
			}
			e := es[rng.Intn(len(es))]
			vDeliver(ctx, t, ps[to].gc.metadataStore, e)
			desc = append(desc, fmt.Sprintf("%d-prefix->%d", from, to))
		}
		// the store announces its entries on its bus asynchronously: wait until party i's store has announced
		// all it holds, so that an activation that follows does not also see them as live events (a joining
		// device would then publish its chain key twice, and an entry delivered before the activation would
		// be handled as if it had arrived after it: both hide the scenario below)
		drain := func(i int) {
			deadline := time.Now().Add(5 * time.Second)
			for int(ps[i].announced.Load()) < ps[i].gc.metadataStore.OpLog().Len() && time.Now().Before(deadline) {
				time.Sleep(time.Millisecond)
			}
		}
		if scripted {
			// device 0 of member M is active; another account X learns of it, joins (its chain key for M,
			// THEN its own announcement); the late device 1 of M holds X's chain-key entry but not yet X's
			// announcement when it is activated; the rest arrives afterwards
			activate(0)
			deliver(0, 2)
			drain(2)
			activate(2)
			xms := ps[2].gc.metadataStore
			xraw, _ := ps[2].dev.Raw()
			for _, e := range vCanonical(xms.OpLog()) {
				_, ev, err := openMetadataEntry(xms.OpLog(), e, g)
				if err != nil {
					continue
				}
				if ck, ok := ev.(*protocoltypes.GroupDeviceChainKeyAdded); ok && string(ck.DevicePk) == string(xraw) {
					vDeliver(ctx, t, ps[1].gc.metadataStore, e)
					desc = append(desc, "2-chain-key-entry->1")
					break
				}
			}
			drain(1)
			activate(1)
		}
		if during {
			// device 0 of member M and account X are in the group; account Z joins and publishes its chain keys
			// (for M among others), which at first only Z's replica holds.  The late device 1 of M holds X's
			// chain key for M when it is activated; registering it is the activation's first write to the
			// secret store, and at that moment - the activation under way - Z's entries reach the replica
			activate(0)
			deliver(0, 2)
			drain(2)
			activate(2)
			deliver(2, 0)
			drain(0)
			deliver(0, 3)
			deliver(2, 3)
			drain(3)
			activate(3)
			deliver(2, 1)
			drain(1)
			hooked.arm(func() {
				c05deliverSoft(ctx, ps[1].gc.metadataStore, ps[3].gc.metadataStore.OpLog().Heads().Slice()...)
				drain(1)
				desc = append(desc, "3->1 during the activation of 1")
			})
			activate(1)
			hooked.arm(nil)
		}
		// random interleaving of activations and deliveries
		for step := 0; step < 4+rng.Intn(8); step++ {
			if r := rng.Intn(6); r < 2 {
				activate(rng.Intn(len(ps)))
			} else if r < 4 {
				from, to := rng.Intn(len(ps)), rng.Intn(len(ps))
				if from != to {
					deliverPrefix(from, to)
				}
			} else {
				from, to := rng.Intn(len(ps)), rng.Intn(len(ps))
				if from != to {
					deliver(from, to)
				}
			}
		}
		for i := range ps {
			activate(i)
		}
		// deliver everything to everybody until nothing changes and every key is registered (or 15 s)
		allKnown := func() bool {
			for _, x := range ps {
				for _, y := range ps {
					if x != y && !x.r.ss.IsChainKeyKnownForDevice(ctx, gpk, y.dev) {
						return false
					}
				}
			}
			return true
		}
		sizes := func() string {
			s := ""
			for _, p := range ps {
				s += fmt.Sprint(p.gc.metadataStore.OpLog().Len(), ",")
			}
			return s
		}
		deadline := time.Now().Add(15 * time.Second)
		stable := 0
		for time.Now().Before(deadline) {
			before := sizes()
			for i := range ps {
				for j := range ps {
					if i != j {
						vDeliver(ctx, t, ps[j].gc.metadataStore, ps[i].gc.metadataStore.OpLog().Heads().Slice()...)
					}
				}
			}
			time.Sleep(15 * time.Millisecond)
			if sizes() == before {
				stable++
			} else {
				stable = 0
			}
			if stable >= 3 && (allKnown() || stable >= 40) {
				break
			}
		}
		// the converged log as model entries
		entries, _ := modelLog(ps[0].gc.metadataStore)
		var pairs []string
		ok, note := true, ""
		for xi, x := range ps {
			for yi, y := range ps {
				if x == y {
					continue
				}
				k := x.r.ss.IsChainKeyKnownForDevice(ctx, gpk, y.dev)
				pairs = append(pairs, fmt.Sprintf("(%d, %d, %v)", x.devID, y.devID, k))
				if !k && ok {
					ok = false
					note = fmt.Sprintf("after every entry reached every device and nothing changes any more, device %d does not hold the chain key of device %d (history %v)", xi, yi, desc)
				}
			}
		}
		out.Emit(vharness.Case{
			Kind: "distribution", Coq: fmt.Sprintf("DDist %s %s", vharness.List(entries), vharness.List(pairs)),
			Key:  fmt.Sprintf("%d|%v", si, desc), Nontrivial: len(ps) >= 3, OracleOK: ok, Note: note,
			Sig:    "chain key not distributed to every member device",
			Replay: map[string]any{"devices": len(ps), "history": desc},
		})
		// per device: the log it held when it was activated, what arrived afterwards, and which keys it holds
		for xi, x := range ps {
			var after []string
			ms := x.gc.metadataStore
			for _, e := range vCanonical(ms.OpLog()) {
				if x.beforeSet[e.GetHash().String()] {
					continue
				}
				_, ev, err := openMetadataEntry(ms.OpLog(), e, g)
				if err != nil {
					continue
				}
				switch y := ev.(type) {
				case *protocoltypes.GroupMemberDeviceAdded:
					after = append(after, fmt.Sprintf("MemberDevice %d %d", ids.id(string(y.MemberPk)), ids.id(string(y.DevicePk))))
				case *protocoltypes.GroupDeviceChainKeyAdded:
					after = append(after, fmt.Sprintf("ChainKeyFor %d %d", ids.id(string(y.DevicePk)), ids.id(string(y.DestMemberPk))))
				}
			}
			mraw, _ := x.gc.MemberPubKey().Raw()
			var obs []string
			for _, y := range ps {
				if x != y {
					obs = append(obs, fmt.Sprintf("(%d, %v)", y.devID, x.r.ss.IsChainKeyKnownForDevice(ctx, gpk, y.dev)))
				}
			}
			out.Emit(vharness.Case{
				Kind: "receiving", Coq: fmt.Sprintf("DRecv %d %s %s %s", ids.id(string(mraw)), vharness.List(x.before), vharness.List(after), vharness.List(obs)),
				Key:  fmt.Sprintf("%d|%d|%v", si, xi, desc), Nontrivial: len(x.before) > 0 && len(after) > 0, OracleOK: true,
				Sig:    "chain key addressed to the member not registered by the device",
				Replay: map[string]any{"devices": len(ps), "device": xi, "history": desc, "held_at_activation": x.before, "arrived_afterwards": after},
			})
		}
		for _, p := range ps {
			p.gc.Close()
			p.r.db.Close()
		}
	}
}
