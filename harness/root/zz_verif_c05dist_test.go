//go:build verif

package weshnet

// C05, distribution half: real GroupContexts (OpenGroup + ActivateGroupContext: the event loop of
// group_context.go that answers device announcements with chain-key announcements and registers
// the ones addressed to it) of several accounts/devices in one multi-member group, over replicas
// whose metadata entries the harness delivers in orders of its choosing, until nothing changes.
// The converged metadata log must be quiescent for the rule system of the model, and every device
// must hold the chain key of every other device.

import (
	"context"
	"fmt"
	"testing"
	"time"

	"github.com/libp2p/go-libp2p/core/crypto"

	"berty.tech/weshnet/v2/internal/vharness"
	"berty.tech/weshnet/v2/pkg/protocoltypes"
)

func TestVerifC05Dist(t *testing.T) {
	out := vharness.Open()
	defer out.Close()
	ctx, cancel := context.WithCancel(context.Background())
	defer cancel()
	rng := vharness.Rng()
	node := vNewNode(ctx, t)
	ns := vharness.Budget(40, 800)
	if vharness.Budget(1, 1) == 0 {
		ns = 2
	}
	for si := 0; si < ns; si++ {
		g, _, _ := NewGroupMultiMember()
		gpk, _ := g.GetPubKey()
		// 2-3 accounts, the first with 1-2 devices
		var reps []*vReplica
		a := node.newAccount()
		reps = append(reps, a)
		if rng.Intn(2) == 0 {
			reps = append(reps, node.newDevice(a))
		}
		for k := 0; k < 1+rng.Intn(2); k++ {
			reps = append(reps, node.newAccount())
		}
		type party struct {
			r      *vReplica
			gc     *GroupContext
			dev    crypto.PubKey
			devID  uint64
			active bool
		}
		var ids vIDs
		ps := make([]*party, len(reps))
		for i, r := range reps {
			gc, err := r.db.OpenGroup(ctx, g, nil)
			if err != nil {
				t.Fatal(err)
			}
			raw, _ := gc.DevicePubKey().Raw()
			ps[i] = &party{r: r, gc: gc, dev: gc.DevicePubKey(), devID: ids.id(string(raw))}
		}
		var desc []string
		deliver := func(from, to int) {
			vDeliver(ctx, t, ps[to].gc.metadataStore, ps[from].gc.metadataStore.OpLog().Heads().Slice()...)
			desc = append(desc, fmt.Sprintf("%d->%d", from, to))
		}
		activate := func(i int) {
			if ps[i].active {
				return
			}
			actx, acancel := context.WithTimeout(ctx, 20*time.Second)
			defer acancel()
			done := make(chan error, 1)
			go func() { done <- ps[i].gc.ActivateGroupContext(nil) }()
			select {
			case err := <-done:
				if err != nil {
					t.Fatal(err)
				}
			case <-actx.Done():
				t.Fatalf("activation of party %d did not complete", i)
			}
			ps[i].active = true
			desc = append(desc, fmt.Sprintf("activate %d", i))
		}
		// random interleaving of activations and deliveries
		for step := 0; step < 4+rng.Intn(8); step++ {
			if rng.Intn(3) == 0 {
				activate(rng.Intn(len(ps)))
			} else {
				from, to := rng.Intn(len(ps)), rng.Intn(len(ps))
				if from != to {
					deliver(from, to)
				}
			}
		}
		for i := range ps {
			activate(i)
		}
		// deliver everything to everybody until nothing changes and every key is registered (or 15 s)
		allKnown := func() bool {
			for _, x := range ps {
				for _, y := range ps {
					if x != y && !x.r.ss.IsChainKeyKnownForDevice(ctx, gpk, y.dev) {
						return false
					}
				}
			}
			return true
		}
		sizes := func() string {
			s := ""
			for _, p := range ps {
				s += fmt.Sprint(p.gc.metadataStore.OpLog().Len(), ",")
			}
			return s
		}
		deadline := time.Now().Add(15 * time.Second)
		stable := 0
		for time.Now().Before(deadline) {
			before := sizes()
			for i := range ps {
				for j := range ps {
					if i != j {
						vDeliver(ctx, t, ps[j].gc.metadataStore, ps[i].gc.metadataStore.OpLog().Heads().Slice()...)
					}
				}
			}
			time.Sleep(15 * time.Millisecond)
			if sizes() == before {
				stable++
			} else {
				stable = 0
			}
			if stable >= 3 && (allKnown() || stable >= 40) {
				break
			}
		}
		// the converged log as model entries
		var entries []string
		ms := ps[0].gc.metadataStore
		for _, e := range vCanonical(ms.OpLog()) {
			_, ev, err := openMetadataEntry(ms.OpLog(), e, g)
			if err != nil {
				continue
			}
			switch x := ev.(type) {
			case *protocoltypes.GroupMemberDeviceAdded:
				entries = append(entries, fmt.Sprintf("MemberDevice %d %d", ids.id(string(x.MemberPk)), ids.id(string(x.DevicePk))))
			case *protocoltypes.GroupDeviceChainKeyAdded:
				entries = append(entries, fmt.Sprintf("ChainKeyFor %d %d", ids.id(string(x.DevicePk)), ids.id(string(x.DestMemberPk))))
			}
		}
		var pairs []string
		ok, note := true, ""
		for xi, x := range ps {
			for yi, y := range ps {
				if x == y {
					continue
				}
				k := x.r.ss.IsChainKeyKnownForDevice(ctx, gpk, y.dev)
				pairs = append(pairs, fmt.Sprintf("(%d, %d, %v)", x.devID, y.devID, k))
				if !k && ok {
					ok = false
					note = fmt.Sprintf("after every entry reached every device and nothing changes any more, device %d does not hold the chain key of device %d (history %v)", xi, yi, desc)
				}
			}
		}
		out.Emit(vharness.Case{
			Kind: "distribution", Coq: fmt.Sprintf("CDist %s %s", vharness.List(entries), vharness.List(pairs)),
			Key:  fmt.Sprintf("%d|%v", si, desc), Nontrivial: len(ps) >= 3, OracleOK: ok, Note: note,
			Sig:    "chain key not distributed to every member device",
			Replay: map[string]any{"devices": len(ps), "history": desc},
		})
		for _, p := range ps {
			p.gc.Close()
			p.r.db.Close()
		}
	}
}
