//go:build verif

package weshnet

// C17, third mechanism: "head-exchange messages carry the sender's current rotation value"
// (message_marshaler.go).  Two OrbitDBMessageMarshalers, each over its own RotationInterval, share
// the fake clock of pkg/rendezvous; random histories of registrations (as storeForGroup does them:
// group, shared key and rotation for the store address), head exchanges (Marshal on one side,
// Unmarshal on the other), direct resolutions and clock advances.  The same model as the
// rendezvous stream (Model.C17_Rendezvous, CHist) is fed: an exchange is OXchg followed by the
// receiver looking the carried rotation value up once more (ORot), which is how the harness reads
// the point the receiver mapped it to.

import (
	"bytes"
	crand "crypto/rand"
	"fmt"
	"math/rand"
	"strings"
	"testing"
	"time"

	"berty.tech/go-ipfs-log/enc"
	"berty.tech/go-ipfs-log/entry"
	"berty.tech/go-orbit-db/iface"
	"github.com/ipfs/go-cid"
	"github.com/libp2p/go-libp2p/core/crypto"
	"github.com/libp2p/go-libp2p/core/peer"
	mh "github.com/multiformats/go-multihash"
	"google.golang.org/protobuf/proto"

	"berty.tech/weshnet/v2/internal/vharness"
	"berty.tech/weshnet/v2/pkg/protocoltypes"
	"berty.tech/weshnet/v2/pkg/rendezvous"
	"berty.tech/weshnet/v2/pkg/secretstore"
)

func c17mmBytes(b []byte) string {
	s := make([]string, len(b))
	for i, x := range b {
		s[i] = fmt.Sprint(int(x))
	}
	return "[" + strings.Join(s, ";") + "]"
}

type c17mmPair struct {
	topic string
	g     *protocoltypes.Group
	seed  []byte
}

func c17mmSym(rot []byte, pairs []c17mmPair, nowSec, interval int64) string {
	base := (nowSec / interval) * interval
	for _, p := range pairs {
		for k := int64(-6); k <= 6; k++ {
			per := base + k*interval
			if bytes.Equal(rot, rendezvous.GenerateRendezvousPointForPeriod([]byte(p.topic), p.seed, time.Unix(per, 0))) {
				return fmt.Sprintf("(%s, %d)", c17mmBytes(append([]byte(p.topic), p.seed...)), per)
			}
		}
	}
	return "([999], 0)"
}

func c17mmObs(p *rendezvous.Point, err error, pairs []c17mmPair, nowSec, interval int64) string {
	if err != nil || p == nil {
		return "None"
	}
	return fmt.Sprintf("(Some (%s, %d, %s))", c17mmSym(p.RawRotationTopic(), pairs, nowSec, interval), p.Deadline().Unix(), c17mmBytes([]byte(p.Topic())))
}

func TestVerifC17Marshaler(t *testing.T) {
	out := vharness.Open()
	defer out.Close()
	rng := vharness.Rng()
	n := vharness.Budget(120, 4000)
	if vharness.Budget(1, 1) == 0 {
		n = 3
	}
	for i := 0; i < n; i++ {
		c17mmHistory(t, out, rng)
	}
}

func c17mmHistory(t *testing.T, out *vharness.Out, rng *rand.Rand) {
	interval := []int64{1, 2, 5, 60}[rng.Intn(4)]
	iv := time.Duration(interval) * time.Second
	start := int64(1_700_000_000) + rng.Int63n(100000)
	startNs := rng.Int63n(1_000_000_000)
	if rng.Intn(3) == 0 {
		start, startNs = (start/interval)*interval, 0
	}
	rendezvous.VClockSet(time.Unix(start, startNs))
	nowNs := func() int64 { return rendezvous.VClockNow().UnixNano() }
	nowSec := func() int64 { return rendezvous.VClockNow().Unix() }

	var rps [2]*rendezvous.RotationInterval
	var mms [2]*OrbitDBMessageMarshaler
	var sss [2]secretstore.SecretStore
	var pids [2]peer.ID
	for b := 0; b < 2; b++ {
		ss, err := secretstore.NewInMemSecretStore(nil)
		if err != nil {
			t.Fatal(err)
		}
		_, pk, _ := crypto.GenerateEd25519Key(crand.Reader)
		pid, err := peer.IDFromPublicKey(pk)
		if err != nil {
			t.Fatal(err)
		}
		rps[b] = rendezvous.NewRotationInterval(iv)
		sss[b], pids[b] = ss, pid
		mms[b] = NewOrbitDBMessageMarshaler(pid, ss, rps[b], false)
	}
	// store addresses and the groups behind them; "ta" exists with two different groups (two seeds)
	var pairs []c17mmPair
	for _, topic := range []string{"ta", "tb", "ta"} {
		g, _, err := NewGroupMultiMember()
		if err != nil {
			t.Fatal(err)
		}
		lk, err := g.GetLinkKeyArray()
		if err != nil {
			t.Fatal(err)
		}
		pairs = append(pairs, c17mmPair{topic, g, append([]byte(nil), lk[:]...)})
	}
	pb := func(b int) string {
		if b == 1 {
			return "true"
		}
		return "false"
	}
	var ops, obs []string
	ok, note, sig := true, "", ""
	fail := func(s, nn string) {
		if ok {
			ok, sig, note = false, s, nn
		}
	}
	registered := [2]map[string]c17mmPair{{}, {}}
	everSeed := [2]map[string]bool{{}, {}}
	resolvedPeriod := [2]map[string]int64{{}, {}}
	nontrivial := false
	steps := 4 + rng.Intn(14)
	for j := 0; j < steps; j++ {
		b := rng.Intn(2)
		switch r := rng.Intn(10); {
		case r < 3: // what storeForGroup does when a store of the group is opened
			p := pairs[rng.Intn(len(pairs))]
			mms[b].RegisterGroup(p.topic, p.g)
			sk, err := enc.NewSecretbox(p.seed)
			if err != nil {
				t.Fatal(err)
			}
			mms[b].RegisterSharedKeyForTopic(p.topic, sk)
			rps[b].RegisterRotation(rendezvous.VClockNow(), p.topic, p.seed)
			registered[b][p.topic] = p
			everSeed[b][p.topic+"|"+string(p.seed)] = true
			ops = append(ops, fmt.Sprintf("ORegister %s %s %s", pb(b), c17mmBytes([]byte(p.topic)), c17mmBytes(p.seed)))
			obs = append(obs, "None")
		case r < 5: // direct resolution
			p := pairs[rng.Intn(2)]
			pt, err := rps[b].PointForTopic(p.topic)
			ops = append(ops, fmt.Sprintf("OTopic %s %s", pb(b), c17mmBytes([]byte(p.topic))))
			obs = append(obs, c17mmObs(pt, err, pairs, nowSec(), interval))
			if err == nil {
				resolvedPeriod[b][p.topic] = (nowSec() / interval) * interval
			}
		case r < 8: // head exchange b -> 1-b
			p := pairs[rng.Intn(2)]
			var heads []*entry.Entry
			for k := 0; k < rng.Intn(3); k++ {
				payload := []byte(fmt.Sprintf("head-%d-%d", j, k))
				h, _ := mh.Sum(payload, mh.SHA2_256, -1)
				heads = append(heads, &entry.Entry{LogID: "log", Payload: payload, Hash: cid.NewCidV1(cid.DagCBOR, h), Next: []cid.Cid{}, Refs: []cid.Cid{}, V: 2})
			}
			ops = append(ops, fmt.Sprintf("OXchg %s %s", pb(b), c17mmBytes([]byte(p.topic))))
			payload, err := mms[b].Marshal(&iface.MessageExchangeHeads{Address: p.topic, Heads: heads})
			if err != nil {
				if _, isReg := registered[b][p.topic]; isReg {
					fail("head exchange: registered topic not marshalled", fmt.Sprintf("Marshal for %q failed: %v", p.topic, err))
				}
				obs = append(obs, "None")
				continue
			}
			per := (nowSec() / interval) * interval
			resolvedPeriod[b][p.topic] = per
			wire := &protocoltypes.OrbitDBMessageHeads{}
			if err := proto.Unmarshal(payload, wire); err != nil {
				t.Fatal(err)
			}
			regA := registered[b][p.topic]
			want := rendezvous.GenerateRendezvousPointForPeriod([]byte(p.topic), regA.seed, time.Unix(per, 0))
			if !bytes.Equal(wire.RawRotation, want) {
				fail("head exchange carries a rotation value that is not the one of the current period", fmt.Sprintf("topic %q at unix %d (interval %ds)", p.topic, nowSec(), interval))
			}
			var got iface.MessageExchangeHeads
			err2 := mms[1-b].Unmarshal(payload, &got)
			q, err3 := rps[1-b].PointForRawRotation(wire.RawRotation)
			y := c17mmObs(q, err3, pairs, nowSec(), interval)
			// the model covers the rotation lookup; Unmarshal may also fail later, on the box (a peer that
			// registered the same address with another group since): then the lookup itself succeeded
			x := y
			if err2 != nil && strings.Contains(err2.Error(), "unable to get topic for rendezvous") {
				x = "None"
			}
			obs = append(obs, x)
			ops = append(ops, fmt.Sprintf("ORot %s %s", pb(1-b), c17mmSym(wire.RawRotation, pairs, nowSec(), interval)))
			obs = append(obs, y)
			regB, okB := registered[1-b][p.topic]
			if okB && bytes.Equal(regA.seed, regB.seed) && resolvedPeriod[1-b][p.topic] == per {
				// both resolved the topic in the current period: the message must be accepted and mapped back
				if err2 != nil {
					fail("peers in the same period do not accept each other's rotation value", fmt.Sprintf("Unmarshal of a head exchange for %q at unix %d: %v", p.topic, nowSec(), err2))
				}
			}
			if err2 == nil {
				if got.Address != p.topic {
					fail("rotation value mapped to another topic", fmt.Sprintf("head exchange for %q delivered for %q", p.topic, got.Address))
				}
				if len(got.Heads) != len(heads) {
					fail("head exchange: heads altered", fmt.Sprintf("%d heads sent, %d received", len(heads), len(got.Heads)))
				} else {
					for k := range heads {
						if !got.Heads[k].GetHash().Equals(heads[k].Hash) || !bytes.Equal(got.Heads[k].GetPayload(), heads[k].Payload) {
							fail("head exchange: heads altered", fmt.Sprintf("head %d differs", k))
						}
					}
				}
				if !(okB && everSeed[1-b][p.topic+"|"+string(regA.seed)]) {
					fail("rotation value of an unknown topic or another seed accepted", fmt.Sprintf("head exchange for %q accepted by a peer that never registered that topic with that seed", p.topic))
				}
				// the receiver learns which device is behind the sending peer
				if pdg, found := mms[1-b].GetDevicePKForPeerID(pids[b]); !found {
					fail("head exchange: sender device not recorded", "GetDevicePKForPeerID finds nothing after a successful Unmarshal")
				} else if md, err := sss[b].GetOwnMemberDeviceForGroup(regA.g); err == nil && !pdg.DevicePK.Equals(md.Device()) {
					fail("head exchange: wrong sender device recorded", "device key differs from the sender's device key for that group")
				}
			}
			nontrivial = true
		default:
			var dt int64
			rem := (nowSec()/interval+1)*interval*1e9 - nowNs()
			switch rng.Intn(6) {
			case 0:
				dt = rem - 1
			case 1:
				dt = rem
			case 2:
				dt = rem + 1
			case 3:
				dt = rem + interval*1e9 + rng.Int63n(interval*1e9)
			case 4:
				dt = 86400*1e9 + rng.Int63n(3*interval*1e9+1)
			default:
				dt = rng.Int63n(interval*1e9) + 1
			}
			if dt <= 0 {
				dt = 1
			}
			rendezvous.VClockAdvance(time.Duration(dt))
			ops = append(ops, fmt.Sprintf("OAdvance %d", dt))
			obs = append(obs, "None")
			nontrivial = true
		}
	}
	coq := fmt.Sprintf("CHist is_expired_op %d %d %s %s", start*1e9+startNs, interval, vharness.List(ops), vharness.List(obs))
	out.Emit(vharness.Case{Kind: "head-exchange", Coq: coq, Key: coq, Nontrivial: nontrivial, OracleOK: ok, Note: note, Sig: sig})
}
