//go:build verif

package weshnet

// C16, "GroupDeviceStatus stream": the real handler of a real service (NewTestingProtocol) runs
// against a stub stream while another goroutine performs random associate/update sequences on the
// service's ConnectednessManager, with real parallelism and small random pauses.  When the updates
// are over, the last reply the stream carried for every peer of the group must tell that peer's
// final state (no missed update) - except for a peer that is Connected but whose device key the node
// never learnt, for which the handler sends nothing by design.  Decided by this oracle alone
// (CNotifyOracleOnly): the schedule is not under control here; the controlled-scheduler stream
// explores the same WaitForConnectednessChange loop exhaustively.

import (
	"context"
	crand "crypto/rand"
	"fmt"
	"sync"
	"testing"
	"time"

	"github.com/libp2p/go-libp2p/core/crypto"
	"github.com/libp2p/go-libp2p/core/peer"
	"google.golang.org/grpc/metadata"
	"google.golang.org/protobuf/proto"

	"berty.tech/weshnet/v2/internal/vharness"
	"berty.tech/weshnet/v2/pkg/protocoltypes"
)

type c16stream struct {
	ctx context.Context
	mu  sync.Mutex
	got []*protocoltypes.GroupDeviceStatus_Reply
}

func (s *c16stream) Send(r *protocoltypes.GroupDeviceStatus_Reply) error {
	s.mu.Lock()
	s.got = append(s.got, proto.Clone(r).(*protocoltypes.GroupDeviceStatus_Reply))
	s.mu.Unlock()
	return nil
}
func (s *c16stream) SetHeader(metadata.MD) error  { return nil }
func (s *c16stream) SendHeader(metadata.MD) error { return nil }
func (s *c16stream) SetTrailer(metadata.MD)       {}
func (s *c16stream) Context() context.Context     { return s.ctx }
func (s *c16stream) SendMsg(m any) error          { return nil }
func (s *c16stream) RecvMsg(m any) error          { return fmt.Errorf("no input") }

// last state the stream reported per peer: 0 disconnected, 1 reconnecting, 2 connected
func (s *c16stream) last() map[string]int {
	s.mu.Lock()
	defer s.mu.Unlock()
	out := map[string]int{}
	for _, r := range s.got {
		switch r.Type {
		case protocoltypes.GroupDeviceStatus_TypePeerDisconnected:
			m := &protocoltypes.GroupDeviceStatus_Reply_PeerDisconnected{}
			if proto.Unmarshal(r.Event, m) == nil {
				out[m.PeerId] = 0
			}
		case protocoltypes.GroupDeviceStatus_TypePeerConnected:
			// the handler uses this type for reconnecting peers too; the two payloads differ by the device key
			c := &protocoltypes.GroupDeviceStatus_Reply_PeerConnected{}
			if proto.Unmarshal(r.Event, c) == nil && len(c.DevicePk) > 0 {
				out[c.PeerId] = 2
			} else {
				m := &protocoltypes.GroupDeviceStatus_Reply_PeerReconnecting{}
				if proto.Unmarshal(r.Event, m) == nil {
					out[m.PeerId] = 1
				}
			}
		}
	}
	return out
}

func TestVerifC16Stream(t *testing.T) {
	out := vharness.Open()
	defer out.Close()
	ctx, cancel := context.WithCancel(context.Background())
	defer cancel()
	rng := vharness.Rng()
	tp, cleanup := NewTestingProtocol(ctx, t, nil, nil)
	defer cleanup()
	svc := tp.Service.(*service)
	n := vharness.Budget(60, 1000)
	if vharness.Budget(1, 1) == 0 {
		n = 2
	}
	for it := 0; it < n; it++ {
		gpk := make([]byte, 32)
		crand.Read(gpk)
		gkey := fmt.Sprintf("%x", gpk)
		// peers; the device key of some of them is known to the node (learnt from a head exchange)
		var pids []peer.ID
		known := map[peer.ID]bool{}
		for k := 0; k < 1+rng.Intn(3); k++ {
			_, pk, _ := crypto.GenerateEd25519Key(crand.Reader)
			pid, _ := peer.IDFromPublicKey(pk)
			pids = append(pids, pid)
			if rng.Intn(3) != 0 {
				_, dpk, _ := crypto.GenerateEd25519Key(crand.Reader)
				mm := svc.odb.messageMarshaler
				mm.muMarshall.Lock()
				mm.deviceCaches[pid] = &PeerDeviceGroup{DevicePK: dpk}
				mm.muMarshall.Unlock()
				known[pid] = true
			}
		}
		sctx, scancel := context.WithCancel(ctx)
		st := &c16stream{ctx: sctx}
		done := make(chan error, 1)
		startHandler := func() {
			go func() {
				done <- svc.GroupDeviceStatus(&protocoltypes.GroupDeviceStatus_Request{GroupPk: gpk}, st)
			}()
		}
		late := rng.Intn(3) == 0 // the stream is opened after some of the updates
		if !late {
			startHandler()
		}
		nops := 2 + rng.Intn(10)
		var desc []string
		for j := 0; j < nops; j++ {
			p := pids[rng.Intn(len(pids))]
			if rng.Intn(3) == 0 {
				svc.peerStatusManager.AssociatePeer(gkey, p)
				desc = append(desc, fmt.Sprintf("assoc %d", indexOfPeer(pids, p)))
			} else {
				v := ConnectednessType(rng.Intn(3))
				svc.peerStatusManager.UpdateState(p, v)
				desc = append(desc, fmt.Sprintf("upd %d %d", indexOfPeer(pids, p), int(v)))
			}
			switch rng.Intn(4) {
			case 0:
				time.Sleep(time.Duration(rng.Intn(300)) * time.Microsecond)
			case 1:
				for y := 0; y < rng.Intn(4); y++ {
					time.Sleep(0)
				}
			}
			if late && j == nops/2 {
				startHandler()
			}
		}
		// final states of the peers of the group
		type fin struct {
			status int
			has    bool
		}
		final := map[peer.ID]fin{}
		m := svc.peerStatusManager
		m.muState.Lock()
		if g, ok := m.groupState[gkey]; ok {
			for p := range g.peers {
				if sp, ok := m.peerState[p]; ok {
					final[p] = fin{int(sp.status), true}
				}
			}
		}
		m.muState.Unlock()
		check := func() string {
			last := st.last()
			for p, f := range final {
				if f.status == int(ConnectednessTypeConnected) && !known[p] {
					continue
				}
				want := map[int]int{int(ConnectednessTypeDisconnected): 0, int(ConnectednessTypeReconnecting): 1, int(ConnectednessTypeConnected): 2}[f.status]
				got, ok := last[p.String()]
				if !ok {
					return fmt.Sprintf("peer %d of the group ends in state %d, the stream never reported it", indexOfPeer(pids, p), f.status)
				}
				if got != want {
					return fmt.Sprintf("peer %d of the group ends in state %d, the last reply of the stream says %d", indexOfPeer(pids, p), want, got)
				}
			}
			return ""
		}
		issue := check()
		for deadline := time.Now().Add(5 * time.Second); issue != "" && time.Now().Before(deadline); {
			time.Sleep(2 * time.Millisecond)
			issue = check()
		}
		scancel()
		ended := true
		select {
		case <-done:
		case <-time.After(5 * time.Second):
			ended = false
		}
		ok, note, sig := true, "", ""
		if issue != "" {
			ok, sig = false, "missed update on the GroupDeviceStatus stream"
			note = fmt.Sprintf("operations %v (stream opened late: %v): %s, 5 s after the last update", desc, late, issue)
		} else if !ended {
			ok, sig = false, "GroupDeviceStatus does not end with its context"
			note = fmt.Sprintf("operations %v: the handler had not returned 5 s after its context was cancelled", desc)
		}
		out.Emit(vharness.Case{Kind: "device-status-stream", Coq: fmt.Sprintf("CNotifyOracleOnly %d", nops), Key: fmt.Sprintf("%d|%v|%v", it, desc, late),
			Nontrivial: len(final) > 0, OracleOK: ok, Note: note, Sig: sig, Replay: map[string]any{"operations": desc, "late": late}})
	}
}

func indexOfPeer(ps []peer.ID, p peer.ID) int {
	for i, x := range ps {
		if x == p {
			return i
		}
	}
	return -1
}
