//go:build verif

package weshnet

// C08 correspondence driver: the real pipeline of store_message.go (processMessageLoop,
// getOrCreateDeviceCache, ProcessMessageQueueForDevicePK, addToMessageQueue) on a MessageStore
// assembled by hand around REAL secret stores (real ratchets, real sealed envelopes), with its
// three kinds of activity — arrival of entries, the consumer loop, chain-key registration — run
// as threads of the controlled scheduler over scheduling points injected into the current source.
// Small scenarios are explored exhaustively, larger ones with random schedules.  Every run ends
// when no thread can move; the final state is compared with the Coq model following the same
// schedule (driver) and with the property itself (here).

import (
	"context"
	"fmt"
	"math/rand"
	"sort"
	"strings"
	"testing"

	"berty.tech/go-ipfs-log/entry"
	"berty.tech/go-orbit-db/stores/operation"
	"github.com/ipfs/go-cid"
	"github.com/libp2p/go-libp2p/core/crypto"
	"github.com/libp2p/go-libp2p/p2p/host/eventbus"
	mh "github.com/multiformats/go-multihash"
	"github.com/prometheus/client_golang/prometheus"
	"go.uber.org/zap"
	"google.golang.org/protobuf/proto"

	"berty.tech/weshnet/v2/internal/vharness"
	"berty.tech/weshnet/v2/internal/vsched"
	"berty.tech/weshnet/v2/pkg/protocoltypes"
	"berty.tech/weshnet/v2/pkg/secretstore"
)

// a scenario: per sender the number of messages and after how many of them the chain key is
// shared with the receiver (the announcement opens the messages sealed AFTER it); the arrival
// order of the entries; the order of the registrations
type c08scenario struct {
	msgs     []int   // messages per sender
	announce []int   // per sender: announcement made after this many messages (-1: never)
	arrival  [][2]int // (sender, index) in arrival order
	regOrder []int   // senders in registration order (those with an announcement)
	// script, when set: arrivals and registrations are ONE thread doing these actions in this order
	// ({0, sender, index}: the entry arrives; {1, sender, 0}: RegisterChainKey; {2, sender, 0}:
	// ProcessMessageQueueForDevicePK), so that an arrival can be placed inside the window between
	// the registration of a key and the flush of the parked messages; arrival and regOrder list the
	// same actions per kind
	script [][3]int
}

func (s c08scenario) String() string {
	if s.script != nil {
		return fmt.Sprintf("msgs=%v announce-after=%v script(0 arrive,1 register,2 flush)=%v", s.msgs, s.announce, s.script)
	}
	return fmt.Sprintf("msgs=%v announce-after=%v arrival=%v registrations=%v", s.msgs, s.announce, s.arrival, s.regOrder)
}

type c08msg struct {
	sender, index int
	counter       uint64
	id            uint64
	entry         *entry.Entry
	hash          string
}

type c08world struct {
	sc       c08scenario
	g        *protocoltypes.Group
	recv     secretstore.SecretStore
	senders  []secretstore.SecretStore
	devPK    []crypto.PubKey
	devRaw   [][]byte
	msgs     []*c08msg   // all messages
	byHash   map[string]*c08msg
	enc      [][]byte // encrypted chain key per sender (nil: never announced)
	first    []uint64 // per sender: first counter the announcement opens
}

func c08build(t *testing.T, sc c08scenario) *c08world {
	ctx := context.Background()
	w := &c08world{sc: sc, byHash: map[string]*c08msg{}}
	g, _, err := NewGroupMultiMember()
	if err != nil {
		t.Fatal(err)
	}
	w.g = g
	w.recv, err = secretstore.NewInMemSecretStore(nil)
	if err != nil {
		t.Fatal(err)
	}
	rmd, err := w.recv.GetOwnMemberDeviceForGroup(g)
	if err != nil {
		t.Fatal(err)
	}
	id := uint64(0)
	for si, n := range sc.msgs {
		ss, err := secretstore.NewInMemSecretStore(nil)
		if err != nil {
			t.Fatal(err)
		}
		w.senders = append(w.senders, ss)
		md, err := ss.GetOwnMemberDeviceForGroup(g)
		if err != nil {
			t.Fatal(err)
		}
		raw, _ := md.Device().Raw()
		w.devPK = append(w.devPK, md.Device())
		w.devRaw = append(w.devRaw, raw)
		// force the chain key
		if _, err := ss.GetShareableChainKey(ctx, g, md.Member()); err != nil {
			t.Fatal(err)
		}
		var enc []byte
		first := uint64(0)
		announced := false
		share := func() {
			e, err := ss.GetShareableChainKey(ctx, g, rmd.Member())
			if err != nil {
				t.Fatal(err)
			}
			enc, announced = e, true
		}
		if sc.announce[si] == 0 {
			share()
		}
		for k := 0; k < n; k++ {
			clear, _ := proto.Marshal(&protocoltypes.EncryptedMessage{Plaintext: []byte(fmt.Sprintf("payload %d/%d", si, k)), ProtocolMetadata: &protocoltypes.ProtocolMetadata{}})
			sealed, err := ss.SealEnvelope(ctx, g, clear)
			if err != nil {
				t.Fatal(err)
			}
			_, hd, err := ss.OpenEnvelopeHeaders(sealed, g)
			if err != nil {
				t.Fatal(err)
			}
			op := operation.NewOperation(nil, "ADD", sealed)
			payload, _ := op.Marshal()
			h, _ := mh.Sum(payload, mh.SHA2_256, -1)
			c := cid.NewCidV1(cid.DagCBOR, h)
			id++
			m := &c08msg{sender: si, index: k, counter: hd.Counter, id: id, hash: c.String(),
				entry: &entry.Entry{Payload: payload, Hash: c, Next: []cid.Cid{}, Refs: []cid.Cid{}}}
			w.msgs = append(w.msgs, m)
			w.byHash[m.hash] = m
			if announced && first == 0 {
				first = hd.Counter
			}
			if sc.announce[si] == k+1 {
				share()
			}
		}
		if announced && first == 0 {
			first = ^uint64(0) >> 1 // announced after the last message: opens nothing that exists
		}
		w.enc = append(w.enc, enc)
		w.first = append(w.first, first)
	}
	return w
}

func (w *c08world) find(sender, index int) *c08msg {
	for _, m := range w.msgs {
		if m.sender == sender && m.index == index {
			return m
		}
	}
	return nil
}

func (w *c08world) decryptable(m *c08msg) bool {
	return w.enc[m.sender] != nil && m.counter >= w.first[m.sender]
}

type c08obs struct {
	delivered []uint64
	payloadOK bool
	fifo      []uint64
	parked    map[int][]uint64
	consumerWaiting bool
	sched     []uint64
	deadlock  bool
	note      string
}

// c08setup builds a fresh world for one run and spawns the three threads.
func c08setup(t *testing.T, sc c08scenario, out *c08obs) func(c *vsched.Ctl) func(r *vsched.Run) {
	return func(c *vsched.Ctl) func(r *vsched.Run) {
		w := c08build(t, sc)
		ctx, cancel := context.WithCancel(context.Background())
		bus := eventbus.NewBus()
		tracer := newMessageMetricsTracer(prometheus.NewRegistry())
		gpk, _ := w.g.GetPubKey()
		rmd, _ := w.recv.GetOwnMemberDeviceForGroup(w.g)
		rraw, _ := rmd.Device().Raw()
		ms := &MessageStore{
			eventBus: bus, secretStore: w.recv, messagesQueue: newMessageQueue("cache", tracer),
			group: w.g, groupPublicKey: gpk, logger: zap.NewNop(), deviceCaches: make(map[string]*groupCache),
			currentDevicePublicKey: rmd.Device(), currentDevicePublicKeyRaw: rraw,
		}
		ms.ctx, ms.cancel = ctx, cancel
		var err error
		if ms.emitters.groupMessage, err = bus.Emitter(new(*protocoltypes.GroupMessageEvent)); err != nil {
			t.Fatal(err)
		}
		if ms.emitters.groupCacheMessage, err = bus.Emitter(new(messageItem)); err != nil {
			t.Fatal(err)
		}
		sub, err := bus.Subscribe(new(*protocoltypes.GroupMessageEvent), eventbus.BufSize(1024))
		if err != nil {
			t.Fatal(err)
		}

		c.Spawn("consumer", func() string {
			ms.processMessageLoop(ctx, tracer)
			return ""
		})
		if sc.script != nil {
			c.Spawn("driver", func() string {
				for _, a := range sc.script {
					switch a[0] {
					case 0:
						m := w.find(a[1], a[2])
						vsched.Yield("call", nil, "arrive")
						if err := ms.addToMessageQueue(ctx, m.entry); err != nil {
							return "error: " + err.Error()
						}
					case 1:
						vsched.Yield("call", nil, "register")
						if err := w.recv.RegisterChainKey(ctx, w.g, w.devPK[a[1]], w.enc[a[1]]); err != nil {
							return "error: " + err.Error()
						}
					case 2:
						vsched.Yield("call", nil, "flush")
						ms.ProcessMessageQueueForDevicePK(ctx, w.devRaw[a[1]])
					}
				}
				return ""
			})
		} else {
		c.Spawn("arrival", func() string {
			for _, a := range sc.arrival {
				m := w.find(a[0], a[1])
				vsched.Yield("call", nil, "arrive")
				if err := ms.addToMessageQueue(ctx, m.entry); err != nil {
					return "error: " + err.Error()
				}
			}
			return ""
		})
		c.Spawn("registrar", func() string {
			for _, si := range sc.regOrder {
				vsched.Yield("call", nil, "register")
				if err := w.recv.RegisterChainKey(ctx, w.g, w.devPK[si], w.enc[si]); err != nil {
					return "error: " + err.Error()
				}
				ms.ProcessMessageQueueForDevicePK(ctx, w.devRaw[si])
			}
			return ""
		})
		}

		return func(r *vsched.Run) {
			// the schedule in terms of model steps
			code := map[string]uint64{"arrival": 0, "consumer": 1, "registrar": 2}
			prev := map[string]vsched.Status{}
			wasBlocked := false
			driverMode := uint64(0)
			for i, th := range r.Sched {
				// the scheduling point this step released the thread from (recorded by the controller when it
				// released it, not read back from a later status)
				passed := "start"
				if i < len(r.Passed) && r.Passed[i] != "" {
					passed = r.Passed[i]
				}
				// scheduling points before accesses to the chain-key flag are no steps of the model (inside the
				// critical section nothing else can move; outside it they are what lets the race be seen)
				emit := passed != "start" && !strings.HasSuffix(passed, ":start") && !strings.Contains(passed, ":field:")
				if th == "driver" {
					// a step of the driver is a step of the model's arrival thread or of its registrar
					switch passed {
					case "arrive":
						driverMode = 0
					case "register":
						driverMode = 2
					case "flush":
						driverMode, emit = 2, false // entering the flush is no step of its own
					}
					code["driver"] = driverMode
				}
				var consNow vsched.Status
				for _, st := range r.Obs[i] {
					prev[st.Name] = st
					if st.Name == "consumer" {
						consNow = st
					}
				}
				if th == "consumer" && strings.Contains(passed, "WaitForItem") && consNow.State == "blocked" {
					emit = false // parked on an empty queue: no model step
				}
				if emit {
					out.sched = append(out.sched, code[th])
				}
				// a consumer parked in WaitForItem that is now past it took an item during this step
				if th != "consumer" && wasBlocked && consNow.State != "blocked" {
					out.sched = append(out.sched, 1)
				}
				wasBlocked = consNow.State == "blocked" && strings.Contains(consNow.Label, "WaitForItem")
			}
			for _, st := range r.Final {
				if st.State == "at" && !st.Enabled {
					out.deadlock = true
					out.note = fmt.Sprintf("thread %s waits for a mutex nobody releases (at %s)", st.Name, st.Label)
				}
				if st.State == "done" && strings.HasPrefix(st.Result, "error") {
					out.note = st.Name + " " + st.Result
				}
				if st.Name == "consumer" {
					out.consumerWaiting = st.State == "blocked"
				}
			}
			// what was delivered
			out.payloadOK = true
		drain:
			for {
				select {
				case e := <-sub.Out():
					ev := e.(*protocoltypes.GroupMessageEvent)
					c, err := cid.Cast(ev.EventContext.Id)
					if err != nil {
						out.payloadOK = false
						continue
					}
					m := w.byHash[c.String()]
					if m == nil {
						out.payloadOK = false
						continue
					}
					out.delivered = append(out.delivered, m.id)
					if string(ev.Message) != fmt.Sprintf("payload %d/%d", m.sender, m.index) || string(ev.Headers.DevicePk) != string(w.devRaw[m.sender]) {
						out.payloadOK = false
					}
				default:
					break drain
				}
			}
			// what is still queued or parked
			for {
				it, ok := ms.messagesQueue.Pop()
				if !ok {
					break
				}
				out.fifo = append(out.fifo, w.byHash[it.hash.String()].id)
			}
			out.parked = map[int][]uint64{}
			for si := range sc.msgs {
				if dc, ok := ms.deviceCaches[string(w.devRaw[si])]; ok {
					var ids []uint64
					_ = dc.queue.NextAll(func(it *messageItem) error {
						ids = append(ids, w.byHash[it.hash.String()].id)
						return nil
					})
					out.parked[si] = ids
				}
			}
			// oracle
			if out.note == "" && !out.deadlock {
				cnt := map[uint64]int{}
				for _, id := range out.delivered {
					cnt[id]++
				}
				arrivedCnt := map[uint64]int{}
				for _, a := range sc.arrival {
					arrivedCnt[w.find(a[0], a[1]).id]++
				}
				for _, m := range w.msgs {
					if arrivedCnt[m.id] == 0 {
						continue
					}
					switch {
					case w.decryptable(m) && cnt[m.id] == 0:
						where := "parked"
						for _, id := range out.fifo {
							if id == m.id {
								where = "queued"
							}
						}
						out.note = fmt.Sprintf("message %d of sender %d (counter %d, chain key opens from %d) is %s and never delivered although nothing can move any more", m.index, m.sender, m.counter, w.first[m.sender], where)
					case cnt[m.id] > arrivedCnt[m.id]:
						out.note = fmt.Sprintf("message %d of sender %d delivered %d times for %d arrival(s)", m.index, m.sender, cnt[m.id], arrivedCnt[m.id])
					case !w.decryptable(m) && cnt[m.id] > 0:
						out.note = fmt.Sprintf("message %d of sender %d delivered although its chain key state was never announced", m.index, m.sender)
					}
				}
				if !out.payloadOK {
					out.note = "a delivered event carries another payload or sender than the sealed message"
				}
			}
			cancel()
			sub.Close()
		}
	}
}

func (sc c08scenario) coq(t *testing.T, w *c08world) (arr, regs string) {
	var as []string
	for _, a := range sc.arrival {
		m := w.find(a[0], a[1])
		as = append(as, fmt.Sprintf("mkMsg %d %d %d", m.sender+1, m.counter, m.id))
	}
	var rs []string
	for _, si := range sc.regOrder {
		rs = append(rs, fmt.Sprintf("(%d, %d)", si+1, w.first[si]))
	}
	return vharness.List(as), vharness.List(rs)
}

// c08script builds a scripted scenario (one sender per index of msgs).
func c08script(msgs, announce []int, script [][3]int) c08scenario {
	sc := c08scenario{msgs: msgs, announce: announce, script: script}
	for _, a := range script {
		switch a[0] {
		case 0:
			sc.arrival = append(sc.arrival, [2]int{a[1], a[2]})
		case 1:
			sc.regOrder = append(sc.regOrder, a[1])
		}
	}
	return sc
}

func TestVerifC08(t *testing.T) {
	out := vharness.Open()
	defer out.Close()
	rng := vharness.Rng()
	order := map[string]int{"consumer": 0, "arrival": 1, "registrar": 2, "driver": 1}

	emit := func(kind string, sc c08scenario, o *c08obs, sched []string) {
		// counters and ids are the same in every run of a scenario (fresh stores, same order of sealing)
		w := c08build(t, sc)
		arr, regs := sc.coq(t, w)
		var pk []string
		for si := range sc.msgs {
			ids := append([]uint64(nil), o.parked[si]...)
			// the model lists parked messages in counter order = id order within a sender
			sort.Slice(ids, func(i, j int) bool { return ids[i] < ids[j] })
			pk = append(pk, fmt.Sprintf("(%d, %s)", si+1, vharness.Ns(ids)))
		}
		ok := o.note == ""
		sig := "message pipeline: decryptable message never delivered"
		if strings.HasPrefix(o.note, "harness:") {
			sig = "harness error"
		} else if o.deadlock {
			sig = "message pipeline: deadlock"
		} else if strings.Contains(o.note, "times for") || strings.Contains(o.note, "never announced") || strings.Contains(o.note, "another payload") {
			sig = "message pipeline: wrong delivery"
		}
		out.Emit(vharness.Case{
			Kind: kind,
			Coq: fmt.Sprintf("CRun %s %s %s %s %s %s %v", arr, regs, vharness.Ns(o.sched), vharness.Ns(o.delivered), vharness.Ns(o.fifo), vharness.List(pk), o.consumerWaiting),
			Key:  fmt.Sprintf("%v|%v", sc, sched), Nontrivial: len(sc.regOrder) > 0 && len(sc.arrival) > 0,
			OracleOK: ok, Note: fmt.Sprintf("%s [scenario %v, schedule %v]", o.note, sc, strings.Join(sched, " ")), Sig: sig,
			Replay: map[string]any{"scenario": sc.String(), "schedule": sched},
		})
	}

	// exhaustive exploration of small scenarios
	small := []c08scenario{
		{msgs: []int{1}, announce: []int{0}, arrival: [][2]int{{0, 0}}, regOrder: []int{0}},
		{msgs: []int{2}, announce: []int{1}, arrival: [][2]int{{0, 0}, {0, 1}}, regOrder: []int{0}},
		{msgs: []int{2}, announce: []int{0}, arrival: [][2]int{{0, 1}, {0, 0}}, regOrder: []int{0}},
	}
	maxRuns := vharness.Budget(900, 30000)
	if vharness.Budget(1, 1) == 0 {
		maxRuns = 20
	}
	for _, sc := range small {
		sc := sc
		var o *c08obs
		n, exhausted := vsched.Explore(func(c *vsched.Ctl) func(r *vsched.Run) {
			o = &c08obs{}
			return c08setup(t, sc, o)(c)
		}, order, 400, maxRuns/len(small), func(r vsched.Run) {
			if r.Err != "" {
				o.note, o.deadlock = "harness: "+r.Err, false
			}
			emit("exhaustive", sc, o, r.Sched)
		})
		t.Logf("scenario %v: %d schedules, exhausted=%v", sc, n, exhausted)
	}

	// scripted scenarios: arrivals placed around and INSIDE the window between RegisterChainKey and
	// the flush of the parked messages; two threads only (driver, consumer), a few schedules each,
	// the first one being "the consumer handles every entry as soon as it is queued"
	scripted := []c08scenario{
		// decryptable messages parked, key registered, an undecryptable message of the same device
		// arrives and is handled, then the flush
		c08script([]int{3}, []int{1}, [][3]int{{0, 0, 1}, {0, 0, 2}, {1, 0, 0}, {0, 0, 0}, {2, 0, 0}}),
		c08script([]int{3}, []int{1}, [][3]int{{0, 0, 1}, {1, 0, 0}, {0, 0, 0}, {0, 0, 2}, {2, 0, 0}}),
		c08script([]int{2}, []int{0}, [][3]int{{0, 0, 1}, {1, 0, 0}, {0, 0, 0}, {2, 0, 0}}),
		c08script([]int{3}, []int{2}, [][3]int{{0, 0, 2}, {1, 0, 0}, {0, 0, 1}, {0, 0, 0}, {2, 0, 0}}),
	}
	nscript := vharness.Budget(40, 400)
	if vharness.Budget(1, 1) == 0 {
		nscript = 2
	}
	for i := 0; i < nscript; i++ {
		n := 1 + rng.Intn(3)
		a := rng.Intn(n + 1)
		var acts [][3]int
		for k := 0; k < n; k++ {
			acts = append(acts, [3]int{0, 0, k})
		}
		rng.Shuffle(len(acts), func(x, y int) { acts[x], acts[y] = acts[y], acts[x] })
		// register at a random position, flush at a random later position
		pr := rng.Intn(len(acts) + 1)
		acts = append(acts[:pr], append([][3]int{{1, 0, 0}}, acts[pr:]...)...)
		pf := pr + 1 + rng.Intn(len(acts)-pr)
		acts = append(acts[:pf], append([][3]int{{2, 0, 0}}, acts[pf:]...)...)
		scripted = append(scripted, c08script([]int{n}, []int{a}, acts))
	}
	perScript := vharness.Budget(4, 12)
	for _, sc := range scripted {
		sc := sc
		var o *c08obs
		vsched.Explore(func(c *vsched.Ctl) func(r *vsched.Run) {
			o = &c08obs{}
			return c08setup(t, sc, o)(c)
		}, order, 400, perScript, func(r vsched.Run) {
			if r.Err != "" {
				o.note, o.deadlock = "harness: "+r.Err, false
			}
			emit("scripted", sc, o, r.Sched)
		})
	}

	// random schedules on larger scenarios
	nr := vharness.Budget(250, 8000)
	if vharness.Budget(1, 1) == 0 {
		nr = 10
	}
	for i := 0; i < nr; i++ {
		ns := 1 + rng.Intn(3)
		sc := c08scenario{}
		for s := 0; s < ns; s++ {
			n := 1 + rng.Intn(4)
			sc.msgs = append(sc.msgs, n)
			a := rng.Intn(n+2) - 1 // -1 never, 0..n
			sc.announce = append(sc.announce, a)
			if a >= 0 {
				sc.regOrder = append(sc.regOrder, s)
			}
			for k := 0; k < n; k++ {
				sc.arrival = append(sc.arrival, [2]int{s, k})
			}
		}
		rng.Shuffle(len(sc.arrival), func(a, b int) { sc.arrival[a], sc.arrival[b] = sc.arrival[b], sc.arrival[a] })
		rng.Shuffle(len(sc.regOrder), func(a, b int) { sc.regOrder[a], sc.regOrder[b] = sc.regOrder[b], sc.regOrder[a] })
		if rng.Intn(5) == 0 && len(sc.arrival) > 0 {
			// the same entry arrives twice
			sc.arrival = append(sc.arrival, sc.arrival[rng.Intn(len(sc.arrival))])
		}
		o := &c08obs{}
		seed := rng.Int63()
		prng := rand.New(rand.NewSource(seed))
		r := vsched.RunRandom(c08setup(t, sc, o), order, 2000, func(n int) int { return prng.Intn(n) })
		if r.Err != "" {
			o.note, o.deadlock = "harness: "+r.Err, false
		}
		emit("random", sc, o, r.Sched)
	}
}
