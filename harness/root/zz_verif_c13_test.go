//go:build verif

package weshnet

// C13 correspondence driver: logs of 0..12 entries written by two devices (concurrent entries
// included) in a metadata store and in a message store; listed on the writers and on fresh
// replicas that received the entries in one batch, one by one, or mixed; every
// (since, until, reverse) combination over the entries plus unknown identifiers.

import (
	"context"
	crand "crypto/rand"
	"fmt"
	"math/rand"
	"strings"
	"testing"

	ipfslog "berty.tech/go-ipfs-log"
	"berty.tech/go-orbit-db/iface"
	"github.com/ipfs/go-cid"
	mh "github.com/multiformats/go-multihash"

	"berty.tech/weshnet/v2/internal/vharness"
	"berty.tech/weshnet/v2/pkg/errcode"
	"berty.tech/weshnet/v2/pkg/protocoltypes"
)

type c13lister func(since, until []byte, reverse bool) ([]string, error)

func c13metaLister(ctx context.Context, ms *MetadataStore) c13lister {
	return func(since, until []byte, reverse bool) ([]string, error) {
		ch, err := ms.ListEvents(ctx, since, until, reverse)
		if err != nil {
			return nil, err
		}
		var out []string
		for e := range ch {
			out = append(out, string(e.EventContext.Id))
		}
		return out, nil
	}
}

func c13msgLister(ctx context.Context, ms *MessageStore) c13lister {
	return func(since, until []byte, reverse bool) ([]string, error) {
		ch, err := ms.ListEvents(ctx, since, until, reverse)
		if err != nil {
			return nil, err
		}
		var out []string
		for e := range ch {
			out = append(out, string(e.EventContext.Id))
		}
		return out, nil
	}
}

func c13unknownID() []byte {
	b := make([]byte, 32)
	crand.Read(b)
	h, _ := mh.Sum(b, mh.SHA2_256, -1)
	return cid.NewCidV1(cid.DagCBOR, h).Bytes()
}

// listAll runs the combinations on one replica and emits one case per call.
func c13listAll(out *vharness.Out, rng *rand.Rand, kind, where string, desc []string, st iface.Store, list c13lister, exhaustive bool, unopenable ...map[string]bool) {
	skip := map[string]bool{}
	for _, m := range unopenable {
		for k := range m {
			skip[k] = true
		}
	}
	arrival := st.OpLog().GetEntries().Slice()
	canon := vCanonical(st.OpLog())
	ranks := c04rank(arrival)
	idOf := map[string]uint64{}
	for _, e := range arrival {
		idOf[string(e.GetHash().Bytes())] = ranks[e.GetHash().String()]
	}
	es := make([]string, len(arrival))
	for i, e := range arrival {
		es[i] = fmt.Sprintf("mkE %d %d (ENoop 0)", e.GetClock().GetTime(), ranks[e.GetHash().String()])
	}
	entriesCoq := vharness.List(es)
	pos := map[string]int{}
	for i, e := range canon {
		pos[string(e.GetHash().Bytes())] = i
	}
	type bound struct {
		b    []byte
		coq  string
		name string
	}
	bounds := []bound{{nil, "None", "-"}}
	for i, e := range canon {
		b := e.GetHash().Bytes()
		bounds = append(bounds, bound{b, fmt.Sprintf("(Some %d)", idOf[string(b)]), fmt.Sprint(i)})
	}
	bounds = append(bounds, bound{c13unknownID(), "(Some 9999)", "unknown"})
	for _, s := range bounds {
		for _, u := range bounds {
			for _, rev := range []bool{false, true} {
				if !exhaustive && len(canon) > 5 && rng.Intn(100) >= 40 {
					continue
				}
				got, err := list(s.b, u.b, rev)
				// expectation from the log order
				var want []string
				wantErr := false
				lo, hi := 0, len(canon)-1
				if s.b != nil {
					if p, ok := pos[string(s.b)]; ok {
						lo = p
					} else {
						wantErr = true
					}
				}
				if u.b != nil {
					if p, ok := pos[string(u.b)]; ok {
						hi = p
					} else {
						wantErr = true
					}
				}
				if !wantErr && lo > hi && len(canon) > 0 {
					wantErr = true
				}
				if !wantErr {
					for i := lo; i <= hi; i++ {
						if skip[string(canon[i].GetHash().Bytes())] {
							continue // does not open on this reader: logged and skipped
						}
						want = append(want, string(canon[i].GetHash().Bytes()))
					}
					if rev {
						for i, j := 0, len(want)-1; i < j; i, j = i+1, j-1 {
							want[i], want[j] = want[j], want[i]
						}
					}
				}
				ok, note := true, ""
				show := func(xs []string) string {
					var p []string
					for _, x := range xs {
						if i, ok := pos[x]; ok {
							p = append(p, fmt.Sprint(i))
						} else {
							p = append(p, "?")
						}
					}
					return "[" + strings.Join(p, " ") + "]"
				}
				switch {
				case wantErr && err == nil:
					ok, note = false, fmt.Sprintf("%s listing on %s (since=%s until=%s reverse=%v, %d entries): accepted, an invalid-range error was due; returned positions %s", kind, where, s.name, u.name, rev, len(canon), show(got))
				case !wantErr && err != nil:
					ok, note = false, fmt.Sprintf("%s listing on %s (since=%s until=%s reverse=%v, %d entries): refused with %v", kind, where, s.name, u.name, rev, len(canon), err)
				case wantErr && !errcode.Is(err, errcode.ErrCode_ErrInvalidRange):
					ok, note = false, fmt.Sprintf("%s listing on %s (since=%s until=%s): error %v is not an invalid-range error", kind, where, s.name, u.name, err)
				case !wantErr && strings.Join(got, "|") != strings.Join(want, "|"):
					ok, note = false, fmt.Sprintf("%s listing on %s (since=%s until=%s reverse=%v, %d entries): returned log positions %s, expected %s", kind, where, s.name, u.name, rev, len(canon), show(got), show(want))
				}
				obs := "None"
				if err == nil {
					ids := make([]uint64, len(got))
					for i, g := range got {
						ids[i] = idOf[g]
					}
					obs = "(Some " + vharness.Ns(ids) + ")"
				}
				caseCoq := fmt.Sprintf("CList %s %s %s %v %s", entriesCoq, s.coq, u.coq, rev, obs)
				if len(skip) > 0 {
					var sk []uint64
					for h := range skip {
						if id, ok := idOf[h]; ok {
							sk = append(sk, id)
						}
					}
					caseCoq = fmt.Sprintf("CListSkip %s %s %s %v %s %s", entriesCoq, s.coq, u.coq, rev, vharness.Ns(vSortedU64(sk)), obs)
				}
				out.Emit(vharness.Case{
					Kind: kind,
					Coq:  caseCoq,
					Key:  fmt.Sprintf("%v|%s|%s|%s|%v", desc, where, s.name, u.name, rev), Nontrivial: len(canon) >= 2 && (s.b != nil || u.b != nil || rev),
					OracleOK: ok, Note: note, Sig: "listing is not the requested range of the log order",
					Replay: map[string]any{"store": kind, "history": desc, "replica": where, "since": s.name, "until": u.name, "reverse": rev},
				})
			}
		}
	}
}

func TestVerifC13(t *testing.T) {
	out := vharness.Open()
	defer out.Close()
	ctx, cancel := context.WithCancel(context.Background())
	defer cancel()
	rng := vharness.Rng()
	node := vNewNode(ctx, t)
	nh := vharness.Budget(52, 400)
	if vharness.Budget(1, 1) == 0 {
		nh = 2
	}
	exhaustive := vharness.Thorough()

	// checkParametersConsistency: all 32 combinations
	for m := 0; m < 32; m++ {
		b := func(i int) bool { return m&(1<<i) != 0 }
		var since, until []byte
		if b(0) {
			since = []byte{1}
		}
		if b(2) {
			until = []byte{1}
		}
		err := checkParametersConsistency(since, until, b(1), b(3), b(4))
		want := !(b(0) && b(1)) && !(b(2) && b(3)) && !(b(1) && b(3)) && !(!b(2) && !b(3) && b(4))
		out.Emit(vharness.Case{
			Kind: "params", Coq: fmt.Sprintf("CParams %v %v %v %v %v %v", b(0), b(1), b(2), b(3), b(4), err == nil),
			Key: fmt.Sprint("params", m), Nontrivial: true, OracleOK: want == (err == nil),
			Note: fmt.Sprintf("checkParametersConsistency(sinceID=%v sinceNow=%v untilID=%v untilNow=%v reverse=%v) accepted=%v", b(0), b(1), b(2), b(3), b(4), err == nil),
			Sig:  "listing parameters: wrong consistency verdict",
		})
	}

	for hi := 0; hi < nh; hi++ {
		n := hi % 13 // 0..12 entries
		messages := hi%2 == 1
		x := node.newAccount()
		y := node.newAccount()
		g, _, _ := NewGroupMultiMember()
		type writer struct {
			r    *vReplica
			meta *MetadataStore
			msg  *MessageStore
		}
		ws := []*writer{{r: x}, {r: y}}
		// every other message history has a third writer whose chain key the two readers never get: its
		// entries sit in their logs, interleaved with the others, and do not open there
		var z *writer
		zEntries := map[string]bool{}
		if messages && hi%4 == 3 {
			z = &writer{r: node.newAccount()}
			z.msg = z.r.openMessages(g)
		}
		for _, w := range ws {
			if messages {
				w.msg = w.r.openMessages(g)
			} else {
				w.meta = w.r.openMeta(g)
			}
		}
		store := func(w *writer) iface.Store {
			if messages {
				return w.msg
			}
			return w.meta
		}
		if messages {
			// both devices know each other's chain key before anything is sealed
			for i, w := range ws {
				o := ws[1-i]
				md, err := w.r.ss.GetOwnMemberDeviceForGroup(g)
				if err != nil {
					t.Fatal(err)
				}
				omd, _ := o.r.ss.GetOwnMemberDeviceForGroup(g)
				enc, err := w.r.ss.GetShareableChainKey(ctx, g, omd.Member())
				if err != nil {
					t.Fatal(err)
				}
				if err := o.r.ss.RegisterChainKey(ctx, g, md.Device(), enc); err != nil {
					t.Fatal(err)
				}
			}
		}
		var desc []string
		for i := 0; i < n; i++ {
			if z != nil && rng.Intn(3) == 0 {
				// the third writer: takes what a reader has, writes, hands it back
				o := ws[rng.Intn(2)]
				vDeliver(ctx, t, z.msg, o.msg.OpLog().Heads().Slice()...)
				op, err := z.msg.AddMessage(ctx, []byte(fmt.Sprintf("unreadable %d", i)))
				if err != nil {
					t.Fatal(err)
				}
				zEntries[string(op.GetEntry().GetHash().Bytes())] = true
				vDeliver(ctx, t, o.msg, z.msg.OpLog().Heads().Slice()...)
				desc = append(desc, "z:write")
				continue
			}
			wi := rng.Intn(2)
			w := ws[wi]
			if rng.Intn(4) == 0 {
				o := ws[1-wi]
				vDeliver(ctx, t, store(o), store(w).OpLog().Heads().Slice()...)
				desc = append(desc, fmt.Sprintf("%d->%d", wi, 1-wi))
			}
			var err error
			if messages {
				_, err = w.msg.AddMessage(ctx, []byte(fmt.Sprintf("message %d", i)))
			} else {
				_, err = w.meta.SendAppMetadata(ctx, []byte(fmt.Sprintf("payload %d", i)))
			}
			if err != nil {
				t.Fatal(err)
			}
			desc = append(desc, fmt.Sprintf("%d:write", wi))
		}
		kind := "metadata"
		if messages {
			kind = "messages"
		}
		lister := func(w *writer) c13lister {
			if messages {
				return c13msgLister(ctx, w.msg)
			}
			return c13metaLister(ctx, w.meta)
		}
		// on the writers as they are
		for i, w := range ws {
			c13listAll(out, rng, kind, fmt.Sprintf("writer %d", i), desc, store(w), lister(w), exhaustive, zEntries)
		}
		// union of both logs on fresh replicas of device x
		seen := map[string]ipfslog.Entry{}
		isNext := map[string]bool{}
		for _, w := range ws {
			for _, e := range store(w).OpLog().GetEntries().Slice() {
				seen[e.GetHash().String()] = e
				for _, nx := range e.GetNext() {
					isNext[nx.String()] = true
				}
			}
		}
		var all, heads []ipfslog.Entry
		for h, e := range seen {
			all = append(all, e)
			if !isNext[h] {
				heads = append(heads, e)
			}
		}
		plans := map[string][][]ipfslog.Entry{"one batch": {heads}}
		var single [][]ipfslog.Entry
		for _, k := range rng.Perm(len(all)) {
			single = append(single, []ipfslog.Entry{all[k]})
		}
		plans["entry by entry, random order"] = single
		if len(all) > 2 {
			p := rng.Perm(len(all))
			plans["mixed"] = [][]ipfslog.Entry{{all[p[0]]}, {all[p[1]], all[p[2]]}, heads}
		}
		for name, plan := range plans {
			r := node.replicaWith(x.ss)
			fw := &writer{r: r}
			if messages {
				fw.msg = r.openMessages(g)
			} else {
				fw.meta = r.openMeta(g)
			}
			for _, step := range plan {
				vDeliver(ctx, t, store(fw), step...)
			}
			c13listAll(out, rng, kind, "replica: "+name, desc, store(fw), lister(fw), exhaustive, zEntries)
			if name == "one batch" {
				// and after a reopen
				store(fw).Close()
				if messages {
					fw.msg = r.openMessages(g)
				} else {
					fw.meta = r.openMeta(g)
				}
				c13listAll(out, rng, kind, "replica: one batch, reopened", desc, store(fw), lister(fw), exhaustive, zEntries)
			}
			store(fw).Close()
			r.db.Close()
		}
		for _, w := range ws {
			store(w).Close()
			w.r.db.Close()
		}
		if z != nil {
			z.msg.Close()
			z.r.db.Close()
		}
	}
	_ = protocoltypes.GroupType_GroupTypeMultiMember
}
