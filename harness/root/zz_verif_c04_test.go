//go:build verif

package weshnet

// C04 correspondence driver: histories of metadata operations by two devices (concurrent writes
// included) on an account group or a multi-member group; the resulting entries are delivered to
// fresh replicas in many ways (one batch, one by one in log order, random orders, all orders for
// small histories), with reopen at every point; after every delivery step the state the real
// MetadataStore reports is compared with the Coq model fed with the successive contents of the
// replica's log (driver) and, here, with the state of the other replicas holding the same entries.

import (
	"github.com/ipfs/go-cid"
	"berty.tech/go-orbit-db/stores"
	"github.com/libp2p/go-libp2p/p2p/host/eventbus"
	"bytes"
	"context"
	crand "crypto/rand"
	"fmt"
	"math/rand"
	"sort"
	"strings"
	"testing"
	"time"

	ipfslog "berty.tech/go-ipfs-log"
	"github.com/libp2p/go-libp2p/core/crypto"

	"berty.tech/weshnet/v2/internal/vharness"
	"berty.tech/weshnet/v2/pkg/protocoltypes"
)

type c04world struct {
	t    *testing.T
	ctx  context.Context
	node *vNode

	keys, meta, seed, group, cred, alias vIDs
	getters                              string // disagreement between getters seen by the last observe
	pub                           map[uint64]crypto.PubKey
	groupPK                       map[uint64][]byte
}

func (w *c04world) keyID(raw []byte) uint64 {
	id := w.keys.id(string(raw))
	if _, ok := w.pub[id]; !ok {
		pk, err := crypto.UnmarshalEd25519PublicKey(raw)
		if err == nil {
			w.pub[id] = pk
		}
	}
	return id
}
func (w *c04world) blobID(ids *vIDs, b []byte) uint64 {
	if len(b) == 0 {
		return 0
	}
	return ids.id(string(b))
}
func (w *c04world) groupID(pk []byte) uint64 {
	id := w.group.id(string(pk))
	w.groupPK[id] = pk
	return id
}

// evCoq translates an entry, opened by the real openMetadataEntry, into the model's event.
func (w *c04world) evCoq(l ipfslog.Log, e ipfslog.Entry, g *protocoltypes.Group) string {
	me, ev, err := openMetadataEntry(l, e, g)
	if err != nil {
		return "(ENoop 0)"
	}
	switch x := ev.(type) {
	case *protocoltypes.AccountContactRequestOutgoingEnqueued:
		if x.Contact == nil {
			return "(ENoop 0)"
		}
		return fmt.Sprintf("(EEnq %d %d %d %d)", w.keyID(x.Contact.Pk), w.blobID(&w.meta, x.Contact.Metadata), w.blobID(&w.seed, x.Contact.PublicRendezvousSeed), w.blobID(&w.meta, x.OwnMetadata))
	case *protocoltypes.AccountContactRequestOutgoingSent:
		return fmt.Sprintf("(ESent %d)", w.keyID(x.ContactPk))
	case *protocoltypes.AccountContactRequestIncomingReceived:
		return fmt.Sprintf("(ERecv %d %d %d)", w.keyID(x.ContactPk), w.blobID(&w.meta, x.ContactMetadata), w.blobID(&w.seed, x.ContactRendezvousSeed))
	case *protocoltypes.AccountContactRequestIncomingDiscarded:
		return fmt.Sprintf("(EDisc %d)", w.keyID(x.ContactPk))
	case *protocoltypes.AccountContactRequestIncomingAccepted:
		return fmt.Sprintf("(EAcc %d)", w.keyID(x.ContactPk))
	case *protocoltypes.AccountContactBlocked:
		return fmt.Sprintf("(EBlock %d)", w.keyID(x.ContactPk))
	case *protocoltypes.AccountContactUnblocked:
		return fmt.Sprintf("(EUnblock %d)", w.keyID(x.ContactPk))
	case *protocoltypes.AccountContactRequestEnabled:
		return "EEnable"
	case *protocoltypes.AccountContactRequestDisabled:
		return "EDisable"
	case *protocoltypes.AccountContactRequestReferenceReset:
		return fmt.Sprintf("(ESeed %d)", w.blobID(&w.seed, x.PublicRendezvousSeed))
	case *protocoltypes.AccountGroupJoined:
		return fmt.Sprintf("(EJoin %d)", w.groupID(x.Group.PublicKey))
	case *protocoltypes.AccountGroupLeft:
		return fmt.Sprintf("(ELeave %d)", w.groupID(x.GroupPk))
	case *protocoltypes.GroupMemberDeviceAdded:
		return fmt.Sprintf("(EDevice %d %d)", w.keyID(x.MemberPk), w.keyID(x.DevicePk))
	case *protocoltypes.GroupDeviceChainKeyAdded:
		return fmt.Sprintf("(ESecret %d %d)", w.keyID(x.DevicePk), w.keyID(x.DestMemberPk))
	case *protocoltypes.MultiMemberGroupInitialMemberAnnounced:
		return fmt.Sprintf("(EInit %d)", w.keyID(x.MemberPk))
	case *protocoltypes.AccountVerifiedCredentialRegistered:
		return fmt.Sprintf("(ECred %d)", w.cred.id(x.Identifier))
	case *protocoltypes.ContactAliasKeyAdded:
		return fmt.Sprintf("(EAlias %d %d)", w.keyID(x.DevicePk), w.alias.id(string(x.AliasPk)))
	}
	return fmt.Sprintf("(ENoop %d)", int(me.Metadata.EventType))
}

// rank of every entry of the world in the (clock id, hash) order: the model's e_id
type c04ranks map[string]uint64

func c04rank(all []ipfslog.Entry) c04ranks {
	es := append([]ipfslog.Entry(nil), all...)
	sort.Slice(es, func(i, j int) bool {
		if c := bytes.Compare(es[i].GetClock().GetID(), es[j].GetClock().GetID()); c != 0 {
			return c < 0
		}
		return strings.Compare(es[i].GetHash().String(), es[j].GetHash().String()) < 0
	})
	r := c04ranks{}
	for i, e := range es {
		r[e.GetHash().String()] = uint64(i + 1)
	}
	return r
}

type c04snap []ipfslog.Entry // contents of a replica's entry map at one UpdateIndex

func c04snapshot(ms *MetadataStore) c04snap { return ms.OpLog().GetEntries().Slice() }

func (w *c04world) logsCoq(snaps []c04snap, ranks c04ranks, ev map[string]string) string {
	ls := make([]string, len(snaps))
	for i, s := range snaps {
		es := make([]string, len(s))
		for j, e := range s {
			h := e.GetHash().String()
			es[j] = fmt.Sprintf("mkE %d %d %s", e.GetClock().GetTime(), ranks[h], ev[h])
		}
		ls[i] = vharness.List(es)
	}
	return vharness.List(ls)
}

type c04queries struct {
	pks, groups, devs, members []uint64
}

// observe reads the state through the getters of MetadataStore (and the index fields they read).
func (w *c04world) observe(ms *MetadataStore, q c04queries) string {
	idx := ms.Index().(*metadataStoreIndex)
	contacts := ms.ListContacts()
	var cs []string
	for _, id := range q.pks {
		raw, _ := w.pub[id].Raw()
		ac, ok := contacts[string(raw)]
		if !ok {
			cs = append(cs, fmt.Sprintf("(%d, None)", id))
			continue
		}
		ow := "None"
		if own, err := ms.GetRequestOwnMetadataForContact(raw); err == nil {
			ow = fmt.Sprintf("(Some %d)", w.blobID(&w.meta, own))
		}
		cs = append(cs, fmt.Sprintf("(%d, Some (%d, %d, %d, %s))", id, int(ac.state), w.blobID(&w.meta, ac.contact.Metadata), w.blobID(&w.seed, ac.contact.PublicRendezvousSeed), ow))
	}
	enabled := idx.contactRequestsEnabled()
	seed := w.blobID(&w.seed, idx.contactRequestsSeed())
	var gs []string
	idx.lock.RLock()
	for _, id := range q.groups {
		st := "None"
		if g, ok := idx.groups[string(w.groupPK[id])]; ok {
			st = fmt.Sprintf("(Some %v)", g.state == accountGroupJoinedStateJoined)
		}
		gs = append(gs, fmt.Sprintf("(%d, %s)", id, st))
	}
	idx.lock.RUnlock()
	var ds []string
	for _, id := range q.devs {
		m := "None"
		if pk, err := ms.GetMemberByDevice(w.pub[id]); err == nil && pk != nil {
			raw, _ := pk.Raw()
			m = fmt.Sprintf("(Some %d)", w.keyID(raw))
		}
		ds = append(ds, fmt.Sprintf("(%d, %s)", id, m))
	}
	admins := map[uint64]int{}
	for _, a := range idx.listAdmins() {
		raw, _ := a.Raw()
		admins[w.keyID(raw)]++
	}
	var ss, as []string
	for _, id := range q.members {
		sent, _ := idx.areSecretsAlreadySent(w.pub[id])
		ss = append(ss, fmt.Sprintf("(%d, %v)", id, sent))
		as = append(as, fmt.Sprintf("(%d, %d)", id, admins[id]))
	}
	var creds []string
	for _, c := range ms.ListVerifiedCredentials() {
		creds = append(creds, vharness.N(w.cred.id(c.Identifier)))
	}
	w.getters = w.getterIssue(ms, q, contacts, enabled)
	return fmt.Sprintf("(mkObs %s %v %d %s %s %s %s %s)", vharness.List(cs), enabled, seed, vharness.List(gs), vharness.List(ds), vharness.List(ss), vharness.List(as), vharness.List(creds))
}

// getterIssue: the other getters of MetadataStore must tell the same story as the ones the model
// is compared with (GetMemberByDevice, ListContacts, the index fields): ListDevices, ListMembers,
// GetDevicesForMember, ListOtherMembersDevices, ListAdmins of account/contact groups,
// ListMultiMemberGroups, GetIncomingContactRequestsStatus, ListContactsByStatus.
func (w *c04world) getterIssue(ms *MetadataStore, q c04queries, contacts map[string]*AccountContact, enabled bool) string {
	idx := ms.Index().(*metadataStoreIndex)
	set := func(pks []crypto.PubKey) (map[uint64]int, string) {
		m := map[uint64]int{}
		for _, pk := range pks {
			raw, _ := pk.Raw()
			m[w.keyID(raw)]++
		}
		var ids []uint64
		for id := range m {
			ids = append(ids, id)
		}
		return m, fmt.Sprint(vSortedU64(ids))
	}
	byDev := map[uint64]uint64{} // device -> member
	members := map[uint64]bool{}
	for _, id := range q.devs {
		if pk, err := ms.GetMemberByDevice(w.pub[id]); err == nil && pk != nil {
			raw, _ := pk.Raw()
			byDev[id] = w.keyID(raw)
			members[w.keyID(raw)] = true
		}
	}
	devs, devsTxt := set(ms.ListDevices())
	for d, n := range devs {
		if _, ok := byDev[d]; !ok || n != 1 {
			return fmt.Sprintf("ListDevices lists %s, device %d is listed %d time(s) and GetMemberByDevice knows it: %v", devsTxt, d, n, ok)
		}
	}
	if len(devs) != len(byDev) {
		return fmt.Sprintf("ListDevices lists %d devices (%s), GetMemberByDevice knows %d", len(devs), devsTxt, len(byDev))
	}
	mems, memsTxt := set(ms.ListMembers())
	for m, n := range mems {
		if !members[m] || n != 1 {
			return fmt.Sprintf("ListMembers lists %s, member %d listed %d time(s), has a device: %v", memsTxt, m, n, members[m])
		}
	}
	if len(mems) != len(members) {
		return fmt.Sprintf("ListMembers lists %d members (%s), the devices belong to %d", len(mems), memsTxt, len(members))
	}
	ownMember := uint64(0)
	if raw, err := ms.memberDevice.Member().Raw(); err == nil {
		ownMember = w.keyID(raw)
	}
	others := 0
	for m := range members {
		got, err := ms.GetDevicesForMember(w.pub[m])
		if err != nil {
			return fmt.Sprintf("GetDevicesForMember(%d) fails: %v", m, err)
		}
		gs, gtxt := set(got)
		want := 0
		for d, mm := range byDev {
			if mm == m {
				want++
				if gs[d] != 1 {
					return fmt.Sprintf("GetDevicesForMember(%d) = %s lacks (or repeats) device %d", m, gtxt, d)
				}
			}
		}
		if len(gs) != want {
			return fmt.Sprintf("GetDevicesForMember(%d) = %s, %d devices expected", m, gtxt, want)
		}
		if m != ownMember {
			others += want
		}
	}
	if od, odTxt := set(ms.ListOtherMembersDevices()); len(od) != others {
		return fmt.Sprintf("ListOtherMembersDevices = %s, %d devices of other members expected", odTxt, others)
	} else {
		for d := range od {
			if byDev[d] == ownMember {
				return fmt.Sprintf("ListOtherMembersDevices lists device %d of the own member", d)
			}
		}
	}
	if ms.typeChecker(isAccountGroup, isContactGroup) {
		if ad, adTxt := set(ms.ListAdmins()); fmt.Sprint(adTxt) != memsTxt || len(ad) != len(mems) {
			return fmt.Sprintf("ListAdmins of an account/contact group = %s, members = %s", adTxt, memsTxt)
		}
	}
	if ms.typeChecker(isAccountGroup) {
		joined := map[string]bool{}
		idx.lock.RLock()
		for k, g := range idx.groups {
			if g.state == accountGroupJoinedStateJoined {
				joined[k] = true
			}
		}
		idx.lock.RUnlock()
		l := ms.ListMultiMemberGroups()
		seen := map[string]bool{}
		for _, g := range l {
			if !joined[string(g.PublicKey)] || seen[string(g.PublicKey)] {
				return "ListMultiMemberGroups lists a group that is not joined, or twice"
			}
			seen[string(g.PublicKey)] = true
		}
		if len(l) != len(joined) {
			return fmt.Sprintf("ListMultiMemberGroups lists %d groups, %d are joined", len(l), len(joined))
		}
		en, ref := ms.GetIncomingContactRequestsStatus()
		if en != enabled || ref == nil || !bytes.Equal(ref.PublicRendezvousSeed, idx.contactRequestsSeed()) {
			return "GetIncomingContactRequestsStatus differs from the switch and seed of the index"
		}
		if raw, err := ms.memberDevice.Member().Raw(); err == nil && !bytes.Equal(ref.Pk, raw) {
			return "GetIncomingContactRequestsStatus names another account key"
		}
		all := []protocoltypes.ContactState{protocoltypes.ContactState_ContactStateUndefined, protocoltypes.ContactState_ContactStateToRequest, protocoltypes.ContactState_ContactStateReceived,
			protocoltypes.ContactState_ContactStateAdded, protocoltypes.ContactState_ContactStateRemoved, protocoltypes.ContactState_ContactStateDiscarded, protocoltypes.ContactState_ContactStateBlocked}
		total := 0
		for _, st := range all {
			for _, c := range ms.ListContactsByStatus(st) {
				total++
				ac, ok := contacts[string(c.Pk)]
				if !ok || ac.state != st {
					return fmt.Sprintf("ListContactsByStatus(%v) lists a contact that ListContacts does not have in that state", st)
				}
			}
		}
		if total != len(contacts) {
			return fmt.Sprintf("ListContactsByStatus over all states lists %d contacts, ListContacts %d", total, len(contacts))
		}
	}
	return ""
}

// a writing device: its replica, its store, and the successive contents of its log
type c04dev struct {
	r         *vReplica
	ms        *MetadataStore
	own       uint64
	ownMember uint64
	snaps     []c04snap
}

func (d *c04dev) snap() { d.snaps = append(d.snaps, c04snapshot(d.ms)) }
func (d *c04dev) lastSnap() c04snap {
	if len(d.snaps) == 0 {
		return nil
	}
	return d.snaps[len(d.snaps)-1]
}

type c04history struct {
	desc    []string
	devs    []*c04dev
	group   *protocoltypes.Group
	contact bool // a contact group: the alias keys are observed too
}

func (w *c04world) must(_ any, err error) {}

// accountHistory runs n random operations of two devices of one account on their account group.
func (w *c04world) accountHistory(rng *rand.Rand, n int) *c04history { return w.accountHistoryMode(rng, n, false) }

// focused: the two devices write only request events (with and without metadata / seed), discards,
// blocks and unblocks about ONE contact, and synchronise often: several metadata-carrying events about
// the same subject, concurrent ones included, whose back-filling must not depend on what was indexed
// before
func (w *c04world) accountHistoryMode(rng *rand.Rand, n int, focused bool) *c04history {
	a := w.node.newAccount()
	b := w.node.newDevice(a)
	g := a.accountGroup()
	h := &c04history{group: g}
	for _, r := range []*vReplica{a, b} {
		ms := r.openMeta(g)
		raw, _ := ms.memberDevice.Device().Raw()
		h.devs = append(h.devs, &c04dev{r: r, ms: ms, own: w.keyID(raw)})
	}
	type contact struct {
		sc *protocoltypes.ShareableContact
		pk crypto.PubKey
	}
	var contacts []contact
	for i := 0; i < 2; i++ {
		_, pk, _ := crypto.GenerateEd25519Key(crand.Reader)
		raw, _ := pk.Raw()
		seed := make([]byte, 32)
		crand.Read(seed)
		w.keyID(raw)
		contacts = append(contacts, contact{&protocoltypes.ShareableContact{Pk: raw, PublicRendezvousSeed: seed}, pk})
	}
	var groups []*protocoltypes.Group
	var groupPKs []crypto.PubKey
	for i := 0; i < 2; i++ {
		mg, _, _ := NewGroupMultiMember()
		pk, _ := mg.GetPubKey()
		w.groupID(mg.PublicKey)
		groups = append(groups, mg)
		groupPKs = append(groupPKs, pk)
	}
	salt := 0
	// focused histories start with a script: device 0 records a request with metadata, device 1 learns it
	// and writes a newer request with other metadata while device 0, not knowing, writes unrelated
	// entries and then a request WITHOUT metadata; device 1's entries reach device 0 late and sort below
	// device 0's newest ones
	var script []int
	if focused {
		switch rng.Intn(3) {
		case 0: // received(md) | sync 0->1 | 1: discard, received(md) | 0: discard, enable, reset, received(no md)
			script = []int{100, 900, 1105, 1100, 105, 109, 111, 101}
		case 1: // enqueue(md) | sync 0->1 | 1: enqueue(md) | 0: enable, enqueue(no md)
			script = []int{120, 900, 1120, 109, 111, 121}
		default: // received(md) | sync | 1: block, unblock, received(md) | 0: block, unblock, reset, received(no md)
			script = []int{100, 900, 1107, 1108, 1100, 107, 108, 111, 101}
		}
		n += len(script)
	}
	for i := 0; i < n; i++ {
		d := h.devs[rng.Intn(2)]
		c := contacts[rng.Intn(2)]
		k := rng.Intn(16)
		forceMD := -1 // -1 random, 0 without metadata, 1 with
		if i < len(script) {
			// code: device*1000 + op; 900 = synchronise device 0 -> 1
			code := script[i]
			d = h.devs[code/1000%2]
			switch code % 1000 {
			case 900:
				k, d = 15, h.devs[0]
			case 100:
				k, forceMD = 3, 1
			case 101:
				k, forceMD = 3, 0
			case 120:
				k, forceMD = 0, 1
			case 121:
				k, forceMD = 0, 0
			default:
				k = code % 100
			}
		}
		if focused {
			c = contacts[0]
			if i >= len(script) {
				k = []int{0, 1, 0, 3, 4, 5, 7, 8, 15, 15}[rng.Intn(10)]
			}
		}
		ctx := w.ctx
		var err error
		var name string
		salt++
		switch k {
		case 0, 1:
			sc := &protocoltypes.ShareableContact{Pk: c.sc.Pk, PublicRendezvousSeed: c.sc.PublicRendezvousSeed}
			if (forceMD == 1) || (forceMD == -1 && rng.Intn(3) != 0 && !(focused && rng.Intn(2) == 0)) {
				sc.Metadata = []byte(fmt.Sprintf("meta-%d", salt))
			}
			if focused && forceMD == -1 && rng.Intn(3) == 0 {
				// another rendezvous seed for the same contact (it reset its reference)
				sd := make([]byte, 32)
				crand.Read(sd)
				sc.PublicRendezvousSeed = sd
			}
			var own []byte
			if rng.Intn(2) == 0 {
				own = []byte(fmt.Sprintf("own-%d", salt))
			}
			name = "enqueue"
			_, err = d.ms.ContactRequestOutgoingEnqueue(ctx, sc, own)
		case 2:
			name = "sent"
			_, err = d.ms.ContactRequestOutgoingSent(ctx, c.pk)
		case 3, 4:
			sc := &protocoltypes.ShareableContact{Pk: c.sc.Pk, PublicRendezvousSeed: c.sc.PublicRendezvousSeed}
			if forceMD == 1 || (forceMD == -1 && rng.Intn(3) != 0) {
				sc.Metadata = []byte(fmt.Sprintf("meta-%d", salt))
			}
			if forceMD == -1 && rng.Intn(4) == 0 {
				sc.PublicRendezvousSeed = nil
			}
			name = "received"
			_, err = d.ms.ContactRequestIncomingReceived(ctx, sc)
		case 5:
			name = "discard"
			_, err = d.ms.ContactRequestIncomingDiscard(ctx, c.pk)
		case 6:
			name = "accept"
			_, err = d.ms.ContactRequestIncomingAccept(ctx, c.pk)
		case 7:
			name = "block"
			_, err = d.ms.ContactBlock(ctx, c.pk)
		case 8:
			name = "unblock"
			_, err = d.ms.ContactUnblock(ctx, c.pk)
		case 9:
			name = "enable"
			_, err = d.ms.ContactRequestEnable(ctx)
		case 10:
			name = "disable"
			_, err = d.ms.ContactRequestDisable(ctx)
		case 11:
			name = "seed-reset"
			_, err = d.ms.ContactRequestReferenceReset(ctx)
		case 12:
			gi := rng.Intn(2)
			name = fmt.Sprintf("join-%d", gi)
			_, err = d.ms.GroupJoin(ctx, groups[gi])
		case 13:
			gi := rng.Intn(2)
			name = fmt.Sprintf("leave-%d", gi)
			_, err = d.ms.GroupLeave(ctx, groupPKs[gi])
		case 14:
			if rng.Intn(2) == 0 {
				name = "credential"
				_, err = d.ms.SendAccountVerifiedCredentialAdded(ctx, &protocoltypes.AccountVerifiedCredentialRegistered{
					SignedIdentityPublicKey: []byte("k"), VerifiedCredential: "vc", RegistrationDate: 1, ExpirationDate: 2,
					Identifier: fmt.Sprintf("cred-%d", salt), Issuer: "issuer",
				})
			} else {
				name = "add-device"
				_, err = d.ms.AddDeviceToGroup(ctx)
			}
		case 15:
			// synchronise: the other device receives this device's heads
			o := h.devs[0]
			if o == d {
				o = h.devs[1]
			}
			name = "sync"
			vDeliver(ctx, w.t, o.ms, d.ms.OpLog().Heads().Slice()...)
			o.snap()
			h.desc = append(h.desc, fmt.Sprintf("%d->%d:sync", d.own, o.own))
			continue
		}
		if err == nil {
			d.snap()
			h.desc = append(h.desc, fmt.Sprintf("%d:%s", d.own, name))
		}
	}
	return h
}

// multiHistory: three devices (two accounts, the second with two devices) in a multi-member group.
func (w *c04world) multiHistory(rng *rand.Rand, n int) *c04history {
	x := w.node.newAccount()
	y := w.node.newAccount()
	y2 := w.node.newDevice(y)
	g, sk, _ := NewGroupMultiMember()
	h := &c04history{group: g}
	var members []crypto.PubKey
	for _, r := range []*vReplica{x, y, y2} {
		ms := r.openMeta(g)
		raw, _ := ms.memberDevice.Device().Raw()
		mraw, _ := ms.memberDevice.Member().Raw()
		w.keyID(mraw)
		members = append(members, ms.memberDevice.Member())
		h.devs = append(h.devs, &c04dev{r: r, ms: ms, own: w.keyID(raw)})
	}
	salt := 0
	for i := 0; i < n; i++ {
		di := rng.Intn(3)
		d := h.devs[di]
		ctx := w.ctx
		var err error
		var name string
		var op any
		salt++
		switch k := rng.Intn(8); k {
		case 0:
			name = "claim"
			op, err = d.ms.ClaimGroupOwnership(ctx, sk)
		case 1, 2:
			name = "add-device"
			op, err = d.ms.AddDeviceToGroup(ctx)
			if err == nil && op == nil {
				continue // already announced: nothing appended
			}
		case 3, 4:
			mi := rng.Intn(3)
			name = fmt.Sprintf("secret-to-%d", mi)
			op, err = d.ms.SendSecret(ctx, members[mi])
		case 5:
			name = "app-metadata"
			op, err = d.ms.SendAppMetadata(ctx, []byte(fmt.Sprintf("payload-%d", salt)))
		default:
			oi := rng.Intn(3)
			if oi == di {
				continue
			}
			o := h.devs[oi]
			vDeliver(ctx, w.t, o.ms, d.ms.OpLog().Heads().Slice()...)
			o.snap()
			h.desc = append(h.desc, fmt.Sprintf("%d->%d:sync", d.own, o.own))
			continue
		}
		_ = op
		if err == nil {
			d.snap()
			h.desc = append(h.desc, fmt.Sprintf("%d:%s", d.own, name))
		}
	}
	return h
}

// contactHistory: two accounts (the second with two devices) in the contact group they share:
// device announcements, alias keys (ContactSendAliasKey), secrets, payloads, synchronisations.
// Nothing forces a device to announce itself before it publishes its alias key.
func (w *c04world) contactHistory(rng *rand.Rand, n int) *c04history {
	x := w.node.newAccount()
	y := w.node.newAccount()
	y2 := w.node.newDevice(y)
	ysk, err := y.ss.GetAccountPrivateKey()
	if err != nil {
		w.t.Fatal(err)
	}
	g, err := x.ss.GetGroupForContact(ysk.GetPublic())
	if err != nil {
		w.t.Fatal(err)
	}
	h := &c04history{group: g, contact: true}
	var members []crypto.PubKey
	for _, r := range []*vReplica{x, y, y2} {
		ms := r.openMeta(g)
		raw, _ := ms.memberDevice.Device().Raw()
		mraw, _ := ms.memberDevice.Member().Raw()
		members = append(members, ms.memberDevice.Member())
		h.devs = append(h.devs, &c04dev{r: r, ms: ms, own: w.keyID(raw), ownMember: w.keyID(mraw)})
	}
	salt := 0
	for i := 0; i < n; i++ {
		di := rng.Intn(3)
		d := h.devs[di]
		ctx := w.ctx
		var err error
		var name string
		var op any
		salt++
		switch k := rng.Intn(9); k {
		case 0, 1:
			name = "add-device"
			op, err = d.ms.AddDeviceToGroup(ctx)
			if err == nil && op == nil {
				continue
			}
		case 2, 3, 4:
			name = "alias-key"
			op, err = d.ms.ContactSendAliasKey(ctx)
		case 5:
			mi := rng.Intn(3)
			name = fmt.Sprintf("secret-to-%d", mi)
			op, err = d.ms.SendSecret(ctx, members[mi])
		case 6:
			name = "app-metadata"
			op, err = d.ms.SendAppMetadata(ctx, []byte(fmt.Sprintf("payload-%d", salt)))
		default:
			oi := rng.Intn(3)
			if oi == di {
				continue
			}
			o := h.devs[oi]
			w.deliverIndexed(o.ms, d.ms.OpLog().Heads().Slice()...)
			o.snap()
			h.desc = append(h.desc, fmt.Sprintf("%d->%d:sync", d.own, o.own))
			continue
		}
		_ = op
		// the entry is in the log even when the index update reported an error (alias key of a device
		// not announced yet): the operation counts
		if err == nil || name == "alias-key" || len(c04snapshot(d.ms)) > len(d.lastSnap()) {
			d.snap()
			h.desc = append(h.desc, fmt.Sprintf("%d:%s", d.own, name))
		}
	}
	return h
}

// deliverIndexed: like vDeliver, for logs on which UpdateIndex may return an error (the alias key of
// a device that is not announced yet): go-orbit-db then emits no EventReplicated, so completion is
// read from the index itself - every entry of the log is in handledEvents, which UpdateIndex fills
// under the lock it holds until the post-index action has run.
func (w *c04world) deliverIndexed(ms *MetadataStore, heads ...ipfslog.Entry) {
	missing := false
	for _, h := range heads {
		if !vHas(ms.OpLog(), h) {
			missing = true
		}
	}
	if !missing {
		return
	}
	// the store saves the heads it has merged AFTER the index update and announces the replication after
	// that: a store closed in between (what a reopening plan does next) comes back empty, which is no
	// matter of the index.  So the announcement is waited for as well - for a moment only, because an
	// index update that fails (the reason for this function) is followed by neither
	sub, err := ms.EventBus().Subscribe(new(stores.EventReplicated), eventbus.BufSize(32))
	if err != nil {
		w.t.Fatal(err)
	}
	defer sub.Close()
	if err := ms.Sync(w.ctx, heads); err != nil {
		w.t.Fatal(err)
	}
	idx := ms.Index().(*metadataStoreIndex)
	deadline := time.Now().Add(20 * time.Second)
	defer func() {
		grace := time.After(time.Second)
		for {
			select {
			case <-sub.Out():
				all := true
				for _, h := range heads {
					if !vHas(ms.OpLog(), h) {
						all = false
					}
				}
				if all {
					return
				}
			case <-grace:
				return
			}
		}
	}()
	for {
		done := true
		for _, h := range heads {
			if !vHas(ms.OpLog(), h) {
				done = false
			}
		}
		if done {
			idx.lock.RLock()
			for _, e := range ms.OpLog().GetEntries().Slice() {
				if _, ok := idx.handledEvents[e.GetHash().String()]; !ok {
					done = false
				}
			}
			idx.lock.RUnlock()
		}
		if done {
			return
		}
		if time.Now().After(deadline) {
			w.t.Fatalf("delivery did not complete")
		}
		time.Sleep(2 * time.Millisecond)
	}
}

// aliasObs reads the alias keys of a contact group from the index.
func (w *c04world) aliasObs(ms *MetadataStore) (bool, string, string) {
	idx := ms.Index().(*metadataStoreIndex)
	idx.lock.RLock()
	defer idx.lock.RUnlock()
	other := "None"
	if len(idx.otherAliasKey) != 0 {
		other = fmt.Sprintf("(Some %d)", w.alias.id(string(idx.otherAliasKey)))
	}
	return idx.ownAliasKeySent, other, fmt.Sprintf("sent=%v other=%s", idx.ownAliasKeySent, other)
}

// deliver the union of the writers' logs to a fresh replica (same device identity as [like]),
// following plan: a list of steps, each a list of entries handed over as heads.
func (w *c04world) runPlan(out *vharness.Out, kind string, h *c04history, like *c04dev, plan [][]ipfslog.Entry, planDesc string,
	ranks c04ranks, ev map[string]string, q c04queries, want string, reopenAt int, wantAlias string) {
	r := w.node.replicaWith(like.r.ss)
	ms := r.openMeta(h.group)
	defer func() { ms.Close(); r.db.Close() }()
	var snaps []c04snap
	for i, step := range plan {
		if h.contact {
			w.deliverIndexed(ms, step...)
		} else {
			vDeliver(w.ctx, w.t, ms, step...)
		}
		snaps = append(snaps, c04snapshot(ms))
		if i == reopenAt {
			if err := ms.Close(); err != nil {
				w.t.Fatal(err)
			}
			ms = r.openMeta(h.group)
			snaps = []c04snap{c04snapshot(ms)}
		}
		obs := w.observe(ms, q)
		ok, note := true, ""
		if w.getters != "" {
			ok, note = false, fmt.Sprintf("history %v, %s: %s", h.desc, planDesc, w.getters)
		}
		// reading the state must not change it
		if again := w.observe(ms, q); ok && again != obs {
			ok, note = false, fmt.Sprintf("history %v, %s: reading the state twice gives two answers: %s", h.desc, planDesc, c04firstDiff(obs, again))
		}
		if h.contact {
			sent, other, txt := w.aliasObs(ms)
			obs += " | " + txt
			out.Emit(vharness.Case{
				Kind: kind + "-alias",
				Coq:  fmt.Sprintf("CAlias %d %d %s %v %s", like.own, like.ownMember, w.logsCoq(snaps, ranks, ev), sent, other),
				Key:  fmt.Sprintf("alias|%v|%s|%d|%d", h.desc, planDesc, i, reopenAt), Nontrivial: strings.Contains(txt, "Some") || sent,
				OracleOK: true,
				Replay: map[string]any{"history": h.desc, "delivery": planDesc, "step": i, "reopen_after_step": reopenAt, "alias": txt},
			})
			obs = strings.TrimSuffix(obs, " | "+txt)
			if i == len(plan)-1 && txt != wantAlias {
				ok = false
				note = fmt.Sprintf("history %v: a replica that received the same entries (%s) reports other alias keys (%s) than the replica that got them in one batch (%s)", h.desc, planDesc, txt, wantAlias)
			}
		}
		if ok && i == len(plan)-1 && obs != want {
			ok = false
			note = fmt.Sprintf("history %v: a replica that received the same entries (%s) reports a different state than the replica that got them in one batch: %s", h.desc, planDesc, c04firstDiff(want, obs))
		}
		sig := "replicas holding the same entries report different group state"
		if w.getters != "" {
			sig = "getters of the metadata store disagree"
		}
		if ok {
			seenAdmin := map[string]bool{}
			for _, a := range ms.Index().(*metadataStoreIndex).listAdmins() {
				raw, _ := a.Raw()
				if seenAdmin[string(raw)] {
					ok, note, sig = false, fmt.Sprintf("history %v, %s: ListAdmins reports the same admin more than once after re-indexing", h.desc, planDesc), "an admin is listed more than once"
				}
				seenAdmin[string(raw)] = true
			}
		}
		out.Emit(vharness.Case{
			Kind: kind,
			Coq:  fmt.Sprintf("CIdx %d %s %s %s %s %s %s", like.own, w.logsCoq(snaps, ranks, ev), vharness.Ns(q.pks), vharness.Ns(q.groups), vharness.Ns(q.devs), vharness.Ns(q.members), obs),
			Key:  fmt.Sprintf("%v|%s|%d|%d", h.desc, planDesc, i, reopenAt), Nontrivial: len(snaps[len(snaps)-1]) >= 3,
			OracleOK: ok, Note: note, Sig: sig,
			Replay: map[string]any{"history": h.desc, "delivery": planDesc, "step": i, "reopen_after_step": reopenAt},
		})
	}
}

func c04firstDiff(a, b string) string {
	as, bs := strings.Split(a, "; "), strings.Split(b, "; ")
	for i := range as {
		if i >= len(bs) || as[i] != bs[i] {
			o := "<missing>"
			if i < len(bs) {
				o = bs[i]
			}
			return as[i] + " vs " + o
		}
	}
	return "lengths differ"
}

func c04perms(n int, f func([]int)) {
	p := make([]int, n)
	for i := range p {
		p[i] = i
	}
	var rec func(k int)
	rec = func(k int) {
		if k == n {
			f(append([]int(nil), p...))
			return
		}
		for i := k; i < n; i++ {
			p[k], p[i] = p[i], p[k]
			rec(k + 1)
			p[k], p[i] = p[i], p[k]
		}
	}
	rec(0)
}

func (w *c04world) explore(out *vharness.Out, kind string, rng *rand.Rand, h *c04history, nrandom int) {
	// the union of the writers' logs, in log order
	seen := map[string]ipfslog.Entry{}
	for _, d := range h.devs {
		for _, e := range d.ms.OpLog().GetEntries().Slice() {
			seen[e.GetHash().String()] = e
		}
	}
	var all []ipfslog.Entry
	for _, e := range seen {
		all = append(all, e)
	}
	if len(all) == 0 {
		return
	}
	ranks := c04rank(all)
	sort.Slice(all, func(i, j int) bool {
		a, b := all[i], all[j]
		if a.GetClock().GetTime() != b.GetClock().GetTime() {
			return a.GetClock().GetTime() < b.GetClock().GetTime()
		}
		return ranks[a.GetHash().String()] < ranks[b.GetHash().String()]
	})
	ev := map[string]string{}
	for _, e := range all {
		ev[e.GetHash().String()] = w.evCoq(h.devs[0].ms.OpLog(), e, h.group)
	}
	q := c04queries{}
	for id := range w.pub {
		q.pks = append(q.pks, id)
	}
	q.pks = vSortedU64(q.pks)
	q.devs, q.members = q.pks, q.pks
	for id := range w.groupPK {
		q.groups = append(q.groups, id)
	}
	q.groups = vSortedU64(q.groups)

	// the writers themselves: every UpdateIndex they went through
	for _, d := range h.devs {
		obs := w.observe(d.ms, q)
		if w.getters != "" {
			out.Emit(vharness.Case{Kind: kind + "-writer", Key: fmt.Sprintf("%v|writer %d getters", h.desc, d.own), OracleOK: false,
				Note: fmt.Sprintf("history %v, writer %d: %s", h.desc, d.own, w.getters), Sig: "getters of the metadata store disagree"})
		}
		out.Emit(vharness.Case{
			Kind: kind + "-writer",
			Coq:  fmt.Sprintf("CIdx %d %s %s %s %s %s %s", d.own, w.logsCoq(d.snaps, ranks, ev), vharness.Ns(q.pks), vharness.Ns(q.groups), vharness.Ns(q.devs), vharness.Ns(q.members), obs),
			Key:  fmt.Sprintf("%v|writer %d", h.desc, d.own), Nontrivial: len(d.snaps) >= 3, OracleOK: true,
		})
		if h.contact {
			sent, other, txt := w.aliasObs(d.ms)
			out.Emit(vharness.Case{
				Kind: kind + "-alias-writer",
				Coq:  fmt.Sprintf("CAlias %d %d %s %v %s", d.own, d.ownMember, w.logsCoq(d.snaps, ranks, ev), sent, other),
				Key:  fmt.Sprintf("alias|%v|writer %d", h.desc, d.own), Nontrivial: sent || other != "None", OracleOK: true,
				Replay: map[string]any{"history": h.desc, "writer": d.own, "alias": txt},
			})
		}
	}
	// heads of the union
	isNext := map[string]bool{}
	for _, e := range all {
		for _, n := range e.GetNext() {
			isNext[n.String()] = true
		}
	}
	var heads []ipfslog.Entry
	for _, e := range all {
		if !isNext[e.GetHash().String()] {
			heads = append(heads, e)
		}
	}
	for _, like := range h.devs[:2] {
		// reference: everything in one batch
		ref := w.node.replicaWith(like.r.ss)
		rms := ref.openMeta(h.group)
		if h.contact {
			w.deliverIndexed(rms, heads...)
		} else {
			vDeliver(w.ctx, w.t, rms, heads...)
		}
		want := w.observe(rms, q)
		wantAlias := ""
		if h.contact {
			_, _, wantAlias = w.aliasObs(rms)
		}
		rms.Close()
		ref.db.Close()

		single := func(order []int) [][]ipfslog.Entry {
			p := make([][]ipfslog.Entry, len(order))
			for i, k := range order {
				p[i] = []ipfslog.Entry{all[k]}
			}
			return p
		}
		ident := make([]int, len(all))
		for i := range ident {
			ident[i] = i
		}
		w.runPlan(out, kind, h, like, [][]ipfslog.Entry{heads}, "one batch", ranks, ev, q, want, -1, wantAlias)
		w.runPlan(out, kind, h, like, [][]ipfslog.Entry{heads}, "one batch, reopened", ranks, ev, q, want, 0, wantAlias)
		w.runPlan(out, kind, h, like, single(ident), "one by one in log order", ranks, ev, q, want, -1, wantAlias)
		rev := make([]int, len(all))
		for i := range rev {
			rev[i] = len(all) - 1 - i
		}
		w.runPlan(out, kind, h, like, single(rev), "newest first", ranks, ev, q, want, -1, wantAlias)
		if len(all) <= 4 {
			c04perms(len(all), func(p []int) {
				w.runPlan(out, kind, h, like, single(p), fmt.Sprint("order ", p), ranks, ev, q, want, -1, wantAlias)
			})
		}
		for k := 0; k < nrandom; k++ {
			p := rng.Perm(len(all))
			// random split into batches: consecutive entries of the permutation form one step
			var plan [][]ipfslog.Entry
			for i := 0; i < len(p); {
				j := i + 1 + rng.Intn(3)
				if j > len(p) {
					j = len(p)
				}
				var step []ipfslog.Entry
				for _, x := range p[i:j] {
					step = append(step, all[x])
				}
				plan = append(plan, step)
				i = j
			}
			reopen := -1
			if rng.Intn(2) == 0 {
				reopen = rng.Intn(len(plan))
			}
			w.runPlan(out, kind, h, like, plan, fmt.Sprint("batches ", p, " split ", len(plan)), ranks, ev, q, want, reopen, wantAlias)
		}
		// the writer itself, once it has received everything the others wrote: it went through its own
		// sequence of index updates (entries of the others arriving late, below its own newer ones) and
		// must end in the state of the replica that got everything at once
		if h.contact {
			w.deliverIndexed(like.ms, heads...)
		} else {
			vDeliver(w.ctx, w.t, like.ms, heads...)
		}
		like.snap()
		obs := w.observe(like.ms, q)
		ok, note := true, ""
		if obs != want {
			ok, note = false, fmt.Sprintf("history %v: writer %d, after receiving the entries of the others, reports a different state than a replica that got all entries in one batch: %s", h.desc, like.own, c04firstDiff(want, obs))
		}
		out.Emit(vharness.Case{
			Kind: kind + "-writer-converged",
			Coq:  fmt.Sprintf("CIdx %d %s %s %s %s %s %s", like.own, w.logsCoq(like.snaps, ranks, ev), vharness.Ns(q.pks), vharness.Ns(q.groups), vharness.Ns(q.devs), vharness.Ns(q.members), obs),
			Key:  fmt.Sprintf("%v|writer %d converged", h.desc, like.own), Nontrivial: len(like.snaps) >= 3, OracleOK: ok, Note: note,
			Sig:    "replicas holding the same entries report different group state",
			Replay: map[string]any{"history": h.desc, "writer": like.own},
		})
	}
	if !h.contact {
		w.runHeadsAlone(out, kind, h, h.devs[0], ranks, ev, q)
	}
	for _, d := range h.devs {
		d.ms.Close()
		d.r.db.Close()
	}
}

// The log of a replica need not be causally closed when the index sees it: the replicator fetches the
// heads first and walks back to their ancestors in further rounds.  Here every head of the final log
// arrives ALONE (a one-entry log joined into the replica's log, then the index update, as the store does
// at the end of a replication round), and everything else afterwards; [src] holds the final log.  Every
// step is compared with the model (the index of ANY set of entries); at the end the replica must report
// what the writer that holds the same entries reports.
func (w *c04world) runHeadsAlone(out *vharness.Out, kind string, h *c04history, src *c04dev, ranks c04ranks, ev map[string]string, q c04queries) {
	want := w.observe(src.ms, q)
	r := w.node.replicaWith(src.r.ss)
	ms := r.openMeta(h.group)
	defer func() { ms.Close(); r.db.Close() }()
	one := 1
	var snaps []c04snap
	step := func(l ipfslog.Log, desc string, last bool) bool {
		if _, err := ms.OpLog().Join(l, -1); err != nil {
			return false
		}
		if err := ms.Index().UpdateIndex(ms.OpLog(), nil); err != nil {
			return false
		}
		snaps = append(snaps, c04snapshot(ms))
		obs := w.observe(ms, q)
		ok, note := true, ""
		if last && obs != want {
			ok, note = false, fmt.Sprintf("history %v: a replica whose index first saw the heads of the log alone and then the rest reports a different state than the writer holding the same entries: %s", h.desc, c04firstDiff(want, obs))
		}
		out.Emit(vharness.Case{
			Kind: kind + "-heads-alone",
			Coq:  fmt.Sprintf("CIdx %d %s %s %s %s %s %s", src.own, w.logsCoq(snaps, ranks, ev), vharness.Ns(q.pks), vharness.Ns(q.groups), vharness.Ns(q.devs), vharness.Ns(q.members), obs),
			Key:  fmt.Sprintf("%v|heads alone|%s", h.desc, desc), Nontrivial: len(snaps[len(snaps)-1]) >= 3, OracleOK: ok, Note: note,
			Sig:    "replicas holding the same entries report different group state",
			Replay: map[string]any{"history": h.desc, "delivery": "every head of the final log alone (its ancestors missing), then everything", "step": desc},
		})
		return true
	}
	opts := &ipfslog.LogOptions{ID: src.ms.OpLog().GetID(), AccessController: src.ms.AccessController(), SortFn: src.ms.SortFn(), IO: src.ms.IO()}
	for i, hd := range src.ms.OpLog().Heads().Slice() {
		l, err := ipfslog.NewFromEntryHash(w.ctx, src.ms.IPFS(), src.ms.Identity(), hd.GetHash(), opts, &ipfslog.FetchOptions{Length: &one})
		if err != nil || !step(l, fmt.Sprintf("head %d alone", i), false) {
			return
		}
	}
	// the rest: the logs that end at the parents of the heads (joining the full log would add nothing: a join starts
	// from the other log's heads and stops at entries that are already there)
	all := -1
	var parents []string
	for _, hd := range src.ms.OpLog().Heads().Slice() {
		for _, n := range hd.GetNext() {
			parents = append(parents, n.String())
		}
	}
	for i, ph := range parents {
		c, err := cid.Decode(ph)
		if err != nil {
			return
		}
		l, err := ipfslog.NewFromEntryHash(w.ctx, src.ms.IPFS(), src.ms.Identity(), c, opts, &ipfslog.FetchOptions{Length: &all})
		if err != nil {
			return
		}
		// the oracle applies once the replica holds exactly the entries of the writer
		last := i == len(parents)-1
		if last {
			if _, err := ms.OpLog().Join(l, -1); err != nil {
				return
			}
			last = ms.OpLog().Len() == src.ms.OpLog().Len()
		}
		if !step(l, fmt.Sprintf("ancestors through parent %d", i), last) {
			return
		}
	}
}

func TestVerifC04(t *testing.T) {
	out := vharness.Open()
	defer out.Close()
	ctx, cancel := context.WithCancel(context.Background())
	defer cancel()
	rng := vharness.Rng()
	nh := vharness.Budget(40, 600)
	if vharness.Budget(1, 1) == 0 {
		nh = 3
	}
	node := vNewNode(ctx, t)
	for i := 0; i < nh; i++ {
		w := &c04world{t: t, ctx: ctx, node: node, pub: map[uint64]crypto.PubKey{}, groupPK: map[uint64][]byte{}}
		n := 2 + rng.Intn(10)
		if i%4 == 0 {
			n = 2 + rng.Intn(3) // small histories: every delivery order
		}
		if i%5 == 3 {
			w.explore(out, "account-one-contact", rng, w.accountHistoryMode(rng, n+3, true), 8)
		} else if i%5 == 1 {
			w.explore(out, "contact", rng, w.contactHistory(rng, n+2), 3)
		} else if i%3 == 2 {
			w.explore(out, "multi-member", rng, w.multiHistory(rng, n+2), 3)
		} else {
			w.explore(out, "account", rng, w.accountHistory(rng, n), 3)
		}
	}
}
