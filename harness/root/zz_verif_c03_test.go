//go:build verif

package weshnet

// C03 correspondence driver: for every metadata event type, an honest envelope and a catalogue of
// forgeries built with real keys; each is (1) handed to the real openGroupEnvelope and compared
// with the symbolic model (driver) and with the expected verdict (here), and (2) appended to the
// log of a real MetadataStore and replicated to a second one: rejected envelopes must leave the
// index untouched and reach no subscriber.

import (
	"google.golang.org/protobuf/encoding/protowire"
	"context"
	crand "crypto/rand"
	"fmt"
	"sort"
	"strings"
	"testing"
	"time"

	"berty.tech/go-orbit-db/stores/operation"
	"github.com/libp2p/go-libp2p/core/crypto"
	"golang.org/x/crypto/nacl/secretbox"
	"google.golang.org/protobuf/proto"
	"google.golang.org/protobuf/reflect/protoreflect"

	"berty.tech/weshnet/v2/internal/vharness"
	"berty.tech/weshnet/v2/pkg/cryptoutil"
	"berty.tech/weshnet/v2/pkg/protocoltypes"
)

type c03key struct {
	sk  crypto.PrivKey
	pk  crypto.PubKey
	raw []byte
	id  uint64
}

func c03newKey(id uint64) *c03key {
	sk, pk, _ := crypto.GenerateEd25519Key(crand.Reader)
	raw, _ := pk.Raw()
	return &c03key{sk, pk, raw, id}
}

// symbolic identifiers
const (
	c03secret  = 1
	c03other   = 2
	c03garbage = 0
	c03gpk     = 10
)

type c03sig struct {
	by   uint64 // 0: none, ^0: junk
	over uint64
	raw  []byte
}

func (s c03sig) coq() string {
	switch {
	case s.raw == nil || s.by == 0:
		return "SigNone"
	case s.by == ^uint64(0):
		return "SigJunk"
	}
	return fmt.Sprintf("(SigBy %d %d)", s.by, s.over)
}

type c03env struct {
	name      string
	boxkey    uint64
	wellform  bool
	typ       int32
	payloadID uint64
	payload   []byte
	sig       c03sig
	dev       string // "(KeyOk n)" | "KeyBad"
	member    string
	membersig c03sig
	raw       []byte // sealed envelope bytes
	touches   [][]byte
}

func (e *c03env) coq() string {
	return fmt.Sprintf("(mkEnv %d %v %d %d %s %s %s %s)", e.boxkey, e.wellform, e.typ, e.payloadID, e.sig.coq(), e.dev, e.member, e.membersig.coq())
}

func c03seal(secret *[32]byte, typ int32, payload, sig []byte) []byte {
	nonce, _ := cryptoutil.GenerateNonce()
	ev := &protocoltypes.GroupMetadata{EventType: protocoltypes.EventType(typ), Payload: payload, Sig: sig, ProtocolMetadata: &protocoltypes.ProtocolMetadata{}}
	clear, _ := proto.Marshal(ev)
	box := secretbox.Seal(nil, clear, nonce, secret)
	b, _ := proto.Marshal(&protocoltypes.GroupEnvelope{Event: box, Nonce: nonce[:]})
	return b
}

type c03world struct {
	t            *testing.T
	g            *protocoltypes.Group
	gsk          *c03key
	d1, d2       *c03key
	m1, m2       *c03key
	byRaw        map[string]*c03key
	nextPayload  uint64
	otherSecret  [32]byte
	contactKeys  [][]byte
}

func (w *c03world) keyField(b []byte) string {
	if len(b) != 32 {
		return "KeyBad"
	}
	if k, ok := w.byRaw[string(b)]; ok {
		return fmt.Sprintf("(KeyOk %d)", k.id)
	}
	return "(KeyOk 99)" // a valid key nobody signs with
}

// the message of every event type of the protocol (appendix B of DESIGN.md): the harness' OWN table, so
// that it does not depend on how events.go represents its own
var c03messages = map[protocoltypes.EventType]proto.Message{
	protocoltypes.EventType_EventTypeGroupMemberDeviceAdded:                 &protocoltypes.GroupMemberDeviceAdded{},
	protocoltypes.EventType_EventTypeGroupDeviceChainKeyAdded:               &protocoltypes.GroupDeviceChainKeyAdded{},
	protocoltypes.EventType_EventTypeAccountGroupJoined:                     &protocoltypes.AccountGroupJoined{},
	protocoltypes.EventType_EventTypeAccountGroupLeft:                       &protocoltypes.AccountGroupLeft{},
	protocoltypes.EventType_EventTypeAccountContactRequestDisabled:          &protocoltypes.AccountContactRequestDisabled{},
	protocoltypes.EventType_EventTypeAccountContactRequestEnabled:           &protocoltypes.AccountContactRequestEnabled{},
	protocoltypes.EventType_EventTypeAccountContactRequestReferenceReset:    &protocoltypes.AccountContactRequestReferenceReset{},
	protocoltypes.EventType_EventTypeAccountContactRequestOutgoingEnqueued:  &protocoltypes.AccountContactRequestOutgoingEnqueued{},
	protocoltypes.EventType_EventTypeAccountContactRequestOutgoingSent:      &protocoltypes.AccountContactRequestOutgoingSent{},
	protocoltypes.EventType_EventTypeAccountContactRequestIncomingReceived:  &protocoltypes.AccountContactRequestIncomingReceived{},
	protocoltypes.EventType_EventTypeAccountContactRequestIncomingDiscarded: &protocoltypes.AccountContactRequestIncomingDiscarded{},
	protocoltypes.EventType_EventTypeAccountContactRequestIncomingAccepted:  &protocoltypes.AccountContactRequestIncomingAccepted{},
	protocoltypes.EventType_EventTypeAccountContactBlocked:                  &protocoltypes.AccountContactBlocked{},
	protocoltypes.EventType_EventTypeAccountContactUnblocked:                &protocoltypes.AccountContactUnblocked{},
	protocoltypes.EventType_EventTypeContactAliasKeyAdded:                   &protocoltypes.ContactAliasKeyAdded{},
	protocoltypes.EventType_EventTypeMultiMemberGroupAliasResolverAdded:     &protocoltypes.MultiMemberGroupAliasResolverAdded{},
	protocoltypes.EventType_EventTypeMultiMemberGroupInitialMemberAnnounced: &protocoltypes.MultiMemberGroupInitialMemberAnnounced{},
	protocoltypes.EventType_EventTypeMultiMemberGroupAdminRoleGranted:       &protocoltypes.MultiMemberGroupAdminRoleGranted{},
	protocoltypes.EventType_EventTypeGroupMetadataPayloadSent:               &protocoltypes.GroupMetadataPayloadSent{},
	protocoltypes.EventType_EventTypeGroupReplicating:                       &protocoltypes.GroupReplicating{},
	protocoltypes.EventType_EventTypeAccountVerifiedCredentialRegistered:    &protocoltypes.AccountVerifiedCredentialRegistered{},
}

// fill sets every field of an event message generically; the device field gets [dev].
func (w *c03world) fill(typ protocoltypes.EventType, dev *c03key, salt int) (proto.Message, [][]byte) {
	m := proto.Clone(c03messages[typ])
	r := m.ProtoReflect()
	var touched [][]byte
	fs := r.Descriptor().Fields()
	for i := 0; i < fs.Len(); i++ {
		fd := fs.Get(i)
		switch {
		case fd.Name() == "device_pk":
			r.Set(fd, protoreflect.ValueOfBytes(dev.raw))
		case fd.Kind() == protoreflect.BytesKind:
			b := make([]byte, 32)
			crand.Read(b)
			r.Set(fd, protoreflect.ValueOfBytes(b))
			touched = append(touched, b)
		case fd.Kind() == protoreflect.StringKind:
			r.Set(fd, protoreflect.ValueOfString(fmt.Sprintf("s-%d", salt)))
		case fd.Kind() == protoreflect.Int64Kind:
			r.Set(fd, protoreflect.ValueOfInt64(int64(salt)))
		case fd.Kind() == protoreflect.MessageKind:
			switch string(fd.Message().Name()) {
			case "ShareableContact":
				pk := make([]byte, 32)
				seed := make([]byte, 32)
				crand.Read(pk)
				crand.Read(seed)
				touched = append(touched, pk)
				r.Set(fd, protoreflect.ValueOfMessage((&protocoltypes.ShareableContact{Pk: pk, PublicRendezvousSeed: seed, Metadata: []byte("md")}).ProtoReflect()))
			case "Group":
				ng, _, _ := NewGroupMultiMember()
				touched = append(touched, ng.PublicKey)
				r.Set(fd, protoreflect.ValueOfMessage(ng.ProtoReflect()))
			}
		}
	}
	return m, touched
}

func (w *c03world) sign(k *c03key, data []byte, over uint64) c03sig {
	s, _ := k.sk.Sign(data)
	return c03sig{by: k.id, over: over, raw: s}
}

// catalogue builds the honest envelope of a type and its forgeries.
func (w *c03world) catalogue(typ protocoltypes.EventType, salt int) []*c03env {
	chkGroup := typ == protocoltypes.EventType_EventTypeMultiMemberGroupInitialMemberAnnounced
	chkMember := typ == protocoltypes.EventType_EventTypeGroupMemberDeviceAdded
	secret := w.g.GetSharedSecret()
	var out []*c03env

	build := func(name string, dev *c03key, signer *c03key, mutate func(e *c03env, msg proto.Message)) *c03env {
		msg, touched := w.fill(typ, dev, salt)
		e := &c03env{name: name, boxkey: c03secret, wellform: true, typ: int32(typ), dev: "KeyBad", member: "KeyBad", touches: touched}
		if md, ok := msg.(*protocoltypes.GroupMemberDeviceAdded); ok {
			md.MemberPk = w.m1.raw
			ms, _ := w.m1.sk.Sign(dev.raw)
			md.MemberSig = ms
			e.membersig = c03sig{by: w.m1.id, over: dev.id, raw: ms}
		}
		if im, ok := msg.(*protocoltypes.MultiMemberGroupInitialMemberAnnounced); ok {
			im.MemberPk = dev.raw
		}
		if mutate != nil {
			mutate(e, msg)
		}
		if e.payload == nil {
			e.payload, _ = proto.Marshal(msg)
			w.nextPayload++
			e.payloadID = w.nextPayload
		}
		if signer != nil && e.sig.raw == nil && e.sig.by == 0 {
			e.sig = w.sign(signer, e.payload, e.payloadID)
		}
		// the key fields as the opener will decode them
		dec := proto.Clone(c03messages[typ])
		if err := proto.Unmarshal(e.payload, dec); err != nil {
			e.wellform = false
		} else {
			if d, ok := dec.(eventDeviceSigned); ok {
				e.dev = w.keyField(d.GetDevicePk())
			}
			if md, ok := dec.(*protocoltypes.GroupMemberDeviceAdded); ok {
				e.member = w.keyField(md.MemberPk)
			}
		}
		if e.raw == nil {
			e.raw = c03seal(secret, e.typ, e.payload, e.sig.raw)
		}
		out = append(out, e)
		return e
	}

	right := w.d1
	if chkGroup {
		right = w.gsk
	}
	honest := build("honest", w.d1, right, nil)

	// signature by another key
	for _, k := range []*c03key{w.d2, w.gsk, w.m1} {
		if k == right {
			continue
		}
		k := k
		build(fmt.Sprintf("signed by key %d instead of the required signer", k.id), w.d1, k, nil)
	}
	if chkGroup {
		build("initial member announcement signed by the announced device", w.d1, w.d1, nil)
	}
	// the key that signs the LOG ENTRIES of the group is derived from the group secret: every member and
	// every invitee holds it; it is no substitute for the group key or for a device key
	if lsk, err := w.g.GetSigningPrivKey(); err == nil {
		lraw, _ := lsk.GetPublic().Raw()
		lk := &c03key{sk: lsk, pk: lsk.GetPublic(), raw: lraw, id: 16}
		build("signed by the log-signing key derived from the group secret instead of the required signer", w.d1, lk, nil)
	}
	// signer field swapped after signing
	if !chkGroup {
		build("signer field swapped after signing", w.d1, nil, func(e *c03env, msg proto.Message) {
			p0, _ := proto.Marshal(msg)
			w.nextPayload++
			id0 := w.nextPayload
			e.sig = w.sign(w.d1, p0, id0)
			r := msg.ProtoReflect()
			r.Set(r.Descriptor().Fields().ByName("device_pk"), protoreflect.ValueOfBytes(w.d2.raw))
		})
	}
	// a signer field TWICE on the wire (never written by proto.Marshal; the decoder keeps the last
	// occurrence): the signature is by the key named first, the decoded event names the key given last
	if !chkGroup {
		dup := func(msg proto.Message, field string, last []byte) []byte {
			p, _ := proto.Marshal(msg)
			fd := msg.ProtoReflect().Descriptor().Fields().ByName(protoreflect.Name(field))
			p = protowire.AppendTag(p, fd.Number(), protowire.BytesType)
			return protowire.AppendBytes(p, last)
		}
		build("signer field twice on the wire: the signing key first, another device last", w.d2, w.d2, func(e *c03env, msg proto.Message) {
			e.payload = dup(msg, "device_pk", w.d1.raw)
			w.nextPayload++
			e.payloadID = w.nextPayload
		})
		build("genuine event of another device, its signer field twice on the wire (another device first, its own key last)", w.d1, w.d2, func(e *c03env, msg proto.Message) {
			e.payload = dup(msg, "device_pk", w.d2.raw)
			w.nextPayload++
			e.payloadID = w.nextPayload
			if _, ok := msg.(*protocoltypes.GroupMemberDeviceAdded); ok {
				// the member signature must then be over the device that is decoded
				ms, _ := w.m1.sk.Sign(w.d2.raw)
				msg.(*protocoltypes.GroupMemberDeviceAdded).MemberSig = ms
				e.membersig = c03sig{by: w.m1.id, over: w.d2.id, raw: ms}
				e.payload = dup(msg, "device_pk", w.d2.raw)
			}
		})
		if chkMember {
			build("member key twice on the wire: the signing member first, another member last", w.d1, w.d1, func(e *c03env, msg proto.Message) {
				md := msg.(*protocoltypes.GroupMemberDeviceAdded)
				md.MemberPk = w.m2.raw
				ms, _ := w.m2.sk.Sign(w.d1.raw)
				md.MemberSig = ms
				e.membersig = c03sig{by: w.m2.id, over: w.d1.id, raw: ms}
				e.payload = dup(msg, "member_pk", w.m1.raw)
				w.nextPayload++
				e.payloadID = w.nextPayload
			})
			build("member signature twice on the wire: a valid one first, another member's last", w.d1, w.d1, func(e *c03env, msg proto.Message) {
				md := msg.(*protocoltypes.GroupMemberDeviceAdded)
				ms, _ := w.m2.sk.Sign(w.d1.raw)
				e.membersig = c03sig{by: w.m2.id, over: w.d1.id, raw: ms}
				e.payload = dup(md, "member_sig", ms)
				w.nextPayload++
				e.payloadID = w.nextPayload
			})
		}
	}
	// payload bit flips under the original signature
	for k := 0; k < 3; k++ {
		k := k
		build(fmt.Sprintf("payload bit flip #%d", k), w.d1, nil, func(e *c03env, msg proto.Message) {
			p0 := append([]byte(nil), honest.payload...)
			e.sig = honest.sig
			pos := (k*7919 + salt*31) % (len(p0) * 8)
			p0[pos/8] ^= 1 << (pos % 8)
			e.payload = p0
			w.nextPayload++
			e.payloadID = w.nextPayload
		})
	}
	// payload/signature boundary shifted: a prefix of the signed payload, with the cut-off tail
	// prepended to the genuine signature (same concatenation of bytes, different message)
	cuts := []int{}
	if salt < 100 {
		for n := 1; n < len(honest.payload); n++ {
			cuts = append(cuts, n)
		}
	} else {
		for k := 0; k < 6 && len(honest.payload) > 1; k++ {
			cuts = append(cuts, 1+(salt*7+k*13)%(len(honest.payload)-1))
		}
	}
	for _, n := range cuts {
		n := n
		build(fmt.Sprintf("payload cut at %d, tail moved into the signature", n), w.d1, nil, func(e *c03env, msg proto.Message) {
			e.payload = append([]byte(nil), honest.payload[:n]...)
			w.nextPayload++
			e.payloadID = w.nextPayload
			e.sig = c03sig{by: ^uint64(0), raw: append(append([]byte(nil), honest.payload[n:]...), honest.sig.raw...)}
		})
	}
	// missing / damaged signature
	build("missing signature", w.d1, nil, func(e *c03env, msg proto.Message) { e.sig = c03sig{} })
	build("truncated signature", w.d1, nil, func(e *c03env, msg proto.Message) {
		p, _ := proto.Marshal(msg)
		s, _ := right.sk.Sign(p)
		e.sig = c03sig{by: ^uint64(0), raw: s[:63]}
	})
	build("signature bit flip", w.d1, nil, func(e *c03env, msg proto.Message) {
		p, _ := proto.Marshal(msg)
		s, _ := right.sk.Sign(p)
		s[salt%64] ^= 0x10
		e.sig = c03sig{by: ^uint64(0), raw: s}
	})
	// unknown type numbers around the honest content
	unknownTypes := []int32{0, 3, 404, 9999}
	// ... and the number right below this very type when it is no type itself (a gap of the enumeration):
	// the honest content of the type under a number that designates nothing
	if _, known := protocoltypes.EventType_name[int32(typ)-1]; !known && int32(typ) > 0 {
		unknownTypes = append(unknownTypes, int32(typ)-1)
	}
	for _, t := range unknownTypes {
		t := t
		e := build(fmt.Sprintf("unknown type number %d", t), w.d1, right, nil)
		e.typ = t
		e.raw = c03seal(secret, t, e.payload, e.sig.raw)
	}
	// wrong group secret; damaged box
	e := build("sealed under another secret", w.d1, right, nil)
	e.boxkey = c03other
	e.raw = c03seal(&w.otherSecret, e.typ, e.payload, e.sig.raw)
	for k := 0; k < 2; k++ {
		e := build(fmt.Sprintf("envelope byte flip #%d", k), w.d1, right, nil)
		// flip inside the box ciphertext (the last bytes of the envelope are ciphertext or nonce)
		env := &protocoltypes.GroupEnvelope{}
		_ = proto.Unmarshal(e.raw, env)
		if k == 0 {
			env.Event[(salt*13)%len(env.Event)] ^= 0x01
		} else {
			env.Nonce[(salt*5)%len(env.Nonce)] ^= 0x80
		}
		e.raw, _ = proto.Marshal(env)
		e.boxkey = c03garbage
	}
	e = build("nonce of the wrong length", w.d1, right, nil)
	env := &protocoltypes.GroupEnvelope{}
	_ = proto.Unmarshal(e.raw, env)
	env.Nonce = env.Nonce[:12]
	e.raw, _ = proto.Marshal(env)
	e.wellform = false
	// device key field that is no key
	if !chkGroup {
		build("signer field is not a key", w.d1, w.d1, func(e *c03env, msg proto.Message) {
			r := msg.ProtoReflect()
			r.Set(r.Descriptor().Fields().ByName("device_pk"), protoreflect.ValueOfBytes(w.d1.raw[:31]))
		})
	}
	if chkMember {
		build("member signature by another member", w.d1, w.d1, func(e *c03env, msg proto.Message) {
			md := msg.(*protocoltypes.GroupMemberDeviceAdded)
			ms, _ := w.m2.sk.Sign(w.d1.raw)
			md.MemberSig = ms
			e.membersig = c03sig{by: w.m2.id, over: w.d1.id, raw: ms}
		})
		build("member signature over another device", w.d1, w.d1, func(e *c03env, msg proto.Message) {
			md := msg.(*protocoltypes.GroupMemberDeviceAdded)
			ms, _ := w.m1.sk.Sign(w.d2.raw)
			md.MemberSig = ms
			e.membersig = c03sig{by: w.m1.id, over: w.d2.id, raw: ms}
		})
		build("member field swapped", w.d1, w.d1, func(e *c03env, msg proto.Message) {
			msg.(*protocoltypes.GroupMemberDeviceAdded).MemberPk = w.m2.raw
		})
		build("member signature missing", w.d1, w.d1, func(e *c03env, msg proto.Message) {
			msg.(*protocoltypes.GroupMemberDeviceAdded).MemberSig = nil
			e.membersig = c03sig{}
		})
		build("member signs, device signature by the member key", w.d1, w.m1, nil)
	}
	// a genuine event of the other device (accepted: it is signed by the device it names)
	if !chkGroup && !chkMember {
		build("genuine event of another device", w.d2, w.d2, nil)
	}
	return out
}

func TestVerifC03(t *testing.T) {
	out := vharness.Open()
	defer out.Close()
	ctx, cancel := context.WithCancel(context.Background())
	defer cancel()
	rounds := vharness.Budget(3, 40)
	if vharness.Budget(1, 1) == 0 {
		rounds = 1
	}
	var types []protocoltypes.EventType
	for ty := range c03messages {
		types = append(types, ty)
	}
	sort.Slice(types, func(i, j int) bool { return types[i] < types[j] })

	node := vNewNode(ctx, t)
	for round := 0; round < rounds; round++ {
		// fresh keys and groups every round
		acc := node.newAccount()
		accGroup := acc.accountGroup()
		mg, mgsk, _ := NewGroupMultiMember()
		for gi, g := range []*protocoltypes.Group{accGroup, mg} {
			w := &c03world{t: t, g: g, byRaw: map[string]*c03key{}}
			w.d1, w.d2, w.m1, w.m2 = c03newKey(11), c03newKey(12), c03newKey(13), c03newKey(14)
			gpk, _ := g.GetPubKey()
			graw, _ := gpk.Raw()
			if gi == 1 {
				w.gsk = &c03key{sk: mgsk, pk: gpk, raw: graw, id: c03gpk}
			} else {
				// the private key of an account group is derived by the secret store; sign "by the group
				// key" with a stand-in that is NOT the group key: such envelopes must be rejected, and the
				// honest initial-member case is exercised on the multi-member group only
				w.gsk = c03newKey(15)
			}
			for _, k := range []*c03key{w.d1, w.d2, w.m1, w.m2, w.gsk} {
				w.byRaw[string(k.raw)] = k
			}
			crand.Read(w.otherSecret[:])

			ms := acc.openMeta(g)
			rep := node.newDevice(acc)
			if gi == 1 {
				rep = node.newAccount()
			}
			mrep := rep.openMeta(g)
			cw := &c04world{t: t, ctx: ctx, node: node, pub: map[uint64]crypto.PubKey{}, groupPK: map[uint64][]byte{}}
			subW, _ := ms.EventBus().Subscribe([]any{new(EventMetadataReceived), new(*protocoltypes.GroupMetadataEvent)})
			subR, _ := mrep.EventBus().Subscribe([]any{new(EventMetadataReceived), new(*protocoltypes.GroupMetadataEvent)})
			collect := func(sub interface{ Out() <-chan interface{} }, until string) map[string]int {
				seen := map[string]int{}
				deadline := time.After(20 * time.Second)
				for {
					select {
					case ev := <-sub.Out():
						var id string
						switch x := ev.(type) {
						case EventMetadataReceived:
							id = string(x.MetaEvent.EventContext.Id)
						case *protocoltypes.GroupMetadataEvent:
							id = string(x.EventContext.Id)
						}
						seen[id]++
					case <-time.After(40 * time.Millisecond):
						// quiet: done once both emissions of the sentinel were seen
						if seen[until] >= 2 {
							return seen
						}
					case <-deadline:
						t.Fatalf("sentinel event not emitted")
					}
				}
			}

			for ti, typ := range types {
				if gi == 0 && typ == protocoltypes.EventType_EventTypeMultiMemberGroupInitialMemberAnnounced {
					continue
				}
				cat := w.catalogue(typ, round*100+ti)
				q := c04queries{}
				for _, e := range cat {
					for _, b := range e.touches {
						if len(b) == 32 {
							cw.keyID(b)
							cw.groupID(b)
						}
					}
				}
				for _, k := range []*c03key{w.d1, w.d2, w.m1, w.m2} {
					cw.keyID(k.raw)
				}
				for id := range cw.pub {
					q.pks = append(q.pks, id)
				}
				q.pks = vSortedU64(q.pks)
				q.devs, q.members = q.pks, q.pks
				for id := range cw.groupPK {
					q.groups = append(q.groups, id)
				}
				q.groups = vSortedU64(q.groups)

				before := cw.observe(ms, q)
				beforeR := cw.observe(mrep, q)
				rejectedIDs := map[string]string{}
				for _, e := range cat {
					_, _, err := openGroupEnvelope(g, e.raw)
					accepted := err == nil
					want := e.name == "honest" || strings.HasPrefix(e.name, "genuine event of another device")
					ok, note := true, ""
					if accepted != want {
						ok = false
						if accepted {
							note = fmt.Sprintf("event type %v, %s: openGroupEnvelope ACCEPTED the envelope", typ, e.name)
						} else {
							note = fmt.Sprintf("event type %v, %s: openGroupEnvelope rejected the envelope: %v", typ, e.name, err)
						}
					}
					gpkID := uint64(c03gpk)
					out.Emit(vharness.Case{
						Kind: "open", Coq: fmt.Sprintf("COpen %d %d %s %v", c03secret, gpkID, e.coq(), accepted),
						Key:  fmt.Sprintf("%d|%v|%s|%d", gi, typ, e.name, round), Nontrivial: e.name != "honest",
						OracleOK: ok, Note: note, Sig: "forged or damaged metadata envelope accepted: " + strings.SplitN(strings.SplitN(e.name, " #", 2)[0], " at ", 2)[0],
						Replay: map[string]any{"group": gi, "event_type": typ.String(), "forgery": e.name},
					})
					if !accepted && (!strings.HasPrefix(e.name, "payload cut") || strings.HasSuffix(strings.SplitN(e.name, ",", 2)[0], " 3") || strings.HasSuffix(strings.SplitN(e.name, ",", 2)[0], " 17")) {
						// append it to the writer's log: it must change nothing and reach nobody
						entry, err := ms.AddOperation(ctx, operation.NewOperation(nil, "ADD", e.raw), nil)
						if err != nil {
							t.Fatal(err)
						}
						rejectedIDs[string(entry.GetHash().Bytes())] = e.name
					}
				}
				// sentinel: an honest event through the store API
				op, err := ms.SendAppMetadata(ctx, []byte(fmt.Sprintf("sentinel-%d-%d", round, ti)))
				if err != nil {
					t.Fatal(err)
				}
				sentinel := string(op.GetEntry().GetHash().Bytes())
				emitted := collect(subW, sentinel)
				after := cw.observe(ms, q)
				vDeliver(ctx, t, mrep, ms.OpLog().Heads().Slice()...)
				emittedR := collect(subR, sentinel)
				afterR := cw.observe(mrep, q)
				ok, note := true, ""
				for id, name := range rejectedIDs {
					if emitted[id] > 0 || emittedR[id] > 0 {
						ok, note = false, fmt.Sprintf("event type %v, %s: the rejected entry was handed to subscribers", typ, name)
					}
				}
				// the history path: listings (ListEvents feeds GroupMetadataList and the re-registration of
				// chain keys) must not hand a rejected entry out either, in either direction
				for _, lst := range []struct {
					who string
					st  *MetadataStore
				}{{"writer", ms}, {"replica", mrep}} {
					for _, rev := range []bool{false, true} {
						ch, err := lst.st.ListEvents(ctx, nil, nil, rev)
						if err != nil {
							t.Fatal(err)
						}
						for ev := range ch {
							if ev == nil || ev.EventContext == nil {
								continue
							}
							if name, bad := rejectedIDs[string(ev.EventContext.Id)]; bad && ok {
								ok, note = false, fmt.Sprintf("event type %v, %s: the rejected entry is handed out by ListEvents of the %s", typ, name, lst.who)
							}
						}
					}
				}
				if ok && (before != after || beforeR != afterR) {
					ok, note = false, fmt.Sprintf("event type %v: appending %d rejected envelopes changed the indexed state: %s", typ, len(rejectedIDs), c04firstDiff(before, after)+" / "+c04firstDiff(beforeR, afterR))
				}
				// model side of the store-level check: the rejected entries are ENoop entries
				out.Emit(vharness.Case{
					Kind: "store", Coq: fmt.Sprintf("CStore %d", len(rejectedIDs)),
					Key:  fmt.Sprintf("store|%d|%v|%d", gi, typ, round), Nontrivial: true, OracleOK: ok, Note: note,
					Sig:    "rejected metadata entry reached the index or subscribers",
					Replay: map[string]any{"group": gi, "event_type": typ.String(), "rejected_entries": len(rejectedIDs)},
				})
			}
			subW.Close()
			subR.Close()
			ms.Close()
			mrep.Close()
			rep.db.Close()
		}
		acc.db.Close()
	}
}
