//go:build verif

package weshnet

// C14 at the level the property names: the service replies of OutOfStoreSeal / OutOfStoreReceive
// (AlreadyReceived flag included) and the real MessageStore on the log path.  A sender node with a
// real message store (AddMessage), a receiver node whose log deliveries go through
// MessageStore.processMessage (which moves the reference window itself) and whose push deliveries
// go through service.OutOfStoreReceive on payloads produced by the sender's service.OutOfStoreSeal.
// The session is fed to the same model as the secret-store stream (Model.C14_Push, CPush).

import (
	"bytes"
	"context"
	"fmt"
	"testing"

	"berty.tech/go-orbit-db/stores/operation"
	"google.golang.org/protobuf/proto"

	"berty.tech/weshnet/v2/internal/vharness"
	"berty.tech/weshnet/v2/pkg/protocoltypes"
	"berty.tech/weshnet/v2/pkg/secretstore"
)

func TestVerifC14Service(t *testing.T) {
	out := vharness.Open()
	defer out.Close()
	ctx, cancel := context.WithCancel(context.Background())
	defer cancel()
	rng := vharness.Rng()
	node := vNewNode(ctx, t)
	nSess := vharness.Budget(40, 1200)
	if vharness.Budget(1, 1) == 0 {
		nSess = 2
	}
	for it := 0; it < nSess; it++ {
		W := 1 + rng.Intn(3)
		nr := 1 + rng.Intn(4)
		nMsg := 6
		mk := func() *vReplica {
			ss, err := secretstore.NewInMemSecretStore(&secretstore.NewSecretStoreOptions{PreComputedKeysCount: W, PrecomputeOutOfStoreGroupRefsCount: nr})
			if err != nil {
				t.Fatal(err)
			}
			return node.replicaWith(ss)
		}
		ra, rb := mk(), mk()
		g, _, err := NewGroupMultiMember()
		if err != nil {
			t.Fatal(err)
		}
		// joining a group stores it in the secret store (service MultiMemberGroupJoin / reindexGroupDatastore)
		for _, r := range []*vReplica{ra, rb} {
			if err := r.ss.PutGroup(ctx, g); err != nil {
				t.Fatal(err)
			}
		}
		msA, msB := ra.openMessages(g), rb.openMessages(g)
		mdA, _ := ra.ss.GetOwnMemberDeviceForGroup(g)
		mdB, _ := rb.ss.GetOwnMemberDeviceForGroup(g)
		devARaw, _ := mdA.Device().Raw()
		svcA := &service{secretStore: ra.ss, openedGroups: map[string]*GroupContext{string(g.PublicKey): {messageStore: msA, group: g}}}
		svcB := &service{secretStore: rb.ss}

		var ann [][]byte
		share := func() {
			e, err := ra.ss.GetShareableChainKey(ctx, g, mdB.Member())
			if err != nil {
				t.Fatal(err)
			}
			ann = append(ann, e)
		}
		share()
		plain := [][]byte{nil}
		ops := []operation.Operation{nil}
		push := [][]byte{nil}
		for k := 1; k <= nMsg; k++ {
			p := []byte(fmt.Sprintf("payload %d of session %d", k, it))
			op, err := msA.AddMessage(ctx, p)
			if err != nil {
				t.Fatal(err)
			}
			plain, ops = append(plain, p), append(ops, op)
			if k <= 2 {
				share()
			}
			rep, err := svcA.OutOfStoreSeal(ctx, &protocoltypes.OutOfStoreSeal_Request{Cid: op.GetEntry().GetHash().Bytes(), GroupPublicKey: g.PublicKey})
			if err != nil {
				t.Fatalf("OutOfStoreSeal: %v", err)
			}
			push = append(push, rep.Encrypted)
		}
		reg, c, center := false, 0, 0
		logged := map[int]bool{}
		var mops, obs []string
		ok, note, sig := true, "", ""
		fail := func(s, n string) {
			if ok {
				ok, sig, note = false, s, n
			}
		}
		receive := func(payload []byte) (rep *protocoltypes.OutOfStoreReceive_Reply, err error, pv any) {
			defer func() { pv = recover() }()
			rep, err = svcB.OutOfStoreReceive(ctx, &protocoltypes.OutOfStoreReceive_Request{Payload: payload})
			return
		}
		nOps := 4 + rng.Intn(12)
		for j := 0; j < nOps; j++ {
			k := 1 + rng.Intn(nMsg)
			cidNum := 100000 + k
			switch x := rng.Intn(12); {
			case x < 2:
				cc := rng.Intn(3)
				err := rb.ss.RegisterChainKey(ctx, g, mdA.Device(), ann[cc])
				mops = append(mops, fmt.Sprintf("PReg 1 %d", cc))
				obs = append(obs, "PDone")
				if err != nil {
					fail("registration failed", err.Error())
				}
				if !reg {
					reg, c, center = true, cc, cc+W
				}
			case x < 6:
				mops = append(mops, fmt.Sprintf("PLog 1 %d %d", k, cidNum))
				e := ops[k].GetEntry()
				pop, err := operation.ParseOperation(e)
				if err != nil {
					t.Fatal(err)
				}
				env, hdr, err := rb.ss.OpenEnvelopeHeaders(pop.GetValue(), g)
				if err != nil {
					t.Fatal(err)
				}
				ev, err := msB.processMessage(ctx, &messageItem{hash: e.GetHash(), env: env, headers: hdr, op: pop})
				want := reg && (logged[k] || (k > c && k <= c+W+len(logged)))
				if err != nil {
					obs = append(obs, "PFail")
					if want {
						fail("push delivery prevented a later log delivery", fmt.Sprintf("message %d is openable through the log (c=%d W=%d opened=%d) but failed after the session's pushes: %v", k, c, W, len(logged), err))
					}
				} else {
					if !bytes.Equal(ev.Message, plain[k]) {
						fail("wrong payload", "log delivery returned a different payload")
					}
					obs = append(obs, fmt.Sprintf("PLogOk %d", cidNum))
					logged[k] = true
					center = k
				}
			case x < 10:
				mops = append(mops, fmt.Sprintf("PPush 1 %d %d", k, cidNum))
				rep, err, pv := receive(push[k])
				inWindow := reg && k < center+nr && k+nr >= center
				openable := reg && (logged[k] || (k > c && k <= c+W+len(logged)))
				switch {
				case pv != nil:
					obs = append(obs, "PFail")
					fail("OutOfStoreReceive panics", fmt.Sprint(pv))
				case err != nil:
					obs = append(obs, "PFail")
					if inWindow && openable {
						fail("push payload of an openable message within the reference window rejected", fmt.Sprintf("OutOfStoreReceive of message %d (registered at %d, window %d, %d delivered, last counter seen %d, %d references each side): %v", k, c, W, len(logged), center, nr, err))
					}
				default:
					center = k
					obs = append(obs, fmt.Sprintf("POk %d %s", cidNum, vharness.Bool(rep.AlreadyReceived)))
					em := &protocoltypes.EncryptedMessage{}
					_ = proto.Unmarshal(rep.Cleartext, em)
					if !bytes.Equal(em.Plaintext, plain[k]) || rep.Message.GetCounter() != uint64(k) || !bytes.Equal(rep.Message.GetDevicePk(), devARaw) || !bytes.Equal(rep.GroupPublicKey, g.PublicKey) ||
						!bytes.Equal(rep.Message.GetCid(), ops[k].GetEntry().GetHash().Bytes()) {
						fail("push payload opened to the wrong message", fmt.Sprintf("OutOfStoreReceive of message %d: payload/sender/counter/group/cid differ from the original", k))
					}
					if rep.AlreadyReceived != logged[k] {
						fail("AlreadyReceived flag is not truthful", fmt.Sprintf("OutOfStoreReceive of message %d reports AlreadyReceived=%v, log delivered=%v", k, rep.AlreadyReceived, logged[k]))
					}
				}
			default:
				// altered payload: one bit flipped, or one field of the envelope cut short / removed
				mops = append(mops, fmt.Sprintf("PPushBad 1 %d %d", k, cidNum))
				m := append([]byte(nil), push[k]...)
				what := ""
				if rng.Intn(2) == 0 {
					bit := rng.Intn(len(m) * 8)
					m[bit/8] ^= 1 << (bit % 8)
					what = fmt.Sprintf("bit %d flipped", bit)
				} else {
					env := &protocoltypes.OutOfStoreMessageEnvelope{}
					_ = proto.Unmarshal(m, env)
					muts := vStructMutants(env)
					i := rng.Intn(len(muts))
					m, what = muts[i].data, muts[i].what
				}
				rep, err, pv := receive(m)
				switch {
				case pv != nil:
					obs = append(obs, "PFail")
					fail("OutOfStoreReceive panics", fmt.Sprintf("altered push payload (%s): %v", what, pv))
				case err == nil && !bytes.Equal(m, push[k]):
					em := &protocoltypes.EncryptedMessage{}
					_ = proto.Unmarshal(rep.Cleartext, em)
					if bytes.Equal(em.Plaintext, plain[k]) && rep.Message.GetCounter() == uint64(k) {
						// the alteration did not change what the envelope says (e.g. an unused field): a plain push
						mops[len(mops)-1] = fmt.Sprintf("PPush 1 %d %d", k, cidNum)
						obs = append(obs, fmt.Sprintf("POk %d %s", cidNum, vharness.Bool(rep.AlreadyReceived)))
						center = k
					} else {
						obs = append(obs, "POk 0 false")
						fail("altered push payload accepted", what)
					}
				default:
					obs = append(obs, "PFail")
				}
			}
		}
		coq := fmt.Sprintf("CPush %d %d %s %s", W, nr, vharness.List(mops), vharness.List(obs))
		out.Emit(vharness.Case{Kind: "service-session", Coq: coq, Key: coq, Nontrivial: true, OracleOK: ok, Note: note, Sig: sig})
		msA.Close()
		msB.Close()
		ra.db.Close()
		rb.db.Close()
	}
}
