//go:build verif

package weshnet

// C07 correspondence driver: sequences of the seven contact operations on the real MetadataStore
// of an account group; results and the indexed contact records are compared with the Coq model
// (Model.C07_Contacts) by the driver, and with the reference lifecycle table (appendix A) and
// between writer, a second device that replays the log, and the reopened group right here.

import (
	"context"
	crand "crypto/rand"
	"fmt"
	"math/rand"
	"strings"
	"testing"

	"github.com/libp2p/go-libp2p/core/crypto"

	"berty.tech/weshnet/v2/internal/vharness"
	"berty.tech/weshnet/v2/pkg/cryptoutil"
	"berty.tech/weshnet/v2/pkg/protocoltypes"
)

type c07contact struct {
	pk   crypto.PubKey
	raw  []byte
	id   uint64
	seed []byte
}

// one operation instance of a sequence
type c07op struct {
	kind    int // 0 enq 1 sent 2 recv 3 disc 4 acc 5 block 6 unblock
	who     int // index of the contact in the sequence's contact list; -1: own account key
	pkForm  int // 0 ok 1 missing 2 bad
	sdForm  int // 0 ok (contact's seed) 1 missing 2 short 3 ok (a fresh seed)
	hasMeta bool
	hasOwn  bool
}

var c07kinds = []string{"enq", "sent", "recv", "disc", "acc", "block", "unblock"}

func (o c07op) String() string {
	s := fmt.Sprintf("%s(%d", c07kinds[o.kind], o.who)
	if o.kind == 0 || o.kind == 2 {
		s += fmt.Sprintf(" pk%d sd%d m%v o%v", o.pkForm, o.sdForm, o.hasMeta, o.hasOwn)
	}
	return s + ")"
}

// reference lifecycle, appendix A (0 undef 1 torequest 2 received 3 added 4 removed 5 discarded 6 blocked); -1 refused
var c07table = [7][7]int{
	// enq sent recv disc acc block unblock
	{1, -1, 2, -1, -1, 6, -1},  // undefined
	{1, 3, 3, -1, -1, 6, -1},   // to request
	{3, 3, -1, 5, 3, 6, -1},    // received
	{-1, -1, -1, -1, -1, 6, -1}, // added
	{3, 3, 2, -1, -1, 6, -1},   // removed
	{3, 3, 2, -1, -1, 6, -1},   // discarded
	{1, -1, -1, -1, -1, -1, 4}, // blocked
}

type c07rec struct {
	st         int
	meta, seed uint64
	own        int64 // -1: none
}

type c07world struct {
	t    *testing.T
	ctx  context.Context
	node *vNode
	ids  struct{ meta, seed vIDs }
	next uint64 // next contact id (1 is the account itself)
	made int
	issue string // discrepancy between ListContacts and GetContactFromGroupPK seen by the last observe
}

func (w *c07world) newContact() *c07contact {
	_, pk, _ := crypto.GenerateEd25519Key(crand.Reader)
	raw, _ := pk.Raw()
	// now and then a key of the right length that is no point of the curve: every guard lets it through,
	// no contact group can be derived for it; the lifecycle of such a contact is the same
	w.made++
	if w.made%6 == 0 {
		for tries := 0; tries < 200; tries++ {
			b := make([]byte, 32)
			crand.Read(b)
			cand, err := crypto.UnmarshalEd25519PublicKey(b)
			if err != nil {
				continue
			}
			if _, err := cryptoutil.EdwardsToMontgomeryPub(cand); err != nil {
				pk, raw = cand, b
				break
			}
		}
	}
	seed := make([]byte, 32)
	crand.Read(seed)
	w.next++
	return &c07contact{pk: pk, raw: raw, id: w.next, seed: seed}
}

func (w *c07world) metaID(b []byte) uint64 {
	if len(b) == 0 {
		return 0
	}
	return w.ids.meta.id(string(b))
}
func (w *c07world) seedID(b []byte) uint64 {
	if len(b) == 0 {
		return 0
	}
	return w.ids.seed.id(string(b))
}

func (w *c07world) observe(ms *MetadataStore, cs []*c07contact) ([]c07rec, string) {
	all := ms.ListContacts()
	recs := make([]c07rec, len(cs))
	var parts []string
	for i, c := range cs {
		r := c07rec{own: -1}
		if ac, ok := all[string(c.raw)]; ok {
			r.st = int(ac.state)
			r.meta = w.metaID(ac.contact.Metadata)
			r.seed = w.seedID(ac.contact.PublicRendezvousSeed)
		}
		if own, err := ms.GetRequestOwnMetadataForContact(c.raw); err == nil {
			r.own = int64(w.metaID(own))
		}
		// the same record must be reachable through the key of the contact group derived for this contact
		if cg, err := ms.secretStore.GetGroupForContact(c.pk); err == nil {
			byGroup := ms.GetContactFromGroupPK(cg.PublicKey)
			ac, listed := all[string(c.raw)]
			switch {
			case listed && byGroup == nil:
				w.issue = fmt.Sprintf("contact %d is listed but GetContactFromGroupPK does not know its contact group", c.id)
			case !listed && byGroup != nil:
				w.issue = fmt.Sprintf("GetContactFromGroupPK returns a record for contact %d which ListContacts does not list", c.id)
			case listed && (string(byGroup.Pk) != string(ac.contact.Pk) || string(byGroup.PublicRendezvousSeed) != string(ac.contact.PublicRendezvousSeed) || string(byGroup.Metadata) != string(ac.contact.Metadata)):
				w.issue = fmt.Sprintf("GetContactFromGroupPK reports seed %d / metadata %d for contact %d, ListContacts %d / %d", w.seedID(byGroup.PublicRendezvousSeed), w.metaID(byGroup.Metadata), c.id, r.seed, r.meta)
			}
		}
		// and through the listing by state
		if ac, listed := all[string(c.raw)]; listed {
			found := 0
			for _, sc := range ms.ListContactsByStatus(ac.state) {
				if string(sc.Pk) == string(c.raw) {
					found++
					if string(sc.PublicRendezvousSeed) != string(ac.contact.PublicRendezvousSeed) || string(sc.Metadata) != string(ac.contact.Metadata) {
						w.issue = fmt.Sprintf("ListContactsByStatus(%v) reports another seed/metadata for contact %d than ListContacts", ac.state, c.id)
					}
				}
			}
			if found != 1 {
				w.issue = fmt.Sprintf("contact %d is in state %v but ListContactsByStatus(%v) lists it %d time(s)", c.id, ac.state, ac.state, found)
			}
			for _, st := range []protocoltypes.ContactState{protocoltypes.ContactState_ContactStateToRequest, protocoltypes.ContactState_ContactStateReceived, protocoltypes.ContactState_ContactStateAdded,
				protocoltypes.ContactState_ContactStateRemoved, protocoltypes.ContactState_ContactStateDiscarded, protocoltypes.ContactState_ContactStateBlocked} {
				if st == ac.state {
					continue
				}
				for _, sc := range ms.ListContactsByStatus(st) {
					if string(sc.Pk) == string(c.raw) {
						w.issue = fmt.Sprintf("contact %d is in state %v but ListContactsByStatus(%v) lists it too", c.id, ac.state, st)
					}
				}
			}
		}
		recs[i] = r
		ow := "None"
		if r.own >= 0 {
			ow = fmt.Sprintf("(Some %d)", r.own)
		}
		parts = append(parts, fmt.Sprintf("(%d, (%d, %d, %d, %s))", c.id, r.st, r.meta, r.seed, ow))
	}
	return recs, "[" + strings.Join(parts, "; ") + "]"
}

// runBatch executes the sequences on a fresh account and emits one case per sequence (writer
// side) and one for the whole batch (writer, replaying device, reopened group).
func (w *c07world) runBatch(out *vharness.Out, kind string, seqs [][]c07op, ncontacts int) {
	t, ctx := w.t, w.ctx
	a := w.node.newAccount()
	b := w.node.newDevice(a)
	g := a.accountGroup()
	ma := a.openMeta(g)
	mb := b.openMeta(g)
	defer func() { mb.Close(); a.db.Close(); b.db.Close() }()
	self := ma.memberDevice.Member()
	selfRaw, _ := self.Raw()

	var batchOps, batchRes []string
	var batchContacts []*c07contact
	batchRef := map[uint64]*c07rec{}
	batchOK, batchNote := true, ""
	salt := 0

	for _, seq := range seqs {
		cs := make([]*c07contact, ncontacts)
		for i := range cs {
			cs[i] = w.newContact()
			batchRef[cs[i].id] = &c07rec{own: -1}
		}
		var ops, res []string
		ok, note := true, ""
		for _, o := range seq {
			salt++
			var c *c07contact
			pkid := uint64(1)
			pkraw := selfRaw
			var pk crypto.PubKey = self
			if o.who >= 0 {
				c = cs[o.who]
				pkid, pkraw, pk = c.id, c.raw, c.pk
			}
			var err error
			var coq string
			target := -1 // reference: id of the targeted contact, -1 refused before the table
			var meta, seed, ownmd []byte
			switch o.kind {
			case 0, 2:
				sc := &protocoltypes.ShareableContact{}
				pkf := fmt.Sprintf("(PkOk %d)", pkid)
				switch o.pkForm {
				case 0:
					sc.Pk = pkraw
				case 1:
					pkf = "PkMissing"
				case 2:
					sc.Pk = pkraw[:31]
					pkf = "PkBad"
				}
				sdf := ""
				switch o.sdForm {
				case 0:
					if c != nil {
						seed = c.seed
					} else {
						seed = make([]byte, 32)
						crand.Read(seed)
					}
				case 3:
					seed = make([]byte, 32)
					crand.Read(seed)
				case 1:
					sdf = "SdMissing"
				case 2:
					seed = make([]byte, 16)
					crand.Read(seed)
					sdf = "SdShort"
				}
				if sdf == "" {
					sdf = fmt.Sprintf("(SdOk %d)", w.seedID(seed))
				}
				sc.PublicRendezvousSeed = seed
				if o.hasMeta {
					meta = []byte(fmt.Sprintf("meta-%d", salt))
				}
				sc.Metadata = meta
				ci := fmt.Sprintf("(mkCI %s %s %d)", pkf, sdf, w.metaID(meta))
				formatOK := o.pkForm == 0 && (o.sdForm == 0 || o.sdForm == 3 || (o.sdForm == 1 && o.kind == 2))
				if formatOK && o.who >= 0 {
					target = int(pkid)
				}
				if o.kind == 0 {
					if o.hasOwn {
						ownmd = []byte(fmt.Sprintf("own-%d", salt))
					}
					coq = fmt.Sprintf("OEnq %s %d", ci, w.metaID(ownmd))
					_, err = ma.ContactRequestOutgoingEnqueue(ctx, sc, ownmd)
				} else {
					coq = "ORecv " + ci
					_, err = ma.ContactRequestIncomingReceived(ctx, sc)
				}
			case 1:
				coq = fmt.Sprintf("OSent %d", pkid)
				target = int(pkid)
				_, err = ma.ContactRequestOutgoingSent(ctx, pk)
			case 3:
				coq = fmt.Sprintf("ODisc %d", pkid)
				target = int(pkid)
				_, err = ma.ContactRequestIncomingDiscard(ctx, pk)
			case 4:
				coq = fmt.Sprintf("OAcc %d", pkid)
				target = int(pkid)
				_, err = ma.ContactRequestIncomingAccept(ctx, pk)
			case 5:
				coq = fmt.Sprintf("OBlock %d", pkid)
				if o.who >= 0 {
					target = int(pkid)
				}
				_, err = ma.ContactBlock(ctx, pk)
			case 6:
				coq = fmt.Sprintf("OUnblock %d", pkid)
				target = int(pkid)
				_, err = ma.ContactUnblock(ctx, pk)
			}
			ops = append(ops, "("+coq+")")
			res = append(res, vharness.Bool(err == nil))

			// reference lifecycle
			want := false
			if target >= 0 {
				r := batchRef[uint64(target)]
				if r == nil { // own key on a pk-only operation: never a contact
					r = &c07rec{own: -1}
				}
				if nst := c07table[r.st][o.kind]; nst >= 0 {
					want = true
					if r2 := batchRef[uint64(target)]; r2 != nil {
						r2.own = -1
						if (o.kind == 0 && nst == 1) || (o.kind == 2 && nst == 2) {
							if m := w.metaID(meta); m != 0 {
								r2.meta = m
							}
							if s := w.seedID(seed); s != 0 {
								r2.seed = s
							}
							if o.kind == 0 {
								r2.own = int64(w.metaID(ownmd))
							}
						}
						r2.st = nst
					}
				}
			}
			if want != (err == nil) && ok {
				ok = false
				note = fmt.Sprintf("operation %v: accepted=%v, the lifecycle table says %v (err=%v)", o, err == nil, want, err)
			}
		}
		w.issue = ""
		got, obsCoq := w.observe(ma, cs)
		if _, again := w.observe(ma, cs); again != obsCoq && ok {
			ok, note = false, fmt.Sprintf("contact lifecycle: reading the records twice gives two answers (after %v)", seq)
		}
		if w.issue != "" && ok {
			ok, note = false, "contact lookup by group key: "+w.issue+fmt.Sprintf(" (after %v)", seq)
		}
		for i, c := range cs {
			if r := batchRef[c.id]; ok && *r != got[i] {
				ok = false
				note = fmt.Sprintf("contact %d after %v: index reports %+v, the reference lifecycle %+v", i, seq, got[i], *r)
			}
		}
		if own := ma.ListContacts()[string(selfRaw)]; own != nil && ok {
			ok = false
			note = "the account's own key became a contact"
		}
		pks := make([]string, len(cs))
		for i, c := range cs {
			pks[i] = vharness.N(c.id)
		}
		key := fmt.Sprint(seq)
		out.Emit(vharness.Case{
			Kind: kind,
			Coq: fmt.Sprintf("CSeq 1 100 %s %s %s %s", vharness.List(ops), vharness.List(res), vharness.List(pks), obsCoq),
			Key:  key, Nontrivial: len(seq) >= 2, OracleOK: ok, Note: note,
			Sig:    "contact lifecycle: " + strings.SplitN(note, ":", 2)[0],
			Replay: map[string]any{"sequence": fmt.Sprint(seq), "contacts": ncontacts},
		})
		if !ok && batchOK {
			batchOK, batchNote = false, note
		}
		batchOps = append(batchOps, ops...)
		batchRes = append(batchRes, res...)
		batchContacts = append(batchContacts, cs...)
	}

	// the second device replays the whole log in one batch; then the writer reopens the group
	w.issue = ""
	_, wObs := w.observe(ma, batchContacts)
	vDeliver(ctx, t, mb, ma.OpLog().Heads().Slice()...)
	_, rObs := w.observe(mb, batchContacts)
	if err := ma.Close(); err != nil {
		t.Fatal(err)
	}
	ma = a.openMeta(g)
	_, oObs := w.observe(ma, batchContacts)
	ma.Close()
	ok, note := true, ""
	if w.issue != "" {
		ok, note = false, "contact lookup by group key: "+w.issue
	} else if wObs != rObs {
		ok, note = false, "a second device that replayed the log reports other contacts than the writer: "+c07diff(wObs, rObs)
	} else if wObs != oObs {
		ok, note = false, "the reopened account group reports other contacts than before closing: "+c07diff(wObs, oObs)
	}
	sig := "contact lifecycle: replica or reopened group differs from the writer"
	if ok && !batchOK {
		ok, note, sig = false, batchNote, "contact lifecycle: "+strings.SplitN(batchNote, ":", 2)[0]
	}
	pks := make([]string, len(batchContacts))
	for i, c := range batchContacts {
		pks[i] = vharness.N(c.id)
	}
	out.Emit(vharness.Case{
		Kind: kind + "-batch",
		Coq: fmt.Sprintf("CLife 1 100 %s %s %s %s %s %s", vharness.List(batchOps), vharness.List(batchRes), vharness.List(pks), wObs, rObs, oObs),
		Key:  fmt.Sprint(seqs), Nontrivial: true, OracleOK: ok, Note: note, Sig: sig,
		Replay: map[string]any{"sequences": fmt.Sprint(seqs), "contacts": ncontacts},
	})
}

func c07diff(a, b string) string {
	as, bs := strings.Split(a, "; "), strings.Split(b, "; ")
	for i := range as {
		if i < len(bs) && as[i] != bs[i] {
			return as[i] + " vs " + bs[i]
		}
	}
	return "lengths differ"
}

func TestVerifC07(t *testing.T) {
	out := vharness.Open()
	defer out.Close()
	ctx, cancel := context.WithCancel(context.Background())
	defer cancel()
	w := &c07world{t: t, ctx: ctx, node: vNewNode(ctx, t), next: 1}
	rng := vharness.Rng()

	plain := func(kind, who int) c07op {
		return c07op{kind: kind, who: who, hasMeta: kind == 0 || kind == 2, hasOwn: kind == 0}
	}
	// exhaustive: every sequence of the seven operations on one contact up to length L1, and on
	// two contacts up to length L2
	L1, L2 := 4, 3
	if vharness.Thorough() {
		L1, L2 = 5, 4
	}
	if vharness.Budget(1, 1) == 0 { // VERIF_N=0: smoke
		L1, L2 = 2, 1
	}
	var enum func(alpha []c07op, n int, pre []c07op, f func([]c07op))
	enum = func(alpha []c07op, n int, pre []c07op, f func([]c07op)) {
		if n == 0 {
			f(append([]c07op(nil), pre...))
			return
		}
		for _, o := range alpha {
			enum(alpha, n-1, append(pre, o), f)
		}
	}
	flush := func(kind string, nc int, batch *[][]c07op, force bool) {
		if len(*batch) >= 12 || (force && len(*batch) > 0) {
			w.runBatch(out, kind, *batch, nc)
			*batch = nil
		}
	}
	var alpha1, alpha2 []c07op
	for k := 0; k < 7; k++ {
		alpha1 = append(alpha1, plain(k, 0))
		alpha2 = append(alpha2, plain(k, 0), plain(k, 1))
	}
	var batch [][]c07op
	for n := 1; n <= L1; n++ {
		enum(alpha1, n, nil, func(s []c07op) { batch = append(batch, s); flush("one-contact", 1, &batch, false) })
	}
	flush("one-contact", 1, &batch, true)
	for n := 2; n <= L2; n++ {
		enum(alpha2, n, nil, func(s []c07op) {
			// sequences touching one contact only are covered above
			two := false
			for _, o := range s {
				if o.who == 1 {
					two = true
				}
			}
			if two {
				batch = append(batch, s)
				flush("two-contacts", 2, &batch, false)
			}
		})
	}
	flush("two-contacts", 2, &batch, true)

	// random longer sequences with malformed contacts, the account's own key, missing metadata,
	// changing seeds
	nr := vharness.Budget(150, 3000)
	if vharness.Budget(1, 1) == 0 {
		nr = 5
	}
	for i := 0; i < nr; i++ {
		n := 4 + rng.Intn(9)
		s := make([]c07op, n)
		for j := range s {
			o := c07op{kind: rng.Intn(7), who: rng.Intn(2)}
			if rng.Intn(12) == 0 {
				o.who = -1
			}
			if o.kind == 0 || o.kind == 2 {
				o.hasMeta = rng.Intn(3) != 0
				o.hasOwn = rng.Intn(3) != 0
				switch rng.Intn(10) {
				case 0:
					o.pkForm = 1 + rng.Intn(2)
				case 1:
					o.sdForm = 1 + rng.Intn(2)
				case 2, 3:
					o.sdForm = 3
				case 4:
					o.sdForm = 1
				}
			}
			s[j] = o
		}
		batch = append(batch, s)
		flush("random", 2, &batch, false)
	}
	flush("random", 2, &batch, true)
	_ = rand.Int
}
