//go:build verif

package weshnet

// C19 driver: every unary and streaming method of the protocol service, invoked in-process on a
// real service (in-memory node, no network), with requests built from edge-case field values,
// in sequences interleaved with group activation/deactivation (the account group included);
// plus the exported decode/decrypt helpers on random byte strings.  A panic is caught by
// recover() and reported with the request that caused it.

import (
	"encoding/hex"
	"context"
	crand "crypto/rand"
	"fmt"
	"math/rand"
	"reflect"
	"runtime/debug"
	"sort"
	"strings"
	"testing"
	"time"

	ipfslogiface "berty.tech/go-ipfs-log/iface"
	"github.com/libp2p/go-libp2p/core/crypto"
	"google.golang.org/grpc"
	"google.golang.org/grpc/metadata"
	"google.golang.org/protobuf/encoding/protojson"
	"google.golang.org/protobuf/proto"
	"google.golang.org/protobuf/reflect/protoreflect"

	"berty.tech/weshnet/v2/internal/vharness"
	"berty.tech/weshnet/v2/pkg/cryptoutil"
	"berty.tech/weshnet/v2/pkg/protocoltypes"
)

type c19stream struct {
	ctx context.Context
	n   int
}

func (s *c19stream) SetHeader(metadata.MD) error  { return nil }
func (s *c19stream) SendHeader(metadata.MD) error { return nil }
func (s *c19stream) SetTrailer(metadata.MD)       {}
func (s *c19stream) Context() context.Context     { return s.ctx }
func (s *c19stream) SendMsg(m any) error          { s.n++; return nil }
func (s *c19stream) RecvMsg(m any) error          { return fmt.Errorf("no input") }

type c19pool struct {
	rng      *rand.Rand
	bytesets [][]byte // interesting byte strings: group keys, contact keys, own keys, cids...
}

func (p *c19pool) bytes() []byte {
	switch p.rng.Intn(10) {
	case 0:
		return nil
	case 1:
		return []byte{}
	case 2:
		b := make([]byte, 1+p.rng.Intn(31))
		crand.Read(b)
		return b
	case 3:
		b := make([]byte, 32)
		crand.Read(b)
		return b
	case 4:
		b := make([]byte, 33+p.rng.Intn(200))
		crand.Read(b)
		return b
	case 5:
		if p.rng.Intn(6) == 0 {
			return make([]byte, 1<<16)
		}
		b := make([]byte, 64)
		crand.Read(b)
		return b
	default:
		if len(p.bytesets) == 0 {
			return nil
		}
		b := p.bytesets[p.rng.Intn(len(p.bytesets))]
		if p.rng.Intn(8) == 0 && len(b) > 0 {
			c := append([]byte(nil), b...)
			c[p.rng.Intn(len(c))] ^= 1 << p.rng.Intn(8)
			return c
		}
		return b
	}
}

// fill builds a message of the given type with edge-case values; depth limits nesting.
func (p *c19pool) fill(m protoreflect.Message, depth int) {
	fs := m.Descriptor().Fields()
	for i := 0; i < fs.Len(); i++ {
		fd := fs.Get(i)
		if p.rng.Intn(4) == 0 {
			continue // leave the field absent
		}
		if fd.IsList() || fd.IsMap() {
			continue
		}
		switch fd.Kind() {
		case protoreflect.BytesKind:
			if b := p.bytes(); b != nil {
				m.Set(fd, protoreflect.ValueOfBytes(b))
			}
		case protoreflect.StringKind:
			ss := []string{"", "x", "http://127.0.0.1:1/", "\x00\xff", strings.Repeat("a", 300), "berty://id/#key=zz"}
			m.Set(fd, protoreflect.ValueOfString(ss[p.rng.Intn(len(ss))]))
		case protoreflect.BoolKind:
			m.Set(fd, protoreflect.ValueOfBool(p.rng.Intn(2) == 0))
		case protoreflect.EnumKind:
			vs := []int32{0, 1, 2, 3, 4, -1, 99}
			m.Set(fd, protoreflect.ValueOfEnum(protoreflect.EnumNumber(vs[p.rng.Intn(len(vs))])))
		case protoreflect.Int32Kind, protoreflect.Sint32Kind, protoreflect.Sfixed32Kind:
			m.Set(fd, protoreflect.ValueOfInt32([]int32{0, 1, -1, 1 << 30}[p.rng.Intn(4)]))
		case protoreflect.Int64Kind, protoreflect.Sint64Kind, protoreflect.Sfixed64Kind:
			m.Set(fd, protoreflect.ValueOfInt64([]int64{0, 1, -1, 1 << 62}[p.rng.Intn(4)]))
		case protoreflect.Uint32Kind, protoreflect.Fixed32Kind:
			m.Set(fd, protoreflect.ValueOfUint32([]uint32{0, 1, 1 << 31}[p.rng.Intn(3)]))
		case protoreflect.Uint64Kind, protoreflect.Fixed64Kind:
			m.Set(fd, protoreflect.ValueOfUint64([]uint64{0, 1, 1 << 63}[p.rng.Intn(3)]))
		case protoreflect.MessageKind:
			if depth > 0 {
				sub := m.NewField(fd).Message()
				if p.rng.Intn(5) != 0 {
					p.fill(sub, depth-1)
				}
				m.Set(fd, protoreflect.ValueOfMessage(sub))
			}
		}
	}
}

func TestVerifC19(t *testing.T) {
	out := vharness.Open()
	defer out.Close()
	ctx, cancel := context.WithCancel(context.Background())
	defer cancel()
	rng := vharness.Rng()
	rounds := vharness.Budget(25, 400)
	if vharness.Budget(1, 1) == 0 {
		rounds = 2
	}

	tp, cleanup := NewTestingProtocol(ctx, t, nil, nil)
	defer cleanup()
	svc := tp.Service.(*service)
	pool := &c19pool{rng: rng}

	// a little real state: a contact request reference, a multi-member group with a message, a contact
	cfg, err := svc.ServiceGetConfiguration(ctx, &protocoltypes.ServiceGetConfiguration_Request{})
	if err != nil {
		t.Fatal(err)
	}
	pool.bytesets = append(pool.bytesets, cfg.AccountPk, cfg.DevicePk, cfg.AccountGroupPk)
	if _, err := svc.ContactRequestResetReference(ctx, &protocoltypes.ContactRequestResetReference_Request{}); err != nil {
		t.Fatal(err)
	}
	cr, err := svc.MultiMemberGroupCreate(ctx, &protocoltypes.MultiMemberGroupCreate_Request{})
	if err != nil {
		t.Fatal(err)
	}
	pool.bytesets = append(pool.bytesets, cr.GroupPk)
	if _, err := svc.ActivateGroup(ctx, &protocoltypes.ActivateGroup_Request{GroupPk: cr.GroupPk}); err != nil {
		t.Fatal(err)
	}
	if r, err := svc.AppMessageSend(ctx, &protocoltypes.AppMessageSend_Request{GroupPk: cr.GroupPk, Payload: []byte("hello")}); err == nil {
		pool.bytesets = append(pool.bytesets, r.Cid)
	}
	if r, err := svc.AppMetadataSend(ctx, &protocoltypes.AppMetadataSend_Request{GroupPk: cr.GroupPk, Payload: []byte("meta")}); err == nil {
		pool.bytesets = append(pool.bytesets, r.Cid)
	}
	_, cpk, _ := crypto.GenerateEd25519Key(crand.Reader)
	craw, _ := cpk.Raw()
	seed := make([]byte, 32)
	crand.Read(seed)
	sc := &protocoltypes.ShareableContact{Pk: craw, PublicRendezvousSeed: seed}
	scb, _ := proto.Marshal(sc)
	pool.bytesets = append(pool.bytesets, craw, seed, scb)
	_, _ = svc.ContactRequestSend(ctx, &protocoltypes.ContactRequestSend_Request{Contact: sc})
	if inv, err := svc.MultiMemberGroupInvitationCreate(ctx, &protocoltypes.MultiMemberGroupInvitationCreate_Request{GroupPk: cr.GroupPk}); err == nil {
		b, _ := proto.Marshal(inv.Group)
		pool.bytesets = append(pool.bytesets, b, inv.Group.Secret, inv.Group.SecretSig)
	}

	// identifiers of the entries of the groups' logs (for since/until)
	entryIDs := map[string][][]byte{}
	for _, gpk := range [][]byte{cr.GroupPk, cfg.AccountGroupPk} {
		for i := 0; i < 3; i++ {
			_, _ = svc.AppMetadataSend(ctx, &protocoltypes.AppMetadataSend_Request{GroupPk: gpk, Payload: []byte(fmt.Sprint("m", i))})
		}
		if gc, err := svc.GetContextGroupForID(gpk); err == nil {
			for _, e := range vCanonicalEntries(gc.metadataStore.OpLog()) {
				entryIDs[string(gpk)+"/meta"] = append(entryIDs[string(gpk)+"/meta"], e)
				pool.bytesets = append(pool.bytesets, e)
			}
			for i := 0; i < 3; i++ {
				_, _ = svc.AppMessageSend(ctx, &protocoltypes.AppMessageSend_Request{GroupPk: gpk, Payload: []byte(fmt.Sprint("p", i))})
			}
			for _, e := range vCanonicalEntries(gc.messageStore.OpLog()) {
				entryIDs[string(gpk)+"/msg"] = append(entryIDs[string(gpk)+"/msg"], e)
				pool.bytesets = append(pool.bytesets, e)
			}
		}
	}

	// structured byte fields: valid artefacts of this node (push payloads of real messages, an invitation,
	// a contact) and every structural alteration of them (fields cut, removed, extended) go into the
	// pool; the push payloads are also presented to OutOfStoreReceive one by one in every state
	directed := map[string][]proto.Message{}
	for _, gpk := range [][]byte{cr.GroupPk, cfg.AccountGroupPk} {
		for _, id := range entryIDs[string(gpk)+"/msg"] {
			rep, err := svc.OutOfStoreSeal(ctx, &protocoltypes.OutOfStoreSeal_Request{Cid: id, GroupPublicKey: gpk})
			if err != nil {
				continue
			}
			pool.bytesets = append(pool.bytesets, rep.Encrypted)
			directed["OutOfStoreReceive"] = append(directed["OutOfStoreReceive"], &protocoltypes.OutOfStoreReceive_Request{Payload: rep.Encrypted})
			env := &protocoltypes.OutOfStoreMessageEnvelope{}
			if proto.Unmarshal(rep.Encrypted, env) == nil {
				for _, mu := range vStructMutants(env) {
					pool.bytesets = append(pool.bytesets, mu.data)
					if len(directed["OutOfStoreReceive"]) < 60 {
						directed["OutOfStoreReceive"] = append(directed["OutOfStoreReceive"], &protocoltypes.OutOfStoreReceive_Request{Payload: mu.data})
					}
				}
			}
		}
	}
	for _, mu := range vStructMutants(sc) {
		pool.bytesets = append(pool.bytesets, mu.data)
		c := &protocoltypes.ShareableContact{}
		if proto.Unmarshal(mu.data, c) == nil {
			directed["ContactRequestSend"] = append(directed["ContactRequestSend"], &protocoltypes.ContactRequestSend_Request{Contact: c})
			directed["DecodeContact"] = append(directed["DecodeContact"], &protocoltypes.DecodeContact_Request{EncodedContact: mu.data})
		}
	}
	if inv, err := svc.MultiMemberGroupInvitationCreate(ctx, &protocoltypes.MultiMemberGroupInvitationCreate_Request{GroupPk: cr.GroupPk}); err == nil {
		for _, mu := range vStructMutants(inv.Group) {
			pool.bytesets = append(pool.bytesets, mu.data)
			gm := &protocoltypes.Group{}
			if proto.Unmarshal(mu.data, gm) == nil {
				directed["MultiMemberGroupJoin"] = append(directed["MultiMemberGroupJoin"], &protocoltypes.MultiMemberGroupJoin_Request{Group: gm})
			}
		}
	}

	// the contact group of the known contact: derived (GroupInfo by contact key stores it in the secret
	// store), then looked up, activated and deactivated by its group key in every state of the cycle
	if gi, err := svc.GroupInfo(ctx, &protocoltypes.GroupInfo_Request{ContactPk: craw}); err == nil && gi.Group != nil {
		cgpk := gi.Group.PublicKey
		pool.bytesets = append(pool.bytesets, cgpk)
		directed["GroupInfo"] = append(directed["GroupInfo"], &protocoltypes.GroupInfo_Request{GroupPk: cgpk}, &protocoltypes.GroupInfo_Request{ContactPk: craw})
		directed["ActivateGroup"] = append(directed["ActivateGroup"], &protocoltypes.ActivateGroup_Request{GroupPk: cgpk}, &protocoltypes.ActivateGroup_Request{GroupPk: cgpk, LocalOnly: true})
		directed["DeactivateGroup"] = append(directed["DeactivateGroup"], &protocoltypes.DeactivateGroup_Request{GroupPk: cgpk})
		directed["AppMessageSend"] = append(directed["AppMessageSend"], &protocoltypes.AppMessageSend_Request{GroupPk: cgpk, Payload: []byte("to the contact")})
		directed["AppMetadataSend"] = append(directed["AppMetadataSend"], &protocoltypes.AppMetadataSend_Request{GroupPk: cgpk, Payload: []byte("to the contact")})
		directed["ContactAliasKeySend"] = append(directed["ContactAliasKeySend"], &protocoltypes.ContactAliasKeySend_Request{GroupPk: cgpk})
		directed["GroupMetadataList"] = append(directed["GroupMetadataList"], &protocoltypes.GroupMetadataList_Request{GroupPk: cgpk, UntilNow: true})
		directed["GroupMessageList"] = append(directed["GroupMessageList"], &protocoltypes.GroupMessageList_Request{GroupPk: cgpk, UntilNow: true})
	}

	// invitations that ARE self-authenticating (secret signed by the group key they name) but whose
	// secret has an unusual length: joined, then activated
	var oddGroups [][]byte
	for _, n := range []int{1, 31, 33, 64, 213} {
		gsk, gpub, _ := crypto.GenerateEd25519Key(crand.Reader)
		gpkRaw, _ := gpub.Raw()
		secret := make([]byte, n)
		crand.Read(secret)
		sig, _ := gsk.Sign(secret)
		og := &protocoltypes.Group{PublicKey: gpkRaw, Secret: secret, SecretSig: sig, GroupType: protocoltypes.GroupType_GroupTypeMultiMember}
		directed["MultiMemberGroupJoin"] = append(directed["MultiMemberGroupJoin"], &protocoltypes.MultiMemberGroupJoin_Request{Group: og})
		directed["ActivateGroup"] = append(directed["ActivateGroup"], &protocoltypes.ActivateGroup_Request{GroupPk: gpkRaw})
		directed["GroupInfo"] = append(directed["GroupInfo"], &protocoltypes.GroupInfo_Request{GroupPk: gpkRaw})
		directed["MultiMemberGroupInvitationCreate"] = append(directed["MultiMemberGroupInvitationCreate"], &protocoltypes.MultiMemberGroupInvitationCreate_Request{GroupPk: gpkRaw})
		oddGroups = append(oddGroups, gpkRaw)
		b, _ := proto.Marshal(og)
		pool.bytesets = append(pool.bytesets, gpkRaw, b)
	}
	_ = oddGroups

	// the methods of the service, from the gRPC service descriptor
	type method struct {
		name   string
		stream bool
		fn     reflect.Value
	}
	var methods []method
	sv := reflect.ValueOf(svc)
	for _, m := range protocoltypes.ProtocolService_ServiceDesc.Methods {
		methods = append(methods, method{m.MethodName, false, sv.MethodByName(m.MethodName)})
	}
	for _, m := range protocoltypes.ProtocolService_ServiceDesc.Streams {
		methods = append(methods, method{m.StreamName, true, sv.MethodByName(m.StreamName)})
	}
	sort.Slice(methods, func(i, j int) bool { return methods[i].name < methods[j].name })
	// keys of the right LENGTH that are degenerate as curve points (the neutral element, points of small
	// order in both encodings, non-canonical field elements): every key-sized field of every request
	// gets each of them once (a length check lets them through; a key agreement with one of them has no
	// result)
	hexKeys := []string{
		"0000000000000000000000000000000000000000000000000000000000000000",
		"0100000000000000000000000000000000000000000000000000000000000000",
		"0000000000000000000000000000000000000000000000000000000000000080",
		"ecffffffffffffffffffffffffffffffffffffffffffffffffffffffffffff7f",
		"edffffffffffffffffffffffffffffffffffffffffffffffffffffffffffff7f",
		"26e8958fc2b227b045c3f489f2ef98f0d5dfac05d3c63339b13802886d53fc05",
		"c7176a703d4dd84fba3c0b760d10670f2a2053fa2c39ccc64ec7fd7792ac037a",
		"e0eb7a7c3b41b8ae1656e3faf19fc46ada098deb9c32b1fd866205165f49b800",
	}
	var specialKeys [][]byte
	for _, h := range hexKeys {
		b, err := hex.DecodeString(h)
		if err != nil || len(b) != 32 {
			t.Fatal("bad special key")
		}
		specialKeys = append(specialKeys, b)
	}
	pool.bytesets = append(pool.bytesets, specialKeys[0], specialKeys[1], specialKeys[5])
	for _, m := range methods {
		reqT := m.fn.Type().In(0)
		if !m.stream {
			reqT = m.fn.Type().In(1)
		}
		fds := reflect.New(reqT.Elem()).Interface().(proto.Message).ProtoReflect().Descriptor().Fields()
		for i := 0; i < fds.Len(); i++ {
			fd := fds.Get(i)
			switch {
			case fd.Kind() == protoreflect.BytesKind && !fd.IsList() && strings.HasSuffix(string(fd.Name()), "_pk"):
				for _, k := range specialKeys {
					req := reflect.New(reqT.Elem()).Interface().(proto.Message)
					req.ProtoReflect().Set(fd, protoreflect.ValueOfBytes(k))
					directed[m.name] = append(directed[m.name], req)
				}
			case fd.Kind() == protoreflect.MessageKind && !fd.IsList() && !fd.IsMap() && (fd.Message().Name() == "ShareableContact" || fd.Message().Name() == "Group"):
				for _, k := range specialKeys {
					req := reflect.New(reqT.Elem()).Interface().(proto.Message)
					if fd.Message().Name() == "ShareableContact" {
						sd := make([]byte, 32)
						crand.Read(sd)
						req.ProtoReflect().Set(fd, protoreflect.ValueOfMessage((&protocoltypes.ShareableContact{Pk: k, PublicRendezvousSeed: sd}).ProtoReflect()))
					} else {
						sec := make([]byte, 32)
						crand.Read(sec)
						req.ProtoReflect().Set(fd, protoreflect.ValueOfMessage((&protocoltypes.Group{PublicKey: k, Secret: sec, SecretSig: make([]byte, 64), GroupType: protocoltypes.GroupType_GroupTypeMultiMember}).ProtoReflect()))
					}
					directed[m.name] = append(directed[m.name], req)
				}
			}
		}
	}
	// the credential verification flows need an external HTTP service to SUCCEED; they are called all
	// the same (connection refused / invalid link), what matters here is that they do not crash
	skip := map[string]string{}

	streamValue := func(ft reflect.Type, cctx context.Context) reflect.Value {
		// grpc.ServerStreamingServer[T] is an interface; grpc.GenericServerStream[Req, T] implements it
		switch ft.String() {
		case "grpc.ServerStreamingServer[berty.tech/weshnet/v2/pkg/protocoltypes.ServiceExportData_Reply]":
			return reflect.ValueOf(&grpc.GenericServerStream[protocoltypes.ServiceExportData_Request, protocoltypes.ServiceExportData_Reply]{ServerStream: &c19stream{ctx: cctx}})
		case "grpc.ServerStreamingServer[berty.tech/weshnet/v2/pkg/protocoltypes.GroupMetadataEvent]":
			return reflect.ValueOf(&grpc.GenericServerStream[protocoltypes.GroupMetadataList_Request, protocoltypes.GroupMetadataEvent]{ServerStream: &c19stream{ctx: cctx}})
		case "grpc.ServerStreamingServer[berty.tech/weshnet/v2/pkg/protocoltypes.GroupMessageEvent]":
			return reflect.ValueOf(&grpc.GenericServerStream[protocoltypes.GroupMessageList_Request, protocoltypes.GroupMessageEvent]{ServerStream: &c19stream{ctx: cctx}})
		case "grpc.ServerStreamingServer[berty.tech/weshnet/v2/pkg/protocoltypes.GroupDeviceStatus_Reply]":
			return reflect.ValueOf(&grpc.GenericServerStream[protocoltypes.GroupDeviceStatus_Request, protocoltypes.GroupDeviceStatus_Reply]{ServerStream: &c19stream{ctx: cctx}})
		case "grpc.ServerStreamingServer[berty.tech/weshnet/v2/pkg/protocoltypes.DebugListGroups_Reply]":
			return reflect.ValueOf(&grpc.GenericServerStream[protocoltypes.DebugListGroups_Request, protocoltypes.DebugListGroups_Reply]{ServerStream: &c19stream{ctx: cctx}})
		case "grpc.ServerStreamingServer[berty.tech/weshnet/v2/pkg/protocoltypes.DebugInspectGroupStore_Reply]":
			return reflect.ValueOf(&grpc.GenericServerStream[protocoltypes.DebugInspectGroupStore_Request, protocoltypes.DebugInspectGroupStore_Reply]{ServerStream: &c19stream{ctx: cctx}})
		case "grpc.ServerStreamingServer[berty.tech/weshnet/v2/pkg/protocoltypes.VerifiedCredentialsList_Reply]":
			return reflect.ValueOf(&grpc.GenericServerStream[protocoltypes.VerifiedCredentialsList_Request, protocoltypes.VerifiedCredentialsList_Reply]{ServerStream: &c19stream{ctx: cctx}})
		}
		t.Fatalf("unknown stream type %s", ft.String())
		return reflect.Value{}
	}

	type result struct {
		panicked  bool
		value     any
		stack     string
		err       error
		timedOut  bool
	}
	call := func(m method, req proto.Message) result {
		cctx, ccancel := context.WithTimeout(ctx, 250*time.Millisecond)
		defer ccancel()
		done := make(chan result, 1)
		go func() {
			var r result
			defer func() {
				if v := recover(); v != nil {
					r.panicked, r.value, r.stack = true, v, string(debug.Stack())
				}
				done <- r
			}()
			var outs []reflect.Value
			if m.stream {
				ft := m.fn.Type().In(1)
				outs = m.fn.Call([]reflect.Value{reflect.ValueOf(req), streamValue(ft, cctx)})
				if e, ok := outs[0].Interface().(error); ok {
					r.err = e
				}
			} else {
				outs = m.fn.Call([]reflect.Value{reflect.ValueOf(cctx), reflect.ValueOf(req)})
				if e, ok := outs[1].Interface().(error); ok {
					r.err = e
				}
			}
		}()
		select {
		case r := <-done:
			return r
		case <-time.After(5 * time.Second):
			return result{timedOut: true}
		}
	}

	state := "active"
	accountPK, _ := crypto.UnmarshalEd25519PublicKey(cfg.AccountGroupPk)
	_ = accountPK
	calls, errs := 0, 0
	seenSig := map[string]bool{}
	for round := 0; round < rounds; round++ {
		// change of state between rounds
		switch round % 5 {
		case 1:
			_ = call(method{"DeactivateGroup", false, sv.MethodByName("DeactivateGroup")}, &protocoltypes.DeactivateGroup_Request{GroupPk: cr.GroupPk})
			state = "multi-member group deactivated"
		case 2:
			_ = call(method{"DeactivateGroup", false, sv.MethodByName("DeactivateGroup")}, &protocoltypes.DeactivateGroup_Request{GroupPk: cfg.AccountGroupPk})
			state = "account group deactivated"
		case 3:
			_ = call(method{"ActivateGroup", false, sv.MethodByName("ActivateGroup")}, &protocoltypes.ActivateGroup_Request{GroupPk: cfg.AccountGroupPk})
			state = "account group reactivated"
		case 4:
			_ = call(method{"ActivateGroup", false, sv.MethodByName("ActivateGroup")}, &protocoltypes.ActivateGroup_Request{GroupPk: cr.GroupPk})
			state = "active"
		}
		for _, m := range methods {
			if _, no := skip[m.name]; no {
				continue
			}
			reqT := m.fn.Type().In(0)
			if !m.stream {
				reqT = m.fn.Type().In(1)
			}
			nreq := 3 + len(directed[m.name])
			for k := 0; k < nreq; k++ {
				req := reflect.New(reqT.Elem()).Interface().(proto.Message)
				if k >= 3 {
					req = directed[m.name][k-3]
				} else if k > 0 {
					pool.fill(req.ProtoReflect(), 2)
				}
				if (m.name == "GroupMetadataList" || m.name == "GroupMessageList") && k == 2 {
					// both bounds among the real identifiers of a real log, in any order
					gpk := [][]byte{cr.GroupPk, cfg.AccountGroupPk}[rng.Intn(2)]
					kind := "/meta"
					if m.name == "GroupMessageList" {
						kind = "/msg"
					}
					r := req.ProtoReflect()
					fds := r.Descriptor().Fields()
					r.Set(fds.ByName("group_pk"), protoreflect.ValueOfBytes(gpk))
					if ids := entryIDs[string(gpk)+kind]; len(ids) > 0 {
						r.Set(fds.ByName("since_id"), protoreflect.ValueOfBytes(ids[rng.Intn(len(ids))]))
						r.Set(fds.ByName("until_id"), protoreflect.ValueOfBytes(ids[rng.Intn(len(ids))]))
					}
					r.Clear(fds.ByName("since_now"))
					r.Clear(fds.ByName("until_now"))
				}
				if m.name == "DeactivateGroup" || m.name == "MultiMemberGroupLeave" {
					// keep the state under the control of the round schedule, unless the key is unknown
					if b := req.ProtoReflect().Get(req.ProtoReflect().Descriptor().Fields().ByName("group_pk")).Bytes(); string(b) == string(cfg.AccountGroupPk) || string(b) == string(cr.GroupPk) {
						continue
					}
				}
				r := call(m, req)
				calls++
				if r.err != nil {
					errs++
				}
				ok, note, sig := true, "", ""
				js, _ := protojson.Marshal(req)
				if len(js) > 600 {
					js = append(js[:600], "..."...)
				}
				if r.panicked {
					ok = false
					first := ""
					for _, l := range strings.Split(r.stack, "\n") {
						if strings.Contains(l, "/repo/") && !strings.Contains(l, "zz_verif") && strings.Contains(l, ".go:") {
							first = strings.TrimSpace(l)
							if i := strings.LastIndex(first, "/"); i >= 0 {
								first = first[i+1:]
							}
							if i := strings.Index(first, " "); i >= 0 {
								first = first[:i]
							}
							break
						}
					}
					note = fmt.Sprintf("%s panicked (%v) at %s in state %q on request %s", m.name, r.value, first, state, js)
					sig = fmt.Sprintf("service method %s panics at %s", m.name, strings.SplitN(first, ":", 2)[0])
				} else if r.timedOut {
					ok = false
					note = fmt.Sprintf("%s did not return within 5s of its context's end in state %q on request %s", m.name, state, js)
					sig = fmt.Sprintf("service method %s hangs", m.name)
				}
				key := fmt.Sprintf("%s|%s|%d|%d", m.name, state, round, k)
				if !ok {
					if seenSig[sig+state] {
						continue
					}
					seenSig[sig+state] = true
				}
				out.Emit(vharness.Case{
					Kind: "service", Coq: fmt.Sprintf("CCall \"%s\"%%string %v %v", m.name, state != "account group deactivated", !r.panicked && !r.timedOut),
					Key:  key, Nontrivial: k > 0 || state != "active", OracleOK: ok, Note: note, Sig: sig,
					Replay: map[string]any{"method": m.name, "state": state, "request": string(js)},
				})
			}
		}
	}

	// exported helpers on untrusted bytes
	helpers := map[string]func(a, b []byte) error{
		"cryptoutil.AESGCMDecrypt":     func(a, b []byte) error { _, err := cryptoutil.AESGCMDecrypt(a, b); return err },
		"cryptoutil.AESGCMEncrypt":     func(a, b []byte) error { _, err := cryptoutil.AESGCMEncrypt(a, b); return err },
		"cryptoutil.AESCTRStream":      func(a, b []byte) error { _, err := cryptoutil.AESCTRStream(a, b); return err },
		"cryptoutil.NonceSliceToArray": func(a, b []byte) error { _, err := cryptoutil.NonceSliceToArray(a); return err },
		"cryptoutil.KeySliceToArray":   func(a, b []byte) error { _, err := cryptoutil.KeySliceToArray(a); return err },
		"cryptoutil.DeriveKey":         func(a, b []byte) error { _, _, err := cryptoutil.DeriveKey(a, b); return err },
		"cryptoutil.GenerateNonceSize": func(a, b []byte) error { _, err := cryptoutil.GenerateNonceSize(len(a)); return err },
		"Group.GetSigningPrivKey": func(a, b []byte) error {
			_, err := (&protocoltypes.Group{Secret: a}).GetSigningPrivKey()
			return err
		},
		"push nonce": func(a, b []byte) error {
			// a push payload of a real message of this node whose nonce is replaced by the input
			if len(directed["OutOfStoreReceive"]) == 0 {
				return nil
			}
			env := &protocoltypes.OutOfStoreMessageEnvelope{}
			if err := proto.Unmarshal(directed["OutOfStoreReceive"][0].(*protocoltypes.OutOfStoreReceive_Request).Payload, env); err != nil {
				return err
			}
			env.Nonce = a
			raw, _ := proto.Marshal(env)
			_, _, _, _, err := svc.secretStore.OpenOutOfStoreMessage(ctx, raw)
			return err
		},
		"Group.IsValid": func(a, b []byte) error {
			g := &protocoltypes.Group{}
			_ = proto.Unmarshal(a, g)
			return g.IsValid()
		},
		"ShareableContact.CheckFormat": func(a, b []byte) error {
			c := &protocoltypes.ShareableContact{}
			_ = proto.Unmarshal(a, c)
			return c.CheckFormat()
		},
		"openGroupEnvelope": func(a, b []byte) error {
			g, _, _ := NewGroupMultiMember()
			_, _, err := openGroupEnvelope(g, a)
			return err
		},
		"FilterGroupForReplication": func(a, b []byte) error {
			g := &protocoltypes.Group{}
			_ = proto.Unmarshal(a, g)
			_, err := FilterGroupForReplication(g)
			return err
		},
	}
	var hnames []string
	for n := range helpers {
		hnames = append(hnames, n)
	}
	sort.Strings(hnames)
	nb := vharness.Budget(60, 2000)
	for _, hn := range hnames {
		for k := 0; k < nb; k++ {
			a, b := pool.bytes(), pool.bytes()
			if k == 0 {
				a, b = nil, nil
			}
			if hn == "cryptoutil.DeriveKey" && k > 2 {
				break // scrypt is slow
			}
			var pv any
			func() {
				defer func() { pv = recover() }()
				_ = helpers[hn](a, b)
			}()
			ok, note := true, ""
			if pv != nil {
				ok, note = false, fmt.Sprintf("%s panicked (%v) on inputs of %d and %d bytes", hn, pv, len(a), len(b))
				if seenSig[hn] {
					continue
				}
				seenSig[hn] = true
			}
			out.Emit(vharness.Case{
				Kind: "helper", Coq: fmt.Sprintf("CHelper \"%s\"%%string %d%%nat %d%%nat %v", hn, len(a), len(b), pv == nil), Key: fmt.Sprintf("%s|%d", hn, k), Nontrivial: len(a) > 0,
				OracleOK: ok, Note: note, Sig: "helper " + hn + " panics", Replay: map[string]any{"helper": hn, "a": fmt.Sprintf("%x", a), "b": fmt.Sprintf("%x", b)},
			})
		}
	}
	t.Logf("calls=%d errors=%d", calls, errs)
}


func vCanonicalEntries(l interface {
	GetEntries() ipfslogiface.IPFSLogOrderedEntries
}) [][]byte {
	var out [][]byte
	for _, e := range l.GetEntries().Slice() {
		out = append(out, e.GetHash().Bytes())
	}
	return out
}
