//go:build verif

package weshnet

import (
	"context"
	"fmt"
	"testing"

	peer "github.com/libp2p/go-libp2p/core/peer"

	"berty.tech/weshnet/v2/internal/vharness"
	"berty.tech/weshnet/v2/internal/vsched"
)

func c16pid(k uint64) peer.ID { return peer.ID(fmt.Sprintf("peer-%d", k)) }

type c16world struct {
	mgr  *ConnectednessManager
	cur  [2]PeersConnectedness
}

func (w *c16world) Wait(ctx context.Context, i int) ([]uint64, bool) {
	upd, ok := w.mgr.WaitForConnectednessChange(ctx, "g", w.cur[i])
	var ks []uint64
	for _, p := range upd {
		var k uint64
		fmt.Sscanf(string(p), "peer-%d", &k)
		ks = append(ks, k)
	}
	return ks, ok
}

func (w *c16world) Apply(o vsched.NotifyOp) {
	if o.Kind == "assoc" {
		w.mgr.AssociatePeer("g", c16pid(o.K))
	} else {
		w.mgr.UpdateState(c16pid(o.K), ConnectednessType(o.V))
	}
}

func (w *c16world) Missed(i int) []uint64 {
	var missed []uint64
	if g, has := w.mgr.groupState["g"]; has {
		for p := range g.peers {
			if sp, has := w.mgr.peerState[p]; has {
				if their, has := w.cur[i][p]; !has || their != sp.status {
					var k uint64
					fmt.Sscanf(string(p), "peer-%d", &k)
					missed = append(missed, k)
				}
			}
		}
	}
	return missed
}

func TestVerifC16(t *testing.T) {
	out := vharness.Open()
	defer out.Close()
	rng := vharness.Rng()
	budget := vharness.Budget(900, 20000)
	A, U := func(k uint64) vsched.NotifyOp { return vsched.NotifyOp{Kind: "assoc", K: k} }, func(k, v uint64) vsched.NotifyOp { return vsched.NotifyOp{Kind: "upd", K: k, V: v} }
	scenarios := []vsched.NotifyScenario{
		{CallsA: 1, Ops: []vsched.NotifyOp{A(1)}},
		{CallsA: 1, Ops: []vsched.NotifyOp{A(1), U(1, 2)}, ViewA: map[uint64]uint64{1: 0}},
		{CallsA: 2, Ops: []vsched.NotifyOp{A(1), U(1, 2)}},
		{CallsA: 1, Ops: []vsched.NotifyOp{U(1, 2), A(1)}, Cancel: true},
		{CallsA: 1, CallsB: 1, Ops: []vsched.NotifyOp{A(1)}},
		{CallsA: 1, CallsB: 1, Ops: []vsched.NotifyOp{A(1), U(1, 1)}, ViewB: map[uint64]uint64{1: 0}},
		{CallsA: 2, Ops: []vsched.NotifyOp{A(1), A(2), U(2, 2)}, Cancel: true},
		{CallsA: 1, Ops: []vsched.NotifyOp{U(3, 1)}, Cancel: true},
		{CallsA: 1, CallsB: 1, Ops: []vsched.NotifyOp{A(1)}, CancelFirstOnly: true},
	}
	newWorld := func(sc vsched.NotifyScenario) vsched.NotifyWorld {
		w := &c16world{mgr: NewConnectednessManager()}
		for i, v := range []map[uint64]uint64{sc.ViewA, sc.ViewB} {
			w.cur[i] = PeersConnectedness{}
			for k, x := range v {
				w.cur[i][c16pid(k)] = ConnectednessType(x)
			}
		}
		return w
	}
	total := 0
	for _, sc := range scenarios {
		total += vsched.ExploreNotify(newWorld, "[]", true, "ConnectednessManager", sc, budget/len(scenarios)+20, rng.Intn, func(c vsched.NotifyCase) {
			out.Emit(vharness.Case{Kind: "connectedness", Coq: c.Coq, Key: c.Coq, Nontrivial: c.Preempt, OracleOK: c.OK, Note: c.Note, Sig: c.Sig,
				Replay: map[string]any{"schedule": c.Sched}})
		})
	}
	t.Logf("C16 harness (connectedness): %d schedules", total)
}
