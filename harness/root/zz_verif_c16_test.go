//go:build verif

package weshnet

import (
	"context"
	"fmt"
	"math/rand"
	"sort"
	"strings"
	"testing"

	peer "github.com/libp2p/go-libp2p/core/peer"

	"berty.tech/weshnet/v2/internal/vharness"
	"berty.tech/weshnet/v2/internal/vsched"
)

type c16op struct {
	kind string // assoc, upd
	k, v uint64
}

func (o c16op) coq() string {
	if o.kind == "assoc" {
		return fmt.Sprintf("UAssoc %d", o.k)
	}
	return fmt.Sprintf("UUpd %d %d", o.k, o.v)
}

type c16scenario struct {
	callsA, callsB int
	viewA, viewB   map[uint64]uint64
	ops            []c16op
	cancel         bool
}

func c16pid(k uint64) peer.ID { return peer.ID(fmt.Sprintf("peer-%d", k)) }

func c16view(m map[uint64]uint64) string {
	var ks []uint64
	for k := range m {
		ks = append(ks, k)
	}
	sort.Slice(ks, func(i, j int) bool { return ks[i] < ks[j] })
	var s []string
	for _, k := range ks {
		s = append(s, fmt.Sprintf("(%d, %d)", k, m[k]))
	}
	return vharness.List(s)
}

type c16res struct {
	updated []uint64
	ok      bool
}

func c16ress(rs []c16res) string {
	var s []string
	for _, r := range rs {
		s = append(s, fmt.Sprintf("(%s, %s)", vharness.Ns(r.updated), vharness.Bool(r.ok)))
	}
	return vharness.List(s)
}

func c16explore(out *vharness.Out, rng *rand.Rand, sc c16scenario, max int) int {
	order := map[string]int{"0": 0, "1": 1, "2": 2, "99": 99}
	two := sc.callsB > 0
	var resA, resB []c16res
	var curA, curB PeersConnectedness
	var mgr *ConnectednessManager
	var ctx context.Context
	setup := func(c *vsched.Ctl) func(r *vsched.Run) {
		mgr = NewConnectednessManager()
		var cancel context.CancelFunc
		ctx, cancel = context.WithCancel(context.Background())
		resA, resB = nil, nil
		mkcur := func(v map[uint64]uint64) PeersConnectedness {
			m := PeersConnectedness{}
			for k, x := range v {
				m[c16pid(k)] = ConnectednessType(x)
			}
			return m
		}
		curA, curB = mkcur(sc.viewA), mkcur(sc.viewB)
		waiter := func(calls int, cur PeersConnectedness, res *[]c16res) func() string {
			return func() string {
				for i := 0; i < calls; i++ {
					upd, ok := mgr.WaitForConnectednessChange(ctx, "g", cur)
					var ks []uint64
					for _, p := range upd {
						var k uint64
						fmt.Sscanf(string(p), "peer-%d", &k)
						ks = append(ks, k)
					}
					sort.Slice(ks, func(i, j int) bool { return ks[i] < ks[j] })
					*res = append(*res, c16res{ks, ok})
					if !ok {
						break
					}
				}
				return ""
			}
		}
		c.Spawn("0", waiter(sc.callsA, curA, &resA))
		if two {
			c.Spawn("1", waiter(sc.callsB, curB, &resB))
		}
		c.Spawn("2", func() string {
			for _, o := range sc.ops {
				if o.kind == "assoc" {
					mgr.AssociatePeer("g", c16pid(o.k))
				} else {
					mgr.UpdateState(c16pid(o.k), ConnectednessType(o.v))
				}
			}
			return ""
		})
		if sc.cancel {
			c.Spawn("99", func() string { cancel(); return "" })
		}
		return func(r *vsched.Run) { _ = cancel }
	}
	n := 0
	each := func(r vsched.Run) {
		n++
		var sched []uint64
		for _, s := range r.Sched {
			var x uint64
			fmt.Sscan(s, &x)
			sched = append(sched, x)
		}
		var obs []string
		for _, sts := range r.Obs {
			var v []uint64
			for _, st := range sts {
				v = append(v, vsched.Code(st))
			}
			obs = append(obs, vharness.Ns(v))
		}
		ok, note, sig := true, "", ""
		if r.Err != "" {
			ok, note, sig = false, r.Err, "harness error"
		}
		// oracle: deadlock
		lockWait := 0
		for _, st := range r.Final {
			if (st.State == "at" && !st.Enabled) || (st.State == "blocked" && (st.Kind == "lock" || st.Kind == "rlock")) {
				lockWait++
			}
		}
		if lockWait > 0 {
			ok, sig = false, "deadlock: threads wait for mutexes that are never released"
			note = fmt.Sprintf("schedule %v ends with %d thread(s) waiting for a held mutex (lock-order inversion between the state mutex and the notify locker)", r.Sched, lockWait)
		}
		// oracle: missed update — a waiter parked in select although the tracked state differs from its view
		cancelled := ctx.Err() != nil
		if ok && !cancelled {
			for _, st := range r.Final {
				if st.State == "blocked" && st.Kind == "select" && (st.Name == "0" || st.Name == "1") {
					cur := curA
					if st.Name == "1" {
						cur = curB
					}
					var missed []string
					if g, has := mgr.groupState["g"]; has {
						for p := range g.peers {
							if sp, has := mgr.peerState[p]; has {
								if their, has := cur[p]; !has || their != sp.status {
									missed = append(missed, string(p))
								}
							}
						}
					}
					if len(missed) > 0 {
						sort.Strings(missed)
						ok, sig = false, "missed update: waiter parked although the tracked state differs from what it saw"
						note = fmt.Sprintf("waiter %s stays blocked in WaitForConnectednessChange while peers %v differ from its view; schedule %v", st.Name, missed, r.Sched)
					}
				}
			}
		}
		// oracle: a cancelled wait returns a negative result, promptly (not parked at the end)
		if ok && cancelled {
			for _, st := range r.Final {
				if st.State == "blocked" && (st.Name == "0" || st.Name == "1") {
					ok, sig = false, "cancelled wait does not return"
					note = fmt.Sprintf("waiter %s still blocked after cancellation; schedule %v", st.Name, r.Sched)
				}
			}
		}
		var ops []string
		for _, o := range sc.ops {
			ops = append(ops, o.coq())
		}
		coq := fmt.Sprintf("CNotify [] %d %s %d %s true %s %s %s %s %s %s %s", sc.callsA, c16view(sc.viewA), sc.callsB, c16view(sc.viewB),
			vharness.Bool(two), vharness.List(ops), vharness.Bool(sc.cancel), vharness.Ns(sched), vharness.List(obs), c16ress(resA), c16ress(resB))
		preempt := false
		for i := 1; i < len(r.Sched); i++ {
			if r.Sched[i] != r.Sched[i-1] {
				preempt = true
			}
		}
		out.Emit(vharness.Case{Kind: "connectedness", Coq: coq, Key: coq, Nontrivial: preempt, OracleOK: ok, Note: note, Sig: sig,
			Replay: map[string]any{"ops": ops, "schedule": r.Sched, "cancel": sc.cancel}})
	}
	_, exhausted := vsched.Explore(setup, order, 300, max/2, each)
	if !exhausted {
		// the depth-first order varies the end of the schedule first: complement it with random schedules
		for i := 0; i < max/2; i++ {
			each(vsched.RunRandom(setup, order, 300, rng.Intn))
		}
	}
	return n
}

func TestVerifC16(t *testing.T) {
	out := vharness.Open()
	defer out.Close()
	rng := vharness.Rng()
	budget := vharness.Budget(900, 150000)
	scenarios := []c16scenario{
		{callsA: 1, ops: []c16op{{"assoc", 1, 0}}},
		{callsA: 1, ops: []c16op{{"assoc", 1, 0}, {"upd", 1, 2}}, viewA: map[uint64]uint64{1: 0}},
		{callsA: 2, ops: []c16op{{"assoc", 1, 0}, {"upd", 1, 2}}},
		{callsA: 1, ops: []c16op{{"upd", 1, 2}, {"assoc", 1, 0}}, cancel: true},
		{callsA: 1, callsB: 1, ops: []c16op{{"assoc", 1, 0}}},
		{callsA: 1, callsB: 1, ops: []c16op{{"assoc", 1, 0}, {"upd", 1, 1}}, viewB: map[uint64]uint64{1: 0}},
		{callsA: 2, ops: []c16op{{"assoc", 1, 0}, {"assoc", 2, 0}, {"upd", 2, 2}}, cancel: true},
		{callsA: 1, ops: []c16op{{"upd", 3, 1}}, cancel: true},
	}
	total := 0
	for _, sc := range scenarios {
		total += c16explore(out, rng, sc, budget/len(scenarios)+20)
	}
	t.Logf("C16 harness (connectedness): %d schedules", total)
	_ = strings.Join
}
