//go:build verif

package weshnet

// C12 correspondence driver: GroupJoin on a real account-group MetadataStore for valid
// invitations and every single-bit flip, field removal and group-type substitution of them;
// the identity the account uses in a joined group; replication descriptors of random groups of
// all types tried against real metadata and message envelopes and real log addresses.

import (
	"go.uber.org/zap"
	"bytes"
	"strings"
	"context"
	crand "crypto/rand"
	"fmt"
	"testing"

	ipfslog "berty.tech/go-ipfs-log"
	"berty.tech/go-orbit-db/stores/operation"
	"github.com/libp2p/go-libp2p/core/crypto"
	"google.golang.org/protobuf/proto"

	"berty.tech/weshnet/v2/internal/vharness"
	"berty.tech/weshnet/v2/pkg/protocoltypes"
)

func c12typeCoq(t protocoltypes.GroupType) string {
	switch t {
	case protocoltypes.GroupType_GroupTypeUndefined:
		return "GUndefined"
	case protocoltypes.GroupType_GroupTypeAccount:
		return "GAccount"
	case protocoltypes.GroupType_GroupTypeContact:
		return "GContact"
	case protocoltypes.GroupType_GroupTypeMultiMember:
		return "GMulti"
	}
	return fmt.Sprintf("(GOther %d)", int32(t))
}

// symbolic form of a mutated invitation: ids 5 = group key, 7 = secret; 6 = another key, 8 = another secret
type c12mut struct {
	name   string
	g      *protocoltypes.Group
	pk     string
	secret int
	sig    string
}

func c12groupCoq(m c12mut) string {
	return fmt.Sprintf("(mkGroup %s %d %s %s 0 0)", m.pk, m.secret, m.sig, c12typeCoq(m.g.GroupType))
}

func TestVerifC12(t *testing.T) {
	out := vharness.Open()
	defer out.Close()
	ctx, cancel := context.WithCancel(context.Background())
	defer cancel()
	rng := vharness.Rng()
	node := vNewNode(ctx, t)
	ngroups := vharness.Budget(3, 30)
	if vharness.Budget(1, 1) == 0 {
		ngroups = 1
	}

	acc := node.newAccount()
	ms := acc.openMeta(acc.accountGroup())
	accountPK, _ := ms.memberDevice.Member().Raw()

	join := func(kind string, m c12mut, already bool) {
		before := ms.OpLog().Len()
		_, err := ms.GroupJoin(ctx, m.g)
		appended := ms.OpLog().Len() - before
		accepted := err == nil
		// "signed-link-key": the group key did sign these bytes, so by the letter of the property it
		// is a self-authenticating invitation (to a group with the same identifier and another secret)
		want := (m.name == "valid" || strings.HasPrefix(m.name, "signed-link-key")) && !already
		ok, note := true, ""
		switch {
		case accepted && !want:
			ok, note = false, fmt.Sprintf("invitation with %s was ACCEPTED by GroupJoin", m.name)
		case !accepted && want:
			ok, note = false, fmt.Sprintf("valid invitation refused: %v", err)
		case !accepted && appended != 0:
			ok, note = false, fmt.Sprintf("refused invitation (%s) appended %d entries", m.name, appended)
		case accepted && appended != 1:
			ok, note = false, fmt.Sprintf("accepted invitation appended %d entries", appended)
		}
		out.Emit(vharness.Case{
			Kind: kind, Coq: fmt.Sprintf("CJoin %v %s %v %d", already, c12groupCoq(m), accepted, appended),
			Key:  fmt.Sprintf("%s|%s|%v|%d", kind, m.name, already, rng.Int63()), Nontrivial: m.name != "valid",
			OracleOK: ok, Note: note, Sig: "altered invitation accepted: " + firstWords(m.name, 3),
			Replay: map[string]any{"mutation": m.name, "already_member": already},
		})
		if accepted {
			// leave again so that the next trial starts from "not a member"
			pk, _ := m.g.GetPubKey()
			if _, err := ms.GroupLeave(ctx, pk); err != nil {
				t.Fatal(err)
			}
		}
	}

	for gi := 0; gi < ngroups; gi++ {
		g, _, err := NewGroupMultiMember()
		if err != nil {
			t.Fatal(err)
		}
		valid := c12mut{"valid", g, "(KeyOk 5)", 7, "(SigBy 5 7)"}
		join("join", valid, false)

		// already a member
		if _, err := ms.GroupJoin(ctx, g); err != nil {
			t.Fatal(err)
		}
		join("join", c12mut{"valid", g, "(KeyOk 5)", 7, "(SigBy 5 7)"}, true)
		gpk, _ := g.GetPubKey()
		if _, err := ms.GroupLeave(ctx, gpk); err != nil {
			t.Fatal(err)
		}

		// every single-bit flip of identifier, secret and signature
		flip := func(b []byte, i int) []byte {
			c := append([]byte(nil), b...)
			c[i/8] ^= 1 << (i % 8)
			return c
		}
		for i := 0; i < len(g.PublicKey)*8; i++ {
			c := g.Copy()
			c.PublicKey = flip(g.PublicKey, i)
			join("bitflip", c12mut{fmt.Sprintf("identifier bit %d flipped", i), c, "(KeyOk 6)", 7, "(SigBy 5 7)"}, false)
		}
		for i := 0; i < len(g.Secret)*8; i++ {
			c := g.Copy()
			c.Secret = flip(g.Secret, i)
			join("bitflip", c12mut{fmt.Sprintf("secret bit %d flipped", i), c, "(KeyOk 5)", 8, "(SigBy 5 7)"}, false)
		}
		for i := 0; i < len(g.SecretSig)*8; i++ {
			c := g.Copy()
			c.SecretSig = flip(g.SecretSig, i)
			join("bitflip", c12mut{fmt.Sprintf("signature bit %d flipped", i), c, "(KeyOk 5)", 7, "SigJunk"}, false)
		}
		// field removal / truncation
		{
			c := g.Copy()
			c.PublicKey = nil
			join("removal", c12mut{"identifier removed", c, "KeyBad", 7, "(SigBy 5 7)"}, false)
			c = g.Copy()
			c.PublicKey = g.PublicKey[:31]
			join("removal", c12mut{"identifier truncated", c, "KeyBad", 7, "(SigBy 5 7)"}, false)
			c = g.Copy()
			c.Secret = nil
			join("removal", c12mut{"secret removed", c, "(KeyOk 5)", 0, "(SigBy 5 7)"}, false)
			c = g.Copy()
			c.SecretSig = nil
			join("removal", c12mut{"signature removed", c, "(KeyOk 5)", 7, "SigNone"}, false)
			c = g.Copy()
			c.SecretSig = g.SecretSig[:63]
			join("removal", c12mut{"signature truncated", c, "(KeyOk 5)", 7, "SigJunk"}, false)
			// a secret of another LENGTH whose first 32 bytes (or zero-padded bytes) are the signed ones:
			// the envelopes are sealed with a 32-byte array made from it, the signature covers the field
			c = g.Copy()
			c.Secret = append(append([]byte(nil), g.Secret...), 0)
			join("removal", c12mut{"secret extended by a zero byte", c, "(KeyOk 5)", 8, "(SigBy 5 7)"}, false)
			c = g.Copy()
			c.Secret = append(append([]byte(nil), g.Secret...), 0xa5, 0x5a, 1)
			join("removal", c12mut{"secret extended by three bytes", c, "(KeyOk 5)", 8, "(SigBy 5 7)"}, false)
			c = g.Copy()
			c.Secret = append([]byte(nil), g.Secret[:len(g.Secret)-1]...)
			join("removal", c12mut{"secret cut by its last byte", c, "(KeyOk 5)", 8, "(SigBy 5 7)"}, false)
			for tries := 0; tries < 4000; tries++ {
				gz, _, err := NewGroupMultiMember()
				if err != nil || gz.Secret[len(gz.Secret)-1] != 0 {
					continue
				}
				c = gz.Copy()
				c.Secret = append([]byte(nil), gz.Secret[:len(gz.Secret)-1]...)
				join("removal", c12mut{"secret ending in a zero byte, cut by that byte", c, "(KeyOk 5)", 8, "(SigBy 5 7)"}, false)
				break
			}
			// a secret signed by another group's key
			o, _, _ := NewGroupMultiMember()
			c = g.Copy()
			c.SecretSig = o.SecretSig
			join("removal", c12mut{"signature of another group", c, "(KeyOk 5)", 7, "(SigBy 6 8)"}, false)
			c = o.Copy()
			c.PublicKey = g.PublicKey
			join("removal", c12mut{"identifier of another group", c, "(KeyOk 5)", 8, "(SigBy 6 8)"}, false)
		}
		// a replication descriptor (or parts of one) presented as an invitation
		if d, err := FilterGroupForReplication(g); err == nil {
			c := d.Copy()
			c.LinkKey, c.LinkKeySig = d.LinkKey, d.LinkKeySig
			join("descriptor", c12mut{"replication descriptor as invitation", c, "(KeyOk 5)", 0, "SigNone"}, false)
			c = d.Copy()
			c.LinkKey, c.LinkKeySig = d.LinkKey, d.LinkKeySig
			c.GroupType = protocoltypes.GroupType_GroupTypeMultiMember
			join("descriptor", c12mut{"replication descriptor typed multi-member as invitation", c, "(KeyOk 5)", 0, "SigNone"}, false)
			c = d.Copy()
			c.LinkKey, c.LinkKeySig = d.LinkKey, d.LinkKeySig
			c.GroupType = protocoltypes.GroupType_GroupTypeMultiMember
			c.SecretSig = d.LinkKeySig
			join("descriptor", c12mut{"replication descriptor with the link-key signature as secret signature", c, "(KeyOk 5)", 0, "(SigBy 5 9)"}, false)
			c = d.Copy()
			c.LinkKey, c.LinkKeySig = d.LinkKey, d.LinkKeySig
			c.GroupType = protocoltypes.GroupType_GroupTypeMultiMember
			c.Secret, c.SecretSig = d.LinkKey, d.LinkKeySig
			// the link key IS signed by the group key: as a "secret" it would make a different group secret
			join("descriptor", c12mut{"signed-link-key: link key and its signature presented as secret and signature", c, "(KeyOk 5)", 9, "(SigBy 5 9)"}, false)
		}
		// group-type substitution of the otherwise valid invitation
		for _, ty := range []protocoltypes.GroupType{protocoltypes.GroupType_GroupTypeUndefined, protocoltypes.GroupType_GroupTypeAccount,
			protocoltypes.GroupType_GroupTypeContact, protocoltypes.GroupType(4), protocoltypes.GroupType(99)} {
			c := g.Copy()
			c.GroupType = ty
			join("type", c12mut{fmt.Sprintf("group type substituted by %v", ty), c, "(KeyOk 5)", 7, "(SigBy 5 7)"}, false)
		}

		// identity used in a group of each type: the member key handed out by the secret store
		// (the order in which the types are asked for changes from group to group: the answer for one type must
		// not depend on what the store was asked about the same identifier before)
		tyOrder := []protocoltypes.GroupType{protocoltypes.GroupType_GroupTypeMultiMember, protocoltypes.GroupType_GroupTypeContact, protocoltypes.GroupType_GroupTypeAccount}
		switch gi % 3 {
		case 1:
			tyOrder = []protocoltypes.GroupType{protocoltypes.GroupType_GroupTypeContact, protocoltypes.GroupType_GroupTypeMultiMember, protocoltypes.GroupType_GroupTypeAccount}
		case 2:
			tyOrder = []protocoltypes.GroupType{protocoltypes.GroupType_GroupTypeAccount, protocoltypes.GroupType_GroupTypeContact, protocoltypes.GroupType_GroupTypeMultiMember}
		}
		for _, ty := range tyOrder {
			c := g.Copy()
			c.GroupType = ty
			md, err := acc.ss.GetOwnMemberDeviceForGroup(c)
			if err != nil {
				t.Fatal(err)
			}
			mraw, _ := md.Member().Raw()
			uses := bytes.Equal(mraw, accountPK)
			ok, note := true, ""
			if ty == protocoltypes.GroupType_GroupTypeMultiMember && uses {
				ok, note = false, "in a multi-member group the account acts under its account key"
			}
			out.Emit(vharness.Case{
				Kind: "identity", Coq: fmt.Sprintf("CIdentity (mkGroup (KeyOk 5) 7 (SigBy 5 7) %s 0 0) %v", c12typeCoq(ty), uses),
				Key:  fmt.Sprintf("identity|%v|%d", ty, gi), Nontrivial: true, OracleOK: ok, Note: note,
				Sig: "account identity used in a joined group",
			})
		}
		// and on the real store of a joined group: the announced member is not the account
		{
			r := node.replicaWith(acc.ss)
			gms := r.openMeta(g)
			if _, err := gms.AddDeviceToGroup(ctx); err != nil {
				t.Fatal(err)
			}
			ok, note := true, ""
			for _, m := range gms.ListMembers() {
				raw, _ := m.Raw()
				if bytes.Equal(raw, accountPK) {
					ok, note = false, "the device announcement in a joined multi-member group names the account key as member"
				}
			}
			out.Emit(vharness.Case{
				Kind: "identity", Coq: fmt.Sprintf("CIdentity (mkGroup (KeyOk 5) 7 (SigBy 5 7) GMulti 0 0) %v", !ok),
				Key:  fmt.Sprintf("announce|%d", gi), Nontrivial: true, OracleOK: ok, Note: note,
				Sig: "account identity used in a joined group",
			})
			gms.Close()
			r.db.Close()
		}
	}

	// ---- through the service: MultiMemberGroupJoin with a tampered invitation (refused), then with the
	// genuine one; what the node then finds under the group's key (what ActivateGroup and GroupInfo use)
	// must be the genuine group, and the identity it acts under there the one derived for that group
	nsvc := vharness.Budget(4, 40)
	if vharness.Budget(1, 1) == 0 {
		nsvc = 1
	}
	for si := 0; si < nsvc; si++ {
		a := node.newAccount()
		ams := a.openMeta(a.accountGroup())
		aPK, _ := ams.memberDevice.Member().Raw()
		aDev, _ := ams.memberDevice.Device().Raw()
		svc := &service{secretStore: a.ss, accountGroupCtx: &GroupContext{metadataStore: ams, group: a.accountGroup()}, logger: zap.NewNop()}
		g, _, _ := NewGroupMultiMember()
		tampered := []struct {
			name string
			f    func(c *protocoltypes.Group)
		}{
			{"group type replaced by Contact", func(c *protocoltypes.Group) { c.GroupType = protocoltypes.GroupType_GroupTypeContact }},
			{"group type replaced by Account", func(c *protocoltypes.Group) { c.GroupType = protocoltypes.GroupType_GroupTypeAccount }},
			{"one bit of the secret flipped", func(c *protocoltypes.Group) { c.Secret = append([]byte(nil), c.Secret...); c.Secret[3] ^= 4 }},
			{"signature removed", func(c *protocoltypes.Group) { c.SecretSig = nil }},
		}
		tm := tampered[si%len(tampered)]
		bad := g.Copy()
		tm.f(bad)
		ok, note := true, ""
		if _, err := svc.MultiMemberGroupJoin(ctx, &protocoltypes.MultiMemberGroupJoin_Request{Group: bad}); err == nil {
			ok, note = false, "MultiMemberGroupJoin accepted an invitation with "+tm.name
		}
		if _, err := svc.MultiMemberGroupJoin(ctx, &protocoltypes.MultiMemberGroupJoin_Request{Group: g}); err != nil && ok {
			ok, note = false, fmt.Sprintf("MultiMemberGroupJoin refused the genuine invitation after a tampered one (%s): %v", tm.name, err)
		}
		gpk, _ := g.GetPubKey()
		if ok {
			got, err := svc.getGroupForPK(ctx, gpk)
			switch {
			case err != nil:
				ok, note = false, fmt.Sprintf("the joined group is not found under its key: %v", err)
			case got.GroupType != protocoltypes.GroupType_GroupTypeMultiMember || !bytes.Equal(got.Secret, g.Secret) || !bytes.Equal(got.SecretSig, g.SecretSig):
				ok, note = false, fmt.Sprintf("after a refused invitation with %s and the genuine one, the node finds under the group's key a group of type %v that is not the genuine invitation", tm.name, got.GroupType)
			default:
				md, err := a.ss.GetOwnMemberDeviceForGroup(got)
				if err != nil {
					ok, note = false, "no member/device for the joined group: "+err.Error()
				} else {
					m, _ := md.Member().Raw()
					d, _ := md.Device().Raw()
					if bytes.Equal(m, aPK) || bytes.Equal(d, aDev) {
						ok, note = false, "in the joined group the account acts under its account identity"
					}
				}
			}
		}
		out.Emit(vharness.Case{Kind: "service-join", Key: fmt.Sprintf("svc-join|%d|%s", si, tm.name), Nontrivial: true, OracleOK: ok, Note: note,
			Sig: "joined group or identity differs from the genuine invitation", Replay: map[string]any{"tampered_first": tm.name}})
		ams.Close()
		a.db.Close()
	}

	// ---- replication descriptors ----
	nd := vharness.Budget(12, 120)
	if vharness.Budget(1, 1) == 0 {
		nd = 3
	}
	for di := 0; di < nd; di++ {
		a := node.newAccount()
		var g *protocoltypes.Group
		switch di % 3 {
		case 0:
			g, _, _ = NewGroupMultiMember()
		case 1:
			g = a.accountGroup()
		case 2:
			_, opk, _ := crypto.GenerateEd25519Key(crand.Reader)
			var err error
			g, err = a.ss.GetGroupForContact(opk)
			if err != nil {
				t.Fatal(err)
			}
		}
		// the optional public fields of a full group may be filled in (by another client, by an inviter):
		// every combination; the descriptor must not carry the secret whatever else the group carries
		spCoq, lkCoq := 0, 0
		if v := (di / 3) % 4; v != 0 {
			g = g.Copy()
			if v&1 != 0 {
				sp, err := g.GetSigningPubKey()
				if err != nil {
					t.Fatal(err)
				}
				g.SignPub, _ = sp.Raw()
				spCoq = 21
			}
			if v&2 != 0 {
				lk, err := g.GetLinkKeyArray()
				if err != nil {
					t.Fatal(err)
				}
				g.LinkKey = append([]byte(nil), lk[:]...)
				lkCoq = 22
			}
		}
		desc, err := FilterGroupForReplication(g)
		if err != nil {
			t.Fatal(err)
		}
		raw, _ := proto.Marshal(desc)
		secretAbsent := len(desc.Secret) == 0 && len(desc.SecretSig) == 0 && !bytes.Contains(raw, g.Secret)

		// a session in the group: metadata events and messages sealed by the real stores
		ms := a.openMeta(g)
		msgs := a.openMessages(g)
		if _, err := ms.AddDeviceToGroup(ctx); err != nil {
			t.Fatal(err)
		}
		for k := 0; k < 2+rng.Intn(3); k++ {
			if _, err := ms.SendAppMetadata(ctx, []byte(fmt.Sprintf("payload %d", k))); err != nil {
				t.Fatal(err)
			}
			if _, err := msgs.AddMessage(ctx, []byte(fmt.Sprintf("message %d", k))); err != nil {
				t.Fatal(err)
			}
		}
		opensMeta, opensHeaders := false, false
		nmeta, nmsg := 0, 0
		for _, e := range ms.OpLog().GetEntries().Slice() {
			nmeta++
			if _, _, err := openMetadataEntry(ms.OpLog(), e, desc); err == nil {
				opensMeta = true
			}
			if _, _, err := openMetadataEntry(ms.OpLog(), e, g); err != nil {
				t.Fatalf("the full group does not open its own event: %v", err)
			}
		}
		for _, e := range msgs.OpLog().GetEntries().Slice() {
			nmsg++
			op, _ := parseOp(e)
			if _, _, err := a.ss.OpenEnvelopeHeaders(op, desc); err == nil {
				opensHeaders = true
			}
			if _, _, err := a.ss.OpenEnvelopeHeaders(op, g); err != nil {
				t.Fatalf("the full group does not open its own message headers: %v", err)
			}
		}
		// same log addresses: access controller manifests and the addresses of really opened stores
		same := true
		for _, st := range []string{a.db.groupMetadataStoreType, a.db.groupMessageStoreType} {
			p1, err1 := defaultACForGroup(g, st)
			p2, err2 := defaultACForGroup(desc, st)
			if err1 != nil || err2 != nil || p1.GetAddress().String() != p2.GetAddress().String() {
				same = false
			}
		}
		rs := node.newAccount() // a replication server: another account, descriptor only
		rmeta, rmsg, err := rs.db.OpenGroupReplication(ctx, desc, nil)
		if err != nil {
			t.Fatal(err)
		}
		if rmeta.Address().String() != ms.Address().String() || rmsg.Address().String() != msgs.Address().String() {
			same = false
		}
		lk1, _ := g.GetLinkKeyArray()
		lk2, _ := desc.GetLinkKeyArray()
		sameLK := lk1 != nil && lk2 != nil && *lk1 == *lk2
		ok, note := true, ""
		switch {
		case !secretAbsent:
			ok, note = false, "the replication descriptor contains the group secret"
		case opensMeta:
			ok, note = false, "a metadata event of the group opens with the replication descriptor"
		case opensHeaders:
			ok, note = false, "message headers of the group open with the replication descriptor"
		case !same:
			ok, note = false, "the replication descriptor designates other log addresses than the group"
		case !sameLK:
			ok, note = false, "the replication descriptor has another link key than the group"
		}
		out.Emit(vharness.Case{
			Kind: "descriptor",
			Coq:  fmt.Sprintf("CDesc (mkGroup (KeyOk 5) 7 (SigBy 5 7) %s %d %d) %v %v %v %v %v", c12typeCoq(g.GroupType), spCoq, lkCoq, secretAbsent, opensMeta, opensHeaders, same, sameLK),
			Key:  fmt.Sprintf("desc|%d", di), Nontrivial: nmeta > 0 && nmsg > 0, OracleOK: ok, Note: note,
			Sig:    "replication descriptor: " + note,
			Replay: map[string]any{"group_type": g.GroupType.String(), "metadata_entries": nmeta, "message_entries": nmsg, "sign_pub_filled": spCoq != 0, "link_key_filled": lkCoq != 0},
		})
		rmeta.Close()
		rmsg.Close()
		ms.Close()
		msgs.Close()
		rs.db.Close()
		a.db.Close()
	}
}

func parseOp(e ipfslog.Entry) ([]byte, error) {
	op, err := operation.ParseOperation(e)
	if err != nil {
		return nil, err
	}
	return op.GetValue(), nil
}

func firstWords(s string, n int) string {
	w := 0
	for i, c := range s {
		if c == ' ' {
			w++
			if w == n {
				return s[:i]
			}
		}
	}
	return s
}
