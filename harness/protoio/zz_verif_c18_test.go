//go:build verif

package protoio

import (
	"bytes"
	"encoding/binary"
	"errors"
	"fmt"
	"io"
	"math/rand"
	"strings"
	"testing"

	"google.golang.org/protobuf/proto"
	"google.golang.org/protobuf/types/known/wrapperspb"

	"berty.tech/weshnet/v2/internal/vharness"
)

// chunkReader serves data in the given chunk sizes (0 = an empty read, never two in a row).
type chunkReader struct {
	data  []byte
	plan  [][]byte
	i     int
	total int
	mode  int  // see c18transport
	idled bool // mode 2: the idle read before the current chunk has been made
}

// how the transport behaves beyond splitting the bytes, within what io.Reader allows:
// 0 plain (n, nil) reads and then (0, EOF); 1 the last bytes arrive TOGETHER with EOF (n > 0, EOF), as
// iotest.DataErrReader and some network stacks do; 2 a read that hands over nothing, (0, nil), before every chunk
var c18transport = 0

func newChunkReader(plan [][]byte) *chunkReader { return &chunkReader{plan: plan, mode: c18transport} }

func (c *chunkReader) Read(p []byte) (int, error) {
	for {
		if c.i >= len(c.plan) {
			return 0, io.EOF
		}
		if c.mode == 2 && !c.idled && len(p) > 0 {
			c.idled = true
			return 0, nil
		}
		ch := c.plan[c.i]
		n := copy(p, ch)
		c.total += n
		if n < len(ch) {
			c.plan[c.i] = ch[n:]
		} else {
			c.i++
			c.idled = false
		}
		if c.mode == 1 && c.i >= len(c.plan) && n > 0 {
			return n, io.EOF
		}
		return n, nil
	}
}

type variantSpec struct {
	coq   string
	order binary.ByteOrder // nil = varint
}

var variants = []variantSpec{
	{"Varint", nil},
	{"(U32 BigEndian)", binary.BigEndian},
	{"(U32 LittleEndian)", binary.LittleEndian},
}

func errName(err error) string {
	switch {
	case errors.Is(err, io.EOF):
		return "EEOF"
	case errors.Is(err, io.ErrUnexpectedEOF):
		return "EUnexpectedEOF"
	case errors.Is(err, io.ErrShortBuffer):
		return "EShortBuffer"
	case err != nil && strings.Contains(err.Error(), "overflow"):
		return "EOverflow"
	default:
		return "EUnmarshal"
	}
}

type readObs struct {
	events []string // Coq event terms
	bodies [][]byte
	oks    []bool
	buf    int
	last   string
	panic_ string
	stale  bool // a read left in the (reused) destination something else than the message of its frame
}

// runReader drives the real reader over the chunk plan until the first error.
func runReader(v variantSpec, max int, plan [][]byte) (obs readObs) {
	var flat []byte
	cp := make([][]byte, len(plan))
	for i, c := range plan {
		flat = append(flat, c...)
		cp[i] = append([]byte(nil), c...)
	}
	cr := newChunkReader(cp)
	defer func() {
		if r := recover(); r != nil {
			obs.panic_ = fmt.Sprint(r)
		}
	}()
	var rd ReadCloser
	if v.order == nil {
		rd = NewDelimitedReader(cr, max)
	} else {
		rd = NewUint32DelimitedReader(cr, v.order, max)
	}
	consumed := func() int {
		if vr, ok := rd.(*varintReader); ok {
			// whatever the reader keeps between the transport and itself, if it says how much
			if b, ok := any(vr.r).(interface{ Buffered() int }); ok {
				return cr.total - b.Buffered()
			}
		}
		return cr.total
	}
	bufOf := func() []byte {
		if vr, ok := rd.(*varintReader); ok {
			return vr.buf
		}
		return rd.(*uint32Reader).buf
	}
	// ONE destination message for the whole stream, as a caller that loops over ReadMsg has: every
	// read must leave in it exactly the message of its frame (an empty one after a non-empty one too)
	msg := &wrapperspb.BytesValue{}
	for iter := 0; iter < len(flat)+2; iter++ {
		before := consumed()
		err := rd.ReadMsg(msg)
		after := consumed()
		frame := flat[before:after]
		// locate the body with the standard library's own prefix decoding
		plen := -1
		if v.order == nil {
			if _, n := binary.Uvarint(frame); n > 0 {
				plen = n
			}
		} else if len(frame) >= 4 {
			plen = 4
		}
		name := ""
		if err != nil {
			name = errName(err)
		}
		if err == nil || name == "EUnmarshal" {
			if plen < 0 {
				obs.panic_ = "harness: cannot locate body"
				return
			}
			k := len(frame) - plen
			body := append([]byte(nil), bufOf()[:k]...)
			obs.oks = append(obs.oks, err == nil)
			if err == nil {
				// what the caller holds now: the decoded message, re-encoded (BytesValue is canonical)
				if dec, merr := proto.Marshal(msg); merr == nil && !bytes.Equal(dec, body) {
					body = dec
					obs.stale = true
				}
				obs.bodies = append(obs.bodies, body)
				obs.events = append(obs.events, "Msg "+vharness.Bytes(body))
				continue
			}
		}
		obs.events = append(obs.events, "Err "+name)
		obs.last = name
		break
	}
	obs.buf = len(bufOf())
	return
}

func writeFrames(v variantSpec, bodies [][]byte) (out []byte, panicked string) {
	defer func() {
		if r := recover(); r != nil {
			panicked = fmt.Sprint(r)
		}
	}()
	var b bytes.Buffer
	var w WriteCloser
	if v.order == nil {
		w = NewDelimitedWriter(&b)
	} else {
		w = NewUint32DelimitedWriter(&b, v.order)
	}
	for _, body := range bodies {
		// body is the wire form of a BytesValue: re-parse and write the message
		m := &wrapperspb.BytesValue{}
		if err := proto.Unmarshal(body, m); err != nil {
			return nil, "harness: body not a message: " + err.Error()
		}
		if err := w.WriteMsg(m); err != nil {
			return nil, "write error: " + err.Error()
		}
	}
	return b.Bytes(), ""
}

// body of a BytesValue carrying n payload bytes; total wire size returned
func mkBody(rng *rand.Rand, wire int) []byte {
	// wire sizes: 0 (empty value), or 2+k (tag, len<128, k bytes), or 3+k for k>=128
	if wire <= 1 {
		return []byte{}
	}
	k := wire - 2
	if k >= 128 {
		k = wire - 3
	}
	p := make([]byte, k)
	rng.Read(p)
	b, _ := proto.Marshal(&wrapperspb.BytesValue{Value: p})
	return b
}

func randPlan(rng *rand.Rand, flat []byte, maxChunk int) [][]byte {
	var plan [][]byte
	i := 0
	lastEmpty := true
	for i < len(flat) {
		n := rng.Intn(maxChunk + 1)
		if n == 0 && lastEmpty {
			n = 1
		}
		if i+n > len(flat) {
			n = len(flat) - i
		}
		plan = append(plan, flat[i:i+n])
		lastEmpty = n == 0
		i += n
	}
	return plan
}

func planCoq(plan [][]byte) string {
	s := make([]string, len(plan))
	for i, c := range plan {
		s[i] = vharness.Bytes(c)
	}
	return vharness.List(s)
}

func bodiesCoq(b [][]byte) string {
	s := make([]string, len(b))
	for i, c := range b {
		s[i] = vharness.Bytes(c)
	}
	return vharness.List(s)
}

func TestVerifC18(t *testing.T) {
	out := vharness.Open()
	defer out.Close()
	rng := vharness.Rng()

	var emitRead func(kind string, v variantSpec, max int, plan [][]byte, want [][]byte, wantErr string, nontrivial bool)
	emitRead = func(kind string, v variantSpec, max int, plan [][]byte, want [][]byte, wantErr string, nontrivial bool) {
		if c18transport == 0 && len(plan) > 0 {
			// the same plan over a transport that delivers its last bytes together with EOF, and over one that
			// makes an idle read before every chunk: the model (chunking independence) expects the same events
			for _, m := range []int{1, 2} {
				c18transport = m
				emitRead(fmt.Sprintf("%s/transport-%d", kind, m), v, max, plan, want, wantErr, nontrivial)
			}
			c18transport = 0
		}
		obs := runReader(v, max, plan)
		ok := true
		note := ""
		if obs.panic_ != "" {
			ok, note = false, "panic: "+obs.panic_
		}
		if obs.buf > max {
			ok, note = false, fmt.Sprintf("buffer %d exceeds limit %d", obs.buf, max)
		}
		if obs.stale {
			ok, note = false, "a message read into a reused destination is not the message of its frame"
		}
		if want != nil {
			// oracle: the frames before the fault are delivered intact
			if len(obs.bodies) != len(want) {
				ok, note = false, fmt.Sprintf("delivered %d frames, want %d", len(obs.bodies), len(want))
			} else {
				for i := range want {
					if !bytes.Equal(want[i], obs.bodies[i]) {
						ok, note = false, fmt.Sprintf("frame %d corrupted", i)
					}
				}
			}
			if wantErr != "" && !strings.Contains(wantErr, obs.last) {
				ok, note = false, fmt.Sprintf("ended with %s, want one of %s", obs.last, wantErr)
			}
		}
		if len(obs.events) == 0 || !strings.HasPrefix(obs.events[len(obs.events)-1], "Err") {
			ok, note = false, "reader did not terminate with an error/EOF"
		}
		coq := fmt.Sprintf("CRead %s %d %s %s %s %d", v.coq, max, vharness.Bools(obs.oks), planCoq(plan),
			vharness.List(obs.events), obs.buf)
		out.Emit(vharness.Case{Kind: kind, Coq: coq, Key: fmt.Sprintf("%s#t%d", coq, c18transport), Nontrivial: nontrivial, OracleOK: ok, Note: note,
			Replay: map[string]any{"variant": v.coq, "max": max, "plan": plan, "transport": []string{"plain", "last bytes together with EOF", "an idle (0, nil) read before every chunk"}[c18transport]}})
	}

	nRand := vharness.Budget(500, 20000)
	nSmallStreams := vharness.Budget(2, 30)

	// (1) writer correspondence + round trip with random chunkings
	for i := 0; i < nRand; i++ {
		v := variants[rng.Intn(len(variants))]
		max := []int{0, 1, 2, 5, 16, 40, 130, 300}[rng.Intn(8)]
		nm := rng.Intn(5)
		var bodies [][]byte
		for j := 0; j < nm; j++ {
			bodies = append(bodies, mkBody(rng, rng.Intn(max+1)))
		}
		// keep only bodies within the limit (mkBody may round up by one)
		var keep [][]byte
		for _, b := range bodies {
			if len(b) <= max {
				keep = append(keep, b)
			}
		}
		bodies = keep
		flat, p := writeFrames(v, bodies)
		if i%4 == 0 {
			coq := fmt.Sprintf("CWrite %s %s %s", v.coq, bodiesCoq(bodies), vharness.Bytes(flat))
			out.Emit(vharness.Case{Kind: "write", Coq: coq, Key: coq, Nontrivial: len(bodies) > 0, OracleOK: p == "", Note: p})
		}
		mode := rng.Intn(6)
		switch mode {
		case 0, 1: // honest
			emitRead("roundtrip", v, max, randPlan(rng, flat, 1+rng.Intn(9)), bodies, "EEOF", len(bodies) > 0)
		case 2: // truncated inside a further frame
			extra, _ := writeFrames(v, [][]byte{mkBody(rng, max)})
			if len(extra) > 1 {
				cut := 1 + rng.Intn(len(extra)-1)
				s := append(append([]byte(nil), flat...), extra[:cut]...)
				emitRead("truncated", v, max, randPlan(rng, s, 1+rng.Intn(9)), bodies, "EEOF EUnexpectedEOF", true)
			}
		case 3: // oversize frame
			over := max + 1 + rng.Intn(3)
			if rng.Intn(4) == 0 {
				over = max + 1 + rng.Intn(1<<20)
			}
			var pre []byte
			if v.order == nil {
				pre = binary.AppendUvarint(nil, uint64(over))
				if rng.Intn(5) == 0 { // lengths beyond int63 / near 2^64
					pre = binary.AppendUvarint(nil, uint64(1)<<63+uint64(rng.Intn(1000)))
				}
			} else {
				pre = make([]byte, 4)
				v.order.PutUint32(pre, uint32(over))
				if rng.Intn(5) == 0 {
					v.order.PutUint32(pre, 0xffffffff-uint32(rng.Intn(3)))
				}
			}
			tail := make([]byte, rng.Intn(6))
			rng.Read(tail)
			s := append(append(append([]byte(nil), flat...), pre...), tail...)
			emitRead("oversize", v, max, randPlan(rng, s, 1+rng.Intn(9)), bodies, "EShortBuffer", true)
		case 4: // overflowing varint
			if v.order == nil {
				junk := make([]byte, 10+rng.Intn(3))
				for k := range junk {
					junk[k] = 0x80 | byte(rng.Intn(128))
				}
				if rng.Intn(2) == 0 { // tenth byte > 1 without continuation
					junk = junk[:10]
					junk[9] = byte(2 + rng.Intn(126))
				}
				s := append(append([]byte(nil), flat...), junk...)
				emitRead("overflow", v, max, randPlan(rng, s, 1+rng.Intn(9)), bodies, "EOverflow", true)
			}
		case 5: // arbitrary bytes
			s := make([]byte, rng.Intn(24))
			rng.Read(s)
			if rng.Intn(2) == 0 { // bias towards small lengths so that bodies get read
				for k := range s {
					if rng.Intn(2) == 0 {
						s[k] = byte(rng.Intn(6))
					}
				}
			}
			emitRead("garbage", v, max, randPlan(rng, s, 1+rng.Intn(5)), nil, "", true)
		}
	}

	// (2) every chunking of small streams (exhaustive over cut positions)
	for i := 0; i < nSmallStreams; i++ {
		v := variants[i%len(variants)]
		max := 6
		var bodies [][]byte
		bodies = append(bodies, mkBody(rng, 3), mkBody(rng, 0), mkBody(rng, 2+rng.Intn(2)))
		flat, _ := writeFrames(v, bodies)
		want := bodies
		wantErr := "EEOF"
		if i%2 == 1 { // a faulty small stream: cut the last byte
			flat = flat[:len(flat)-1]
			want = bodies[:2]
			wantErr = "EEOF EUnexpectedEOF"
		}
		if len(flat) > 12 {
			flat = flat[:12]
			want, wantErr = nil, ""
		}
		n := len(flat)
		for mask := 0; mask < 1<<(n-1); mask++ {
			var plan [][]byte
			start := 0
			for p := 1; p < n; p++ {
				if mask&(1<<(p-1)) != 0 {
					plan = append(plan, flat[start:p])
					start = p
				}
			}
			plan = append(plan, flat[start:])
			emitRead("allchunkings", v, max, plan, want, wantErr, mask != 0)
		}
	}
	t.Logf("C18 harness: %d cases", out.N)
}
