(* C05 — Chain-key announcements: recipient-only, exact, and reaching every member.
   Statements only.  Symbolic cryptography: the agreement of a device key and a member key is
   the unordered pair of their identifiers; a box opens only under the same agreement and nonce.
   Group binding is through the nonce = first 24 bytes of the group id, so two groups are told
   apart iff their ids differ there (hypothesis of [C05_wrong_group]).
   PARTIAL for the last clause (every device ends up holding every chain key): the theorem
   [C05_distribution_complete] is about the rule system of Model/C05_ChainKeyAnn.v; that
   group_context.go implements these rules is checked by the distribution stream of the harness
   (real GroupContexts, converged logs must be quiescent for the rule system).
   The receiving side (which of the announcements in the log a device registers) is
   Model/C05_Receive.v: [C05_late_device_complete] holds for every split of the log into what the
   device held when it was activated and what arrived afterwards; the two paths of
   group_context.go are tied to it by the generated description of their statements
   ([C05_receiving_paths_unconditional]) and by the per-device cases of the distribution stream.
   "Registering it makes exactly the sender's subsequent messages openable" is C02
   (C02_store_refines_ratchet / C02_never_before_c) applied to the decrypted (counter, chain). *)
From Coq Require Import List NArith Bool.
From Coq Require Import Permutation String.
From Wesh Require Import Model.Store Model.C05_ChainKeyAnn Proofs.C05_ChainKeyAnn Model.C05_Receive Proofs.C05_Receive.
From Wesh Require Import Gen.Distribution GenFacts.DistributionFacts.
Import ListNotations.
Open Scope N_scope.

Theorem C05_roundtrip :
  forall dev member gn ctr ck, decrypt_ck (encrypt_ck dev member gn ctr ck) gn member dev = Some (ctr, ck).
Proof. exact ck_roundtrip. Qed.

Theorem C05_opens_iff :
  forall dev member gn ctr ck gn' member' dev' r,
    decrypt_ck (encrypt_ck dev member gn ctr ck) gn' member' dev' = Some r ->
    r = (ctr, ck) /\ gn' = gn /\ pairkey dev' member' = pairkey dev member.
Proof. exact ck_opens_iff. Qed.

Theorem C05_wrong_recipient :
  forall dev member gn ctr ck member', member' <> member ->
    decrypt_ck (encrypt_ck dev member gn ctr ck) gn member' dev = None.
Proof. exact ck_wrong_recipient. Qed.

Theorem C05_wrong_sender :
  forall dev member gn ctr ck dev', dev' <> dev ->
    decrypt_ck (encrypt_ck dev member gn ctr ck) gn member dev' = None.
Proof. exact ck_wrong_sender. Qed.

Theorem C05_wrong_group :
  forall dev member gn ctr ck gn', gn' <> gn ->
    decrypt_ck (encrypt_ck dev member gn ctr ck) gn' member dev = None.
Proof. exact ck_wrong_group. Qed.

Theorem C05_altered_rejected : forall gn member dev, decrypt_ck CJunk gn member dev = None.
Proof. exact ck_altered_rejected. Qed.

Theorem C05_distribution_complete :
  forall log m d m' s,
    quiescent log = true ->
    In (MemberDevice m d) log -> In (MemberDevice m' s) log ->
    knows log d s = true.
Proof. exact distribution_complete. Qed.

(* the receiving side: a device registers exactly the announcements addressed to its member, wherever
   its activation falls in the history and in whatever order the rest arrives *)
Theorem C05_registered_exact :
  forall me before after s,
    In s (registered me before after) <-> In (ChainKeyFor s me) (before ++ after).
Proof. exact registered_exact. Qed.

Theorem C05_registered_split_independent :
  forall me b1 a1 b2 a2 s,
    Permutation (b1 ++ a1) (b2 ++ a2) ->
    (In s (registered me b1 a1) <-> In s (registered me b2 a2)).
Proof. exact registered_split_independent. Qed.

(* ... so that at quiescence a device activated at ANY point of the history (a late second device of a
   member, a device that was offline) holds the key of every announced device *)
Theorem C05_late_device_complete :
  forall me d m' s before after,
    quiescent (before ++ after) = true ->
    In (MemberDevice me d) (before ++ after) -> member_of (before ++ after) d = Some me ->
    In (MemberDevice m' s) (before ++ after) ->
    holds me before after s = true.
Proof. exact late_device_complete. Qed.

(* why neither path may look at the sender's device announcement: a history path that skips the
   announcements of not yet announced senders loses a key even when the live path defers them
   (a joining device publishes its chain keys BEFORE it announces itself); deferring in both is
   complete again *)
Theorem C05_guarded_scan_loses_a_key :
  exists me before after s m,
    In (ChainKeyFor s me) (before ++ after) /\ In (MemberDevice m s) (before ++ after) /\
    ~ In s (registered_guarded me before after) /\ In s (registered me before after).
Proof. exact guarded_scan_loses_a_key. Qed.

Theorem C05_deferred_complete :
  forall me before after s m,
    In (ChainKeyFor s me) (before ++ after) -> In (MemberDevice m s) (before ++ after) ->
    In s (registered_deferred me before after).
Proof. exact deferred_complete. Qed.

(* the CURRENT source (generated): both paths hand every announcement the filter lets through to
   RegisterChainKey, and the filter rejects by type, decoding and destination member only *)
Theorem C05_receiving_paths_unconditional :
  (scan_skips = ["metadata==nil";
                 "errcode.Is(err,errcode.ErrCode_ErrInvalidInput)||errcode.Is(err,errcode.ErrCode_ErrGroupSecretOtherDestMember)";
                 "err!=nil"] /\
   live_ignored_errors = ["errcode.ErrCode_ErrInvalidInput"; "errcode.ErrCode_ErrGroupSecretOtherDestMember"] /\
   List.nth 2 live_chain_key_steps "" = "if err = gc.SecretStore().RegisterChainKey(gc.ctx,gc.Group(),senderPublicKey,encryptedDeviceChainKey); err!=nil" /\
   List.nth 4 filter_rejects "" = "!localMemberPublicKey.Equals(destMemberPubKey) => errcode.ErrCode_ErrGroupSecretOtherDestMember" /\
   List.length filter_rejects = 5%nat)%string.
Proof.
  destruct history_path_registers_all_addressed as [H1 _].
  destruct live_path_registers_all_addressed as [H2 H3].
  pose proof filter_rejects_by_destination_only as H4.
  rewrite H1, H2, H3, H4. repeat split; reflexivity.
Qed.

(* non-vacuity: three members (one with two devices) joining in some order reach quiescence
   after the announcements are sent, and then everybody knows everybody *)
Example C05_nonvacuous :
  let log0 := [MemberDevice 1 11; MemberDevice 2 21; MemberDevice 1 12; MemberDevice 3 31] in
  let log := saturate 20 log0 in
  quiescent log0 = false /\ quiescent log = true /\ List.length log = 16%nat /\ knows log 12 31 = true.
Proof. vm_compute. repeat split. Qed.

(* non-vacuity of the late-device theorem: device 12 of member 1 is activated holding the chain key of
   the joining device 21 but not yet its announcement; the saturated log is quiescent and 12 holds 21 *)
Example C05_late_device_nonvacuous :
  let before := [MemberDevice 1 11; ChainKeyFor 11 1; ChainKeyFor 21 1] in
  let after := skipn 3 (saturate 20 (before ++ [MemberDevice 2 21; MemberDevice 1 12])) in
  quiescent (before ++ after) = true /\ In (MemberDevice 1 12) (before ++ after) /\
  member_of (before ++ after) 12 = Some 1 /\ In (MemberDevice 2 21) (before ++ after) /\
  holds 1 before after 21 = true.
Proof. vm_compute. repeat split; tauto. Qed.

(* the two instants of an activation: the live path sees what arrives from the subscription on, the history
   path the log as it stands at its snapshot.  Subscription first (i_sub <= i_snap): exactly the announcements
   addressed to the member are registered, wherever each falls relative to the two instants, in any arrival
   order; snapshot first: a witness loses the key that arrives in between; and the CURRENT source subscribes
   first (generated fact) *)
Theorem C05_activation_window_complete :
  forall me L i_sub i_snap, (i_sub <= i_snap)%nat ->
    forall s, In s (registered_window me L i_sub i_snap) <-> In s (flat_map (addressed me) L).
Proof.
  intros me L i_sub i_snap H s. split;
    [apply activation_window_sound | apply activation_window_complete; exact H].
Qed.

Theorem C05_scan_before_subscription_refuted :
  let L := [MemberDevice 1 10; ChainKeyFor 20 1; MemberDevice 2 20] in
  holds_window 1 L 2 1 20 = false /\ In 20 (flat_map (addressed 1) L) /\ holds_window 1 L 1 2 20 = true.
Proof. exact scan_before_subscription_loses_a_key. Qed.

Theorem C05_activation_subscribes_first :
  activate_order = ["Subscribe"; "handleGroupMetadataEvent"; "fillMessageKeysHolderUsingPreviousData";
                    "sendSecretsToExistingMembers"; "AddDeviceToGroup"]%string.
Proof. exact activation_subscribes_first. Qed.

Print Assumptions C05_roundtrip.
Print Assumptions C05_opens_iff.
Print Assumptions C05_wrong_recipient.
Print Assumptions C05_wrong_sender.
Print Assumptions C05_wrong_group.
Print Assumptions C05_altered_rejected.
Print Assumptions C05_distribution_complete.
Print Assumptions C05_registered_exact.
Print Assumptions C05_registered_split_independent.
Print Assumptions C05_late_device_complete.
Print Assumptions C05_guarded_scan_loses_a_key.
Print Assumptions C05_deferred_complete.
Print Assumptions C05_receiving_paths_unconditional.
Print Assumptions C05_activation_window_complete.
Print Assumptions C05_scan_before_subscription_refuted.
Print Assumptions C05_activation_subscribes_first.
