(* C05 — Chain-key announcements: recipient-only, exact, and reaching every member.
   Statements only.  Symbolic cryptography: the agreement of a device key and a member key is
   the unordered pair of their identifiers; a box opens only under the same agreement and nonce.
   Group binding is through the nonce = first 24 bytes of the group id, so two groups are told
   apart iff their ids differ there (hypothesis of [C05_wrong_group]).
   PARTIAL for the last clause (every device ends up holding every chain key): the theorem
   [C05_distribution_complete] is about the rule system of Model/C05_ChainKeyAnn.v; that
   group_context.go implements these rules is checked by the distribution stream of the harness
   (real GroupContexts, converged logs must be quiescent for the rule system).
   "Registering it makes exactly the sender's subsequent messages openable" is C02
   (C02_store_refines_ratchet / C02_never_before_c) applied to the decrypted (counter, chain). *)
From Coq Require Import List NArith Bool.
From Wesh Require Import Model.Store Model.C05_ChainKeyAnn Proofs.C05_ChainKeyAnn.
Import ListNotations.
Open Scope N_scope.

Theorem C05_roundtrip :
  forall dev member gn ctr ck, decrypt_ck (encrypt_ck dev member gn ctr ck) gn member dev = Some (ctr, ck).
Proof. exact ck_roundtrip. Qed.

Theorem C05_opens_iff :
  forall dev member gn ctr ck gn' member' dev' r,
    decrypt_ck (encrypt_ck dev member gn ctr ck) gn' member' dev' = Some r ->
    r = (ctr, ck) /\ gn' = gn /\ pairkey dev' member' = pairkey dev member.
Proof. exact ck_opens_iff. Qed.

Theorem C05_wrong_recipient :
  forall dev member gn ctr ck member', member' <> member ->
    decrypt_ck (encrypt_ck dev member gn ctr ck) gn member' dev = None.
Proof. exact ck_wrong_recipient. Qed.

Theorem C05_wrong_sender :
  forall dev member gn ctr ck dev', dev' <> dev ->
    decrypt_ck (encrypt_ck dev member gn ctr ck) gn member dev' = None.
Proof. exact ck_wrong_sender. Qed.

Theorem C05_wrong_group :
  forall dev member gn ctr ck gn', gn' <> gn ->
    decrypt_ck (encrypt_ck dev member gn ctr ck) gn' member dev = None.
Proof. exact ck_wrong_group. Qed.

Theorem C05_altered_rejected : forall gn member dev, decrypt_ck CJunk gn member dev = None.
Proof. exact ck_altered_rejected. Qed.

Theorem C05_distribution_complete :
  forall log m d m' s,
    quiescent log = true ->
    In (MemberDevice m d) log -> In (MemberDevice m' s) log ->
    knows log d s = true.
Proof. exact distribution_complete. Qed.

(* non-vacuity: three members (one with two devices) joining in some order reach quiescence
   after the announcements are sent, and then everybody knows everybody *)
Example C05_nonvacuous :
  let log0 := [MemberDevice 1 11; MemberDevice 2 21; MemberDevice 1 12; MemberDevice 3 31] in
  let log := saturate 20 log0 in
  quiescent log0 = false /\ quiescent log = true /\ length log = 16%nat /\ knows log 12 31 = true.
Proof. vm_compute. repeat split. Qed.

Print Assumptions C05_roundtrip.
Print Assumptions C05_opens_iff.
Print Assumptions C05_wrong_recipient.
Print Assumptions C05_wrong_sender.
Print Assumptions C05_wrong_group.
Print Assumptions C05_altered_rejected.
Print Assumptions C05_distribution_complete.
