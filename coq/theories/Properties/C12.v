(* C12 — Invitations are self-authenticating; replication descriptors cannot read.
   Statements only.  Symbolic cryptography as in C03 (a signature term is the only thing that
   verifies under its key over its bytes; one-way derivations are constructors nothing inverts;
   a box opens only under the secret it was sealed with). *)
From Coq Require Import List NArith Bool.
From Coq Require Import String.
From Wesh Require Import Gen.Join GenFacts.JoinFacts Model.C03_Events Model.C12_Invitations Proofs.C12_Invitations.
Import ListNotations.
Open Scope N_scope.

(* an invitation is accepted only if it designates a multi-member group and its secret is signed
   by the group key (and the account is not a member yet); then exactly one event is appended *)
Theorem C12_join_accepted_spec :
  forall a g a', group_join a g = (a', true) ->
    gr_type g = GMulti /\ (exists k, gr_pk g = KeyOk k /\ gr_sig g = SigBy k (gr_secret g)) /\
    in_list (group_key g) (joined a) = false /\
    a' = mkAcct (group_key g :: joined a) (appended a ++ [group_key g]).
Proof. exact join_accepted_spec. Qed.

Theorem C12_valid_invitation_accepted :
  forall a g k, gr_type g = GMulti -> gr_pk g = KeyOk k -> gr_sig g = SigBy k (gr_secret g) ->
    in_list k (joined a) = false -> snd (group_join a g) = true.
Proof. exact join_complete. Qed.

(* joining fails and nothing is appended *)
Theorem C12_refused_appends_nothing : forall a g a', group_join a g = (a', false) -> a' = a.
Proof. exact join_refused_unchanged. Qed.

(* ... for any change to the group type *)
Theorem C12_changed_type_refused : forall a g, gr_type g <> GMulti -> snd (group_join a g) = false.
Proof. exact changed_type_refused. Qed.

(* ... to the secret *)
Theorem C12_changed_secret_refused :
  forall a g k s, gr_sig g = SigBy k s -> s <> gr_secret g -> snd (group_join a g) = false.
Proof. exact changed_secret_refused. Qed.

(* ... to the identifier *)
Theorem C12_changed_identifier_refused :
  forall a g k s k', gr_sig g = SigBy k s -> gr_pk g = KeyOk k' -> k' <> k -> snd (group_join a g) = false.
Proof. exact changed_identifier_refused. Qed.

Theorem C12_missing_identifier_refused : forall a g, gr_pk g = KeyBad -> snd (group_join a g) = false.
Proof. exact missing_identifier_refused. Qed.

(* ... to the signature *)
Theorem C12_damaged_signature_refused :
  forall a g, gr_sig g = SigNone \/ gr_sig g = SigJunk -> snd (group_join a g) = false.
Proof. exact damaged_signature_refused. Qed.

(* in a group it joined by invitation an account acts under keys derived for that group *)
Theorem C12_joined_group_identity :
  forall a g a' proof, group_join a g = (a', true) ->
    exists k, member_identity proof g = IdDerived proof k /\ gr_pk g = KeyOk k.
Proof. exact joined_group_identity. Qed.

(* the pinned GroupJoin (no type check) is refuted by a type-substituted invitation *)
Theorem C12_untyped_join_refuted :
  let g := mkGroup (KeyOk 5) 7 (SigBy 5 7) GContact 0 0 in
  snd (group_join_untyped (mkAcct [] []) g) = true /\ member_identity 1 g = IdAccount /\
  snd (group_join (mkAcct [] []) g) = false.
Proof. exact untyped_join_refuted. Qed.

(* the descriptor handed to a replication service never contains the group secret *)
Theorem C12_descriptor_has_no_secret :
  forall g, d_secret (filter_group g) = TNone /\
            is_secret_term (d_signpub (filter_group g)) = false /\
            is_secret_term (d_linkkey (filter_group g)) = false.
Proof. intros g. destruct (descriptor_fields_not_secret g) as [_ [H2 H3]]. repeat split; assumption. Qed.

(* it opens no metadata event and no message header of the group (both boxes use the group secret) *)
Theorem C12_descriptor_opens_nothing :
  forall g gpk e, gr_secret g <> 0 -> e_boxkey e = gr_secret g ->
    open_env (desc_shared_secret (filter_group g)) gpk e = false.
Proof. exact descriptor_opens_nothing. Qed.

(* and still designates the same log addresses (and link key) as the full group *)
Theorem C12_descriptor_same_addresses :
  forall g store, log_address_desc (filter_group g) store = log_address_group g store.
Proof. exact descriptor_same_addresses. Qed.

Theorem C12_descriptor_same_linkkey : forall g, d_linkkey (filter_group g) = link_key g.
Proof. exact descriptor_same_linkkey. Qed.

(* the guard the model assumes is the guard of the current source (generated facts) *)
Theorem C12_source_guards :
  (existsb (fun g => mentions "GroupType_GroupTypeMultiMember" g && mentions "!=" g) group_join_guards = true /\
   existsb (fun g => mentions "IsValid()" g && mentions "err!=nil" g) group_join_guards = true /\
   existsb (mentions "checkIfInGroup(g.PublicKey)") group_join_guards = true /\
   group_join_appends_last = true) /\
  (is_valid_verifies = [("m.GetPubKey", "m.Secret", "m.SecretSig")] /\ is_valid_ok_tests = 1%nat) /\
  (account_key_group_types = ["GroupType_GroupTypeAccount"; "GroupType_GroupTypeContact"] /\
   derived_key_group_types = ["GroupType_GroupTypeMultiMember"]).
Proof. exact (conj group_join_guarded (conj is_valid_skeleton identity_by_group_type)). Qed.

(* through the service: the secret store keeps the FIRST group written for an identifier.  As the
   CURRENT source has it (generated fact: MultiMemberGroupJoin checks through GroupJoin and stores
   nothing before), a refused invitation leaves the registry alone and the genuine one joined later is
   what the node finds under the group's key; storing before checking would keep the refused group *)
Theorem C12_refused_invitation_leaves_no_group :
  (forall a r k bad g a1 r1 a2 r2,
     reg_find k r = None ->
     service_join a r k bad = (a1, r1, false) -> service_join a1 r1 k g = (a2, r2, true) ->
     reg_find k r2 = Some g) /\
  (forall a r k bad g a1 r1 a2 r2 ok1 ok2,
     reg_find k r = None ->
     service_join_store_first a r k bad = (a1, r1, ok1) -> service_join_store_first a1 r1 k g = (a2, r2, ok2) ->
     reg_find k r2 = Some bad) /\
  (service_join_steps = [("accountGroup.MetadataStore().GroupJoin", true)] /\
   service_create_steps = [("accountGroup.MetadataStore().GroupJoin", true); ("s.secretStore.PutGroup", true)])%string.
Proof. exact (conj refused_then_genuine (conj store_first_keeps_the_refused_group service_checks_before_it_stores)). Qed.

Print Assumptions C12_refused_invitation_leaves_no_group.
Print Assumptions C12_source_guards.
Print Assumptions C12_join_accepted_spec.
Print Assumptions C12_valid_invitation_accepted.
Print Assumptions C12_refused_appends_nothing.
Print Assumptions C12_changed_type_refused.
Print Assumptions C12_changed_secret_refused.
Print Assumptions C12_changed_identifier_refused.
Print Assumptions C12_missing_identifier_refused.
Print Assumptions C12_damaged_signature_refused.
Print Assumptions C12_joined_group_identity.
Print Assumptions C12_untyped_join_refuted.
Print Assumptions C12_descriptor_has_no_secret.
Print Assumptions C12_descriptor_opens_nothing.
Print Assumptions C12_descriptor_same_addresses.
Print Assumptions C12_descriptor_same_linkkey.
