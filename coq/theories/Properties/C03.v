(* C03 — Only correctly signed metadata events reach group state and subscribers.
   Statements only.  [open_env secret gpk e] is openGroupEnvelope for the group with shared
   secret [secret] and public key [gpk] (symbolic cryptography: a signature term [SigBy k d] is
   the only thing that verifies under k over d; a box opens only under the secret it was sealed
   with).  The type -> checker table is the one GENERATED from events.go on every run; the facts
   about it (GenFacts.EventsFacts) are re-proved on every run. *)
From Coq Require Import List NArith Bool String.
From Wesh Require Import Gen.Events GenFacts.EventsFacts Model.C03_Events Proofs.C03_Events Model.MetaLog Proofs.MetaLog.
Import ListNotations.
Open Scope N_scope.

(* an event is opened only if it decrypts under the group secret, is of a known type, and carries
   a valid signature, over exactly the payload presented, of the right signer for its type: the
   device named inside the event, the group key for the initial-member announcement, both the
   member key (over the device key) and the device key for a member-device announcement *)
Theorem C03_open_requires_right_signer :
  forall secret gpk e,
    open_env secret gpk e = true ->
    e_boxkey e = secret /\ e_wellformed e = true /\
    checker_of (e_type e) event_checkers = Some (documented_checker (e_type e)) /\
    signed_as_required gpk e.
Proof. exact open_sound. Qed.

(* and honest events do open (the theorem above is not vacuous) *)
Theorem C03_honest_events_open :
  forall secret gpk e,
    e_boxkey e = secret -> e_wellformed e = true ->
    checker_of (e_type e) event_checkers <> None -> signed_as_required gpk e ->
    open_env secret gpk e = true.
Proof. exact open_complete. Qed.

(* the table of the current source: every protocol event type has a checker, each the documented one *)
Theorem C03_every_type_has_its_checker :
  forallb (fun tn => (snd tn =? 0) || existsb (fun r => fst r =? snd tn) event_checkers) event_types = true /\
  (forall t c, checker_of t event_checkers = Some c -> c = documented_checker t /\ t <> 0).
Proof. split; [exact all_types_mapped | exact checker_of_documented]. Qed.

(* the checkers verify what the model says they verify, and test every verdict *)
Theorem C03_checker_skeletons :
  (chk_device_verifies = [("msg.GetDevicePk()", "metadata.Payload", "metadata.Sig")]%string /\
   chk_device_calls = [] /\ chk_device_ok_tests = 2%nat /\ chk_device_verdicts = 1%nat) /\
  (chk_group_verifies = [("g.GetPubKey", "metadata.Payload", "metadata.Sig")]%string /\
   chk_group_calls = [] /\ chk_group_ok_tests = 1%nat /\ chk_group_verdicts = 1%nat) /\
  (chk_member_device_verifies = [("msg.MemberPk", "msg.DevicePk", "msg.MemberSig")]%string /\
   chk_member_device_calls = ["sigCheckerDeviceSigned"]%string /\
   chk_member_device_ok_tests = 2%nat /\ chk_member_device_verdicts = 1%nat) /\
  open_consults_checker = true.
Proof.
  exact (conj device_checker_skeleton (conj group_checker_skeleton (conj member_device_checker_skeleton open_uses_the_table))).
Qed.

(* the forgery catalogue *)
Theorem C03_wrong_group_secret_rejected :
  forall secret gpk e, e_boxkey e <> secret -> open_env secret gpk e = false.
Proof. exact wrong_secret_rejected. Qed.

Theorem C03_unknown_type_rejected :
  forall secret gpk e, checker_of (e_type e) event_checkers = None -> open_env secret gpk e = false.
Proof. exact unknown_type_rejected. Qed.

Theorem C03_type_zero_unknown : checker_of 0 event_checkers = None.
Proof. exact type_zero_unknown. Qed.

Theorem C03_missing_signature_rejected :
  forall secret gpk e, e_sig e = SigNone \/ e_sig e = SigJunk -> open_env secret gpk e = false.
Proof. exact missing_signature_rejected. Qed.

(* payload bit flips; signer field swapped after signing: the signature is over other bytes *)
Theorem C03_altered_payload_rejected :
  forall secret gpk e k p, e_sig e = SigBy k p -> p <> e_payload e -> open_env secret gpk e = false.
Proof. exact altered_payload_rejected. Qed.

(* signature by another device, the group key or the member key on a device-signed event *)
Theorem C03_device_event_other_key_rejected :
  forall secret gpk e k p d,
    documented_checker (e_type e) = ChkDevice ->
    e_dev e = KeyOk d -> e_sig e = SigBy k p -> k <> d -> open_env secret gpk e = false.
Proof. exact device_event_other_key_rejected. Qed.

(* signature by a device or member key on the initial-member announcement *)
Theorem C03_group_event_other_key_rejected :
  forall secret gpk e k p,
    documented_checker (e_type e) = ChkGroup -> e_sig e = SigBy k p -> k <> gpk -> open_env secret gpk e = false.
Proof. exact group_event_other_key_rejected. Qed.

Theorem C03_member_device_event_needs_both :
  forall secret gpk e,
    documented_checker (e_type e) = ChkMemberDevice ->
    (forall m d, e_member e = KeyOk m -> e_dev e = KeyOk d ->
                 e_membersig e <> SigBy m d \/ e_sig e <> SigBy d (e_payload e)) ->
    open_env secret gpk e = false.
Proof. exact member_device_event_needs_both. Qed.

Theorem C03_bad_signer_field_rejected :
  forall secret gpk e, documented_checker (e_type e) <> ChkGroup -> e_dev e = KeyBad -> open_env secret gpk e = false.
Proof. exact bad_signer_field_rejected. Qed.

(* dropped events leave the state unchanged: an entry that does not open contributes nothing to
   the index, wherever it sorts in the log and whatever was indexed before *)
Theorem C03_dropped_event_leaves_state_unchanged :
  forall own prev es c i k, update_index own prev (mkE c i (ENoop k) :: es) = update_index own prev es.
Proof. exact dropped_event_no_effect. Qed.

Print Assumptions C03_open_requires_right_signer.
Print Assumptions C03_honest_events_open.
Print Assumptions C03_every_type_has_its_checker.
Print Assumptions C03_checker_skeletons.
Print Assumptions C03_wrong_group_secret_rejected.
Print Assumptions C03_unknown_type_rejected.
Print Assumptions C03_type_zero_unknown.
Print Assumptions C03_missing_signature_rejected.
Print Assumptions C03_altered_payload_rejected.
Print Assumptions C03_device_event_other_key_rejected.
Print Assumptions C03_group_event_other_key_rejected.
Print Assumptions C03_member_device_event_needs_both.
Print Assumptions C03_bad_signer_field_rejected.
Print Assumptions C03_dropped_event_leaves_state_unchanged.
