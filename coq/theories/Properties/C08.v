(* C08 — Every decryptable message in the log is delivered, none stays parked.
   Statements only.  Model: Model.C08_Pipeline — arrival thread, consumer loop and registrar of
   store_message.go as a labelled transition system with one step per scheduling point (the
   points the check injects into the current source); [reachable (init arr rs) s]: s is reached
   from the initial state by ANY interleaving, for the entries [arr] (any devices, counters, order,
   repetitions) and the chain-key registrations [rs] (device, first counter that opens).
   [quiescent s]: no thread can move (the consumer is parked on an empty queue, everything has
   arrived and been registered) — the model's reading of "no further event". *)
From Coq Require Import List NArith Bool Arith.
From Coq Require Import String.
From Wesh Require Import Model.C08_Pipeline Proofs.C08_Pipeline Proofs.C08_Termination Gen.Pipeline GenFacts.PipelineFacts.
From Wesh Require Model.Store Model.C02_Ratchet Model.C08_Window Proofs.C08_Window Gen.Consts GenFacts.ConstsFacts.
From Coq Require Permutation.
Import ListNotations.
Open Scope N_scope.

(* whatever the order of arrival, the registrations and the schedule: once nothing can move, every
   entry that opens under a chain key the device holds has been delivered *)
Theorem C08_every_decryptable_delivered :
  forall arr rs s, reachable (init arr rs) s -> quiescent s ->
    forall m, In m arr -> decryptable (keys s) m = true -> In m (delivered s).
Proof. exact every_decryptable_delivered. Qed.

(* ... exactly once per arrival of the entry; in particular none of them is parked, queued or held *)
Theorem C08_delivered_once_per_arrival :
  forall arr rs s, reachable (init arr rs) s -> quiescent s ->
    forall m, decryptable (keys s) m = true -> cnt m (delivered s) = cnt m (arrived s).
Proof. exact no_stranded. Qed.

(* in every reachable state: what has been delivered had arrived, not more often than it arrived,
   and opened under a known key (original sender and payload: a message is delivered as the very
   value that arrived) *)
Theorem C08_delivered_sound :
  forall arr rs s, reachable (init arr rs) s ->
    forall m, (cnt m (delivered s) <= cnt m (arrived s))%nat /\
              (In m (delivered s) -> decryptable (keys s) m = true).
Proof. exact delivered_sound. Qed.

(* the invariant behind it, preserved by every step of every thread *)
Theorem C08_invariant : forall arr rs s, reachable (init arr rs) s -> Inv s.
Proof. exact reachable_inv. Qed.

Theorem C08_quiescent_shape :
  forall s, Inv s -> quiescent s ->
    arrivals s = [] /\ fifo s = [] /\ cons s = CWait /\ reg s = RReg /\ regs s = [].
Proof. exact quiescent_shape. Qed.

Theorem C08_mutual_exclusion :
  forall arr rs s, reachable (init arr rs) s -> cons_holds_lock (cons s) && reg_holds_lock (reg s) = false.
Proof. exact mutual_exclusion. Qed.

(* the pinned code is refuted by two interleavings/histories found by running the model *)
Theorem C08_pinned_park_outside_lock_refuted :
  match run_pinned (init [m1] [(7, 0)]) stranding_schedule with
  | Some s => (forall t, step_pinned s t = None) /\ decryptable (keys s) m1 = true /\
              delivered s = [] /\ parked_of s 7 = [m1]
  | None => False
  end.
Proof. exact pinned_park_outside_lock_strands. Qed.

Theorem C08_pinned_head_only_refuted :
  match run_pinned (init [m_old; m_new] [(7, 5)])
          [TA; TA; TC; TC; TC; TC; TC; TC; TC; TC; TR; TR; TR; TR; TC; TC; TC; TC; TC] with
  | Some s => (forall t, step_pinned s t = None) /\ decryptable (keys s) m_new = true /\
              delivered s = [] /\ In m_new (parked_of s 7)
  | None => False
  end.
Proof. exact pinned_head_only_strands. Qed.

(* the shape the LTS follows is the shape of the CURRENT store_message.go (generated facts): whole-body
   critical section with the park inside it, flush of the whole queue under the same mutex without an
   early return, the loop's three outcomes, and the only writers of the chain-key flag *)
Theorem C08_source_skeleton :
  (pipe_get_or_create = ["lock m.muDeviceCaches"; "defer unlock m.muDeviceCaches"; "call IsChainKeyKnownForDevice"; "call Add"] /\
   pipe_register = ["lock m.muDeviceCaches"; "call UnmarshalEd25519PublicKey"; "call IsChainKeyKnownForDevice";
                    "call processDeviceMessagesInQueue"; "unlock m.muDeviceCaches"] /\
   pipe_loop = ["call WaitForItem"; "call getOrCreateDeviceCache"; "call Emit"; "call processMessage"; "call Add"; "call Emit";
                "call processDeviceMessagesInQueue"; "call Emit"] /\
   chain_key_flag_writers = ["ProcessMessageQueueForDevicePK"; "getOrCreateDeviceCache"] /\
   chain_key_flag_users = ["ProcessMessageQueueForDevicePK"; "getOrCreateDeviceCache"] /\
   pipe_returns = (2, 0)%nat)%string.
Proof. exact pipeline_shape. Qed.

(* ... and the conditions around the calls of the loop (what the window model's consumer step follows):
   re-park under the error test and nothing else, flush after a success unconditionally *)
Theorem C08_source_loop_guards :
  pipe_loop_guards =
    ["call WaitForItem"; "if !ok ends return"; "call getOrCreateDeviceCache"; "if device==nil ends continue";
     "if !hasKnownChainKey ends continue"; "call Emit @ else(device==nil) @ !hasKnownChainKey"; "call processMessage";
     "if err!=nil ends continue"; "call Add @ err!=nil"; "call Emit @ err!=nil"; "call processDeviceMessagesInQueue";
     "call Emit"; "if err!=nil ends next"]%string.
Proof. exact pipeline_loop_guards. Qed.

(* termination: no schedule is infinite - the step relation is well founded on the states that satisfy
   the invariant (all reachable ones), so "once nothing can move" above is not a vacuous premise: every
   run gets there.  The measure: flushes still possible, then the distance of messages and registrar
   from the end of their path (Proofs/C08_Termination.v) *)
Theorem C08_terminates :
  (forall s, Inv s -> Acc steps_to s) /\
  (forall arr rs (f : nat -> thread), ~ (forall n, exists s, follow (init arr rs) (prefix f n) = Some s)).
Proof. exact (conj terminates no_infinite_schedule). Qed.

(* liveness: from every reachable state the run can be completed, and at its end - at the end of ANY
   run, by C08_every_decryptable_delivered - every entry that opens has been delivered *)
Theorem C08_eventually_delivered :
  forall arr rs s,
    reachable (init arr rs) s ->
    exists ts s', follow s ts = Some s' /\ quiescent s' /\
                  forall m, In m arr -> decryptable (keys s') m = true -> In m (delivered s').
Proof. exact eventually_delivered. Qed.

(* ---------------------------------------------------------------------------------------------
   The key window.  Model.C08_Window: the consumer loop run sequentially over C02's abstract ratchet
   (which the datastore-level store model refines, C02_store_refines_ratchet), for ANY window W, any
   number of sender devices and any history of arrivals (any order, any repetition), registrations
   (RegisterChainKey + ProcessMessageQueueForDevicePK) and rests of the loop.  A decryptable message
   that lies beyond the precomputed keys does not open yet and is parked with the key known; the
   theorems say that the retry discipline (every success of a device re-injects its whole parked
   queue) never leaves one parked that opens. *)
Module Win.
Import Model.C02_Ratchet Model.C08_Window Proofs.C08_Window Permutation.

(* the loop always comes to rest (the fuel the model runs with is enough, for every state) *)
Theorem C08_window_loop_terminates :
  forall W s, exists s', drain W (fuel_for s) s = Some s' /\ w_fifo s' = [].
Proof. exact drain_total. Qed.

Theorem C08_window_history_total : forall W ops, exists s, wfinal W ops = Some s.
Proof. exact wfinal_total. Qed.

(* at rest after ANY history: nothing is queued, no parked message opens in the ratchet state reached,
   and every entry that opens has been delivered exactly once per arrival *)
Theorem C08_window_none_stranded :
  forall W ops s, wfinal W ops = Some s ->
    w_fifo s = [] /\
    (forall m, In m (w_parked s) -> opens W (w_rat s) m = false) /\
    (forall m, opens W (w_rat s) m = true -> wcnt m (w_delivered s) = wcnt m (arrivals_of ops)).
Proof. exact window_none_stranded. Qed.

(* never more often than it arrived, and only what the ratchet opens *)
Theorem C08_window_sound :
  forall W ops s, wfinal W ops = Some s ->
    forall m, (wcnt m (w_delivered s) <= wcnt m (arrivals_of ops))%nat /\
    (In m (w_delivered s) -> opens W (w_rat s) m = true).
Proof. exact window_sound. Qed.

(* a backlog of ANY length: if the messages c+1 .. c+j of a device registered at c have all arrived -
   in any order, mixed with anything else, before or after the registration, j far beyond the window
   or not - every one of them is delivered, once per arrival.  W >= 1 is all that is needed. *)
Theorem C08_window_prefix_complete :
  forall W, (1 <= W)%nat ->
  forall ops s d c, wfinal W ops = Some s -> first_reg d (regs_of ops) = Some c ->
  forall j, (forall i, (1 <= i <= j)%nat -> In (mkW d (c + N.of_nat i)) (arrivals_of ops)) ->
  forall i, (1 <= i <= j)%nat ->
    In (mkW d (c + N.of_nat i)) (w_delivered s) /\
    wcnt (mkW d (c + N.of_nat i)) (w_delivered s) = wcnt (mkW d (c + N.of_nat i)) (arrivals_of ops).
Proof. exact window_prefix_complete. Qed.

(* ... in particular with the window of the CURRENT source (generated constant) *)
Theorem C08_window_prefix_complete_current :
  forall ops s d c,
  wfinal (N.to_nat Gen.Consts.precompute_message_key_count) ops = Some s -> first_reg d (regs_of ops) = Some c ->
  forall j, (forall i, (1 <= i <= j)%nat -> In (mkW d (c + N.of_nat i)) (arrivals_of ops)) ->
  forall i, (1 <= i <= j)%nat -> In (mkW d (c + N.of_nat i)) (w_delivered s).
Proof.
  intros ops s d c H Hr j Ha i Hi.
  refine (proj1 (window_prefix_complete _ _ ops s d c H Hr j Ha i Hi)).
  pose proof GenFacts.ConstsFacts.precompute_message_key_count_pos. Lia.lia.
Qed.

(* what is delivered depends on WHICH entries arrived and on the announcements registered first, not
   on the order of arrival, the batches, the moments the loop rests or the position of the
   registrations among the arrivals *)
Theorem C08_window_order_independent :
  forall W ops1 ops2 s1 s2,
    wfinal W ops1 = Some s1 -> wfinal W ops2 = Some s2 ->
    Permutation (arrivals_of ops1) (arrivals_of ops2) ->
    (forall d, first_reg d (regs_of ops1) = first_reg d (regs_of ops2)) ->
    forall m, wcnt m (w_delivered s1) = wcnt m (w_delivered s2).
Proof. exact window_order_independent. Qed.

(* the invariant behind them, kept by every iteration of the loop and every operation *)
Theorem C08_window_invariant :
  forall W ops s, wrun W winit ops = Some s -> WInv W s.
Proof. intros W ops s H. exact (wrun_inv W ops winit s (inv_init W) H). Qed.

(* why the discipline is needed: two variants that look harmless lose or strand the far-ahead message *)
Theorem C08_window_giveup_refuted :
  let s0 := mkWS far_ahead [] (supd sinit 0 (0, [])) [] far_ahead in
  match drain_with (cstep_giveup 2) 100 s0 with
  | Some s => w_fifo s = [] /\ opens 2 (w_rat s) (mkW 0 4) = true /\ ~ In (mkW 0 4) (w_delivered s) /\ w_parked s = []
  | None => False
  end.
Proof. exact giveup_loses. Qed.

Theorem C08_window_lazyflush_refuted :
  let arr := [mkW 0 4; mkW 0 1; mkW 0 2; mkW 1 9] in
  let s0 := mkWS arr [] (supd sinit 0 (0, [])) [] arr in
  match drain_with (cstep_lazyflush 2) 100 s0 with
  | Some s => w_fifo s = [] /\ opens 2 (w_rat s) (mkW 0 4) = true /\ In (mkW 0 4) (w_parked s)
  | None => False
  end.
Proof. exact lazyflush_strands. Qed.

(* non-vacuity: the far-ahead history under the real discipline, window 2 *)
Example C08_window_nonvacuous :
  match wfinal 2 (WRegister 0 0 :: map WArrive far_ahead) with
  | Some s => map w_ctr (w_delivered s) = [1; 2; 3; 4] /\ w_parked s = []
  | None => False
  end.
Proof. exact far_ahead_delivered. Qed.
End Win.
Export Win.

Print Assumptions C08_terminates.
Print Assumptions C08_eventually_delivered.
Print Assumptions C08_source_skeleton.
Print Assumptions C08_source_loop_guards.
Print Assumptions C08_every_decryptable_delivered.
Print Assumptions C08_delivered_once_per_arrival.
Print Assumptions C08_delivered_sound.
Print Assumptions C08_invariant.
Print Assumptions C08_quiescent_shape.
Print Assumptions C08_mutual_exclusion.
Print Assumptions C08_pinned_park_outside_lock_refuted.
Print Assumptions C08_pinned_head_only_refuted.
Print Assumptions C08_window_loop_terminates.
Print Assumptions C08_window_history_total.
Print Assumptions C08_window_none_stranded.
Print Assumptions C08_window_sound.
Print Assumptions C08_window_prefix_complete.
Print Assumptions C08_window_prefix_complete_current.
Print Assumptions C08_window_order_independent.
Print Assumptions C08_window_invariant.
Print Assumptions C08_window_giveup_refuted.
Print Assumptions C08_window_lazyflush_refuted.
