(* C08 — Every decryptable message in the log is delivered, none stays parked.
   Statements only.  Model: Model.C08_Pipeline — arrival thread, consumer loop and registrar of
   store_message.go as a labelled transition system with one step per scheduling point (the
   points the check injects into the current source); [reachable (init arr rs) s]: s is reached
   from the initial state by ANY interleaving, for the entries [arr] (any devices, counters, order,
   repetitions) and the chain-key registrations [rs] (device, first counter that opens).
   [quiescent s]: no thread can move (the consumer is parked on an empty queue, everything has
   arrived and been registered) — the model's reading of "no further event". *)
From Coq Require Import List NArith Bool Arith.
From Coq Require Import String.
From Wesh Require Import Model.C08_Pipeline Proofs.C08_Pipeline Proofs.C08_Termination Gen.Pipeline GenFacts.PipelineFacts.
Import ListNotations.
Open Scope N_scope.

(* whatever the order of arrival, the registrations and the schedule: once nothing can move, every
   entry that opens under a chain key the device holds has been delivered *)
Theorem C08_every_decryptable_delivered :
  forall arr rs s, reachable (init arr rs) s -> quiescent s ->
    forall m, In m arr -> decryptable (keys s) m = true -> In m (delivered s).
Proof. exact every_decryptable_delivered. Qed.

(* ... exactly once per arrival of the entry; in particular none of them is parked, queued or held *)
Theorem C08_delivered_once_per_arrival :
  forall arr rs s, reachable (init arr rs) s -> quiescent s ->
    forall m, decryptable (keys s) m = true -> cnt m (delivered s) = cnt m (arrived s).
Proof. exact no_stranded. Qed.

(* in every reachable state: what has been delivered had arrived, not more often than it arrived,
   and opened under a known key (original sender and payload: a message is delivered as the very
   value that arrived) *)
Theorem C08_delivered_sound :
  forall arr rs s, reachable (init arr rs) s ->
    forall m, (cnt m (delivered s) <= cnt m (arrived s))%nat /\
              (In m (delivered s) -> decryptable (keys s) m = true).
Proof. exact delivered_sound. Qed.

(* the invariant behind it, preserved by every step of every thread *)
Theorem C08_invariant : forall arr rs s, reachable (init arr rs) s -> Inv s.
Proof. exact reachable_inv. Qed.

Theorem C08_quiescent_shape :
  forall s, Inv s -> quiescent s ->
    arrivals s = [] /\ fifo s = [] /\ cons s = CWait /\ reg s = RReg /\ regs s = [].
Proof. exact quiescent_shape. Qed.

Theorem C08_mutual_exclusion :
  forall arr rs s, reachable (init arr rs) s -> cons_holds_lock (cons s) && reg_holds_lock (reg s) = false.
Proof. exact mutual_exclusion. Qed.

(* the pinned code is refuted by two interleavings/histories found by running the model *)
Theorem C08_pinned_park_outside_lock_refuted :
  match run_pinned (init [m1] [(7, 0)]) stranding_schedule with
  | Some s => (forall t, step_pinned s t = None) /\ decryptable (keys s) m1 = true /\
              delivered s = [] /\ parked_of s 7 = [m1]
  | None => False
  end.
Proof. exact pinned_park_outside_lock_strands. Qed.

Theorem C08_pinned_head_only_refuted :
  match run_pinned (init [m_old; m_new] [(7, 5)])
          [TA; TA; TC; TC; TC; TC; TC; TC; TC; TC; TR; TR; TR; TR; TC; TC; TC; TC; TC] with
  | Some s => (forall t, step_pinned s t = None) /\ decryptable (keys s) m_new = true /\
              delivered s = [] /\ In m_new (parked_of s 7)
  | None => False
  end.
Proof. exact pinned_head_only_strands. Qed.

(* the shape the LTS follows is the shape of the CURRENT store_message.go (generated facts): whole-body
   critical section with the park inside it, flush of the whole queue under the same mutex without an
   early return, the loop's three outcomes, and the only writers of the chain-key flag *)
Theorem C08_source_skeleton :
  (pipe_get_or_create = ["lock m.muDeviceCaches"; "defer unlock m.muDeviceCaches"; "call IsChainKeyKnownForDevice"; "call Add"] /\
   pipe_register = ["lock m.muDeviceCaches"; "call UnmarshalEd25519PublicKey"; "call IsChainKeyKnownForDevice";
                    "call processDeviceMessagesInQueue"; "unlock m.muDeviceCaches"] /\
   pipe_loop = ["call WaitForItem"; "call getOrCreateDeviceCache"; "call Emit"; "call processMessage"; "call Add"; "call Emit";
                "call processDeviceMessagesInQueue"; "call Emit"] /\
   chain_key_flag_writers = ["ProcessMessageQueueForDevicePK"; "getOrCreateDeviceCache"] /\
   chain_key_flag_users = ["ProcessMessageQueueForDevicePK"; "getOrCreateDeviceCache"] /\
   pipe_returns = (2, 0)%nat)%string.
Proof. exact pipeline_shape. Qed.

(* termination: no schedule is infinite - the step relation is well founded on the states that satisfy
   the invariant (all reachable ones), so "once nothing can move" above is not a vacuous premise: every
   run gets there.  The measure: flushes still possible, then the distance of messages and registrar
   from the end of their path (Proofs/C08_Termination.v) *)
Theorem C08_terminates :
  (forall s, Inv s -> Acc steps_to s) /\
  (forall arr rs (f : nat -> thread), ~ (forall n, exists s, follow (init arr rs) (prefix f n) = Some s)).
Proof. exact (conj terminates no_infinite_schedule). Qed.

(* liveness: from every reachable state the run can be completed, and at its end - at the end of ANY
   run, by C08_every_decryptable_delivered - every entry that opens has been delivered *)
Theorem C08_eventually_delivered :
  forall arr rs s,
    reachable (init arr rs) s ->
    exists ts s', follow s ts = Some s' /\ quiescent s' /\
                  forall m, In m arr -> decryptable (keys s') m = true -> In m (delivered s').
Proof. exact eventually_delivered. Qed.

Print Assumptions C08_terminates.
Print Assumptions C08_eventually_delivered.
Print Assumptions C08_source_skeleton.
Print Assumptions C08_every_decryptable_delivered.
Print Assumptions C08_delivered_once_per_arrival.
Print Assumptions C08_delivered_sound.
Print Assumptions C08_invariant.
Print Assumptions C08_quiescent_shape.
Print Assumptions C08_mutual_exclusion.
Print Assumptions C08_pinned_park_outside_lock_refuted.
Print Assumptions C08_pinned_head_only_refuted.
