(* C07 — Contacts follow the documented lifecycle; illegal transitions are refused.
   Statements only.  Implementation side: Model.C07_Contacts.cstep — an operation reads the
   contact's state from the index of the current log (Model.MetaLog), runs the guard of
   store_metadata.go and appends at most one event.  Reference side: the transition table of
   DESIGN.md appendix A ([table]) and the attribute rule ([ref_attrs]). *)
From Coq Require Import List NArith Bool.
From Wesh Require Import Model.MetaLog Proofs.MetaLog Model.C07_Contacts Proofs.C07_Contacts GenFacts.ContactsFacts.
Import ListNotations.
Open Scope N_scope.

(* after ANY sequence of operations (malformed contacts and the account's own key included) the
   accept/refuse results and the state, seed, metadata and own metadata of EVERY contact, as the
   index of the produced log reports them, are those of the reference lifecycle *)
Theorem C07_lifecycle_refines :
  forall self own ops,
    ref_run self ref_init ops =
    (abs (apply_log own (fst (crun self own [] ops))), snd (crun self own [] ops)).
Proof. exact lifecycle_refines. Qed.

(* ... and on any replica that replays the log: any device [own'] whose log holds entries that
   sort to the events produced reports the same contacts *)
Theorem C07_replica_replays :
  forall self own own' ops es,
    map e_ev (sort_entries es) = fst (crun self own [] ops) ->
    abs (index own' es) = fst (ref_run self ref_init ops).
Proof. exact replica_replays. Qed.

(* operations the current state does not allow fail without appending anything *)
Theorem C07_refused_appends_nothing :
  forall self own log o, snd (cstep self own log o) = false -> fst (cstep self own log o) = log.
Proof. exact refused_appends_nothing. Qed.

Theorem C07_accepted_appends_one :
  forall self own log o, snd (cstep self own log o) = true -> exists e, fst (cstep self own log o) = log ++ [e].
Proof. exact accepted_appends_one. Qed.

(* an account can never request, receive or block itself: its own key never becomes a contact *)
Theorem C07_never_self :
  forall self own ops, g_contact (apply_log own (fst (crun self own [] ops))) self = None.
Proof. exact never_self_log. Qed.

(* a blocked contact's incoming request is refused *)
Theorem C07_blocked_refuses_incoming :
  forall self s c pk,
    state_in s pk = CBlocked -> check_format true c = Some pk -> op_event self s (ORecv c) = None.
Proof. exact blocked_refuses_incoming. Qed.

(* malformed contacts (missing/short seed, missing/bad key) are refused in every state *)
Theorem C07_malformed_refused :
  forall self s c own, check_format false c = None -> op_event self s (OEnq c own) = None.
Proof. exact malformed_refused. Qed.

Theorem C07_malformed_incoming_refused :
  forall self s c, check_format true c = None -> op_event self s (ORecv c) = None.
Proof. exact malformed_incoming_refused. Qed.

Theorem C07_check_format_spec :
  forall allow c pk,
    check_format allow c = Some pk <->
    ci_pk c = PkOk pk /\ ((exists n, ci_seed c = SdOk n) \/ (allow = true /\ ci_seed c = SdMissing)).
Proof. exact check_format_spec. Qed.

(* every indexed contact is in one of the six defined states *)
Theorem C07_indexed_state_defined :
  forall own l pk c, g_contact (apply_log own l) pk = Some c -> c_state c <> CUndef.
Proof. exact apply_log_state_defined. Qed.

(* the guards the model runs are the guards of the CURRENT source: the table generated from
   store_metadata.go on every run decides like [op_event] in all 49 (operation, state) pairs, and
   the format / own-key tests are where the model has them *)
Theorem C07_source_guards :
  forallb (fun k => forallb (fun st => verdict_eqb (source_verdict k st) (model_verdict k st)) all_states) all_kinds = true /\
  G.pre_checks = [(G.KEnq, (true, false, true)); (G.KSent, (false, false, false)); (G.KRecv, (false, true, true));
                  (G.KDisc, (false, false, false)); (G.KAcc, (false, false, false)); (G.KBlock, (false, false, true));
                  (G.KUnblock, (false, false, false))].
Proof. exact (conj source_guards_are_the_model_guards source_pre_checks). Qed.

Print Assumptions C07_source_guards.
Print Assumptions C07_lifecycle_refines.
Print Assumptions C07_replica_replays.
Print Assumptions C07_refused_appends_nothing.
Print Assumptions C07_accepted_appends_one.
Print Assumptions C07_never_self.
Print Assumptions C07_blocked_refuses_incoming.
Print Assumptions C07_malformed_refused.
Print Assumptions C07_malformed_incoming_refused.
Print Assumptions C07_check_format_spec.
Print Assumptions C07_indexed_state_defined.
