(* C02 — Receiver ratchet tolerates any arrival order and duplication of messages.
   Statements only; proofs are single [exact]s of lemmas in Proofs/C02_*.v. *)
From Coq Require Import List NArith Bool.
From Wesh Require Import Model.Store Model.C02_Ratchet Proofs.C02_Ratchet Proofs.C02_Spec.
From Coq Require String.
From Wesh Require Gen.Seal GenFacts.SealFacts.
Import ListNotations.
Open Scope N_scope.

(* Any history of registrations and deliveries (any senders, any order, any repetition), run
   on the datastore-level model of the secret store, produces exactly the results of the
   abstract ratchet [sstep]: a message k of a sender registered at c is opened iff it was
   opened before or c < k <= c + W + (number of that sender's messages already opened). *)
Theorem C02_store_refines_ratchet :
  forall (W : nat) (cidf : N -> N -> N),
    (forall d k d' k', cidf d k = cidf d' k' -> d = d' /\ k = k') ->
    forall ops, Forall (wf_op cidf) ops -> rrun W empty_store ops = srun W sinit ops.
Proof. intros W cidf Hinj ops Hwf. exact (run_refines W cidf Hinj ops empty_store sinit (R_init W cidf) Hwf). Qed.

(* the abstract ratchet's open rule is literally the formula of the property *)
Theorem C02_openable_iff :
  forall W st d k cid c opened,
    st d = Some (c, opened) ->
    snd (sstep W st (ROpen d k cid)) =
      if memN k opened || ((c <? k) && (k <=? c + N.of_nat W + N.of_nat (length opened)))
      then OOk cid else OFail.
Proof. exact open_result. Qed.

Theorem C02_unregistered_fails :
  forall W st d k cid, st d = None -> sstep W st (ROpen d k cid) = (st, OFail).
Proof. exact open_unregistered. Qed.

(* registering the same or another announcement again never rewinds or changes the state *)
Theorem C02_reregister_noop :
  forall W st d c' v, st d = Some v -> sstep W st (RReg d c') = (st, ODone).
Proof. exact reregister_noop. Qed.

(* messages sealed before the registration point are never openable *)
Theorem C02_never_before_c :
  forall W st d c opened k cid,
    st d = Some (c, opened) -> (forall k, In k opened -> c < k) -> k <= c ->
    snd (sstep W st (ROpen d k cid)) = OFail.
Proof. exact never_before_c. Qed.

(* that side condition holds in every state reachable from a registration *)
Theorem C02_opened_after_c :
  forall W ops st d c opened,
    st d = Some (c, opened) -> NoDup opened -> (forall k, In k opened -> c < k) ->
    exists opened', sfinal W st ops d = Some (c, opened') /\ NoDup opened' /\
                    incl opened opened' /\ (forall k, In k opened' -> c < k).
Proof. exact sfinal_dev. Qed.

(* whatever the arrival order and duplication: re-trying failed messages opens them all *)
Theorem C02_retry_completeness :
  forall W, (1 <= W)%nat ->
  forall m L st d c opened (cidf : N -> N -> N),
    st d = Some (c, opened) -> NoDup opened -> (forall k, In k opened -> c < k) ->
    (forall i, (1 <= i <= m)%nat -> In (ROpen d (c + N.of_nat i) (cidf d (c + N.of_nat i))) L) ->
    exists opened', passes W m st L d = Some (c, opened') /\ incl (upto c m) opened'.
Proof. exact retry_completeness. Qed.

(* non-vacuity: a concrete history with reordering, a duplicate, an early message, a
   re-registration; window 2 *)
Example C02_nonvacuous :
  let cidf := fun d k => d * 100000 + k in
  let ops := [ROpen 1 1 100001; RReg 1 1; ROpen 1 1 100001; ROpen 1 4 100004; ROpen 1 3 100003;
              RReg 1 0; ROpen 1 4 100004; ROpen 1 3 100003; ROpen 1 2 100002; ROpen 1 5 100005] in
  Forall (wf_op cidf) ops /\
  rrun 2 empty_store ops =
    [OFail; ODone; OFail; OFail; OOk 100003; ODone; OOk 100004; OOk 100003; OOk 100002; OOk 100005].
Proof. split; [repeat constructor|vm_compute; reflexivity]. Qed.

(* deliveries that run at the same time: every delivery is ONE critical section of the store's message mutex in
   the CURRENT source (generated facts), so whatever runs concurrently is some history of the kind the theorems
   above quantify over *)
Module Serialised.
Import String Gen.Seal.
Theorem C02_deliveries_are_serialised :
  (skel_open = ["lock s.messageMutex"; "defer unlock s.messageMutex"; "call openPayload"; "call postDecryptActions"] /\
   open_critical = "whole")%string.
Proof. exact GenFacts.SealFacts.open_is_one_critical_section. Qed.
End Serialised.
Export Serialised.

Print Assumptions C02_store_refines_ratchet.
Print Assumptions C02_openable_iff.
Print Assumptions C02_unregistered_fails.
Print Assumptions C02_reregister_noop.
Print Assumptions C02_never_before_c.
Print Assumptions C02_opened_after_c.
Print Assumptions C02_retry_completeness.
Print Assumptions C02_deliveries_are_serialised.
