(* C04 — Group state depends only on the set of log entries (convergence, restart).
   Statements only.  Model: Model.MetaLog (metadataStoreIndex.UpdateIndex and its handlers);
   [index own es] is the state a replica whose device is [own] derives from a fresh index of a log
   holding the entries [es]; [update_index own prev es] is one UpdateIndex call on an index whose
   members/devices/sent-secrets/admins already hold [prev] (they are not reset between calls).
   Maps are Coq functions, so equalities of states rest on functional extensionality. *)
From Coq Require Import List NArith Bool.
From Coq Require Import String.
From Wesh Require Import Model.MetaLog Proofs.MetaLog Model.C04_Alias Proofs.C04_Alias Gen.Index GenFacts.IndexFacts.
Import ListNotations.
Open Scope N_scope.

(* the state is a function of the SET of entries: two replicas (or one replica before and after a
   reopen) whose logs hold the same entries — listed in any order, duplicates excluded by the
   content identifiers — report the same state *)
Theorem C04_state_is_function_of_entry_set :
  forall own es es',
    ids_distinct es -> ids_distinct es' -> (forall e, In e es <-> In e es') ->
    index own es = index own es'.
Proof. exact index_set_function. Qed.

(* however the entries arrived: whatever sub-logs of the final log the replica indexed before, in
   whatever order and however many times (one by one, in batches, newest first, re-indexing), the
   state after indexing the final log is that of a fresh index of it (= a reopened group) *)
Theorem C04_arrival_independent :
  forall own final ls,
    dev_functional (map e_ev final) ->
    Forall (fun l => incl l final) ls ->
    update_index own (fold_left (update_index own) ls ginit) final = index own final.
Proof. exact arrival_independent. Qed.

(* re-indexing the same log any number of times does not change the state *)
Theorem C04_reindex_idempotent :
  forall own es n,
    dev_functional (map e_ev es) ->
    Nat.iter n (fun s => update_index own s es) (index own es) = index own es.
Proof. exact reindex_idempotent. Qed.

(* it is the result of applying the events in log order, the latest event about a subject winning *)
Theorem C04_state_is_log_order_application :
  forall own es, index own es = apply_log own (map e_ev (sort_entries es)).
Proof. exact index_is_apply. Qed.

(* the log order itself: sorted by (clock, identifier), a permutation of the entries *)
Theorem C04_log_order_sorted :
  forall es, Sorted.StronglySorted ele (sort_entries es) /\ (forall e, In e (sort_entries es) <-> In e es).
Proof. intros es. split; [apply sort_sorted | intros e; apply sort_in]. Qed.

(* why the pinned code failed: scanning in ARRIVAL order made the state depend on the order *)
Theorem C04_arrival_order_scan_refuted :
  g_contact (update_index_arrival 0 ginit [wit_a; wit_b]) 7 <> g_contact (update_index_arrival 0 ginit [wit_b; wit_a]) 7
  /\ index 0 [wit_a; wit_b] = index 0 [wit_b; wit_a].
Proof. exact arrival_order_mattered. Qed.

(* the shape the model assumes is the shape of the CURRENT source (generated facts): the index takes
   the entries in the total order (clock time, clock id, hash) and scans them newest first; it resets
   exactly what [reset] resets; the first-wins handlers are the ones the model has *)
Theorem C04_source_shape :
  (index_entries_source = "sortedLogEntries(log)" /\
   sorted_entries_order = "sorting.SortByEntryHash, entries, false" /\
   index_scans_newest_first = true)%string /\
  (index_resets = ["contacts"; "contactsFromGroupPK"; "groups"; "contactRequestMetadata"; "contactRequestEnabled";
                   "contactRequestSeed"; "verifiedCredentials"; "handledEvents"])%string /\
  index_handlers = first_wins_expected.
Proof. exact (conj index_reads_the_log_order (conj index_resets_as_modelled handlers_first_wins)). Qed.

(* ---- alias keys of a contact group (Model.C04_Alias): [index_full own ownm es] is the pair of the
   state above and the alias keys (ownAliasKeySent, otherAliasKey, the queue kept after an error) a
   replica whose device is [own] and member key [ownm] derives from a fresh index ---- *)

(* a function of the SET of entries *)
Theorem C04_alias_keys_function_of_entry_set :
  forall own ownm es es',
    ids_distinct es -> ids_distinct es' -> (forall e, In e es <-> In e es') ->
    index_full own ownm es = index_full own ownm es'.
Proof. exact alias_set_function. Qed.

(* however the entries arrived (sub-logs indexed before in any order, including passes in which
   the announcing device was not known yet): once the final log has been indexed, state and alias
   keys are those of a fresh index, and they are spelled out by [alias_spec]: sent iff the log holds
   an alias of an announced own device, and the key of the other member *)
Theorem C04_alias_keys_arrival_independent :
  forall own ownm final ls,
    dev_functional (map e_ev final) ->
    Forall (fun l => incl l final) ls ->
    update_full own ownm (fold_left (update_full own ownm) ls full_init) final
    = (index own final, alias_spec own ownm final)
    /\ index_full own ownm final = (index own final, alias_spec own ownm final).
Proof.
  intros own ownm final ls Hf Hall.
  exact (conj (alias_arrival_independent own ownm final ls Hf Hall) (alias_index_full own ownm final Hf)).
Qed.

(* latest wins: when the other member publishes one key (what ContactSendAliasKey does: the account
   proof key), the key kept by the scan is the one of the latest alias event in log order *)
Theorem C04_alias_key_is_latest :
  forall ownm devs q key,
    other_alias_constant ownm devs q key ->
    last_other ownm devs q None = latest_other ownm devs (rev q).
Proof. exact alias_is_latest_when_constant. Qed.

(* observation (DESIGN 10.3): if the other member published two DIFFERENT alias keys, the index
   would keep the oldest, not the latest - still a function of the entry set *)
Theorem C04_alias_oldest_stays_observation :
  a_other (snd (index_full 11 10 [wit_dev; wit_al1; wit_al2])) = Some 31
  /\ latest_other 10 (g_dev (index 11 [wit_dev; wit_al1; wit_al2])) [(21, 31); (21, 32)] = Some 32.
Proof. exact alias_oldest_stays. Qed.

(* why the pinned code failed (repaired, KNOWN_FINDINGS): an alias key of a device that is not
   announced made the post-index action fail and keep its queue; the keys then depended on arrival *)
Theorem C04_alias_pinned_error_path_refuted :
  p_other (snd (update_full_pinned 9 10 pinned_init [pin_e1; pin_e2; pin_e3])) = Some 32 /\
  p_other (snd (fold_left (update_full_pinned 9 10) [[pin_e1]; [pin_e1; pin_e2]; [pin_e1; pin_e2; pin_e3]] pinned_init)) = None /\
  a_other (snd (update_full 9 10 full_init [pin_e1; pin_e2; pin_e3])) = Some 32 /\
  a_other (snd (fold_left (update_full 9 10) [[pin_e1]; [pin_e1; pin_e2]; [pin_e1; pin_e2; pin_e3]] full_init)) = Some 32.
Proof. exact pinned_alias_depended_on_arrival. Qed.

(* why the resolution is deferred: resolving inside the handler, during the newest-first scan, makes
   the result depend on what earlier passes left in the device map *)
Theorem C04_alias_inline_resolution_refuted :
  scan_inline 10 (fun _ => None) [EAlias 21 31; EDevice 20 21] false None = (false, None) /\
  scan_inline 10 (fun d => if d =? 21 then Some 20 else None) [EAlias 21 31; EDevice 20 21] false None = (false, Some 31).
Proof. exact inline_resolution_depends_on_arrival. Qed.

(* and the CURRENT source has that shape (generated facts) *)
Theorem C04_alias_source_shape :
  (alias_handler_touches = ["eventsContactAddAliasKey"] /\
   alias_post_action_touches = ["eventsContactAddAliasKey"; "unsafeGetMemberByDevice"; "ownMemberDevice"; "ownAliasKeySent"; "otherAliasKey"] /\
   post_index_actions = ["m.postHandlerSentAliases"] /\
   post_actions_run_after_scan = true /\
   alias_walk_can_stop_early = false)%string.
Proof. exact alias_resolution_is_deferred. Qed.

Print Assumptions C04_alias_keys_function_of_entry_set.
Print Assumptions C04_alias_keys_arrival_independent.
Print Assumptions C04_alias_key_is_latest.
Print Assumptions C04_alias_oldest_stays_observation.
Print Assumptions C04_alias_pinned_error_path_refuted.
Print Assumptions C04_alias_inline_resolution_refuted.
Print Assumptions C04_alias_source_shape.
Print Assumptions C04_source_shape.
Print Assumptions C04_state_is_function_of_entry_set.
Print Assumptions C04_arrival_independent.
Print Assumptions C04_reindex_idempotent.
Print Assumptions C04_state_is_log_order_application.
Print Assumptions C04_log_order_sorted.
Print Assumptions C04_arrival_order_scan_refuted.
