(* C04 — Group state depends only on the set of log entries (convergence, restart).
   Statements only.  Model: Model.MetaLog (metadataStoreIndex.UpdateIndex and its handlers);
   [index own es] is the state a replica whose device is [own] derives from a fresh index of a log
   holding the entries [es]; [update_index own prev es] is one UpdateIndex call on an index whose
   members/devices/sent-secrets/admins already hold [prev] (they are not reset between calls).
   Maps are Coq functions, so equalities of states rest on functional extensionality. *)
From Coq Require Import List NArith Bool.
From Coq Require Import String.
From Wesh Require Import Model.MetaLog Proofs.MetaLog Gen.Index GenFacts.IndexFacts.
Import ListNotations.
Open Scope N_scope.

(* the state is a function of the SET of entries: two replicas (or one replica before and after a
   reopen) whose logs hold the same entries — listed in any order, duplicates excluded by the
   content identifiers — report the same state *)
Theorem C04_state_is_function_of_entry_set :
  forall own es es',
    ids_distinct es -> ids_distinct es' -> (forall e, In e es <-> In e es') ->
    index own es = index own es'.
Proof. exact index_set_function. Qed.

(* however the entries arrived: whatever sub-logs of the final log the replica indexed before, in
   whatever order and however many times (one by one, in batches, newest first, re-indexing), the
   state after indexing the final log is that of a fresh index of it (= a reopened group) *)
Theorem C04_arrival_independent :
  forall own final ls,
    dev_functional (map e_ev final) ->
    Forall (fun l => incl l final) ls ->
    update_index own (fold_left (update_index own) ls ginit) final = index own final.
Proof. exact arrival_independent. Qed.

(* re-indexing the same log any number of times does not change the state *)
Theorem C04_reindex_idempotent :
  forall own es n,
    dev_functional (map e_ev es) ->
    Nat.iter n (fun s => update_index own s es) (index own es) = index own es.
Proof. exact reindex_idempotent. Qed.

(* it is the result of applying the events in log order, the latest event about a subject winning *)
Theorem C04_state_is_log_order_application :
  forall own es, index own es = apply_log own (map e_ev (sort_entries es)).
Proof. exact index_is_apply. Qed.

(* the log order itself: sorted by (clock, identifier), a permutation of the entries *)
Theorem C04_log_order_sorted :
  forall es, Sorted.StronglySorted ele (sort_entries es) /\ (forall e, In e (sort_entries es) <-> In e es).
Proof. intros es. split; [apply sort_sorted | intros e; apply sort_in]. Qed.

(* why the pinned code failed: scanning in ARRIVAL order made the state depend on the order *)
Theorem C04_arrival_order_scan_refuted :
  g_contact (update_index_arrival 0 ginit [wit_a; wit_b]) 7 <> g_contact (update_index_arrival 0 ginit [wit_b; wit_a]) 7
  /\ index 0 [wit_a; wit_b] = index 0 [wit_b; wit_a].
Proof. exact arrival_order_mattered. Qed.

(* the shape the model assumes is the shape of the CURRENT source (generated facts): the index takes
   the entries in the total order (clock time, clock id, hash) and scans them newest first; it resets
   exactly what [reset] resets; the first-wins handlers are the ones the model has *)
Theorem C04_source_shape :
  (index_entries_source = "sortedLogEntries(log)" /\
   sorted_entries_order = "sorting.SortByEntryHash, entries, false" /\
   index_scans_newest_first = true)%string /\
  (index_resets = ["contacts"; "contactsFromGroupPK"; "groups"; "contactRequestMetadata"; "contactRequestEnabled";
                   "contactRequestSeed"; "verifiedCredentials"; "handledEvents"])%string /\
  index_handlers = first_wins_expected.
Proof. exact (conj index_reads_the_log_order (conj index_resets_as_modelled handlers_first_wins)). Qed.

Print Assumptions C04_source_shape.
Print Assumptions C04_state_is_function_of_entry_set.
Print Assumptions C04_arrival_independent.
Print Assumptions C04_reindex_idempotent.
Print Assumptions C04_state_is_log_order_application.
Print Assumptions C04_log_order_sorted.
Print Assumptions C04_arrival_order_scan_refuted.
