(* C13 — Event listings follow log order and honour since/until/reverse exactly.
   Statements only.  [get_range l since until] is store_utils.go getEntriesInRange over the
   identifiers [l] of the log in log order (oldest first); [list_events es ...] is ListEvents of
   a store holding the entries [es]. *)
From Coq Require Import List NArith Bool Arith.
From Coq Require Import String.
From Wesh Require Import Model.MetaLog Proofs.MetaLog Model.C13_Listing Proofs.C13_Listing Gen.Index GenFacts.IndexFacts.
Import ListNotations.
Open Scope list_scope.
Open Scope nat_scope.

(* since and until known, since not after until: exactly the contiguous range, inclusive *)
Theorem C13_range_exact :
  forall a s m u b, NoDup (a ++ s :: m ++ u :: b) ->
    get_range (a ++ s :: m ++ u :: b) (Some s) (Some u) = Some (s :: m ++ [u]).
Proof. exact range_exact. Qed.

Theorem C13_range_single :
  forall a s b, NoDup (a ++ s :: b) -> get_range (a ++ s :: b) (Some s) (Some s) = Some [s].
Proof. exact range_single. Qed.

Theorem C13_range_since_only :
  forall a s b, NoDup (a ++ s :: b) -> get_range (a ++ s :: b) (Some s) None = Some (s :: b).
Proof. exact range_since_only. Qed.

Theorem C13_range_until_only :
  forall a u b, NoDup (a ++ u :: b) -> get_range (a ++ u :: b) None (Some u) = Some (a ++ [u]).
Proof. exact range_until_only. Qed.

Theorem C13_range_all : forall l, get_range l None None = Some l.
Proof. exact range_all. Qed.

(* invalid-range errors *)
Theorem C13_unknown_since_rejected : forall l s u, ~ In s l -> get_range l (Some s) u = None.
Proof. exact unknown_since. Qed.

Theorem C13_unknown_until_rejected : forall l s u, ~ In u l -> get_range l s (Some u) = None.
Proof. exact unknown_until. Qed.

Theorem C13_since_after_until_rejected :
  forall a u m s b, NoDup (a ++ u :: m ++ s :: b) ->
    get_range (a ++ u :: m ++ s :: b) (Some s) (Some u) = None.
Proof. exact since_after_until. Qed.

(* reverse order is exactly the reversed listing *)
Theorem C13_reverse_exact :
  forall l s u, list_ids l s u true = option_map (@rev N) (list_ids l s u false).
Proof. exact reverse_exact. Qed.

(* whatever is listed is a contiguous block of the log order *)
Theorem C13_range_is_block :
  forall l s u r, get_range l s u = Some r -> exists a b, l = a ++ r ++ b.
Proof. exact range_is_block. Qed.

(* the listing is the same on every replica that holds the same entries, however they arrived *)
Theorem C13_listing_is_function_of_entry_set :
  forall es es' s u r,
    ids_distinct es -> ids_distinct es' -> (forall e, In e es <-> In e es') ->
    list_events es s u r = list_events es' s u r.
Proof. exact listing_set_function. Qed.

Theorem C13_check_params_spec :
  forall a b c d e,
    check_params a b c d e = true <->
    ~ (a = true /\ b = true) /\ ~ (c = true /\ d = true) /\ ~ (b = true /\ d = true) /\
    ~ (c = false /\ d = false /\ e = true).
Proof. exact check_params_spec. Qed.

(* both ListEvents hand getEntriesInRange the entries in the total log order (generated facts) *)
Theorem C13_source_order :
  (list_events_sources = ["sortedLogEntries(m.OpLog())"; "sortedLogEntries(m.OpLog())"] /\
   sorted_entries_order = "sorting.SortByEntryHash, entries, false")%string.
Proof. exact (conj listings_read_the_log_order (proj1 (proj2 index_reads_the_log_order))). Qed.

(* log order is causal order: an entry with a smaller Lamport clock is listed first; the clock of an
   entry exceeds that of every entry it follows (go-ipfs-log), so ancestors come before descendants *)
Theorem C13_log_order_is_causal :
  forall es i j a b,
    nth_error (sort_entries es) i = Some a -> nth_error (sort_entries es) j = Some b ->
    (e_clock a < e_clock b)%N -> i < j.
Proof. exact listing_respects_causality. Qed.

(* message listings: an entry that does not open (chain key of its sender not held) is skipped and
   nothing else changes: the same errors, the same order, every entry of the range that opens *)
Theorem C13_unopenable_entries_are_skipped_only :
  (forall es s u r, list_open_events es s u r [] = list_events es s u r) /\
  (forall es s u r skip l l', list_events es s u r = Some l -> list_open_events es s u r skip = Some l' ->
                              forall i, In i l' <-> (In i l /\ ~ In i skip)) /\
  (forall es s u r skip, list_open_events es s u r skip = None <-> list_events es s u r = None).
Proof. exact (conj list_open_nothing_to_skip (conj list_open_exact list_open_fails_like_plain)). Qed.

Print Assumptions C13_unopenable_entries_are_skipped_only.
Print Assumptions C13_log_order_is_causal.
Print Assumptions C13_source_order.
Print Assumptions C13_range_exact.
Print Assumptions C13_range_single.
Print Assumptions C13_range_since_only.
Print Assumptions C13_range_until_only.
Print Assumptions C13_range_all.
Print Assumptions C13_unknown_since_rejected.
Print Assumptions C13_unknown_until_rejected.
Print Assumptions C13_since_after_until_rejected.
Print Assumptions C13_reverse_exact.
Print Assumptions C13_range_is_block.
Print Assumptions C13_listing_is_function_of_entry_set.
Print Assumptions C13_check_params_spec.
