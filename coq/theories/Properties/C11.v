(* C11 — Both sides derive the same keys: contact groups, member keys, imported accounts.
   Statements only.  Symbolic key terms: [Fresh n] generated, [agree k pub] the key derived
   from the X25519 agreement of private key k with the public key pub; a contact group is an
   injective function of the agreement key of the two accounts, the member key in a
   multi-member group g is [agree proof g]. *)
From Coq Require Import List NArith Bool.
From Wesh Require Import Model.C11_Keys Proofs.C11_Keys.
From Wesh Require Import Model.C11_FirstUse Proofs.C11_FirstUse.
Import ListNotations.
Open Scope N_scope.

(* two accounts derive the same contact group for each other *)
Theorem C11_contact_group_symmetric : forall a b, agree (Fresh a) b = agree (Fresh b) a.
Proof. exact agree_symmetric. Qed.

(* different pairs derive unrelated groups *)
Theorem C11_contact_group_injective :
  forall a b a' b', agree (Fresh a) b = agree (Fresh a') b' -> (a = a' /\ b = b') \/ (a = b' /\ b = a').
Proof. exact agree_injective. Qed.

(* cache_transparent, in every state reachable by any history (Consistent is an invariant):
   the contact group returned is the agreement of the store's CURRENT account key with the contact *)
Theorem C11_contact_group_is_function :
  forall st b st' k,
    Consistent st -> kstep st (OGroupForContact b) = (st', RGroup k) ->
    Consistent st' /\ exists a, lookup NAccount (ks st') = Some a /\ k = agree a b.
Proof. exact contact_group_is_function. Qed.

(* member_key_device_independent: the member key depends on the proof key and the group only *)
Theorem C11_member_key_is_function :
  forall st g st' m d,
    Consistent st -> kstep st (OMemberDevice GMulti g) = (st', RPair m d) ->
    Consistent st' /\ exists p, lookup NProof (ks st') = Some p /\ m = agree p g.
Proof. exact member_key_is_function. Qed.

Theorem C11_consistent_initially : forall n, Consistent {| ks := []; next := n |}.
Proof. exact Consistent_empty. Qed.

(* device_keys_distinct: a newly generated key differs from every earlier one *)
Theorem C11_generated_key_is_new :
  forall st n, Below st -> lookup n (ks st) = None ->
    snd (get_or_generate st n) = Fresh (next st) /\
    (forall m k, lookup m (ks st) = Some k -> k <> Fresh (next st)) /\
    Below (fst (get_or_generate st n)).
Proof. exact generated_key_is_new. Qed.

(* import guards *)
Theorem C11_import_refused_when_account_exists :
  forall st a p, lookup NAccount (ks st) <> None \/ lookup NProof (ks st) <> None ->
                 kstep st (OImport (BKey a) (BKey p)) = (st, RRefused).
Proof. exact import_refused_when_account_exists. Qed.

Theorem C11_import_refused_equal_keys : forall st a, kstep st (OImport (BKey a) (BKey a)) = (st, RRefused).
Proof. exact import_refused_equal_keys. Qed.

Theorem C11_import_refused_malformed :
  forall st ba bp, (forall k, ba <> BKey k) \/ (forall k, bp <> BKey k) -> kstep st (OImport ba bp) = (st, RRefused).
Proof. exact import_refused_malformed. Qed.

Theorem C11_import_keeps_consistent :
  forall st a p st', Consistent st -> kstep st (OImport (BKey a) (BKey p)) = (st', RDone) ->
    Consistent st' /\ lookup NAccount (ks st') = Some a /\ lookup NProof (ks st') = Some p.
Proof. exact import_keeps_consistent. Qed.

(* export_import_identity *)
Theorem C11_export_import_identity :
  forall st0 st0' a p n st1,
    kstep st0 OExport = (st0', RPair a p) -> a <> p ->
    kstep {| ks := []; next := n |} (OImport (BKey a) (BKey p)) = (st1, RDone) /\
    lookup NAccount (ks st1) = Some a /\ lookup NProof (ks st1) = Some p ->
    forall b g,
      (forall s k, kstep st1 (OGroupForContact b) = (s, RGroup k) -> k = agree a b) /\
      (forall s m d, kstep st1 (OMemberDevice GMulti g) = (s, RPair m d) -> m = agree p g).
Proof. exact export_import_identity. Qed.

Example C11_nonvacuous :
  canon (wrun (init_world 2) [] [WContact 0 1; WContact 1 0; WOp 0 OExport; WImportFrom 1 0 0;
                                 WOp 0 (OMemberDevice GMulti 500001); WOp 1 (OMemberDevice GMulti 500001)]) [] =
  [CGroup 0; CGroup 0; CPair 1 2; CRefused; CPair 3 4; CPair 5 6].
Proof. vm_compute. reflexivity. Qed.

(* concurrent first use of a key of the device keystore (Model.C11_FirstUse: any number of callers, one
   step per lock operation, any schedule): two callers that have returned hold the same key and it is
   the key the keystore keeps; the unlocked shape (lookup, generation outside the lock, put without a
   second look) hands two callers two keys.  GenFacts/KeystoreFacts.v re-proves on every run that the
   methods of the current source take the exclusive lock around their get-or-create. *)
Theorem C11_concurrent_first_use_agrees :
  (forall n sched s i j r r',
     fu_run (fu_init n) sched = Some s ->
     nth_error (fu_threads s) i = Some (TDone r) -> nth_error (fu_threads s) j = Some (TDone r') ->
     r = r' /\ fu_store s = Some r) /\
  (exists s, urun (mkU None [UStart; UStart] 1) [0%nat; 1%nat; 0%nat; 1%nat] = Some s /\
             u_threads s = [UDone 1; UDone 2] /\ u_store s = Some 2).
Proof. exact (conj first_use_agreement unlocked_first_use_disagrees). Qed.

Print Assumptions C11_concurrent_first_use_agrees.
Print Assumptions C11_contact_group_symmetric.
Print Assumptions C11_contact_group_injective.
Print Assumptions C11_contact_group_is_function.
Print Assumptions C11_member_key_is_function.
Print Assumptions C11_generated_key_is_new.
Print Assumptions C11_import_refused_when_account_exists.
Print Assumptions C11_import_refused_equal_keys.
Print Assumptions C11_import_refused_malformed.
Print Assumptions C11_import_keeps_consistent.
Print Assumptions C11_export_import_identity.
