(* C01 — Sealed group messages open to the original payload or are rejected.
   Statements only.  The receiver state is any state satisfying the ratchet invariant [Rdev]
   of C02 (every state reachable by registrations and deliveries does, see C02); the envelope
   is ANY symbolic envelope: every bit flip, field substitution or forgery is some envelope
   term (or opens to nothing at all).
   PARTIAL for the last clause of the property: the signature covers the payload only, so a
   fellow member who knows the chain key can re-attribute a signed payload to another counter
   ([C01_member_forgery_refuted], recorded as a known finding); what IS proved for such an
   attacker is [C01_open_sound_member_partial]. *)
From Coq Require Import List NArith Bool.
From Wesh Require Import Model.Store Model.C02_Ratchet Model.C01_Envelope Proofs.C02_Ratchet Proofs.C01_Envelope.
From Wesh Require Model.C14_Push Proofs.C14_Push.
Import ListNotations.
Open Scope N_scope.

(* sealing at (c, chain (o,c)) yields the honest envelope of counter c+1 and advances the chain;
   by C02_store_refines_ratchet a receiver registered at c' <= c opens it as soon as
   c' < c+1 <= c' + W + opened, to exactly this payload *)
Theorem C01_seal_produces_honest :
  forall s g d o c payload,
    get_chain s g d = Some (c, (o, c)) ->
    fst (seal_step s g d payload) = Some (honest_env g d o (c + 1) payload) /\
    get_chain (apply_muts s (snd (seal_step s g d payload))) g d = Some (c + 1, (o, c + 1)).
Proof. exact (seal_produces_honest (fun _ _ => 0)). Qed.

(* whatever is accepted under a fresh CID was sealed with the key of its own counter, carries
   a valid signature of the device it names, and lies in the open window *)
Theorem C01_open_fresh_requires :
  forall W cidf s d c opened e cid r ms,
    Rdev W cidf s d (Some (c, opened)) ->
    e_group e = grp -> e_dev e = d -> s (KCid cid) = None ->
    open_step s e cid None = (r, ms) ->
    match r with
    | RFail => True
    | ROk p => p = e_payload e /\ e_key e = (d, e_ctr e) /\ e_signer e = d /\
               c < e_ctr e <= top W c opened /\ memN (e_ctr e) opened = false
    end.
Proof. exact open_fresh_requires. Qed.

(* an attacker without the chain key: an accepted envelope is an honest one, delivered with
   its own payload, device and counter *)
Theorem C01_open_sound_outsider :
  forall W cidf s d c opened honest e cid p ms,
    Rdev W cidf s d (Some (c, opened)) ->
    e_group e = grp -> e_dev e = d -> s (KCid cid) = None ->
    box_reuse_only d honest e ->
    open_step s e cid None = (ROk p, ms) ->
    p = honest (e_ctr e) /\ e_signer e = d.
Proof. exact open_sound_outsider. Qed.

(* a fellow member without the device signing key: content and device attribution are authentic *)
Theorem C01_open_sound_member_partial :
  forall W cidf s d c opened honest e cid p ms,
    Rdev W cidf s d (Some (c, opened)) ->
    e_group e = grp -> e_dev e = d -> s (KCid cid) = None ->
    sig_reuse_only d honest e ->
    open_step s e cid None = (ROk p, ms) ->
    exists k, p = honest k.
Proof. exact open_sound_member_partial. Qed.

(* ... but not the counter: refutation of the full statement, witness replayed on the code *)
Theorem C01_member_forgery_refuted :
  exists hist e cid,
    sig_reuse_only 1 (fun k => 100000 + k) e /\ e_dev e = 1 /\ e_payload e = 100000 + 1 /\ e_ctr e = 5 /\
    fst (open_step (run_store 8 empty_store hist) e cid None) = ROk (100000 + 1).
Proof. exact open_sound_member_refuted. Qed.

(* a rejected envelope (wrong key for its counter, or a signature that is not the claimed device's)
   under a fresh CID leaves NO mutation in the store, so the same bytes presented again under the
   same CID - the message store re-opens parked entries, listings re-open the whole log - are
   rejected again, any number of times *)
Theorem C01_rejected_leaves_no_trace :
  forall s e cid own n,
    get_cid s cid = None ->
    (forall mk, get_pre s (e_group e) (e_dev e) (e_ctr e) = Some mk ->
                msgkey_eqb mk (e_key e) = false \/ (e_signer e =? e_dev e) = false) ->
    open_step s e cid own = (RFail, []) /\
    Nat.iter n (fun st => apply_muts st (snd (open_step st e cid own))) s = s /\
    fst (open_step (Nat.iter n (fun st => apply_muts st (snd (open_step st e cid own))) s) e cid own) = RFail.
Proof.
  intros s e cid own n Hc Hbad.
  exact (conj (rejected_leaves_no_trace s e cid own Hc Hbad) (rejected_again s e cid own n Hc Hbad)).
Qed.

(* the push path cannot be used to vouch for a log entry: whatever push payloads were opened before - genuine
   ones relayed by a fellow member under an identifier of its choice included - an identifier under which the
   log path stored nothing still has nothing stored under it, so the theorems above ("under a fresh CID")
   apply to a forged entry presented under that identifier afterwards: it is rejected, and rejected again *)
Theorem C01_push_does_not_vouch :
  forall Nr pushes s cid2,
    get_cid s cid2 = None ->
    get_cid (fold_left (fun st p => snd (C14_Push.push_step Nr st (fst p) (snd p))) pushes s) cid2 = None.
Proof.
  intros Nr pushes. induction pushes as [|[e cid] ps IH]; intros s cid2 H; cbn [fold_left]; [exact H|].
  apply IH. unfold get_cid in *. cbn [fst snd]. rewrite Proofs.C14_Push.push_keeps_cid_keys. exact H.
Qed.

Print Assumptions C01_rejected_leaves_no_trace.
Print Assumptions C01_seal_produces_honest.
Print Assumptions C01_open_fresh_requires.
Print Assumptions C01_open_sound_outsider.
Print Assumptions C01_open_sound_member_partial.
Print Assumptions C01_member_forgery_refuted.
Print Assumptions C01_push_does_not_vouch.
