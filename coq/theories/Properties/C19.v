(* C19 — No request can crash the service.  Statements only.  PARTIAL: what is LOGIC in the
   crash-freedom of a handler — the presence of the account group context and explicit panics —
   is a theorem about the handler table GENERATED from api_*.go on every run, and the slice
   arithmetic of the decrypt helpers is a theorem for every length; the memory safety of everything
   else the handlers call is a runtime matter: it is exercised by the request fuzzer, not proved. *)
From Coq Require Import List NArith Bool String.
From Wesh Require Import Gen.Handlers GenFacts.HandlersFacts Model.C19_Service Proofs.C19_Service.
Import ListNotations.

(* in every service state (account group active or deactivated) no handler of the current source
   panics for lack of the account group context or by calling panic *)
Theorem C19_handlers_never_panic_partial :
  forall r active, In r handler_table -> handle r active <> Panics.
Proof. exact handlers_never_panic. Qed.

(* inapplicable requests are answered with an error *)
Theorem C19_deactivated_account_group_refused :
  forall n g p, In (n, true, g, p) handler_table -> handle (n, true, g, p) false = Refuses.
Proof. exact deactivated_account_group_refused. Qed.

(* the table covers the handlers: generated facts *)
Theorem C19_source_table :
  forallb (fun r => let '(_, _, guarded, panics) := r in guarded && negb panics) handler_table = true /\
  aesgcm_decrypt_length_guard = true /\ aesctr_iv_length_guard = true.
Proof. exact (conj handlers_guarded helper_guards). Qed.

(* fixed-size conversions of caller-supplied bytes: with the tests the CURRENT source has (generated
   facts) neither the secret of a joined group (any length a self-authenticating invitation may carry)
   nor the nonce of a push payload can crash the node; without the test any other length does *)
Theorem C19_fixed_size_conversions :
  (forall len, fixed_size group_secret_length_guard len 32 <> SlicePanic) /\
  (forall len, fixed_size push_nonce_length_checked len 24 <> SlicePanic) /\
  (forall len size, len <> size -> fixed_size false len size = SlicePanic).
Proof. exact (conj group_secret_safe (conj push_nonce_safe fixed_size_unguarded_panics)). Qed.

(* the model exhibits the crash when a guard is missing (it is not vacuously safe) *)
Theorem C19_unguarded_refuted :
  (forall n, handle (n, true, false, false) false = Panics) /\
  (forall n u g a, handle (n, u, g, true) a = Panics) /\
  aesgcm_split false 0 12 = SlicePanic.
Proof. exact (conj unguarded_handler_panics (conj explicit_panic_panics aesgcm_split_unguarded_panics)). Qed.

(* helper functions for untrusted bytes never slice out of bounds *)
Theorem C19_aesgcm_decrypt_split_safe :
  forall len nonce, aesgcm_split aesgcm_decrypt_length_guard len nonce <> SlicePanic.
Proof. exact aesgcm_split_safe. Qed.

Theorem C19_aesctr_stream_safe :
  forall iv block, aesctr_stream aesctr_iv_length_guard iv block <> SlicePanic.
Proof. exact aesctr_stream_safe. Qed.

Print Assumptions C19_handlers_never_panic_partial.
Print Assumptions C19_deactivated_account_group_refused.
Print Assumptions C19_fixed_size_conversions.
Print Assumptions C19_source_table.
Print Assumptions C19_unguarded_refuted.
Print Assumptions C19_aesgcm_decrypt_split_safe.
Print Assumptions C19_aesctr_stream_safe.
