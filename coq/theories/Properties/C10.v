(* C10 — A crash at any write leaves the secret store consistent and usable.
   Statements only.  A crash state of an operation is the datastore after ANY prefix of the
   operation's mutation list (a batch commit is one mutation); [exec] is any sequence of
   operations each run to completion or interrupted at any such point (restarting does not
   change the datastore).  [Good]: every stored message key is the sender's key for that
   counter and every stored chain value is the chain at its counter.  [holds s d k]: message k
   of device d can be opened (its key is saved under its CID or precomputed).
   Stated for deliveries with a defined CID; the account/device/group key claim of the
   property (get-or-generate named keys) is checked on the real store at every crash point by
   the correspondence harness only. *)
From Coq Require Import List NArith Bool.
From Wesh Require Import Model.Store Model.C02_Ratchet Model.C10_Crash Proofs.C10_Crash.
From Wesh Require Import Model.C11_Keys Model.C10_Keys Proofs.C10_Keys.
Import ListNotations.
Open Scope N_scope.

Theorem C10_crash_safe :
  forall W cidf, (forall d k d' k', cidf d k = cidf d' k' -> d = d' /\ k = k') ->
  forall s o s',
    Good cidf s -> wf10 cidf o -> In s' (crash_states W s o) ->
    Good cidf s' /\ (forall d k, holds cidf s d k -> holds cidf s' d k) /\ chain_ge s s'.
Proof. exact crash_safe. Qed.

(* any history of complete and interrupted operations, from the empty store *)
Theorem C10_exec_safe :
  forall W cidf, (forall d k d' k', cidf d k = cidf d' k' -> d = d' /\ k = k') ->
  forall s s',
    exec W cidf s s' -> Good cidf s ->
    Good cidf s' /\ (forall d k, holds cidf s d k -> holds cidf s' d k) /\ chain_ge s s'.
Proof. exact exec_safe. Qed.

Theorem C10_good_initially : forall cidf, Good cidf empty_store.
Proof. exact Good_empty. Qed.

(* recover_opened / recover_openable: what holds opens, at once or on the retry *)
Theorem C10_holds_opens :
  forall cidf s d k own,
    Good cidf s -> holds cidf s d k ->
    let e := honest_env grp d d k (cidf d k) in
    fst (open_step s e (cidf d k) own) = ROk (cidf d k) \/
    (fst (open_step s e (cidf d k) own) = RFail /\
     fst (open_step (apply_muts s (snd (open_step s e (cidf d k) own))) e (cidf d k) own) = ROk (cidf d k)).
Proof. exact holds_opens. Qed.

(* no_counter_reuse_after_restart: the counter of an envelope handed to the caller is stored
   before the envelope is returned; every later state stores at least that counter; a seal in
   such a state uses a strictly larger one *)
Theorem C10_seal_counter_persisted :
  forall cidf, (forall d k d' k', cidf d k = cidf d' k' -> d = d' /\ k = k') ->
  forall s d payload e,
    Good cidf s -> fst (seal_step s grp d payload) = Some e ->
    exists ck, get_chain (apply_muts s (snd (seal_step s grp d payload))) grp d = Some (e_ctr e, ck).
Proof. exact seal_counter_persisted. Qed.

Theorem C10_no_counter_reuse_after_restart :
  forall cidf : N -> N -> N, (forall d k d' k', cidf d k = cidf d' k' -> d = d' /\ k = k') ->
  forall s s' d c ck payload e,
    get_chain s grp d = Some (c, ck) -> chain_ge s s' ->
    fst (seal_step s' grp d payload) = Some e -> c < e_ctr e.
Proof. exact no_counter_reuse_after_restart. Qed.

(* non-vacuity: the crash states of opening message 2 after registration at 0 (window 2) *)
Example C10_nonvacuous :
  let cidf := fun d k => d * 100000 + k in
  let s := apply_muts empty_store (op_muts 2 empty_store (RReg 1 0)) in
  length (crash_states 2 s (ROpen 1 2 100002)) = 5%nat /\
  holds cidf s 1 2 /\
  Forall (fun s' => get_cid s' 100002 = Some (1, 2) \/ get_pre s' grp 1 2 = Some (1, 2)) (crash_states 2 s (ROpen 1 2 100002)).
Proof.
  cbv zeta. split; [vm_compute; reflexivity|]. split; [right; vm_compute; reflexivity|].
  unfold crash_states. cbn [prefixes map op_muts].
  repeat (constructor; [first [left; vm_compute; reflexivity|right; vm_compute; reflexivity]|]). constructor.
Qed.

(* KNOWN FINDING (KNOWN_FINDINGS.json): what a stop can lose is the ADVANCE of the ratchet.  Model
   witness, replayed on the real store by the scripted workload of the harness: window 1, a stop after
   the first write of an open; the retried message opens by identifier, nothing more is written, and
   the next message, which opens in the run without the stop, never opens.  The statement of C10
   (what was opened / openable stays so) is not contradicted: it does not speak of future openability. *)
Theorem C10_advance_not_crash_safe_refuted :
  let W := 1%nat in
  let s0 := apply_muts empty_store (op_muts W empty_store (RReg 1 1)) in
  let ms := op_muts W s0 (ROpen 1 2 100) in
  let crash := apply_muts s0 (firstn 1 ms) in
  let s1 := apply_muts crash (op_muts W crash (ROpen 1 2 100)) in
  length ms = 4%nat /\
  op_out W crash (ROpen 1 2 100) = OOk 100 /\ op_muts W crash (ROpen 1 2 100) = [] /\
  op_out W s1 (ROpen 1 3 101) = OFail /\
  op_out W (apply_muts s0 ms) (ROpen 1 3 101) = OOk 101.
Proof. exact advance_lost_after_crash. Qed.

(* "Account, device and group keys read after restart are the ones in use before."  The keystore of
   device_keystore_wrapper.go (Model.C11_Keys.kstep, tied to the code by C11's stream) with a stop between
   any two of its puts (Model.C10_Keys.kstates): an operation [o] - account key, proof key, device and
   member keys of a group of any type, contact group - has returned [r]; any operations follow; the process
   stops inside ANY operation, after any number of its writes; after the restart any operations follow:
   [o] returns [r] again and writes nothing.  (An import is not an [o]: it answers once.) *)
Theorem C10_named_keys_survive_a_stop :
  forall st o st1 r mid oc c later,
    is_import o = false -> kstep st o = (st1, r) ->
    In c (kstates (krun st1 mid) oc) ->
    kstep (krun c later) o = (krun c later, r).
Proof. exact named_keys_survive_a_stop. Qed.

(* the states a stop can leave are the states between the puts of the operation: the first is the state
   before, the last the state after, and each lies between the two *)
Theorem C10_stop_states_are_between :
  forall st o,
    (hd_error (kstates st o) = Some st /\ (is_import o = false -> last (kstates st o) st = fst (kstep st o))) /\
    (forall c, In c (kstates st o) -> extends st c /\ (is_import o = false -> extends c (fst (kstep st o)))).
Proof. intros st o. exact (conj (kstates_ends st o) (kstates_between st o)). Qed.

(* observation (no key that was in use is lost): an import stopped between its two puts is not resumed *)
Example C10_half_import_observation :
  let st := {| ks := []; next := 1 |} in
  let o := OImport (BKey (Fresh 101)) (BKey (Fresh 102)) in
  let c := {| ks := [(NAccount, Fresh 101)]; next := 1 |} in
  In c (kstates st o) /\ snd (kstep c o) = RRefused /\ snd (kstep c OExport) = RPair (Fresh 101) (Fresh 1).
Proof. exact half_import_observation. Qed.

Print Assumptions C10_advance_not_crash_safe_refuted.
Print Assumptions C10_crash_safe.
Print Assumptions C10_exec_safe.
Print Assumptions C10_holds_opens.
Print Assumptions C10_seal_counter_persisted.
Print Assumptions C10_no_counter_reuse_after_restart.
Print Assumptions C10_named_keys_survive_a_stop.
Print Assumptions C10_stop_states_are_between.
