(* C15 — Message queues: FIFO, exactly once, no lost wake-up; priority by counter.
   Statements only.  The SimpleQueue theorems hold for every capacity >= 1 of the signal
   channel, every number of producers and items, every number of waits, with or without a
   canceller, and every schedule (reachable = closure under any thread taking any enabled
   step).  GenFacts/QueueFacts.v proves that the capacity and the synchronisation skeleton in
   the current source are the ones assumed here.
   The priority queue (container/heap transcription [heap_push]/[heap_pop]) is proved to keep the
   heap order and the multiset, to pop a minimum, and to drain in ascending order (Proofs.C15_Heap). *)
From Coq Require Import List NArith Bool.
From Coq Require Import Permutation Sorted.
From Wesh Require Import Model.C15_Queue Proofs.C15_Queue Proofs.C15_Heap.
From Coq Require String.
From Wesh Require Gen.Queue GenFacts.QueueFacts.
Import ListNotations.
Open Scope N_scope.

Theorem C15_no_lost_wakeup :
  forall cap items want wc s,
    1 <= cap -> reachable cap (init items want wc) s ->
    c_pc s = CParked -> q s <> [] ->
    exists i s', mtx s = ByProd i false /\ pstep cap s i = [s'] /\ c_pc s' = CWantLock.
Proof. exact no_lost_wakeup. Qed.

Theorem C15_never_stuck :
  forall cap items want wc s,
    1 <= cap -> reachable cap (init items want wc) s ->
    (forall i b, mtx s <> ByProd i b) -> c_pc s = CParked -> q s = [].
Proof. exact never_stuck. Qed.

Theorem C15_fifo_exactly_once :
  forall cap items want wc s,
    1 <= cap -> reachable cap (init items want wc) s ->
    pushed s = popped s ++ q s /\ popped s = rev (somes (c_got s)) ++ pending_ret (mtx s).
Proof. exact fifo_exactly_once. Qed.

Theorem C15_cancelled_wait_returns_none :
  forall s s', c_pc s = CWantLock -> mtx s = Free -> cancelled s = true -> In s' (cstep s) ->
               mtx s' = ByConsRet None.
Proof. exact cancelled_returns_none. Qed.

(* the finding on the pinned tree (unbuffered signal channel), as a theorem about the model *)
Theorem C15_refuted_with_capacity_0 :
  exists sched s,
    fold_left (fun ss t => flat_map (fun s => step 0 s t) ss) sched [init [[1]] 1 false] = [s] /\
    c_pc s = CParked /\ q s = [1] /\ mtx s = Free /\ cancelled s = false /\
    prods s = [{| p_started := true; p_items := [] |}].
Proof. exact lost_wakeup_with_capacity_0. Qed.

(* non-vacuity: with capacity 1 the same schedule ends with the item delivered *)
Example C15_nonvacuous :
  exists s, fold_left (fun ss t => flat_map (fun s => step 1 s t) ss) [0; 0; 0; 1; 1; 1; 1; 0; 0; 0]
                      [init [[1]] 1 false] = [s] /\ c_pc s = CDone /\ c_got s = [Some 1] /\ q s = [].
Proof. eexists. vm_compute. repeat split. Qed.

(* ---- priority queue (internal/queue/priority.go over container/heap) ---- *)

(* Add keeps the heap order and adds exactly the item *)
Theorem C15_push_keeps_heap :
  forall l x, heap_ok l -> heap_ok (heap_push l x) /\ Permutation (heap_push l x) (x :: l).
Proof. exact heap_push_ok. Qed.

(* Next returns an item with the lowest counter, removes exactly it, and keeps the heap order *)
Theorem C15_pop_returns_minimum :
  forall l x l', heap_ok l -> heap_pop l = Some (x, l') ->
    heap_ok l' /\ Permutation l (x :: l') /\ (forall y, In y l -> (x <= y)%N).
Proof. exact heap_pop_ok. Qed.

Theorem C15_pop_succeeds_on_nonempty : forall l, l <> [] -> exists x l', heap_pop l = Some (x, l').
Proof. exact heap_pop_nonempty. Qed.

(* NextAll hands over every queued item, in ascending counter order *)
Theorem C15_drain_sorted :
  forall fuel l, heap_ok l -> (length l <= fuel)%nat ->
    Permutation (pop_all fuel l) l /\ StronglySorted (fun a b => (a <= b)%N) (pop_all fuel l).
Proof. exact pop_all_sorted. Qed.

(* every state reached from the empty queue by the operations of the queue is a heap *)
Theorem C15_operations_keep_heap : heap_ok [] /\ forall l o, heap_ok l -> heap_ok (fst (pqstep l o)).
Proof. exact (conj heap_ok_nil pqstep_heap). Qed.


(* the same three statements for a consumer that first calls Pop any number of times (taking what is
   there without blocking) and only then waits: Pop and WaitForItem can be mixed on one queue *)
Theorem C15_pop_then_wait :
  (forall cap pp items want wc s,
     1 <= cap -> reachable cap (init_pop pp items want wc) s ->
     c_pc s = CParked -> q s <> [] ->
     exists i s', mtx s = ByProd i false /\ pstep cap s i = [s'] /\ c_pc s' = CWantLock) /\
  (forall cap pp items want wc s,
     1 <= cap -> reachable cap (init_pop pp items want wc) s ->
     (forall i b, mtx s <> ByProd i b) -> c_pc s = CParked -> q s = []) /\
  (forall cap pp items want wc s,
     1 <= cap -> reachable cap (init_pop pp items want wc) s ->
     pushed s = popped s ++ q s /\ popped s = rev (somes (c_got s)) ++ pending_ret (mtx s)).
Proof. exact (conj no_lost_wakeup_pop (conj never_stuck_pop fifo_exactly_once_pop)). Qed.

(* ... and it depends on every Add signalling: with an Add that does not signal (the seeded shape:
   signal only when the length becomes 1, which a draining Pop does not restore), Pop once, wait, and
   the second Add leaves the consumer parked with an item queued *)
Theorem C15_pop_then_wait_needs_the_signal :
  exists s,
    fold_left (fun ss t => flat_map (fun s => if (t =? 0)%N then cstep s else if (t =? 7)%N then pstep_nosignal s 0 else pstep 1 s 0) ss)
              [1; 1; 1; 1; 0; 0; 0; 0; 0; 0; 0; 0; 0; 1; 7; 1]%N [init_pop 1 [[1; 2]] 1 false] = [s] /\
    c_pc s = CParked /\ q s = [2] /\ mtx s = Free /\ cancelled s = false.
Proof. exact pop_then_wait_needs_the_signal. Qed.

(* several tasks on ONE priority queue (the registrar drains it while the consumer loop parks messages
   again): any number of tasks, any operations, EVERY schedule - the queue stays a heap, what was added is
   exactly what is still queued plus what was handed out (nothing lost, nothing twice), and every Next /
   NextAll handed its items out in ascending counter order.  An operation is one atomic step because every
   method is one critical section from its first to its last statement in the CURRENT source (generated) *)
Theorem C15_priority_queue_any_schedule :
  forall progs sched,
    let st := pq_conc (mkPQ [] [] []) progs sched in
    heap_ok (pq_items st) /\
    Permutation (pq_added st) (pq_items st ++ concat (pq_handed st)) /\
    Forall (StronglySorted (fun a b => (a <= b)%N)) (pq_handed st).
Proof. intros progs sched. exact (pq_conc_from_empty progs sched). Qed.

Module PQFacts.
Import String.
Theorem C15_priority_queue_methods_atomic :
  (Gen.Queue.pq_critical = [("Add", "whole"); ("NextAll", "whole"); ("Next", "whole"); ("Size", "whole")] /\
   Gen.Queue.skel_pq_nextall = ["lock pq.muMessages"; "defer unlock pq.muMessages"])%string.
Proof. exact GenFacts.QueueFacts.pq_methods_are_critical_sections. Qed.
End PQFacts.
Export PQFacts.

Example C15_priority_queue_nonvacuous :
  let st := pq_conc (mkPQ [] [] []) [[PAdd 3; PAdd 1; PNextAll]; [PAdd 2; PAdd 0; PNext]] [0; 0; 1; 0; 1; 1]%nat in
  pq_handed st = [[1; 2; 3]; [0]] /\ pq_items st = [] /\ pq_added st = [3; 1; 2; 0].
Proof. vm_compute. repeat split. Qed.

Print Assumptions C15_pop_then_wait.
Print Assumptions C15_pop_then_wait_needs_the_signal.
Print Assumptions C15_no_lost_wakeup.
Print Assumptions C15_never_stuck.
Print Assumptions C15_fifo_exactly_once.
Print Assumptions C15_cancelled_wait_returns_none.
Print Assumptions C15_refuted_with_capacity_0.
Print Assumptions C15_push_keeps_heap.
Print Assumptions C15_pop_returns_minimum.
Print Assumptions C15_pop_succeeds_on_nonempty.
Print Assumptions C15_drain_sorted.
Print Assumptions C15_operations_keep_heap.
Print Assumptions C15_priority_queue_any_schedule.
Print Assumptions C15_priority_queue_methods_atomic.
