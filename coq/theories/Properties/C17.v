(* C17 — Rendezvous points are deterministic, agreed between peers, and rotate on time.
   Statements only.  Instants are at or after the Unix epoch, the rotation interval is a whole
   number of seconds >= 1, seeds have one fixed length L (the HMAC key is the plain
   concatenation topic ++ seed), RegisterRotation is called with the current time.
   The machine theorems are about the expiry comparison [CmpLe] (time left <= 0), which
   GenFacts/RotationFacts.v proves to be the one in the current source. *)
From Coq Require Import List ZArith Bool.
From Wesh Require Import Model.C17_Rendezvous Proofs.C17_Rendezvous.
Import ListNotations.
Open Scope Z_scope.

(* the period containing an instant; identical for all instants of that period *)
Theorem C17_round_is_containing_period :
  forall sec i, 0 <= sec -> 1 <= i ->
    round_period sec i <= sec < round_period sec i + i /\
    round_period sec i = (sec / i) * i /\ 0 <= sec / i.
Proof. exact round_period_spec. Qed.

Theorem C17_same_period_same_point :
  forall topic seed s1 s2 i k,
    1 <= i -> 0 <= k -> k * i <= s1 < (k + 1) * i -> k * i <= s2 < (k + 1) * i ->
    gen_point topic seed (round_period s1 i) = gen_point topic seed (round_period s2 i).
Proof. intros. f_equal. eapply same_period_same_round; eassumption. Qed.

Theorem C17_next_period_is_another :
  forall sec i, 0 <= sec -> 1 <= i -> round_period (next_period sec i) i = round_period sec i + i.
Proof. exact next_period_changes. Qed.

(* changes with the period, the seed or the topic (seeds of equal length) *)
Theorem C17_point_injective :
  forall t s p t' s' p', length s = length s' ->
    gen_point t s p = gen_point t' s' p' -> t = t' /\ s = s' /\ p = p'.
Proof. exact gen_point_injective. Qed.

(* every world reachable by registrations, look-ups, exchanges and clock advances keeps the
   cache invariant; the set of registered pairs is tracked exactly *)
Theorem C17_reachable_inv :
  forall L ops now0 i, 1 <= i -> 0 <= now0 -> Forall (op_ok L) ops ->
    WInv L (fold_left (regs_step false) ops []) (fold_left (regs_step true) ops [])
         (wfinal (init_world now0 i) ops).
Proof. intros L ops now0 i Hi Hn Hok. apply reachable_inv; [apply WInv_init; assumption|exact Hok]. Qed.

(* resolve_current: in any state satisfying the invariant a registered topic resolves, at
   time now, to the point of the period containing now, with a deadline in the future *)
Theorem C17_resolve_current :
  forall L R st now t p0,
    Inv L R st now -> lookup_topic t (r_topics st) = Some p0 ->
    exists p,
      snd (point_for_topic CmpLe st now t) = Some p /\
      p_topic p = t /\ p_seed p = p_seed p0 /\
      p_period p = round_period (unix now) (r_interval st) /\ now < p_deadline p * ns /\
      Inv L R (fst (point_for_topic CmpLe st now t)) now /\
      r_interval (fst (point_for_topic CmpLe st now t)) = r_interval st /\
      lookup_rot (p_rot p) (r_rots (fst (point_for_topic CmpLe st now t))) <> None /\
      (forall K, lookup_rot K (r_rots st) <> None ->
                 lookup_rot K (r_rots (fst (point_for_topic CmpLe st now t))) <> None).
Proof. exact resolve_current. Qed.

(* peers_agree *)
Theorem C17_peers_agree :
  forall L Ra Rb sta stb now t pa0 pb,
    Inv L Ra sta now -> Inv L Rb stb now -> r_interval sta = r_interval stb ->
    lookup_topic t (r_topics sta) = Some pa0 ->
    lookup_topic t (r_topics stb) = Some pb -> now < p_deadline pb * ns ->
    p_seed pb = p_seed pa0 ->
    exists pa q,
      snd (point_for_topic CmpLe sta now t) = Some pa /\
      snd (point_for_rotation CmpLe stb now (p_rot pa)) = Some q /\ p_topic q = t.
Proof. exact peers_agree. Qed.

(* grace_accepts_previous: a rotation value in the cache survives every clean-up until two
   intervals plus the grace period after the start of its own period, and then still maps to
   its topic *)
Theorem C17_grace_accepts_previous :
  forall L R st now now' K,
    Inv L R st now -> lookup_rot K (r_rots st) <> None -> now <= now' ->
    now' < (snd K + 2 * r_interval st) * ns + grace_ns ->
    lookup_rot K (r_rots (fire st now')) <> None.
Proof. exact rot_persist. Qed.

Theorem C17_known_rotation_maps_back :
  forall L R st now K q,
    Inv L R st now -> lookup_rot K (r_rots st) = Some q ->
    exists p,
      snd (point_for_rotation CmpLe st now K) = Some p /\
      p_topic p = p_topic q /\ p_seed p = p_seed q /\
      Inv L R (fst (point_for_rotation CmpLe st now K)) now /\
      r_interval (fst (point_for_rotation CmpLe st now K)) = r_interval st /\
      (forall K', lookup_rot K' (r_rots st) <> None ->
                  lookup_rot K' (r_rots (fst (point_for_rotation CmpLe st now K))) <> None).
Proof. exact rotation_known. Qed.

(* unknown_refused *)
Theorem C17_unknown_refused :
  forall L R st now t s per,
    Inv L R st now -> length s = L -> ~ In (t, s) R ->
    point_for_rotation CmpLe st now (gen_point t s per) = (st, None).
Proof. exact unknown_refused. Qed.

Theorem C17_unregistered_topic_refused :
  forall st now t, lookup_topic t (r_topics st) = None -> point_for_topic CmpLe st now t = (st, None).
Proof. exact resolve_unregistered. Qed.

(* the finding on the pinned tree, kept as a theorem about the model: with the inverted
   comparison (time left > 0) the stale point is returned after the deadline *)
Theorem C17_refuted_with_inverted_comparison :
  exists ops, wrun CmpGt (init_world 0 1) ops <> wrun CmpLe (init_world 0 1) ops /\
    nth 2 (wrun CmpGt (init_world 0 1) ops) None = Some (([7; 9], 0), 1, [7]).
Proof. exact resolve_current_refuted_with_gt. Qed.

(* non-vacuity: a two-peer history across a period boundary, interval 2 s *)
Example C17_nonvacuous :
  let ops := [ORegister false [1] [5; 5]; ORegister true [1] [5; 5]; OTopic true [1];
              OAdvance (3 * ns); OXchg false [1]; OTopic true [1]; ORot true ([1; 5; 5], 10)] in
  Forall (op_ok 2) ops /\
  wrun CmpLe (init_world (10 * ns) 2) ops =
    [None; None; Some (([1; 5; 5], 10), 12, [1]); None;
     None; Some (([1; 5; 5], 12), 14, [1]); Some (([1; 5; 5], 12), 14, [1])].
Proof. split; [repeat constructor; unfold ns; cbn; discriminate|vm_compute; reflexivity]. Qed.

Print Assumptions C17_round_is_containing_period.
Print Assumptions C17_same_period_same_point.
Print Assumptions C17_next_period_is_another.
Print Assumptions C17_point_injective.
Print Assumptions C17_reachable_inv.
Print Assumptions C17_resolve_current.
Print Assumptions C17_peers_agree.
Print Assumptions C17_grace_accepts_previous.
Print Assumptions C17_known_rotation_maps_back.
Print Assumptions C17_unknown_refused.
Print Assumptions C17_unregistered_topic_refused.
Print Assumptions C17_refuted_with_inverted_comparison.
