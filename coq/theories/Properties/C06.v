(* C06 — Contact-request handshake authenticates both parties against any peer behaviour.
   Statements only; symbolic cryptography (see Model/C06_Handshake.v).  The theorems are about
   a handshake that validates the peer's ephemeral key ([chk] = true), which
   GenFacts/HandshakeFacts.v proves to be what the current source does.
   contact_request_manager.go (what is recorded after the responder role, what is sent and marked
   after the requester role) is covered by [incoming] / [outgoing] and the generated step facts. *)
From Coq Require Import List NArith Bool String.
From Wesh Require Import Model.C06_Handshake Proofs.C06_Handshake Gen.Handshake GenFacts.HandshakeFacts.
Import ListNotations.
Open Scope list_scope.
Open Scope N_scope.

Theorem C06_honest_completes : forall A a B b, honest_run true A a B B b = (true, Some A).
Proof. exact honest_completes. Qed.

Theorem C06_responder_auth :
  forall B b X F ack A sent,
    responder true B b X F ack = (Some A, sent) ->
    X <> LowOrder /\ ack = Some true /\
    F = AuthF (dh b X) (dh B X) nonce_auth A Ed25519 A (dh b X) /\ mentions b (dh b X).
Proof. exact responder_auth. Qed.

(* ... and a signature by an honest A over such a value was made in THIS session *)
Theorem C06_session_binding :
  forall a' P b X, P <> LowOrder -> X <> LowOrder -> a' <> b -> dh a' P = dh b X -> P = Pt b /\ X = Pt a'.
Proof. exact session_binding. Qed.

Theorem C06_requester_auth :
  forall A a B Y G sent,
    requester true A a B Y G = (true, sent) ->
    Y <> LowOrder /\ G = AccF (dh a Y) (dh A (Pt B)) nonce_accept B (dh a Y) /\ mentions a (dh a Y).
Proof. exact requester_auth. Qed.

Theorem C06_replay_rejected_responder :
  forall B b X k1 k2 n A kt signer msg ack,
    ~ mentions b k1 -> fst (responder true B b X (AuthF k1 k2 n A kt signer msg) ack) = None.
Proof. exact replay_rejected_responder. Qed.

Theorem C06_replay_rejected_requester :
  forall A a B Y k1 k2 n signer msg,
    ~ mentions a k1 -> fst (requester true A a B Y (AccF k1 k2 n signer msg)) = false.
Proof. exact replay_rejected_requester. Qed.

Theorem C06_low_order_rejected : forall B b F ack, responder true B b LowOrder F ack = (None, None).
Proof. exact low_order_rejected. Qed.

Theorem C06_low_order_rejected_requester : forall A a B G, requester true A a B LowOrder G = (false, None).
Proof. exact low_order_rejected_requester. Qed.

Theorem C06_foreign_key_type_rejected :
  forall B b X k1 k2 n A signer msg ack,
    fst (responder true B b X (AuthF k1 k2 n A OtherKeyType signer msg) ack) = None.
Proof. exact foreign_key_type_rejected. Qed.

Theorem C06_negative_ack_rejected :
  forall B b X F ack, ack <> Some true -> fst (responder true B b X F ack) = None.
Proof. exact negative_ack_rejected. Qed.

(* the finding on the pinned tree (no validation), as a theorem about the model *)
Theorem C06_refuted_without_validation :
  exists B b F, fst (responder false B b LowOrder F (Some true)) = Some 1001 /\
                F = AuthF Zero Zero nonce_auth 1001 Ed25519 1001 Zero /\ ~ mentions b Zero.
Proof. exact responder_auth_refuted_without_validation. Qed.

(* contact_request_manager.go: the contact request is recorded only for the key proven in this very
   session (compose with C06_responder_auth / C06_session_binding), named by the card the peer sent,
   well formed, and never for the account's own key *)
Theorem C06_recorded_contact_is_authenticated :
  forall self B b X F ack c A,
    incoming self (fst (responder true B b X F ack)) c = Some A ->
    exists sent, responder true B b X F ack = (Some A, sent) /\ c = Card A true /\ A <> self.
Proof. exact incoming_records_authenticated. Qed.

Theorem C06_card_naming_another_key_rejected :
  forall self A pk ok, pk <> A -> incoming self (Some A) (Card pk ok) = None.
Proof. exact incoming_card_mismatch. Qed.

Theorem C06_no_record_without_handshake : forall self c, incoming self None c = None.
Proof. exact incoming_needs_handshake. Qed.

(* contact_request_manager.go SendContactRequest: the own contact card (account key, rendezvous seed,
   metadata) is written, and the request marked as sent, only to a peer that proved in this very
   session that it holds the key of the account the user asked for; with an honest peer both happen;
   after a failed handshake neither does *)
Theorem C06_outgoing_only_to_proven_key :
  forall A a B Y G w m,
    outgoing_run true A a B Y G = (w, m) -> w = true \/ m = true ->
    Y <> LowOrder /\ G = AccF (dh a Y) (dh A (Pt B)) nonce_accept B (dh a Y) /\ mentions a (dh a Y).
Proof. exact outgoing_only_to_proven_key. Qed.

Theorem C06_outgoing_honest_and_failure :
  (forall A a B b, outgoing (fst (honest_run true A a B B b)) = (true, true)) /\
  (forall A a B Y G, fst (requester true A a B Y G) = false -> outgoing_run true A a B Y G = (false, false)).
Proof. exact (conj outgoing_honest outgoing_nothing_on_failure). Qed.

(* the order of the steps the two models assume is the order in the CURRENT source (generated facts) *)
Theorem C06_contact_request_steps_as_modelled :
  (send_request_steps = [("handshake.RequestUsingReaderWriter", true); ("writer.WriteMsg", true);
                         ("c.metadataStore.ContactRequestOutgoingSent", true)] /\
   incoming_request_steps = [("handshake.ResponseUsingReaderWriter", true); ("reader.ReadMsg", true); ("bytes.Equal", true);
                             ("contact.CheckFormat", true); ("c.metadataStore.ContactRequestIncomingReceived", true)])%string.
Proof. exact (conj send_request_order incoming_request_order). Qed.

(* live relay / splice: an honest requester that asked for ANOTHER account never makes this responder
   report it, whoever carries the frames and whatever acknowledge follows (the authenticate box is
   keyed with the account asked for); [a <> B]: an ephemeral scalar is not the responder's account key *)
Theorem C06_relay_rejected :
  forall A a Bt B b Y G ack sent,
    Bt <> B -> a <> B ->
    snd (requester true A a Bt Y G) = Some sent ->
    fst (responder true B b (Pt a) sent ack) = None.
Proof. exact relay_rejected. Qed.

(* a peer that stops sending while the stream stays open: whatever prefix of an honest run it has
   performed, the role waiting for the next frame does not succeed; it succeeds exactly when the run is
   complete *)
Theorem C06_stalling_peer_never_succeeds :
  (forall chk A a B b sends, sends < 2 -> requester_vs_stalling chk A a B b sends = false) /\
  (forall chk A a B b sends, sends < 3 -> responder_vs_stalling chk A a B b sends = None) /\
  (forall A a B b, requester_vs_stalling true A a B b 2 = true /\ responder_vs_stalling true A a B b 3 = Some A).
Proof. exact (conj stalling_responder_fails (conj stalling_requester_fails stalling_complete_run)). Qed.

(* in the CURRENT source each role runs its five steps in protocol order, returns at once when one fails, and
   has no other return without an error than the last one (generated facts) *)
Theorem C06_roles_as_modelled :
  ((requester_role_steps = [("hc.sendRequesterHello", true); ("hc.receiveResponderHello", true); ("hc.sendRequesterAuthenticate", true);
                            ("hc.receiveResponderAccept", true); ("hc.sendRequesterAcknowledge", true)] /\
    requester_role_returns = ["error"; "error"; "error"; "error"; "error"; "nil"]) /\
   (responder_role_steps = [("hc.receiveRequesterHello", true); ("hc.sendResponderHello", true); ("hc.receiveRequesterAuthenticate", true);
                            ("hc.sendResponderAccept", true); ("hc.receiveRequesterAcknowledge", true)] /\
    responder_role_returns = ["nil, error"; "nil, error"; "nil, error"; "nil, error"; "nil, error"; "hc.peerAccountID, nil"]))%string.
Proof. exact (conj requester_role_shape responder_role_shape). Qed.

Print Assumptions C06_stalling_peer_never_succeeds.
Print Assumptions C06_roles_as_modelled.
Print Assumptions C06_relay_rejected.
Print Assumptions C06_contact_request_steps_as_modelled.
Print Assumptions C06_outgoing_only_to_proven_key.
Print Assumptions C06_outgoing_honest_and_failure.
Print Assumptions C06_recorded_contact_is_authenticated.
Print Assumptions C06_card_naming_another_key_rejected.
Print Assumptions C06_no_record_without_handshake.
Print Assumptions C06_honest_completes.
Print Assumptions C06_responder_auth.
Print Assumptions C06_session_binding.
Print Assumptions C06_requester_auth.
Print Assumptions C06_replay_rejected_responder.
Print Assumptions C06_replay_rejected_requester.
Print Assumptions C06_low_order_rejected.
Print Assumptions C06_foreign_key_type_rejected.
Print Assumptions C06_negative_ack_rejected.
Print Assumptions C06_refuted_without_validation.
