(* C18 — Length-delimited framing round-trips any message sequence and enforces its bound.
   Only statements; every proof is one [exact] of a lemma of Proofs/C18_Framing.v. *)
From Coq Require Import List NArith Bool.
From Wesh Require Import Model.C18_Framing Proofs.C18_Framing.
Import ListNotations.
Open Scope N_scope.

(* Any sequence of messages (each within the limit) written by the writer is read back
   identically whatever the chunking of the byte stream; then end of stream. *)
Theorem C18_frames_roundtrip :
  forall v max ms oks (s : chunks),
    Forall (len_ok v max) ms -> Forall (eq true) oks ->
    concat s = write_frames v ms ->
    run_reader v max oks s = (map Msg ms ++ [Err EEOF], max_len 0 ms).
Proof. exact frames_roundtrip. Qed.

(* For EVERY byte stream (well formed or not) the reader's behaviour depends on the bytes only,
   not on how they are cut into reads. *)
Theorem C18_chunking_irrelevant :
  forall v max oks s1 s2, concat s1 = concat s2 -> run_reader v max oks s1 = run_reader v max oks s2.
Proof. exact chunking_irrelevant. Qed.

(* For EVERY byte stream the reusable body buffer never exceeds the limit. *)
Theorem C18_alloc_bound : forall v max oks s, snd (run_reader v max oks s) <= max.
Proof. exact alloc_bound. Qed.

(* For EVERY byte stream reading terminates: some messages, then exactly one error/EOF. *)
Theorem C18_reader_total :
  forall v max oks s, exists bodies e, fst (run_reader v max oks s) = map Msg bodies ++ [Err e].
Proof. exact reader_total. Qed.

(* Oversize frame after any honest frames: reported, earlier frames intact. *)
Theorem C18_oversize_is_error :
  forall v max ms oks s n rest,
    Forall (len_ok v max) ms -> Forall (eq true) oks ->
    max < n -> n < 2 ^ 64 -> match v with Varint => True | U32 _ => n < 2 ^ 32 end ->
    concat s = write_frames v ms ++ prefix_enc v n ++ rest ->
    fst (run_reader v max oks s) = map Msg ms ++ [Err EShortBuffer].
Proof. exact oversize_is_error. Qed.

(* Malformed (overflowing) varint length after any honest frames. *)
Theorem C18_overflow_is_error :
  forall max ms oks s (junk : bytes) rest,
    Forall (len_ok Varint max) ms -> Forall (eq true) oks ->
    length junk = 10%nat -> Forall (fun b => 128 <= b) junk ->
    concat s = write_frames Varint ms ++ junk ++ rest ->
    fst (run_reader Varint max oks s) = map Msg ms ++ [Err EOverflow].
Proof. exact overflow_is_error. Qed.

(* Truncated frame after any honest frames. *)
Theorem C18_truncated_is_error :
  forall v max ms oks s m t u,
    Forall (len_ok v max) ms -> Forall (eq true) oks -> len_ok v max m ->
    t ++ u = write_frame v m -> u <> [] ->
    concat s = write_frames v ms ++ t ->
    exists e, eof_kind e /\ fst (run_reader v max oks s) = map Msg ms ++ [Err e].
Proof. exact truncated_is_error. Qed.

(* uvarint itself *)
Theorem C18_uvarint_roundtrip :
  forall n rest, n < 2 ^ 64 -> uvarint_dec [uvarint_enc n ++ rest] = inl (n, [rest]).
Proof. exact uvarint_dec_enc. Qed.

(* non-vacuity: the hypotheses are met by a concrete non-trivial stream, and the
   conclusion computes *)
Example C18_nonvacuous :
  let ms := [[1; 2; 3]; []; [255]] in
  Forall (len_ok Varint 4) ms /\
  run_reader Varint 4 [] [[3; 1]; [2; 3; 0]; []; [1; 255]] =
    (map Msg ms ++ [Err EEOF], 3).
Proof.
  split; [|vm_compute; reflexivity].
  repeat constructor; cbn; unfold int63_limit; try apply N.leb_le; try apply N.ltb_lt; reflexivity.
Qed.

Print Assumptions C18_frames_roundtrip.
Print Assumptions C18_chunking_irrelevant.
Print Assumptions C18_alloc_bound.
Print Assumptions C18_reader_total.
Print Assumptions C18_oversize_is_error.
Print Assumptions C18_overflow_is_error.
Print Assumptions C18_truncated_is_error.
Print Assumptions C18_uvarint_roundtrip.
