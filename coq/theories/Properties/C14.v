(* C14 — Push payloads open offline to the right message without disturbing the log path.
   Statements only.  [Good]/[holds]/[chain_ge] are those of C10; the reference set of a sender
   is its recorded window, moved by every registration, log delivery and push delivery;
   window arithmetic is uint64 (modulo 2^64), as in UpdateOutOfStoreGroupReferences. *)
From Coq Require Import List NArith Bool String.
From Wesh Require Import Model.Store Model.C02_Ratchet Model.C10_Crash Model.C14_Push
                         Proofs.C10_Crash Proofs.C14_Push.
From Wesh Require Import Gen.OutOfStore GenFacts.OutOfStoreFacts.
Import ListNotations.
Open Scope N_scope.

(* the window: exactly first-N .. first+N-1 when nothing wraps ... *)
Theorem C14_window_plain :
  forall Nr first k, Nr <= first -> first + Nr < two64 -> k < two64 ->
    (wsub k (wsub first Nr) <? wsub (wadd first Nr) (wsub first Nr)) = ((first - Nr <=? k) && (k <? first + Nr)).
Proof. exact window_plain. Qed.

(* ... and for counters below N (first - N wraps) every counter 0 .. first+N-1 is covered *)
Theorem C14_window_low :
  forall Nr first k, first < Nr -> Nr < 9223372036854775808 -> k < first + Nr ->
    (wsub k (wsub first Nr) <? wsub (wadd first Nr) (wsub first Nr)) = true.
Proof. exact window_low. Qed.

Theorem C14_window_width :
  forall Nr first, first < two64 -> 2 * Nr < two64 -> wsub (wadd first Nr) (wsub first Nr) = 2 * Nr.
Proof. exact window_width. Qed.

Theorem C14_ref_known_after_update :
  forall Nr s g d first k,
    ref_known (refs_update Nr s g d first) g d k = (wsub k (wsub first Nr) <? wsub (wadd first Nr) (wsub first Nr)).
Proof. exact ref_known_after_update. Qed.

(* opening a push payload never prevents the same (or any) message from being opened through
   the log afterwards *)
Theorem C14_push_preserves_log_path :
  forall cidf, (forall d k d' k', cidf d k = cidf d' k' -> d = d' /\ k = k') ->
  forall Nr s e cid r s',
    Good cidf s -> e_group e = grp -> push_step Nr s e cid = (r, s') ->
    Good cidf s' /\ (forall d k, holds cidf s d k -> holds cidf s' d k) /\ chain_ge s s'.
Proof. exact push_preserves. Qed.

(* ... nor the reverse: after a log delivery the key is under the CID, the reference is in the
   (just moved) window, and the push payload opens to the same payload, already received *)
Theorem C14_log_saves_cid :
  forall cidf s d k own p ms,
    Good cidf s ->
    open_step s (honest_env grp d d k (cidf d k)) (cidf d k) own = (ROk p, ms) ->
    get_cid (apply_muts s ms) (cidf d k) = Some (d, k) /\ p = cidf d k.
Proof. exact open_ok_saves_cid. Qed.

Theorem C14_log_moves_window :
  forall cidf Nr s d k p,
    1 <= Nr -> k < two64 -> 2 * Nr < two64 ->
    fst (log_step Nr s (honest_env grp d d k (cidf d k)) (cidf d k)) = ROk p ->
    ref_known (snd (log_step Nr s (honest_env grp d d k (cidf d k)) (cidf d k))) grp d k = true.
Proof. exact log_step_ref_known. Qed.

Theorem C14_push_after_log :
  forall cidf Nr s d k,
    Good cidf s -> get_cid s (cidf d k) = Some (d, k) ->
    ref_known s grp d k = true -> get_chain s grp d <> None ->
    fst (push_step Nr s (honest_env grp d d k (cidf d k)) (cidf d k)) = Some (cidf d k, true).
Proof. exact push_after_log. Qed.

(* oos_opens: reference known + message openable per C02/C10 + chain key present ==> the push
   opens to the original payload *)
Theorem C14_push_opens :
  forall cidf Nr s d k,
    Good cidf s -> holds cidf s d k -> ref_known s grp d k = true -> get_chain s grp d <> None ->
    exists a, fst (push_step Nr s (honest_env grp d d k (cidf d k)) (cidf d k)) = Some (cidf d k, a).
Proof. exact push_opens. Qed.

Theorem C14_already_received_truthful :
  forall Nr s e cid p a,
    fst (push_step Nr s e cid) = Some (p, a) -> a = match get_cid s cid with Some _ => true | None => false end.
Proof. exact already_received_truthful. Qed.

(* ... and in the CURRENT source (generated) the returned flag is decided the same way: it starts as
   "newly decrypted", is cleared exactly when the key stored under the message's identifier is found,
   and the precomputed key of the counter is only the fall-back (deciding it from the precomputed key
   would be wrong: the log path re-creates the precomputed key of a message it has just opened when the
   chain key lags behind, C14_nonvacuous_edge) *)
Theorem C14_flag_follows_the_cid_lookup :
  (oos_flag_init = "decryptionContext{newlyDecrypted: true}" /\
   oos_first_lookup = "decryptionCtx.messageKey, err = s.getKeyForCID(ctx,c) ; err==nil" /\
   oos_on_hit = ["decryptionCtx.newlyDecrypted = false"] /\
   oos_on_miss = ["decryptionCtx.messageKey, err = s.getPrecomputedMessageKey(ctx,groupPublicKey,devicePublicKey,envelope.Counter)";
                  "if err!=nil"] /\
   oos_flag_returned = "decryptionCtx.newlyDecrypted")%string.
Proof. exact flag_follows_the_cid_lookup. Qed.

(* the sequence at the edge of the precomputed keys (W = 2, registered at 0): the push of message 2
   derives key 3 ahead of the chain key, the log delivers message 3 before 1 and 2, the push of
   message 3 then says "already received" *)
Example C14_nonvacuous_edge :
  prun 2 2 empty_store [PReg 1 0; PPush 1 2 100002; PLog 1 3 100003; PPush 1 3 100003] =
    [PDone; POk 100002 false; PLogOk 100003; POk 100003 true].
Proof. vm_compute. reflexivity. Qed.

Theorem C14_unknown_ref_rejected :
  forall Nr s e cid, ref_known s (e_group e) (e_dev e) (e_ctr e) = false -> push_step Nr s e cid = (None, s).
Proof. exact unknown_ref_rejected. Qed.

Example C14_nonvacuous :
  prun 2 2 empty_store [PReg 1 0; PPush 1 1 100001; PLog 1 1 100001; PPush 1 1 100001; PPush 1 9 100009; PLog 1 2 100002; PPush 1 4 100004] =
    [PDone; POk 100001 false; PLogOk 100001; POk 100001 true; PFail; PLogOk 100002; PFail].
Proof. vm_compute. reflexivity. Qed.

(* a push opening never writes under a message identifier (the identifier a push payload names is chosen by
   whoever sends the payload): the keys stored by identifier are exactly those the log path stored *)
Theorem C14_push_never_stores_by_identifier :
  forall Nr s e cid c, snd (push_step Nr s e cid) (KCid c) = s (KCid c).
Proof. exact push_keeps_cid_keys. Qed.

Print Assumptions C14_window_plain.
Print Assumptions C14_window_low.
Print Assumptions C14_window_width.
Print Assumptions C14_ref_known_after_update.
Print Assumptions C14_push_preserves_log_path.
Print Assumptions C14_log_saves_cid.
Print Assumptions C14_log_moves_window.
Print Assumptions C14_push_after_log.
Print Assumptions C14_push_opens.
Print Assumptions C14_already_received_truthful.
Print Assumptions C14_unknown_ref_rejected.

Print Assumptions C14_flag_follows_the_cid_lookup.
Print Assumptions C14_push_never_stores_by_identifier.
