From Wesh Require Import Model.C16_Notify.
