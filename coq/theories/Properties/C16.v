(* C16 — Connectedness tracker and notify primitives: no deadlock, no missed update.
   Statements only.  One transition system models internal/notify and its three clients
   (they share one shape, see Model/C16_Notify.v); [reachable] closes the initial state of
   ANY scenario (any data, any views, any number of calls of two waiters, any update sequence,
   with or without cancellation) under any thread taking any enabled step.
   GenFacts/NotifyFacts.v proves, from what the translator extracts from the current sources,
   that the lock-order graph of the four files is acyclic and that the state mutex is the
   notify locker. *)
From Coq Require Import List NArith Bool.
From Wesh Require Import Model.C16_Notify Proofs.C16_Notify.
Import ListNotations.
Open Scope N_scope.

Theorem C16_no_missed_update :
  forall d ca va cb vb keep ops wc s b,
    reachable (init d ca va cb vb keep ops wc) s ->
    w_pc (getw s b) = WParked -> diff (dat s) (w_view (getw s b)) <> [] ->
    (u_pc s = UNmuLock /\ exists s1, ustep s = [s1] /\ u_pc s1 = UClose /\ w_pc (getw s1 b) = WParked) \/
    (u_pc s = UClose /\ exists s1, ustep s = [s1] /\ w_pc (getw s1 b) = WRelock /\ w_ok (getw s1 b) = true).
Proof. exact no_missed_update. Qed.

Theorem C16_deadlock_free :
  forall d ca va cb vb keep ops wc s,
    reachable (init d ca va cb vb keep ops wc) s ->
    (exists b, waiter_idle (w_pc (getw s b)) = false) \/ u_pc s <> UDone \/ canceller s = Some false ->
    exists tid s', In s' (step s tid).
Proof. exact deadlock_free. Qed.

Theorem C16_mutual_exclusion :
  forall d ca va cb vb keep ops wc s,
    reachable (init d ca va cb vb keep ops wc) s ->
    (forall b, holdsLw (w_pc (getw s b)) = true -> lockL s = WaiterO b) /\
    (holdsLu (u_pc s) = true -> lockL s = UpdaterO).
Proof. exact mutual_exclusion. Qed.

Theorem C16_cancel_prompt :
  forall d ca va cb vb keep ops wc s b,
    reachable (init d ca va cb vb keep ops wc) s -> cancelled s = true -> w_pc (getw s b) <> WParked.
Proof. exact cancel_prompt. Qed.

Theorem C16_cancelled_wait_negative :
  forall s b, w_pc (getw s b) = WRelock -> w_ok (getw s b) = false -> lockL s = Nobody ->
              exists s', wstep s b = [s'] /\ w_pc (getw s' b) = WRet [] false.
Proof. exact cancelled_wait_negative. Qed.

(* a positive return carries exactly the keys whose tracked value differs from the view *)
Theorem C16_exact_result :
  forall s w upd okv, w_pc (check s w) = WRet upd okv ->
                      upd = diff (dat s) (w_view w) /\ upd <> [] /\ okv = true.
Proof. exact check_exact. Qed.

(* an update that does not broadcast cannot change what any waiter would report *)
Theorem C16_quiet_update_invisible :
  forall d o d' view, app d o = (d', false) -> diff d' view = diff d view.
Proof. exact app_quiet_same_diff. Qed.

(* non-vacuity: a schedule in which the waiter parks, the updater associates a peer and
   broadcasts, the waiter wakes and reports peer 1 *)
Example C16_nonvacuous :
  exists s,
    fold_left (fun ss t => flat_map (fun s => step s t) ss)
              [0; 0; 0; 0; 0; 0; 2; 2; 2; 2; 2; 2; 0; 0] [init [] 1 [] 0 [] true [UAssoc 1] false] = [s] /\
    w_pc (wa s) = WDone /\ w_res (wa s) = [([1], true)].
Proof. eexists. vm_compute. repeat split. Qed.

Print Assumptions C16_no_missed_update.
Print Assumptions C16_deadlock_free.
Print Assumptions C16_mutual_exclusion.
Print Assumptions C16_cancel_prompt.
Print Assumptions C16_cancelled_wait_negative.
Print Assumptions C16_exact_result.
Print Assumptions C16_quiet_update_invisible.
