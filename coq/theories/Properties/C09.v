(* C09 — Concurrent sends never reuse a counter, key or nonce; chain only moves forward.
   Statements only.  [reachable] closes the initial state (stored counter c0, any number of
   senders with any number of messages each) under any sender taking any enabled step. *)
From Coq Require Import List NArith Bool.
From Coq Require Import String.
From Wesh Require Import Model.C09_Seal Proofs.C09_Seal Model.C11_FirstUse Proofs.C11_FirstUse.
From Wesh Require Model.Store Model.C02_Ratchet Proofs.C02_Ratchet Proofs.C02_Spec.
From Coq Require Lia ZifyN ZifyNat.
From Wesh Require Import Gen.Seal GenFacts.SealFacts.
Import ListNotations.
Open Scope N_scope.

(* the envelopes returned so far carry exactly c0+1, c0+2, ... in return order: pairwise
   distinct, gap-free, increasing; hence each message key / nonce (= counter) protects one payload *)
Theorem C09_seal_counters_exact :
  forall c0 lefts s, reachable (init c0 lefts) s -> emitted s = seqN (c0 + 1) (List.length (emitted s)).
Proof. exact seal_counters_exact. Qed.

Theorem C09_counters_distinct :
  forall c0 lefts s, reachable (init c0 lefts) s -> NoDup (emitted s).
Proof. exact counters_distinct. Qed.

Theorem C09_stored_counter_monotone :
  forall c0 lefts s i s', reachable (init c0 lefts) s -> In s' (sstep s i) -> ctr s <= ctr s'.
Proof. exact stored_counter_monotone. Qed.

(* the chain the counters belong to exists ONCE: whoever uses a group first (PutGroup, a chain-key
   announcement, a seal) creates the own chain key if it finds none; look-up and creation are one
   critical section of the message mutex (generated skeleton of getOwnDeviceChainKeyForGroup, the
   shape of Model.C11_FirstUse.fu_step), so for any number of first users and any schedule everybody
   ends up with the key that is stored; looking it up under a shared lock and creating it afterwards
   lets a second creator replace a chain that has already been used (counters restart) *)
Theorem C09_first_use_one_chain :
  (forall n sched s i j r r',
     fu_run (fu_init n) sched = Some s ->
     nth_error (fu_threads s) i = Some (TDone r) -> nth_error (fu_threads s) j = Some (TDone r') ->
     r = r' /\ fu_store s = Some r) /\
  (skel_own_chain_key = ["lock s.messageMutex"; "defer unlock s.messageMutex";
                         "call getDeviceChainKeyForGroupAndDevice"; "call newDeviceChainKey"; "call registerChainKey"])%string /\
  (exists s, urun (mkU None [UStart; UStart] 1) [0%nat; 1%nat; 0%nat; 1%nat] = Some s /\
             u_threads s = [UDone 1; UDone 2] /\ u_store s = Some 2).
Proof. exact (conj first_use_agreement (conj skel_own_chain_key_ok unlocked_first_use_disagrees)). Qed.

(* every emitted envelope is the honest envelope of its counter, so a receiver that registered
   the chain key at c0 opens all of them with retries: C02_retry_completeness applies to the
   counters c0+1 .. c0+n of this theorem *)

Example C09_nonvacuous :
  exists s, fold_left (fun ss t => flat_map (fun s => sstep s t) ss)
                      [0; 1; 0; 0; 0; 0; 0; 0; 0; 1; 1; 1; 1; 1; 1; 1]%nat [init 3 [1; 1]%nat] = [s] /\
            emitted s = [4; 5] /\ ctr s = 5 /\ holder s = None.
Proof. eexists. vm_compute. repeat split. Qed.

(* the own chain key is written outside [SealEnvelope] by ONE caller only (its creation at first use, above); an
   announcement read back from the metadata log never takes the store-as-it-is branch of registerChainKey in
   the CURRENT source (generated facts): it could put an older counter back *)
Theorem C09_announcements_never_overwrite_own_chain :
  (register_public_own_test = "localMemberDevice.Member().Equals(senderDevicePublicKey)" /\
   register_public_passes = "hasSecretBeenSentByCurrentDevice" /\
   register_chain_key_callers = ["getOwnDeviceChainKeyForGroup: true"; "RegisterChainKey: hasSecretBeenSentByCurrentDevice"])%string.
Proof. exact register_branches_ok. Qed.

Print Assumptions C09_seal_counters_exact.
Print Assumptions C09_counters_distinct.
Print Assumptions C09_stored_counter_monotone.
Print Assumptions C09_first_use_one_chain.
Print Assumptions C09_announcements_never_overwrite_own_chain.

(* "... and every one of them opens correctly at a receiver": whatever the schedule of the senders, a
   receiver that registered the device's chain key at c0 (any window W >= 1) and is handed the envelopes
   produced so far - in ANY order, with any repetitions, mixed with anything else - opens every one of
   them when it keeps retrying (C02's abstract ratchet, which the datastore-level store model refines):
   the counters are exactly c0+1 .. c0+n (above), which is what C02_retry_completeness asks for *)
Theorem C09_all_produced_envelopes_open :
  forall c0 lefts s, reachable (init c0 lefts) s ->
  forall W, (1 <= W)%nat ->
  forall (L : list C02_Ratchet.rop) st d (cidf : N -> N -> N),
    st d = Some (c0, []) ->
    (forall k, In k (emitted s) -> In (C02_Ratchet.ROpen d k (cidf d k)) L) ->
    exists opened,
      C02_Spec.passes W (List.length (emitted s)) st L d = Some (c0, opened) /\
      forall k, In k (emitted s) -> In k opened.
Proof.
  intros c0 lefts s Hr W HW L st d cidf Hst HL.
  pose proof (seal_counters_exact c0 lefts s Hr) as E.
  destruct (C02_Spec.retry_completeness W HW (List.length (emitted s)) L st d c0 [] cidf Hst (NoDup_nil _)
              (fun k H => match H with end)) as (opened & Hp & Hinc).
  - intros i Hi. apply HL. rewrite E. replace (c0 + N.of_nat i) with (c0 + 1 + N.of_nat (i - 1)) by Lia.lia.
    apply seqN_in. Lia.lia.
  - exists opened. split; [exact Hp|]. intros k Hk. apply Hinc.
    rewrite E in Hk. clear - Hk. unfold C02_Spec.upto. apply in_map_iff.
    assert (G : forall n f x, In x (seqN f n) -> exists i, (i < n)%nat /\ x = f + N.of_nat i).
    { induction n as [|n IH]; intros f x H; [destruct H|]. cbn [seqN] in H. destruct H as [<-|H].
      - exists 0%nat. split; Lia.lia.
      - destruct (IH _ _ H) as (i & Hi & ->). exists (S i). split; Lia.lia. }
    destruct (G _ _ _ Hk) as (i & Hi & ->). exists (S i). split; [Lia.lia|]. apply in_seq. Lia.lia.
Qed.
Print Assumptions C09_all_produced_envelopes_open.
