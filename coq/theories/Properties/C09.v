(* C09 — Concurrent sends never reuse a counter, key or nonce; chain only moves forward.
   Statements only.  [reachable] closes the initial state (stored counter c0, any number of
   senders with any number of messages each) under any sender taking any enabled step. *)
From Coq Require Import List NArith Bool.
From Wesh Require Import Model.C09_Seal Proofs.C09_Seal.
Import ListNotations.
Open Scope N_scope.

(* the envelopes returned so far carry exactly c0+1, c0+2, ... in return order: pairwise
   distinct, gap-free, increasing; hence each message key / nonce (= counter) protects one payload *)
Theorem C09_seal_counters_exact :
  forall c0 lefts s, reachable (init c0 lefts) s -> emitted s = seqN (c0 + 1) (length (emitted s)).
Proof. exact seal_counters_exact. Qed.

Theorem C09_counters_distinct :
  forall c0 lefts s, reachable (init c0 lefts) s -> NoDup (emitted s).
Proof. exact counters_distinct. Qed.

Theorem C09_stored_counter_monotone :
  forall c0 lefts s i s', reachable (init c0 lefts) s -> In s' (sstep s i) -> ctr s <= ctr s'.
Proof. exact stored_counter_monotone. Qed.

(* every emitted envelope is the honest envelope of its counter, so a receiver that registered
   the chain key at c0 opens all of them with retries: C02_retry_completeness applies to the
   counters c0+1 .. c0+n of this theorem *)

Example C09_nonvacuous :
  exists s, fold_left (fun ss t => flat_map (fun s => sstep s t) ss)
                      [0; 1; 0; 0; 0; 0; 0; 0; 0; 1; 1; 1; 1; 1; 1; 1]%nat [init 3 [1; 1]%nat] = [s] /\
            emitted s = [4; 5] /\ ctr s = 5 /\ holder s = None.
Proof. eexists. vm_compute. repeat split. Qed.

Print Assumptions C09_seal_counters_exact.
Print Assumptions C09_counters_distinct.
Print Assumptions C09_stored_counter_monotone.
