(* C20 — An account export restores to the same identity, logs and state.
   Statements only.  Model: Model.C20_Export (service.export / RestoreAccountExport of
   account_export.go; content-addressed entries: the bytes of an entry determine its identifier and
   its ancestors; keys are identifiers).  [restore has_account files] is the restore into a node
   whose secret store holds an account or not; it ends in a restored state, a rejection, or is
   stuck waiting for entries that are nowhere to be found. *)
From Coq Require Import List NArith Bool.
From Wesh Require Import Model.C20_Export Proofs.C20_Export.
From Coq Require Import String.
From Wesh Require Import Model.MetaLog Model.C20_Registry Proofs.C20_Registry Gen.Registry GenFacts.RegistryFacts.
Import ListNotations.
Open Scope N_scope.

(* restoring an export into an empty node yields the same two account keys and, for every exported
   group, logs with exactly the same entries and heads.  (The same derived group state follows:
   it is a function of the entry set, theorem C04_state_is_function_of_entry_set.) *)
Theorem C20_restore_export_roundtrip :
  forall s, wf s ->
    exists r, restore false (export s) = inl r /\
              r_account r = Some (BKey (xs_account s)) /\ r_proof r = Some (BKey (xs_proof s)) /\
              forall g, In g (xs_groups s) ->
                exists lm ls, lookup_log (xg_id g) (r_logs r) = Some (lm, ls) /\ group_result g lm ls.
Proof. exact restore_export. Qed.

(* an archive with an entry whose bytes do not match their identifier (or do not decode) is never
   restored, wherever the entry sits and whatever else the archive holds *)
Theorem C20_tampered_entry_not_restored :
  forall ha fs1 claimed content fs2,
    bad_entry claimed content -> exists e, restore ha (fs1 ++ FEntry claimed content :: fs2) = inr e.
Proof. exact tampered_entry_not_restored. Qed.

(* a missing key file *)
Theorem C20_missing_key_rejected :
  forall ha w fs, forallb (fun f => negb (is_key w f)) fs = true -> exists e, restore ha fs = inr e.
Proof. exact missing_key_rejected. Qed.

(* a duplicated key file *)
Theorem C20_duplicate_key_rejected :
  forall ha w b1 b2 fs1 fs2 fs3, exists e, restore ha (fs1 ++ FKey w b1 :: fs2 ++ FKey w b2 :: fs3) = inr e.
Proof. exact duplicate_key_rejected. Qed.

(* restoring onto a store that already holds an account *)
Theorem C20_existing_account_rejected : forall fs, exists e, restore true fs = inr e.
Proof. exact existing_account_rejected. Qed.

(* key files that are not two distinct well-formed keys *)
Theorem C20_malformed_keys_rejected :
  forall ha fs s, rfiles rinit fs = inl s ->
    (forall x, r_account s <> Some (BKey x)) \/ (forall y, r_proof s <> Some (BKey y)) \/
    (exists x, r_account s = Some (BKey x) /\ r_proof s = Some (BKey x)) ->
    restore ha fs = inr Rejected.
Proof. exact malformed_keys_rejected. Qed.

(* what the restored node can OPEN: its group registry is rebuilt from the account log; with the
   states the CURRENT source lists (generated fact) the one-to-one group of every contact that has a
   record - blocked, removed and discarded ones included - and every joined multi-member group is
   found by its key; listing the live states only would lose the group of a blocked contact *)
Theorem C20_restored_groups_reachable :
  (forall v pk st, In (pk, st) (av_contacts v) -> st <> CUndef -> reachable all_states v (GContactOf pk) = true) /\
  (forall listed v g, In (g, true) (av_groups v) -> reachable listed v (GMultiMember g) = true) /\
  (registry_sources = ["m.ListMultiMemberGroups"; "m.ListContactsByStatus"] /\
   registry_contact_states = ["ToRequest"; "Received"; "Added"; "Removed"; "Discarded"; "Blocked"])%string /\
  (reachable [CToRequest; CReceived; CAdded] (mkAV [(7, CBlocked)] []) (GContactOf 7) = false /\
   reachable all_states (mkAV [(7, CBlocked)] []) (GContactOf 7) = true).
Proof.
  exact (conj every_contact_group_reachable (conj every_joined_group_reachable
         (conj registry_lists_every_contact live_states_only_loses_groups))).
Qed.

Print Assumptions C20_restored_groups_reachable.
Print Assumptions C20_restore_export_roundtrip.
Print Assumptions C20_tampered_entry_not_restored.
Print Assumptions C20_missing_key_rejected.
Print Assumptions C20_duplicate_key_rejected.
Print Assumptions C20_existing_account_rejected.
Print Assumptions C20_malformed_keys_rejected.
