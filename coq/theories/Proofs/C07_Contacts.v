(* C07 — proofs: the guarded operations over the indexed log refine the reference lifecycle. *)
From Coq Require Import List NArith Bool Lia FunctionalExtensionality.
From Wesh Require Import Model.MetaLog Proofs.MetaLog Model.C07_Contacts.
Import ListNotations.
Open Scope N_scope.

Lemma abs_init : abs ginit = ref_init.
Proof. apply functional_extensionality; intros k. reflexivity. Qed.

Lemma abs_set s pk c :
  abs (set_contact s pk c) = upd (abs s) pk (mkR (c_state c) (c_meta c) (c_seed c) (c_own c)).
Proof.
  apply functional_extensionality; intros k. unfold abs, set_contact, upd; cbn. unfold upd.
  destruct (k =? pk); reflexivity.
Qed.

Lemma state_in_abs s pk : state_in s pk = r_state (abs s pk).
Proof. unfold state_in, abs. destruct (g_contact s pk); reflexivity. Qed.

Lemma prev_meta_abs s pk : prev_meta s pk = r_meta (abs s pk).
Proof. unfold prev_meta, abs. destruct (g_contact s pk); reflexivity. Qed.

Lemma prev_seed_abs s pk : prev_seed s pk = r_seed (abs s pk).
Proof. unfold prev_seed, abs. destruct (g_contact s pk); reflexivity. Qed.

Lemma abs_plain own s pk st e :
  (e = ESent pk /\ st = CAdded) \/ (e = EDisc pk /\ st = CDiscarded) \/ (e = EAcc pk /\ st = CAdded) \/
  (e = EBlock pk /\ st = CBlocked) \/ (e = EUnblock pk /\ st = CRemoved) ->
  abs (happly own s e) = upd (abs s) pk (mkR st (r_meta (abs s pk)) (r_seed (abs s pk)) None).
Proof.
  intros H.
  assert (E : happly own s e = apply_plain s pk st)
    by (destruct H as [[-> ->]|[[-> ->]|[[-> ->]|[[-> ->]|[-> ->]]]]]; reflexivity).
  rewrite E. unfold apply_plain. rewrite abs_set. cbn. rewrite prev_meta_abs, prev_seed_abs. reflexivity.
Qed.

(* one operation: the guard agrees with the table, and the appended event moves the indexed
   record exactly as the table says *)
Lemma op_refines self own s o :
  match op_event self s o with
  | Some e => ref_step self (abs s) o = (abs (happly own s e), true)
  | None => ref_step self (abs s) o = (abs s, false)
  end.
Proof.
  destruct o as [c ownmd|pk|c|pk|pk|pk|pk]; unfold op_event, ref_step, op_target.
  - destruct (check_format false c) as [pk|]; [|reflexivity].
    destruct (pk =? self); [reflexivity|].
    rewrite state_in_abs.
    destruct (r_state (abs s pk)) eqn:E; cbn [table sent_guard].
    + f_equal. cbn [happly]. rewrite abs_set. cbn. rewrite prev_meta_abs, prev_seed_abs. reflexivity.
    + f_equal. cbn [happly]. rewrite abs_set. cbn. rewrite prev_meta_abs, prev_seed_abs. reflexivity.
    + f_equal. erewrite abs_plain by (left; split; reflexivity). rewrite ?E; reflexivity.
    + reflexivity.
    + f_equal. erewrite abs_plain by (left; split; reflexivity). rewrite ?E; reflexivity.
    + f_equal. erewrite abs_plain by (left; split; reflexivity). rewrite ?E; reflexivity.
    + f_equal. cbn [happly]. rewrite abs_set. cbn. rewrite prev_meta_abs, prev_seed_abs. reflexivity.
  - rewrite state_in_abs.
    destruct (r_state (abs s pk)) eqn:E; cbn [table sent_guard]; try reflexivity;
      (f_equal; erewrite abs_plain by (left; split; reflexivity); rewrite ?E; reflexivity).
  - destruct (check_format true c) as [pk|]; [|reflexivity].
    destruct (pk =? self); [reflexivity|].
    rewrite state_in_abs.
    destruct (r_state (abs s pk)) eqn:E; cbn [table sent_guard]; try reflexivity.
    + f_equal. cbn [happly]. rewrite abs_set. cbn. rewrite prev_meta_abs, prev_seed_abs. reflexivity.
    + f_equal. erewrite abs_plain by (left; split; reflexivity). rewrite ?E; reflexivity.
    + f_equal. cbn [happly]. rewrite abs_set. cbn. rewrite prev_meta_abs, prev_seed_abs. reflexivity.
    + f_equal. cbn [happly]. rewrite abs_set. cbn. rewrite prev_meta_abs, prev_seed_abs. reflexivity.
  - rewrite state_in_abs.
    destruct (r_state (abs s pk)) eqn:E; cbn [table]; try reflexivity.
    f_equal. erewrite abs_plain by (right; left; split; reflexivity). rewrite ?E; reflexivity.
  - rewrite state_in_abs.
    destruct (r_state (abs s pk)) eqn:E; cbn [table]; try reflexivity.
    f_equal. erewrite abs_plain by (right; right; left; split; reflexivity). rewrite ?E; reflexivity.
  - destruct (pk =? self); [reflexivity|].
    rewrite state_in_abs.
    destruct (r_state (abs s pk)) eqn:E; cbn [table]; try reflexivity;
      (f_equal; erewrite abs_plain by (right; right; right; left; split; reflexivity); rewrite ?E; reflexivity).
  - rewrite state_in_abs.
    destruct (r_state (abs s pk)) eqn:E; cbn [table]; try reflexivity.
    f_equal. erewrite abs_plain by (right; right; right; right; split; reflexivity). rewrite ?E; reflexivity.
Qed.

Lemma apply_log_snoc own l e : apply_log own (l ++ [e]) = happly own (apply_log own l) e.
Proof. unfold apply_log. rewrite fold_left_app. reflexivity. Qed.

Lemma cstep_refines self own log o :
  ref_step self (abs (apply_log own log)) o =
  (abs (apply_log own (fst (cstep self own log o))), snd (cstep self own log o)).
Proof.
  unfold cstep. pose proof (op_refines self own (apply_log own log) o) as H.
  destruct (op_event self (apply_log own log) o) as [e|]; cbn [fst snd].
  - rewrite apply_log_snoc. exact H.
  - exact H.
Qed.

Lemma run_refines self own ops : forall log,
  ref_run self (abs (apply_log own log)) ops =
  (abs (apply_log own (fst (crun self own log ops))), snd (crun self own log ops)).
Proof.
  induction ops as [|o ops IH]; intros log; cbn [crun ref_run]; [reflexivity|].
  rewrite cstep_refines.
  destruct (cstep self own log o) as [log1 b] eqn:E1. cbn [fst snd].
  rewrite IH.
  destruct (crun self own log1 ops) as [log2 bs]. reflexivity.
Qed.

(* after any sequence of operations, results and every contact's record are those of the
   reference lifecycle *)
Lemma lifecycle_refines self own ops :
  ref_run self ref_init ops =
  (abs (apply_log own (fst (crun self own [] ops))), snd (crun self own [] ops)).
Proof. rewrite <- abs_init. apply (run_refines self own ops []). Qed.

(* a refused operation appends nothing; an accepted one appends exactly one event *)
Lemma refused_appends_nothing self own log o :
  snd (cstep self own log o) = false -> fst (cstep self own log o) = log.
Proof. unfold cstep. destruct (op_event _ _ _); cbn; [discriminate | reflexivity]. Qed.

Lemma accepted_appends_one self own log o :
  snd (cstep self own log o) = true -> exists e, fst (cstep self own log o) = log ++ [e].
Proof. unfold cstep. destruct (op_event _ _ _) as [e|]; cbn; [exists e; reflexivity | discriminate]. Qed.

(* an account is never a contact of itself *)
Lemma ref_step_self self r o : r self = rinit -> fst (ref_step self r o) self = rinit.
Proof.
  intros H. unfold ref_step.
  destruct (op_target self o) as [[pk k]|] eqn:Et; [|exact H].
  destruct (table (r_state (r pk)) k) as [st'|] eqn:Tt; [|exact H].
  cbn [fst]. destruct (N.eq_dec pk self) as [->|Hne].
  - exfalso. rewrite H in Tt. cbn in Tt.
    destruct o as [c ownmd|p|c|p|p|p|p]; unfold op_target in Et.
    + destruct (check_format false c) as [p|]; [|discriminate].
      destruct (N.eqb_spec p self); [discriminate|]. congruence.
    + inversion Et; subst. discriminate.
    + destruct (check_format true c) as [p|]; [|discriminate].
      destruct (N.eqb_spec p self); [discriminate|]. congruence.
    + inversion Et; subst. discriminate.
    + inversion Et; subst. discriminate.
    + destruct (N.eqb_spec p self); [discriminate|]. congruence.
    + inversion Et; subst. discriminate.
  - rewrite upd_other by congruence. exact H.
Qed.

Lemma never_self self ops : forall r, r self = rinit -> fst (ref_run self r ops) self = rinit.
Proof.
  induction ops as [|o ops IH]; intros r H; cbn [ref_run]; [exact H|].
  pose proof (ref_step_self self r o H) as H1.
  destruct (ref_step self r o) as [r1 b]. cbn [fst] in H1.
  specialize (IH r1 H1). destruct (ref_run self r1 ops) as [r2 bs]. exact IH.
Qed.

(* an indexed contact is never in state Undefined: every handler assigns a defined state *)
Lemma summary_state_defined own l pk c :
  g_contact (summary own l) pk = Some c -> c_state c <> CUndef.
Proof.
  revert c. induction l as [|e l IH]; intros c; [rewrite summary_nil; cbn; discriminate|].
  rewrite summary_cons. cbn. unfold cmerge.
  destruct (g_contact (delta own e) pk) as [a|] eqn:Ea.
  - assert (Ha : c_state a <> CUndef).
    { unfold delta in Ea. destruct e; cbn in Ea; unfold scan_plain in Ea; cbn in Ea;
        try discriminate; try (destruct (_ =? own); cbn in Ea; discriminate);
        unfold upd in Ea; destruct (pk =? _); try discriminate; inversion Ea; subst; cbn; discriminate. }
    destruct (g_contact (summary own l) pk) as [b|]; intros H; inversion H; subst; cbn; exact Ha.
  - apply IH.
Qed.

Lemma apply_log_state_defined own l pk c :
  g_contact (apply_log own l) pk = Some c -> c_state c <> CUndef.
Proof.
  unfold apply_log. rewrite apply_summary, gmerge_init_r. apply summary_state_defined.
Qed.

Lemma never_self_log self own ops :
  g_contact (apply_log own (fst (crun self own [] ops))) self = None.
Proof.
  pose proof (never_self self ops ref_init eq_refl) as H.
  rewrite lifecycle_refines with (own := own) in H. cbn [fst] in H.
  unfold abs in H. destruct (g_contact _ self) as [c|] eqn:E; [|reflexivity].
  exfalso. apply (apply_log_state_defined _ _ _ _ E).
  unfold rinit in H. inversion H. reflexivity.
Qed.

(* a blocked contact's incoming request is refused, whatever it carries *)
Lemma blocked_refuses_incoming self s c pk :
  state_in s pk = CBlocked -> check_format true c = Some pk -> op_event self s (ORecv c) = None.
Proof.
  intros Hb Hc. unfold op_event. rewrite Hc. destruct (pk =? self); [reflexivity|]. rewrite Hb. reflexivity.
Qed.

Lemma blocked_refuses_sent s pk : state_in s pk = CBlocked -> op_event 0 s (OSent pk) = None.
Proof. intros Hb. unfold op_event. rewrite Hb. reflexivity. Qed.

(* malformed contacts are refused in every state *)
Lemma malformed_refused self s c own :
  check_format false c = None -> op_event self s (OEnq c own) = None.
Proof. intros H. unfold op_event. rewrite H. reflexivity. Qed.

Lemma malformed_incoming_refused self s c :
  check_format true c = None -> op_event self s (ORecv c) = None.
Proof. intros H. unfold op_event. rewrite H. reflexivity. Qed.

Lemma check_format_spec allow c pk :
  check_format allow c = Some pk <->
  ci_pk c = PkOk pk /\ ((exists n, ci_seed c = SdOk n) \/ (allow = true /\ ci_seed c = SdMissing)).
Proof.
  unfold check_format. destruct (ci_seed c) as [n| |]; destruct (ci_pk c) as [p| |]; destruct allow;
    split; try discriminate; try (intros [H _]; discriminate);
    try (intros H; inversion H; subst; split; [reflexivity|]; eauto; fail);
    try (intros [H _]; inversion H; reflexivity);
    try (intros [_ [[n' H]|[H _]]]; discriminate);
    try (intros [_ [[n' H]|[_ H]]]; discriminate).
Qed.

(* the contact part of the state does not depend on which device indexes the log *)
Lemma happly_contact own own' s s' e :
  g_contact s = g_contact s' -> g_contact (happly own s e) = g_contact (happly own' s' e).
Proof.
  intros H.
  destruct e; cbn; unfold apply_plain, prev_meta, prev_seed; cbn; rewrite ?H; try reflexivity; try exact H.
  destruct (sender =? own), (sender =? own'); cbn; rewrite ?H; reflexivity.
Qed.

Lemma fold_happly_contact own own' l : forall s s', g_contact s = g_contact s' ->
  g_contact (fold_left (happly own) l s) = g_contact (fold_left (happly own') l s').
Proof.
  induction l as [|e l IH]; intros s s' H; cbn; [exact H|]. apply IH. apply happly_contact. exact H.
Qed.

Lemma apply_log_contact own own' l : g_contact (apply_log own l) = g_contact (apply_log own' l).
Proof. unfold apply_log. apply fold_happly_contact. reflexivity. Qed.

Lemma abs_contact s s' : g_contact s = g_contact s' -> abs s = abs s'.
Proof. intros H. apply functional_extensionality; intros k. unfold abs. rewrite H. reflexivity. Qed.

(* any replica that holds the entries of the log the operations produced — whichever device it
   is, however the entries reached it — reports the contacts of the reference lifecycle *)
Lemma replica_replays self own own' ops es :
  map e_ev (sort_entries es) = fst (crun self own [] ops) ->
  abs (index own' es) = fst (ref_run self ref_init ops).
Proof.
  intros H. rewrite index_is_apply, H, (lifecycle_refines self own ops). cbn [fst].
  apply abs_contact. apply apply_log_contact.
Qed.

(* non-vacuity: a concrete run that visits refusals, the implicit accept and a block/unblock *)
Example lifecycle_run :
  let c := mkCI (PkOk 5) (SdOk 9) 3 in
  snd (crun 1 2 [] [OEnq c 4; OEnq c 4; ORecv c; OSent 5; OBlock 5; ORecv c; OUnblock 5; OEnq (mkCI (PkOk 1) (SdOk 9) 0) 0])
  = [true; true; true; false; true; false; true; false].
Proof. vm_compute. reflexivity. Qed.
