(* C05 (receiving side): whatever part of the log a device holds when it is activated and in
   whatever order the rest arrives, it registers exactly the chain keys addressed to its member. *)
From Coq Require Import List NArith Bool Permutation Lia.
From Wesh Require Import Model.C05_ChainKeyAnn Model.C05_Receive Proofs.C05_ChainKeyAnn.
Import ListNotations.
Open Scope N_scope.

Lemma in_addressed me e s : In s (addressed me e) <-> e = ChainKeyFor s me.
Proof.
  destruct e as [m d|s' m]; cbn; [split; [tauto|discriminate]|].
  destruct (N.eqb_spec m me) as [->|N]; cbn.
  - split; [intros [->|[]]; reflexivity | intros H; injection H as ->; left; reflexivity].
  - split; [tauto | intros H; injection H as -> ->; congruence].
Qed.

Lemma in_scan me log s : In s (scan me log) <-> In (ChainKeyFor s me) log.
Proof.
  unfold scan. rewrite in_flat_map. split.
  - intros [e [He Hs]]. apply in_addressed in Hs. subst e. exact He.
  - intros H. exists (ChainKeyFor s me). split; [exact H | apply in_addressed; reflexivity].
Qed.

(* exactly the keys addressed to the own member, for every split of the log *)
Theorem registered_exact me before after s :
  In s (registered me before after) <-> In (ChainKeyFor s me) (before ++ after).
Proof.
  unfold registered, live. rewrite in_app_iff, in_app_iff. fold (scan me after).
  rewrite !in_scan. tauto.
Qed.

(* ... and so independent of where the activation falls and of the arrival order *)
Theorem registered_split_independent me b1 a1 b2 a2 s :
  Permutation (b1 ++ a1) (b2 ++ a2) ->
  (In s (registered me b1 a1) <-> In s (registered me b2 a2)).
Proof.
  intros P. rewrite !registered_exact. split; intros H.
  - exact (Permutation_in _ P H).
  - exact (Permutation_in _ (Permutation_sym P) H).
Qed.

Lemma holds_spec me before after s :
  holds me before after s = true <-> In (ChainKeyFor s me) (before ++ after).
Proof.
  unfold holds. rewrite existsb_exists. rewrite <- registered_exact. split.
  - intros [x [Hx E]]. apply N.eqb_eq in E. subst x. exact Hx.
  - intros H. exists s. split; [exact H | apply N.eqb_refl].
Qed.

Lemma has_in log e : has log e = true <-> In e log.
Proof.
  unfold has. rewrite existsb_exists. split.
  - intros [x [Hx E]]. destruct e, x; cbn in E; try discriminate;
      apply andb_true_iff in E; destruct E as [E1 E2]; apply N.eqb_eq in E1; apply N.eqb_eq in E2; subst; exact Hx.
  - intros H. exists e. split; [exact H|]. destruct e; cbn; rewrite !N.eqb_refl; reflexivity.
Qed.

(* the receiving side agrees with the log-level reading used by distribution_complete: a device
   of member me holds the key of s exactly when the whole log says it knows it *)
Theorem holds_is_knows me d before after s :
  member_of (before ++ after) d = Some me ->
  holds me before after s = knows (before ++ after) d s.
Proof.
  intros M. unfold knows. rewrite M.
  apply eq_true_iff_eq. rewrite holds_spec, has_in. tauto.
Qed.

(* at quiescence, a device activated at ANY point of the history holds every announced device's key *)
Theorem late_device_complete me d m' s before after :
  quiescent (before ++ after) = true ->
  In (MemberDevice me d) (before ++ after) -> member_of (before ++ after) d = Some me ->
  In (MemberDevice m' s) (before ++ after) ->
  holds me before after s = true.
Proof.
  intros Q Hd M Hs. rewrite (holds_is_knows me d before after s M).
  exact (Proofs.C05_ChainKeyAnn.distribution_complete _ me d m' s Q Hd Hs).
Qed.

(* ---- the variant that wants the sender's device announcement first ---- *)

(* skipping in the history path while deferring in the live path loses a key: device 12 of member 1
   is activated on a log that holds the chain key of the joining device 21 for member 1 but not yet
   the announcement of 21, which arrives afterwards *)
Theorem guarded_scan_loses_a_key :
  exists me before after s m,
    In (ChainKeyFor s me) (before ++ after) /\ In (MemberDevice m s) (before ++ after) /\
    ~ In s (registered_guarded me before after) /\
    In s (registered me before after).
Proof.
  exists 1, [MemberDevice 1 11; ChainKeyFor 11 1; ChainKeyFor 21 1], [MemberDevice 2 21; MemberDevice 1 12], 21, 2.
  split; [cbn; tauto|]. split; [cbn; tauto|]. split.
  - vm_compute. intros [H|[]]. discriminate.
  - vm_compute. tauto.
Qed.

Lemma announced_spec log s : announced log s = true <-> exists m, In (MemberDevice m s) log.
Proof.
  unfold announced, devices. rewrite existsb_exists. split.
  - intros [x [Hx E]]. apply N.eqb_eq in E. subst x. apply in_flat_map in Hx.
    destruct Hx as [e [He Hx]]. destruct e as [m d|]; [|destruct Hx]. destruct Hx as [->|[]]. exists m. exact He.
  - intros [m H]. exists s. split; [|apply N.eqb_refl]. apply in_flat_map. exists (MemberDevice m s). split; [exact H|left; reflexivity].
Qed.

Lemma announced_app log e s : announced log s = true -> announced (log ++ [e]) s = true.
Proof. rewrite !announced_spec. intros [m H]. exists m. apply in_or_app. left. exact H. Qed.

Lemma ld_pending me after : forall seen pending s,
  In s pending -> (exists m, In (MemberDevice m s) after) -> In s (live_deferred me seen pending after).
Proof.
  induction after as [|e rest IH]; intros seen pending s Hp [m Hm]; [destruct Hm|].
  cbn [live_deferred]. destruct e as [m0 d|s' m'].
  - destruct (N.eqb_spec d s) as [->|Nds].
    + assert (E : existsb (N.eqb s) pending = true) by (apply existsb_exists; exists s; split; [exact Hp|apply N.eqb_refl]).
      rewrite E. left. reflexivity.
    + assert (Hr : exists m, In (MemberDevice m s) rest).
      { destruct Hm as [Hm|Hm]; [injection Hm as _ ->; congruence | exists m; exact Hm]. }
      destruct (existsb (N.eqb d) pending).
      * right. apply IH; [|exact Hr]. apply filter_In. split; [exact Hp|].
        apply negb_true_iff. apply N.eqb_neq. congruence.
      * apply IH; assumption.
  - assert (Hr : exists m, In (MemberDevice m s) rest).
    { destruct Hm as [Hm|Hm]; [discriminate | exists m; exact Hm]. }
    destruct (m' =? me); [destruct (announced seen s')|].
    + right. apply IH; assumption.
    + apply IH; [right; exact Hp | exact Hr].
    + apply IH; assumption.
Qed.

Lemma ld_chain_key me after : forall seen pending s,
  In (ChainKeyFor s me) after ->
  (announced seen s = true \/ exists m, In (MemberDevice m s) after) ->
  In s (live_deferred me seen pending after).
Proof.
  induction after as [|e rest IH]; intros seen pending s Hc Ha; [destruct Hc|].
  destruct Hc as [->|Hc].
  - cbn [live_deferred]. rewrite N.eqb_refl. destruct (announced seen s) eqn:A; [left; reflexivity|].
    apply ld_pending; [left; reflexivity|]. destruct Ha as [Ha|[m [Hm|Hm]]]; [discriminate|discriminate|exists m; exact Hm].
  - assert (Ha' : announced (seen ++ [e]) s = true \/ exists m, In (MemberDevice m s) rest).
    { destruct Ha as [Ha|[m [Hm|Hm]]].
      - left. apply announced_app. exact Ha.
      - left. apply announced_spec. exists m. apply in_or_app. right. left. exact Hm.
      - right. exists m. exact Hm. }
    cbn [live_deferred]. destruct e as [m0 d|s' m'].
    + destruct (existsb (N.eqb d) pending); [right|]; apply IH; assumption.
    + destruct (m' =? me); [destruct (announced seen s'); [right|]|]; apply IH; assumption.
Qed.

(* deferring in BOTH paths is complete again: every announced device's key is registered, for every
   split of the log and every arrival order *)
Theorem deferred_complete me before after s m :
  In (ChainKeyFor s me) (before ++ after) -> In (MemberDevice m s) (before ++ after) ->
  In s (registered_deferred me before after).
Proof.
  intros Hc Hm. unfold registered_deferred. apply in_or_app.
  apply in_app_or in Hc. destruct Hc as [Hc|Hc].
  - destruct (announced before s) eqn:A.
    + left. unfold scan_guarded. apply filter_In. split; [apply in_scan; exact Hc | exact A].
    + right. apply ld_pending.
      * unfold scan_pending. apply filter_In. split; [apply in_scan; exact Hc | rewrite A; reflexivity].
      * apply in_app_or in Hm. destruct Hm as [Hm|Hm]; [|exists m; exact Hm].
        assert (announced before s = true) by (apply announced_spec; exists m; exact Hm). congruence.
  - right. apply ld_chain_key; [exact Hc|].
    apply in_app_or in Hm. destruct Hm as [Hm|Hm]; [left; apply announced_spec; exists m; exact Hm | right; exists m; exact Hm].
Qed.

(* ---------- the two instants of an activation ---------- *)
Lemma skipn_incl {A} : forall (l : list A) i j, (i <= j)%nat -> incl (skipn j l) (skipn i l).
Proof.
  induction l as [|x l IH]; intros i j H; [destruct i, j; cbn; apply incl_refl|].
  destruct j as [|j]; [replace i with 0%nat by lia; apply incl_refl|].
  destruct i as [|i]; cbn [skipn].
  - intros y Hy. right. apply (IH 0%nat j); [lia|exact Hy].
  - apply IH. lia.
Qed.

Lemma in_firstn_or_skipn {A} (l : list A) n x : In x l -> In x (firstn n l) \/ In x (skipn n l).
Proof. intros H. rewrite <- (firstn_skipn n l) in H. apply in_app_or in H. exact H. Qed.

(* subscription first: every announcement addressed to the member, wherever it falls in the arrival
   order relative to the two instants, is registered *)
Lemma activation_window_complete me L i_sub i_snap s :
  (i_sub <= i_snap)%nat -> In s (flat_map (addressed me) L) -> In s (registered_window me L i_sub i_snap).
Proof.
  intros Hle Hin. apply in_flat_map in Hin. destruct Hin as (e & He & Hs).
  unfold registered_window, scan, live. apply in_or_app.
  destruct (in_firstn_or_skipn L i_snap e He) as [H|H].
  - left. apply in_flat_map. exists e. split; assumption.
  - right. apply in_flat_map. exists e. split; [|exact Hs]. apply (skipn_incl L i_sub i_snap Hle). exact H.
Qed.

(* ... and nothing else is *)
Lemma activation_window_sound me L i_sub i_snap s :
  In s (registered_window me L i_sub i_snap) -> In s (flat_map (addressed me) L).
Proof.
  unfold registered_window, scan, live. intros H. apply in_app_or in H.
  apply in_flat_map. destruct H as [H|H]; apply in_flat_map in H; destruct H as (e & He & Hs); exists e; split; try exact Hs.
  - rewrite <- (firstn_skipn i_snap L). apply in_or_app. left. exact He.
  - rewrite <- (firstn_skipn i_sub L). apply in_or_app. right. exact He.
Qed.

(* scan first, subscription afterwards: the announcement that arrives in between is lost *)
Lemma scan_before_subscription_loses_a_key :
  let L := [MemberDevice 1 10; ChainKeyFor 20 1; MemberDevice 2 20] in
  holds_window 1 L 2 1 20 = false /\ In 20 (flat_map (addressed 1) L) /\ holds_window 1 L 1 2 20 = true.
Proof. vm_compute. repeat split; try reflexivity. left. reflexivity. Qed.
