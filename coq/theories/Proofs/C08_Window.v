(* C08 — the consumer loop with the key window: termination of the loop, the invariant
   "no parked message opens in the current ratchet state", conservation of entries, completeness
   for a gap-free prefix, independence of the arrival order. *)
From Coq Require Import List NArith Bool Arith Lia ZifyN ZifyNat ZifyBool Permutation.
From Wesh Require Import Model.Store Model.C02_Ratchet Proofs.C02_Ratchet Proofs.C02_Spec Model.C08_Window.
Import ListNotations.
Open Scope N_scope.

Lemma wmsg_eq_dec (a b : wmsg) : {a = b} + {a <> b}.
Proof. decide equality; apply N.eq_dec. Qed.

Definition wcnt (x : wmsg) (l : list wmsg) : nat := count_occ wmsg_eq_dec l x.

Lemma wcnt_app x a b : wcnt x (a ++ b) = (wcnt x a + wcnt x b)%nat.
Proof. unfold wcnt. apply count_occ_app. Qed.
Lemma wcnt_in x l : (wcnt x l > 0)%nat <-> In x l.
Proof. unfold wcnt. symmetry. apply count_occ_In. Qed.
Lemma wcnt_cons x y l : wcnt x (y :: l) = ((if wmsg_eq_dec y x then 1 else 0) + wcnt x l)%nat.
Proof. unfold wcnt. cbn [count_occ]. destruct (wmsg_eq_dec y x); reflexivity. Qed.
Lemma wcnt_one x y : wcnt x [y] = (if wmsg_eq_dec y x then 1 else 0)%nat.
Proof. rewrite wcnt_cons. unfold wcnt. cbn. lia. Qed.

Lemma winsert_cnt x m l : wcnt x (winsert m l) = wcnt x (m :: l).
Proof.
  induction l as [|y l IH]; cbn [winsert]; [reflexivity|].
  destruct (w_ctr m <=? w_ctr y); [reflexivity|].
  rewrite wcnt_cons, IH, !wcnt_cons. lia.
Qed.
Lemma wsort_cnt x l : wcnt x (wsort l) = wcnt x l.
Proof.
  induction l as [|y l IH]; [reflexivity|]. unfold wsort in *. cbn [fold_right].
  rewrite winsert_cnt, !wcnt_cons, IH. reflexivity.
Qed.
Lemma winsert_length m l : length (winsert m l) = S (length l).
Proof.
  induction l as [|y l IH]; cbn [winsert]; [reflexivity|].
  destruct (w_ctr m <=? w_ctr y); cbn [length]; [reflexivity|]. rewrite IH. reflexivity.
Qed.
Lemma wsort_length l : length (wsort l) = length l.
Proof.
  induction l as [|y l IH]; [reflexivity|]. unfold wsort in *. cbn [fold_right length].
  rewrite winsert_length, IH. reflexivity.
Qed.

Lemma filter_split_cnt x (f : wmsg -> bool) l :
  (wcnt x (filter f l) + wcnt x (filter (fun m => negb (f m)) l) = wcnt x l)%nat.
Proof.
  induction l as [|y l IH]; [reflexivity|]. cbn [filter].
  destruct (f y); cbn [negb]; rewrite !wcnt_cons; lia.
Qed.
Lemma filter_split_length (f : wmsg -> bool) l :
  (length (filter f l) + length (filter (fun m => negb (f m)) l) = length l)%nat.
Proof.
  induction l as [|y l IH]; [reflexivity|]. cbn [filter].
  destruct (f y); cbn [negb length]; lia.
Qed.

(* ---------- what [opens] is ---------- *)
Lemma opens_spec W r m :
  opens W r m =
  match r (w_dev m) with
  | None => false
  | Some (c, opened) =>
      memN (w_ctr m) opened || ((c <? w_ctr m) && (w_ctr m <=? c + N.of_nat W + N.of_nat (length opened)))
  end.
Proof.
  unfold opens. cbn [sstep]. destruct (r (w_dev m)) as [[c o]|]; [|reflexivity].
  destruct (memN (w_ctr m) o); cbn [orb snd]; [reflexivity|].
  destruct ((c <? w_ctr m) && _); reflexivity.
Qed.

Lemma opens_ext W r r' m : r (w_dev m) = r' (w_dev m) -> opens W r m = opens W r' m.
Proof. intros H. rewrite !opens_spec, H. reflexivity. Qed.

Lemma open_state W r m c o :
  r (w_dev m) = Some (c, o) -> opens W r m = true ->
  fst (sstep W r (ROpen (w_dev m) (w_ctr m) (wcid m))) =
    if memN (w_ctr m) o then r else supd r (w_dev m) (c, w_ctr m :: o).
Proof.
  intros H Ho. rewrite opens_spec, H in Ho. cbn [sstep]. rewrite H.
  destruct (memN (w_ctr m) o); [reflexivity|]. cbn [orb] in Ho. rewrite Ho. reflexivity.
Qed.

Lemma supd_same r d v : supd r d v d = Some v.
Proof. unfold supd. rewrite N.eqb_refl. reflexivity. Qed.
Lemma supd_other r d v d' : d' <> d -> supd r d v d' = r d'.
Proof. unfold supd. intros H. destruct (N.eqb_spec d' d); [contradiction|reflexivity]. Qed.

Lemma reg_state W r d c : fst (sstep W r (RReg d c)) = match r d with Some _ => r | None => supd r d (c, []) end.
Proof. reflexivity. Qed.

(* ---------- the loop terminates ---------- *)
Lemma cstep_none W s : cstep W s = None <-> w_fifo s = [].
Proof.
  unfold cstep. destruct (w_fifo s) as [|m rest]; [tauto|].
  destruct (w_rat s (w_dev m)); [destruct (opens W (w_rat s) m)|]; split; discriminate.
Qed.

Lemma cstep_measure W s s' K :
  cstep W s = Some s' -> (pending s < K)%nat ->
  (pending s' <= pending s)%nat /\
  (pending s' * K + length (w_fifo s') < pending s * K + length (w_fifo s))%nat.
Proof.
  unfold cstep, pending. destruct (w_fifo s) as [|m rest] eqn:Ef; [discriminate|].
  intros H HK. cbn [length] in *.
  assert (Park : forall s1, s1 = mkWS rest (w_parked s ++ [m]) (w_rat s) (w_delivered s) (w_arrived s) ->
     (length (w_fifo s1) + length (w_parked s1) <= S (length rest) + length (w_parked s))%nat /\
     ((length (w_fifo s1) + length (w_parked s1)) * K + length (w_fifo s1) <
      (S (length rest) + length (w_parked s)) * K + S (length rest))%nat).
  { intros s1 ->. cbn [w_fifo w_parked]. rewrite app_length. cbn [length].
    replace (length rest + (length (w_parked s) + 1))%nat with (S (length rest) + length (w_parked s))%nat by lia.
    lia. }
  destruct (w_rat s (w_dev m)) as [v|].
  - destruct (opens W (w_rat s) m).
    + injection H as <-. unfold flush. cbn [w_fifo w_parked].
      rewrite app_length, wsort_length.
      pose proof (filter_split_length (of_dev (w_dev m)) (w_parked s)) as Hs.
      set (a := length (filter (of_dev (w_dev m)) (w_parked s))) in *.
      set (b := length (filter (fun m0 => negb (of_dev (w_dev m) m0)) (w_parked s))) in *.
      set (p := length (w_parked s)) in *. set (q := length rest) in *.
      split; [lia|].
      replace (q + a + b)%nat with (q + p)%nat by lia.
      replace ((S q + p) * K)%nat with ((q + p) * K + K)%nat by lia. lia.
    + injection H as <-. apply Park. reflexivity.
  - injection H as <-. apply Park. reflexivity.
Qed.

Lemma drain_enough W : forall fuel s K,
  (pending s < K)%nat -> (pending s * K + length (w_fifo s) <= fuel)%nat ->
  exists s', drain W fuel s = Some s' /\ w_fifo s' = [].
Proof.
  induction fuel as [|f IH]; intros s K HK Hf.
  - assert (E : w_fifo s = []) by (destruct (w_fifo s); [reflexivity|cbn [length] in Hf; lia]).
    exists s. split; [|exact E]. cbn [drain]. apply (cstep_none W) in E. rewrite E. reflexivity.
  - cbn [drain]. destruct (cstep W s) as [s1|] eqn:Ec.
    + destruct (cstep_measure W s s1 K Ec HK) as [H1 H2].
      apply (IH s1 K); lia.
    + exists s. split; [reflexivity|]. apply (cstep_none W). exact Ec.
Qed.

Lemma drain_total W s : exists s', drain W (fuel_for s) s = Some s' /\ w_fifo s' = [].
Proof. apply (drain_enough W (fuel_for s) s (pending s + 1)); unfold fuel_for; lia. Qed.

Lemma wstep_total W s o : exists s', wstep W s o = Some s'.
Proof.
  destruct o as [m|d c|]; cbn [wstep]; eauto.
  destruct (drain_total W s) as (s' & H & _). eauto.
Qed.

Lemma wrun_total W : forall ops s, exists s', wrun W s ops = Some s'.
Proof.
  induction ops as [|o ops IH]; intros s; cbn [wrun]; eauto.
  destruct (wstep_total W s o) as (s1 & ->). apply IH.
Qed.

(* ---------- the invariant ---------- *)
Inductive chain (c : N) (W : nat) : list N -> Prop :=
| chain_nil : chain c W []
| chain_cons k l : chain c W l -> ~ In k l -> c < k -> k <= c + N.of_nat W + N.of_nat (length l) ->
                   chain c W (k :: l).

Lemma chain_NoDup c W l : chain c W l -> NoDup l.
Proof. induction 1; constructor; assumption. Qed.
Lemma chain_after c W l : chain c W l -> forall k, In k l -> c < k.
Proof. induction 1 as [|k0 l Hch IH Hn Hlt Hle]; intros k' Hin; [destruct Hin|]. destruct Hin as [<-|Hin]; auto. Qed.

Record WInv (W : nat) (s : wstate) : Prop := {
  inv_parked : forall m, In m (w_parked s) -> opens W (w_rat s) m = false;
  inv_cons : forall x, wcnt x (w_arrived s) =
                       (wcnt x (w_delivered s) + wcnt x (w_fifo s) + wcnt x (w_parked s))%nat;
  inv_rat : forall d c o, w_rat s d = Some (c, o) ->
              chain c W o /\ forall k, In k o <-> In (mkW d k) (w_delivered s);
  inv_unreg : forall d, w_rat s d = None -> forall k, ~ In (mkW d k) (w_delivered s)
}.

Lemma inv_init W : WInv W winit.
Proof.
  split; cbn; try tauto; try reflexivity.
  all: try (intros d c o H; discriminate).
  all: try (intros d _ k H; exact H).
Qed.

Lemma of_dev_true d m : of_dev d m = true <-> w_dev m = d.
Proof. unfold of_dev. apply N.eqb_eq. Qed.

Lemma flush_inv W d s :
  (forall m, In m (w_parked s) -> w_dev m <> d -> opens W (w_rat s) m = false) ->
  (forall x, wcnt x (w_arrived s) = (wcnt x (w_delivered s) + wcnt x (w_fifo s) + wcnt x (w_parked s))%nat) ->
  (forall d c o, w_rat s d = Some (c, o) -> chain c W o /\ forall k, In k o <-> In (mkW d k) (w_delivered s)) ->
  (forall d, w_rat s d = None -> forall k, ~ In (mkW d k) (w_delivered s)) ->
  WInv W (flush d s).
Proof.
  intros Hp Hc Hr Hu. split; unfold flush; cbn [w_fifo w_parked w_rat w_delivered w_arrived].
  - intros m Hin. apply filter_In in Hin. destruct Hin as [Hin Hf].
    apply Hp; [exact Hin|]. intros E. apply of_dev_true in E. rewrite E in Hf. discriminate.
  - intros x. rewrite Hc, wcnt_app, wsort_cnt.
    pose proof (filter_split_cnt x (of_dev d) (w_parked s)). lia.
  - exact Hr.
  - exact Hu.
Qed.

Lemma wmsg_eta m : mkW (w_dev m) (w_ctr m) = m.
Proof. destruct m; reflexivity. Qed.

Lemma cstep_inv W s s' : WInv W s -> cstep W s = Some s' -> WInv W s'.
Proof.
  intros [Hp Hc Hr Hu]. unfold cstep. destruct (w_fifo s) as [|m rest] eqn:Ef; [discriminate|].
  assert (Park : opens W (w_rat s) m = false ->
                 WInv W (mkWS rest (w_parked s ++ [m]) (w_rat s) (w_delivered s) (w_arrived s))).
  { intros Ho. split; cbn [w_fifo w_parked w_rat w_delivered w_arrived].
    - intros m' Hin. apply in_app_or in Hin. destruct Hin as [Hin|[<-|[]]]; auto.
    - intros x. rewrite Hc, ?Ef, wcnt_app, wcnt_cons, wcnt_one. lia.
    - exact Hr.
    - exact Hu. }
  destruct (w_rat s (w_dev m)) as [[c o]|] eqn:Er.
  - destruct (opens W (w_rat s) m) eqn:Ho.
    + pose proof (open_state W (w_rat s) m c o Er Ho) as Est.
      remember (fst (sstep W (w_rat s) (ROpen (w_dev m) (w_ctr m) (wcid m)))) as r' eqn:Er' in *.
      clear Er'. intros H. injection H as <-.
      assert (Hoth : forall d', d' <> w_dev m -> r' d' = w_rat s d').
      { intros d' Hne. rewrite Est. destruct (memN (w_ctr m) o); [reflexivity|]. apply supd_other. exact Hne. }
      apply flush_inv; cbn [w_fifo w_parked w_rat w_delivered w_arrived].
      * intros m' Hin Hne. rewrite (opens_ext W r' (w_rat s) m'); [auto|]. apply Hoth. exact Hne.
      * intros x. rewrite Hc, ?Ef, !wcnt_cons, wcnt_app, wcnt_one. lia.
      * intros d c' o' Hd. destruct (N.eq_dec d (w_dev m)) as [->|Hne].
        -- destruct (Hr _ _ _ Er) as [Hch Hiff].
           rewrite Est in Hd. destruct (memN (w_ctr m) o) eqn:Hm.
           ++ rewrite Er in Hd. injection Hd as <- <-. split; [exact Hch|].
              intros k. rewrite in_app_iff, <- Hiff. split; [tauto|].
              intros [H|[H|[]]]; [exact H|]. rewrite <- (wmsg_eta m) in H. injection H as <-.
              apply memN_true_iff. exact Hm.
           ++ rewrite supd_same in Hd. injection Hd as <- <-.
              rewrite opens_spec, Er, Hm in Ho. cbn [orb] in Ho.
              split.
              ** constructor; [exact Hch| |lia|lia].
                 intros Hin. apply memN_true_iff in Hin. congruence.
              ** intros k. rewrite in_app_iff. cbn [In]. rewrite <- Hiff. split.
                 --- intros [<-|H]; [right; left; symmetry; apply wmsg_eta|left; exact H].
                 --- intros [H|[H|[]]]; [right; exact H|]. left.
                     rewrite <- (wmsg_eta m) in H. injection H as <-. reflexivity.
        -- rewrite (Hoth d Hne) in Hd. destruct (Hr _ _ _ Hd) as [Hch Hiff]. split; [exact Hch|].
           intros k. rewrite in_app_iff, <- Hiff. split; [tauto|].
           intros [H|[H|[]]]; [exact H|]. exfalso. apply Hne. rewrite H. reflexivity.
      * intros d Hd k Hin. destruct (N.eq_dec d (w_dev m)) as [->|Hne].
        -- rewrite Est in Hd. destruct (memN (w_ctr m) o); [congruence|]. rewrite supd_same in Hd. discriminate.
        -- rewrite (Hoth d Hne) in Hd. apply in_app_or in Hin. destruct Hin as [Hin|[H|[]]].
           ++ exact (Hu d Hd k Hin).
           ++ apply Hne. rewrite H. reflexivity.
    + intros H. injection H as <-. apply Park. reflexivity.
  - intros H. injection H as <-. apply Park. rewrite opens_spec, Er. reflexivity.
Qed.

Lemma drain_inv W : forall fuel s s', WInv W s -> drain W fuel s = Some s' -> WInv W s' /\ w_fifo s' = [].
Proof.
  induction fuel as [|f IH]; intros s s' Hi; cbn [drain]; destruct (cstep W s) as [s1|] eqn:Ec.
  - discriminate.
  - intros H. injection H as <-. split; [exact Hi|]. apply (cstep_none W). exact Ec.
  - intros H. apply (IH s1 s'); [eapply cstep_inv; eassumption|exact H].
  - intros H. injection H as <-. split; [exact Hi|]. apply (cstep_none W). exact Ec.
Qed.

Lemma wstep_inv W s o s' : WInv W s -> wstep W s o = Some s' -> WInv W s'.
Proof.
  intros Hi. destruct o as [m|d c|]; cbn [wstep].
  - intros H. injection H as <-. destruct Hi as [Hp Hc Hr Hu].
    split; cbn [w_fifo w_parked w_rat w_delivered w_arrived]; auto.
    intros x. rewrite !wcnt_app, Hc. lia.
  - pose proof (reg_state W (w_rat s) d c) as Est.
    remember (fst (sstep W (w_rat s) (RReg d c))) as r' eqn:Er' in *. clear Er'.
    intros H. injection H as <-. destruct Hi as [Hp Hc Hr Hu].
    apply flush_inv; cbn [w_fifo w_parked w_rat w_delivered w_arrived].
    + intros m Hin Hne. rewrite (opens_ext W r' (w_rat s) m); [auto|].
      rewrite Est. destruct (w_rat s d); [reflexivity|]. apply supd_other. exact Hne.
    + exact Hc.
    + intros d' c' o' Hd. rewrite Est in Hd. destruct (w_rat s d) eqn:Ed; [apply Hr; exact Hd|].
      destruct (N.eq_dec d' d) as [->|Hne].
      * rewrite supd_same in Hd. injection Hd as <- <-. split; [constructor|].
        intros k. split; [intros []|]. intros Hin. exact (Hu d Ed k Hin).
      * rewrite supd_other in Hd by exact Hne. apply Hr. exact Hd.
    + intros d' Hd k. rewrite Est in Hd. destruct (w_rat s d) eqn:Ed; [apply Hu; exact Hd|].
      destruct (N.eq_dec d' d) as [->|Hne]; [rewrite supd_same in Hd; discriminate|].
      rewrite supd_other in Hd by exact Hne. apply Hu. exact Hd.
  - intros H. apply (drain_inv W _ _ _ Hi H).
Qed.

Lemma wrun_inv W : forall ops s s', WInv W s -> wrun W s ops = Some s' -> WInv W s'.
Proof.
  induction ops as [|o ops IH]; intros s s' Hi; cbn [wrun].
  - intros H. injection H as <-. exact Hi.
  - destruct (wstep W s o) as [s1|] eqn:E; [|discriminate]. apply IH. eapply wstep_inv; eassumption.
Qed.

(* ---------- what a run does to the list of arrived entries and to the registrations ---------- *)
Lemma cstep_arrived W s s' : cstep W s = Some s' -> w_arrived s' = w_arrived s.
Proof.
  unfold cstep. destruct (w_fifo s) as [|m rest]; [discriminate|].
  destruct (w_rat s (w_dev m)); [destruct (opens W (w_rat s) m)|]; intros H; injection H as <-; reflexivity.
Qed.
Lemma drain_arrived W : forall fuel s s', drain W fuel s = Some s' -> w_arrived s' = w_arrived s.
Proof.
  induction fuel as [|f IH]; intros s s'; cbn [drain]; destruct (cstep W s) as [s1|] eqn:Ec;
    try discriminate; try (intros H; injection H as <-; reflexivity).
  intros H. rewrite (IH _ _ H). eapply cstep_arrived; eassumption.
Qed.
Lemma wrun_arrived W : forall ops s s', wrun W s ops = Some s' -> w_arrived s' = w_arrived s ++ arrivals_of ops.
Proof.
  induction ops as [|o ops IH]; intros s s'; cbn [wrun arrivals_of flat_map].
  - intros H. injection H as <-. rewrite app_nil_r. reflexivity.
  - destruct (wstep W s o) as [s1|] eqn:E; [|discriminate]. intros H. rewrite (IH _ _ H).
    fold (arrivals_of ops). destruct o as [m|d c|]; cbn [wstep] in E.
    + injection E as <-. cbn [w_arrived]. rewrite <- app_assoc. reflexivity.
    + injection E as <-. reflexivity.
    + rewrite (drain_arrived W _ _ _ E). reflexivity.
Qed.

Definition reg_ctr (r : sstate) (d : N) : option N := match r d with Some (c, _) => Some c | None => None end.

Fixpoint first_reg (d : N) (rs : list (N * N)) : option N :=
  match rs with [] => None | (d', c) :: rs' => if d' =? d then Some c else first_reg d rs' end.

Lemma cstep_reg W s s' d : cstep W s = Some s' -> reg_ctr (w_rat s') d = reg_ctr (w_rat s) d.
Proof.
  unfold cstep. destruct (w_fifo s) as [|m rest]; [discriminate|].
  destruct (w_rat s (w_dev m)) as [[c o]|] eqn:Er.
  - destruct (opens W (w_rat s) m) eqn:Ho.
    + rewrite (open_state W _ m c o Er Ho). intros H. injection H as <-. unfold flush. cbn [w_rat].
      destruct (memN (w_ctr m) o); [reflexivity|]. unfold reg_ctr.
      destruct (N.eq_dec d (w_dev m)) as [->|Hne]; [rewrite supd_same, Er; reflexivity|].
      rewrite supd_other by exact Hne. reflexivity.
    + intros H. injection H as <-. reflexivity.
  - intros H. injection H as <-. reflexivity.
Qed.
Lemma drain_reg W d : forall fuel s s', drain W fuel s = Some s' -> reg_ctr (w_rat s') d = reg_ctr (w_rat s) d.
Proof.
  induction fuel as [|f IH]; intros s s'; cbn [drain]; destruct (cstep W s) as [s1|] eqn:Ec;
    try discriminate; try (intros H; injection H as <-; reflexivity).
  intros H. rewrite (IH _ _ H). eapply cstep_reg; eassumption.
Qed.
Lemma wrun_reg W d : forall ops s s', wrun W s ops = Some s' ->
  reg_ctr (w_rat s') d = match reg_ctr (w_rat s) d with Some c => Some c | None => first_reg d (regs_of ops) end.
Proof.
  induction ops as [|o ops IH]; intros s s'; cbn [wrun regs_of flat_map].
  - intros H. injection H as <-. destruct (reg_ctr (w_rat s) d); reflexivity.
  - destruct (wstep W s o) as [s1|] eqn:E; [|discriminate]. intros H. rewrite (IH _ _ H).
    fold (regs_of ops). destruct o as [m|d0 c0|]; cbn [wstep] in E.
    + injection E as <-. reflexivity.
    + rewrite reg_state in E. injection E as <-. unfold flush. cbn [w_rat app first_reg]. unfold reg_ctr.
      destruct (N.eqb_spec d0 d) as [->|Hne].
      * destruct (w_rat s d) as [[c o]|] eqn:Ed; [rewrite Ed; reflexivity|]. rewrite supd_same. reflexivity.
      * destruct (w_rat s d0); [reflexivity|]. rewrite supd_other by congruence. reflexivity.
    + rewrite (drain_reg W d _ _ _ E). reflexivity.
Qed.

(* ---------- the final state of a history ---------- *)
Lemma wrun_app W : forall a b s, wrun W s (a ++ b) = match wrun W s a with Some s1 => wrun W s1 b | None => None end.
Proof.
  induction a as [|o a IH]; intros b s; cbn [wrun app]; [reflexivity|].
  destruct (wstep W s o); [apply IH|reflexivity].
Qed.

Lemma wfinal_total W ops : exists s, wfinal W ops = Some s.
Proof. apply wrun_total. Qed.

Lemma wfinal_shape W ops s :
  wfinal W ops = Some s ->
  WInv W s /\ w_fifo s = [] /\ w_arrived s = arrivals_of ops /\
  forall d, reg_ctr (w_rat s) d = first_reg d (regs_of ops).
Proof.
  unfold wfinal. intros H. pose proof (wrun_inv W _ _ _ (inv_init W) H) as Hi.
  pose proof (wrun_arrived W _ _ _ H) as Ha. cbn [winit w_arrived app] in Ha.
  assert (Harr : arrivals_of (ops ++ [WDrain]) = arrivals_of ops).
  { unfold arrivals_of. rewrite flat_map_app. cbn. apply app_nil_r. }
  assert (Hregs : regs_of (ops ++ [WDrain]) = regs_of ops).
  { unfold regs_of. rewrite flat_map_app. cbn. apply app_nil_r. }
  split; [exact Hi|]. split; [|split; [congruence|]].
  - rewrite wrun_app in H. destruct (wrun W winit ops) as [s1|]; [|discriminate].
    cbn [wrun wstep] in H. destruct (drain W (fuel_for s1) s1) as [s2|] eqn:Ed; [|discriminate].
    injection H as <-. destruct (drain_total W s1) as (s3 & E3 & F3). congruence.
  - intros d. rewrite (wrun_reg W d _ _ _ H), Hregs. reflexivity.
Qed.

(* no parked message opens; what opens has been delivered once per arrival *)
Lemma window_none_stranded W ops s :
  wfinal W ops = Some s ->
  w_fifo s = [] /\
  (forall m, In m (w_parked s) -> opens W (w_rat s) m = false) /\
  (forall m, opens W (w_rat s) m = true -> wcnt m (w_delivered s) = wcnt m (arrivals_of ops)).
Proof.
  intros H. destruct (wfinal_shape W ops s H) as ([Hp Hc Hr Hu] & Hf & Ha & _).
  split; [exact Hf|]. split; [exact Hp|].
  intros m Ho. rewrite <- Ha, Hc, Hf.
  assert (wcnt m (w_parked s) = 0%nat).
  { destruct (wcnt m (w_parked s)) eqn:E; [reflexivity|].
    assert (Hin : In m (w_parked s)) by (apply wcnt_in; lia). apply Hp in Hin. congruence. }
  rewrite H0. change (wcnt m []) with 0%nat. lia.
Qed.

Lemma window_sound W ops s :
  wfinal W ops = Some s ->
  forall m, (wcnt m (w_delivered s) <= wcnt m (arrivals_of ops))%nat /\
            (In m (w_delivered s) -> opens W (w_rat s) m = true).
Proof.
  intros H m. destruct (wfinal_shape W ops s H) as ([Hp Hc Hr Hu] & Hf & Ha & _).
  split; [rewrite <- Ha, Hc; lia|].
  intros Hin. rewrite opens_spec. destruct (w_rat s (w_dev m)) as [[c o]|] eqn:Er.
  - destruct (Hr _ _ _ Er) as [_ Hiff]. rewrite <- (wmsg_eta m) in Hin. apply Hiff, memN_true_iff in Hin.
    rewrite Hin. reflexivity.
  - exfalso. rewrite <- (wmsg_eta m) in Hin. exact (Hu _ Er _ Hin).
Qed.

(* a gap-free prefix of the sender's messages: all of it is delivered, whatever the window *)
Lemma window_prefix_complete W (HW : (1 <= W)%nat) ops s d c :
  wfinal W ops = Some s -> first_reg d (regs_of ops) = Some c ->
  forall j, (forall i, (1 <= i <= j)%nat -> In (mkW d (c + N.of_nat i)) (arrivals_of ops)) ->
  forall i, (1 <= i <= j)%nat ->
    In (mkW d (c + N.of_nat i)) (w_delivered s) /\
    wcnt (mkW d (c + N.of_nat i)) (w_delivered s) = wcnt (mkW d (c + N.of_nat i)) (arrivals_of ops).
Proof.
  intros H Hreg j Harr.
  destruct (wfinal_shape W ops s H) as (Hi & Hf & Ha & Hrc).
  destruct (window_none_stranded W ops s H) as (_ & Hpk & Hdel).
  destruct Hi as [Hp Hc Hr Hu].
  specialize (Hrc d). rewrite Hreg in Hrc. unfold reg_ctr in Hrc.
  destruct (w_rat s d) as [[c' o]|] eqn:Er; [|discriminate]. injection Hrc as ->.
  destruct (Hr _ _ _ Er) as [Hch Hiff].
  assert (Hall : forall n i, (i <= n)%nat -> (1 <= i <= j)%nat -> In (c + N.of_nat i) o).
  { induction n as [|n IHn]; intros i Hle Hi; [lia|].
    destruct (Nat.eq_dec i (S n)) as [->|Hne]; [|apply IHn; lia].
    destruct (in_dec N.eq_dec (c + N.of_nat (S n)) o) as [Hin|Hnin]; [exact Hin|]. exfalso.
    assert (Hinc : incl (upto c n) o).
    { intros x Hx. unfold upto in Hx. apply in_map_iff in Hx. destruct Hx as (i & <- & Hi').
      apply in_seq in Hi'. apply IHn; lia. }
    assert (Hlen : (n <= length o)%nat).
    { rewrite <- (upto_length c n). apply NoDup_incl_length; [apply upto_NoDup|exact Hinc]. }
    set (m := mkW d (c + N.of_nat (S n))).
    assert (Hop : opens W (w_rat s) m = true).
    { rewrite opens_spec. cbn [m w_dev w_ctr]. rewrite Er.
      apply orb_true_iff. right. apply andb_true_iff. split; lia. }
    assert (Hnd : ~ In m (w_delivered s)) by (intros Hd; apply Hnin, Hiff, Hd).
    pose proof (Hdel m Hop) as Hcnt.
    assert (In m (arrivals_of ops)) by (apply Harr; lia).
    apply wcnt_in in H0. assert (wcnt m (w_delivered s) > 0)%nat by lia.
    apply wcnt_in in H1. contradiction. }
  intros i Hi. assert (Hin : In (c + N.of_nat i) o) by (apply (Hall i i); lia).
  split; [apply Hiff, Hin|].
  apply Hdel. rewrite opens_spec. cbn [w_dev w_ctr]. rewrite Er.
  apply memN_true_iff in Hin. rewrite Hin. reflexivity.
Qed.

(* ---------- independence of the arrival order ---------- *)
Lemma chain_sub c W l1 : chain c W l1 ->
  forall (A : N -> Prop) l2, NoDup l2 ->
    (forall k, A k -> c < k -> k <= c + N.of_nat W + N.of_nat (length l2) -> In k l2) ->
    (forall k, In k l1 -> A k) -> incl l1 l2.
Proof.
  induction 1 as [|k l Hch IH Hnin Hlt Hle]; intros A l2 ND Hcl HA; [intros x []|].
  assert (Hinc : incl l l2) by (apply (IH A l2 ND Hcl); intros x Hx; apply HA; right; exact Hx).
  intros x [<-|Hx]; [|apply Hinc, Hx].
  apply Hcl; [apply HA; left; reflexivity|exact Hlt|].
  assert ((length l <= length l2)%nat) by (apply NoDup_incl_length; [eapply chain_NoDup; eassumption|exact Hinc]).
  lia.
Qed.

Lemma delivered_incl W ops1 ops2 s1 s2 :
  wfinal W ops1 = Some s1 -> wfinal W ops2 = Some s2 ->
  Permutation (arrivals_of ops1) (arrivals_of ops2) ->
  (forall d, first_reg d (regs_of ops1) = first_reg d (regs_of ops2)) ->
  forall m, In m (w_delivered s1) -> In m (w_delivered s2).
Proof.
  intros H1 H2 Hperm Hregs m Hin.
  destruct (wfinal_shape W ops1 s1 H1) as ([Hp1 Hc1 Hr1 Hu1] & Hf1 & Ha1 & Hrc1).
  destruct (wfinal_shape W ops2 s2 H2) as ([Hp2 Hc2 Hr2 Hu2] & Hf2 & Ha2 & Hrc2).
  destruct (window_none_stranded W ops2 s2 H2) as (_ & _ & Hdel2).
  rewrite <- (wmsg_eta m) in Hin |- *. set (d := w_dev m) in *. set (k := w_ctr m) in *.
  destruct (w_rat s1 d) as [[c o1]|] eqn:Er1; [|exfalso; exact (Hu1 _ Er1 _ Hin)].
  destruct (Hr1 _ _ _ Er1) as [Hch1 Hiff1].
  pose proof (Hrc1 d) as E1. pose proof (Hrc2 d) as E2. unfold reg_ctr in E1, E2.
  rewrite Er1 in E1. rewrite <- Hregs, <- E1 in E2.
  destruct (w_rat s2 d) as [[c2 o2]|] eqn:Er2; [|discriminate]. injection E2 as ->.
  destruct (Hr2 _ _ _ Er2) as [Hch2 Hiff2].
  apply Hiff2. apply Hiff1 in Hin. assert (Hincl : incl o1 o2); [|exact (Hincl k Hin)]. clear Hin.
  apply (chain_sub c W o1 Hch1 (fun k0 => In (mkW d k0) (arrivals_of ops2)) o2 (chain_NoDup _ _ _ Hch2)).
  - intros k0 Hk Hlt Hle. apply Hiff2.
    assert (Hop : opens W (w_rat s2) (mkW d k0) = true).
    { rewrite opens_spec. cbn [w_dev w_ctr]. rewrite Er2. apply orb_true_iff. right. apply andb_true_iff. split; lia. }
    apply Hdel2 in Hop. apply wcnt_in in Hk. apply wcnt_in. lia.
  - intros k0 Hk. apply Hiff1 in Hk. apply (Permutation_in _ Hperm). rewrite <- Ha1.
    apply wcnt_in. apply wcnt_in in Hk. rewrite Hc1. lia.
Qed.

Lemma wcnt_perm x l l' : Permutation l l' -> wcnt x l = wcnt x l'.
Proof. unfold wcnt. intros H. apply (proj1 (Permutation_count_occ wmsg_eq_dec l l') H). Qed.

Lemma window_order_independent W ops1 ops2 s1 s2 :
  wfinal W ops1 = Some s1 -> wfinal W ops2 = Some s2 ->
  Permutation (arrivals_of ops1) (arrivals_of ops2) ->
  (forall d, first_reg d (regs_of ops1) = first_reg d (regs_of ops2)) ->
  forall m, wcnt m (w_delivered s1) = wcnt m (w_delivered s2).
Proof.
  intros H1 H2 Hperm Hregs m.
  assert (Hperm' : Permutation (arrivals_of ops2) (arrivals_of ops1)) by (symmetry; exact Hperm).
  assert (Hregs' : forall d, first_reg d (regs_of ops2) = first_reg d (regs_of ops1)) by (intros d; symmetry; apply Hregs).
  pose proof (delivered_incl W ops1 ops2 s1 s2 H1 H2 Hperm Hregs m) as I12.
  pose proof (delivered_incl W ops2 ops1 s2 s1 H2 H1 Hperm' Hregs' m) as I21.
  destruct (window_none_stranded W ops1 s1 H1) as (_ & _ & Hd1).
  destruct (window_none_stranded W ops2 s2 H2) as (_ & _ & Hd2).
  destruct (in_dec wmsg_eq_dec m (w_delivered s1)) as [Hin|Hnin].
  - rewrite (Hd1 m (proj2 (window_sound W ops1 s1 H1 m) Hin)).
    rewrite (Hd2 m (proj2 (window_sound W ops2 s2 H2 m) (I12 Hin))).
    apply wcnt_perm. exact Hperm.
  - assert (Hnin2 : ~ In m (w_delivered s2)) by tauto.
    assert (E1 : wcnt m (w_delivered s1) = 0%nat).
    { destruct (wcnt m (w_delivered s1)) eqn:E; [reflexivity|]. exfalso. apply Hnin, wcnt_in. lia. }
    assert (E2 : wcnt m (w_delivered s2) = 0%nat).
    { destruct (wcnt m (w_delivered s2)) eqn:E; [reflexivity|]. exfalso. apply Hnin2, wcnt_in. lia. }
    congruence.
Qed.

(* ---------- witnesses: what the retry discipline is needed for ---------- *)
Definition far_ahead : list wmsg := [mkW 0 4; mkW 0 1; mkW 0 2; mkW 0 3].

(* giving a message up after a failed attempt: the far-ahead message is lost although, at the end,
   the ratchet would open it *)
Lemma giveup_loses :
  let s0 := mkWS far_ahead [] (supd sinit 0 (0, [])) [] far_ahead in
  match drain_with (cstep_giveup 2) 100 s0 with
  | Some s => w_fifo s = [] /\ opens 2 (w_rat s) (mkW 0 4) = true /\ ~ In (mkW 0 4) (w_delivered s) /\ w_parked s = []
  | None => False
  end.
Proof. vm_compute. repeat split; try reflexivity. intros [H|[H|[H|[]]]]; discriminate. Qed.

(* flushing the parked messages only when the FIFO is empty: a batch that ends with an entry which
   never opens leaves the far-ahead message parked although it opens now *)
Lemma lazyflush_strands :
  let arr := [mkW 0 4; mkW 0 1; mkW 0 2; mkW 1 9] in
  let s0 := mkWS arr [] (supd sinit 0 (0, [])) [] arr in
  match drain_with (cstep_lazyflush 2) 100 s0 with
  | Some s => w_fifo s = [] /\ opens 2 (w_rat s) (mkW 0 4) = true /\ In (mkW 0 4) (w_parked s)
  | None => False
  end.
Proof. vm_compute. repeat split; try reflexivity. left. reflexivity. Qed.

(* the real discipline on the same inputs *)
Lemma far_ahead_delivered :
  match wfinal 2 (WRegister 0 0 :: map WArrive far_ahead) with
  | Some s => map w_ctr (w_delivered s) = [1; 2; 3; 4] /\ w_parked s = []
  | None => False
  end.
Proof. vm_compute. split; reflexivity. Qed.
