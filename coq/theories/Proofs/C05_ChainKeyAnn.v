(* C05 — proofs: recipient-only, exact; distribution completeness at quiescence. *)
From Coq Require Import List NArith ZArith Bool Lia ZifyN ZifyNat ZifyBool.
From Wesh Require Import Model.Store Model.C05_ChainKeyAnn.
Import ListNotations.
Open Scope N_scope.

Lemma pairkey_sym a b : pairkey a b = pairkey b a.
Proof. unfold pairkey. destruct (a <=? b) eqn:E1, (b <=? a) eqn:E2; try reflexivity; f_equal; lia. Qed.

Lemma pairkey_inj_left a b b' : pairkey a b = pairkey a b' -> b = b'.
Proof. unfold pairkey. destruct (a <=? b) eqn:E1, (a <=? b') eqn:E2; intros H; injection H; intros; lia. Qed.

Lemma pairkey_inj_right a a' b : pairkey a b = pairkey a' b -> a = a'.
Proof. rewrite (pairkey_sym a b), (pairkey_sym a' b). apply pairkey_inj_left. Qed.

(* ck_roundtrip: the intended recipient, in the right group, naming the right sender, gets the
   chain key and the counter at the time of sealing *)
Theorem ck_roundtrip dev member gn ctr ck :
  decrypt_ck (encrypt_ck dev member gn ctr ck) gn member dev = Some (ctr, ck).
Proof. unfold decrypt_ck, encrypt_ck. rewrite !N.eqb_refl. reflexivity. Qed.

(* and only then *)
Theorem ck_opens_iff dev member gn ctr ck gn' member' dev' r :
  decrypt_ck (encrypt_ck dev member gn ctr ck) gn' member' dev' = Some r ->
  r = (ctr, ck) /\ gn' = gn /\ pairkey dev' member' = pairkey dev member.
Proof.
  unfold decrypt_ck, encrypt_ck.
  destruct ((fst (pairkey dev member) =? fst (pairkey dev' member')) &&
            (snd (pairkey dev member) =? snd (pairkey dev' member')) && (gn =? gn')) eqn:E; [|discriminate].
  intros H. injection H as <-. apply andb_true_iff in E. destruct E as [E E3]. apply andb_true_iff in E. destruct E as [E1 E2].
  apply N.eqb_eq in E1, E2, E3. split; [reflexivity|]. split; [auto|].
  destruct (pairkey dev member), (pairkey dev' member'); cbn in *; congruence.
Qed.

Corollary ck_wrong_recipient dev member gn ctr ck member' :
  member' <> member -> decrypt_ck (encrypt_ck dev member gn ctr ck) gn member' dev = None.
Proof.
  intros H. destruct (decrypt_ck _ gn member' dev) eqn:E; [|reflexivity].
  apply ck_opens_iff in E. destruct E as (_ & _ & E). apply pairkey_inj_left in E. congruence.
Qed.

Corollary ck_wrong_sender dev member gn ctr ck dev' :
  dev' <> dev -> decrypt_ck (encrypt_ck dev member gn ctr ck) gn member dev' = None.
Proof.
  intros H. destruct (decrypt_ck _ gn member dev') eqn:E; [|reflexivity].
  apply ck_opens_iff in E. destruct E as (_ & _ & E). apply pairkey_inj_right in E. congruence.
Qed.

(* group binding: the nonce is the first 24 bytes of the group id; two groups whose ids differ
   there do not open each other's announcements *)
Corollary ck_wrong_group dev member gn ctr ck gn' :
  gn' <> gn -> decrypt_ck (encrypt_ck dev member gn ctr ck) gn' member dev = None.
Proof.
  intros H. destruct (decrypt_ck _ gn' member dev) eqn:E; [|reflexivity].
  apply ck_opens_iff in E. destruct E as (_ & E & _). congruence.
Qed.

Lemma ck_altered_rejected gn member dev : decrypt_ck CJunk gn member dev = None.
Proof. reflexivity. Qed.

(* ---------- distribution ---------- *)

Lemma has_true log e : has log e = true -> In e log.
Proof.
  unfold has. rewrite existsb_exists. intros (x & Hx & E).
  destruct e, x; cbn in E; try discriminate; apply andb_true_iff in E; destruct E as [E1 E2];
    apply N.eqb_eq in E1, E2; subst; exact Hx.
Qed.

Lemma in_has log e : In e log -> has log e = true.
Proof.
  intros H. unfold has. apply existsb_exists. exists e. split; [exact H|].
  destruct e; cbn; rewrite !N.eqb_refl; reflexivity.
Qed.

Lemma in_devices log m d : In (MemberDevice m d) log -> In d (devices log) /\ In m (members log).
Proof.
  intros H. unfold devices, members. split; apply in_flat_map; exists (MemberDevice m d); (split; [exact H|left; reflexivity]).
Qed.

Lemma member_of_some log m d :
  In (MemberDevice m d) log -> exists m', member_of log d = Some m' /\ In (MemberDevice m' d) log.
Proof.
  intros H. unfold member_of.
  destruct (find (fun e => match e with MemberDevice _ d' => d' =? d | _ => false end) log) as [e|] eqn:F.
  - apply find_some in F. destruct F as [Hin He]. destruct e as [m' d'|]; [|discriminate].
    apply N.eqb_eq in He. subst d'. exists m'. auto.
  - exfalso. apply (find_none _ _ F) in H. cbn in H. rewrite N.eqb_refl in H. discriminate.
Qed.

(* distribution_complete: at quiescence (no announcement left to send) every announced device
   holds the chain key of every announced device — any number of members and devices, whatever
   the order in which the entries were appended *)
Theorem distribution_complete log m d m' s :
  quiescent log = true ->
  In (MemberDevice m d) log -> In (MemberDevice m' s) log ->
  knows log d s = true.
Proof.
  intros Q Hd Hs. unfold knows.
  destruct (member_of_some log m d Hd) as (md & E & Hmd). rewrite E.
  unfold quiescent in Q. rewrite forallb_forall in Q.
  destruct (in_devices log m' s Hs) as [Hsd _]. specialize (Q s Hsd). rewrite forallb_forall in Q.
  destruct (in_devices log md d Hmd) as [_ Hmm]. specialize (Q md Hmm).
  apply negb_true_iff in Q. unfold send_enabled in Q.
  assert (A : existsb (N.eqb s) (devices log) = true) by (apply existsb_exists; exists s; split; [exact Hsd|apply N.eqb_refl]).
  assert (B : existsb (N.eqb md) (members log) = true) by (apply existsb_exists; exists md; split; [exact Hmm|apply N.eqb_refl]).
  rewrite A, B in Q. cbn in Q. apply negb_false_iff in Q. exact Q.
Qed.

(* once_per_member: the rule never fires twice for the same (device, member) pair *)
Lemma fire_adds_new log s m :
  fire log = log ++ [ChainKeyFor s m] -> log <> log ++ [ChainKeyFor s m] -> has log (ChainKeyFor s m) = false.
Proof.
  unfold fire. intros H Hne.
  destruct (find _ _) as [[s' m']|] eqn:F; [|congruence].
  apply app_inv_head in H. injection H as -> ->.
  apply find_some in F. destruct F as [_ F]. cbn in F. unfold send_enabled in F.
  apply andb_true_iff in F. destruct F as [_ F]. apply negb_true_iff in F. exact F.
Qed.
