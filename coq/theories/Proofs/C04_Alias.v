(* C04 (alias keys) — proofs: the alias keys are a function of the set of log entries. *)
From Coq Require Import List NArith Bool Lia.
From Wesh Require Import Model.MetaLog Proofs.MetaLog Model.C04_Alias.
Import ListNotations.
Open Scope N_scope.

(* ---------- the post-index action ---------- *)

Lemma post_alias_spec ownm devs q sent other :
  post_alias ownm devs q sent other = (sent || has_own ownm devs q, last_other ownm devs q other).
Proof.
  revert sent other. induction q as [|[d k] q IH]; intros sent other.
  - cbn. rewrite orb_false_r. reflexivity.
  - assert (Hown : is_own ownm devs (d, k) = match devs d with Some m => m =? ownm | None => false end) by reflexivity.
    assert (Hoth : is_other ownm devs (d, k) = match devs d with Some m => negb (m =? ownm) | None => false end) by reflexivity.
    unfold has_own, last_other. cbn [post_alias existsb fold_left]. rewrite Hown, Hoth. cbn [snd].
    fold (has_own ownm devs q). fold (last_other ownm devs q).
    destruct (devs d) as [m|] eqn:E.
    + destruct (m =? ownm) eqn:Em; cbn [negb].
      * rewrite IH. rewrite orb_true_l, orb_true_r. reflexivity.
      * rewrite IH. rewrite orb_false_l. reflexivity.
    + rewrite IH. rewrite orb_false_l. reflexivity.
Qed.

Lemma last_other_app ownm devs a b o :
  last_other ownm devs (a ++ b) o = last_other ownm devs b (last_other ownm devs a o).
Proof. unfold last_other. apply fold_left_app. Qed.

Lemma has_own_app ownm devs a b : has_own ownm devs (a ++ b) = has_own ownm devs a || has_own ownm devs b.
Proof. unfold has_own. apply existsb_app. Qed.

Lemma last_other_none ownm devs q o :
  (forall dk, In dk q -> is_other ownm devs dk = false) -> last_other ownm devs q o = o.
Proof.
  revert o. induction q as [|dk q IH]; intros o H; [reflexivity|].
  cbn. rewrite (H dk (or_introl eq_refl)). apply IH. intros x Hx. apply H. right. exact Hx.
Qed.

(* once the queue holds an alias of the other member, what was stored before does not matter *)
Lemma last_other_overrides ownm devs q o o' :
  (exists dk, In dk q /\ is_other ownm devs dk = true) -> last_other ownm devs q o = last_other ownm devs q o'.
Proof.
  revert o o'. induction q as [|dk q IH]; intros o o' [x [Hx Ho]]; [destruct Hx|].
  cbn. destruct (is_other ownm devs dk) eqn:E; [reflexivity|].
  apply IH. destruct Hx as [->|Hx]; [congruence|]. exists x. split; assumption.
Qed.

(* the stored key always is the key of some alias of the other member in the queue *)
Lemma last_other_in ownm devs q k :
  last_other ownm devs q None = Some k -> exists d, In (d, k) q /\ is_other ownm devs (d, k) = true.
Proof.
  induction q as [|[d' k'] q IH] using rev_ind; [discriminate|].
  rewrite last_other_app. cbn. destruct (is_other ownm devs (d', k')) eqn:E.
  - intros H. injection H as <-. exists d'. split; [apply in_or_app; right; left; reflexivity | exact E].
  - intros H. destruct (IH H) as [d [Hin Ho]]. exists d. split; [apply in_or_app; left; exact Hin | exact Ho].
Qed.

Lemma has_own_in ownm devs q : has_own ownm devs q = true <-> exists dk, In dk q /\ is_own ownm devs dk = true.
Proof. unfold has_own. apply existsb_exists. Qed.

(* ---------- what a stored state owes to the log: justification ---------- *)

(* [a] only holds what the queue [Q] of the final log, read with the final device map, justifies *)
Definition justified ownm (devsF : N -> option N) (Q : list (N * N)) (a : astate) : Prop :=
  (a_sent a = true -> exists dk, In dk Q /\ is_own ownm devsF dk = true) /\
  (forall k, a_other a = Some k -> exists d, In (d, k) Q /\ is_other ownm devsF (d, k) = true).

Definition below (devs devsF : N -> option N) : Prop := forall d m, devs d = Some m -> devsF d = Some m.

Lemma post_alias_justified ownm devs devsF Q q sent other :
  below devs devsF -> incl q Q ->
  (sent = true -> exists dk, In dk Q /\ is_own ownm devsF dk = true) ->
  (forall k, other = Some k -> exists d, In (d, k) Q /\ is_other ownm devsF (d, k) = true) ->
  match post_alias ownm devs q sent other with
  | (sent', other') =>
      (sent' = true -> exists dk, In dk Q /\ is_own ownm devsF dk = true) /\
      (forall k, other' = Some k -> exists d, In (d, k) Q /\ is_other ownm devsF (d, k) = true)
  end.
Proof.
  intros Hb. revert sent other. induction q as [|[d k] q IH]; intros sent other Hq Hs Ho.
  - cbn. split; assumption.
  - assert (Hq' : incl q Q) by (intros x Hx; apply Hq; right; exact Hx).
    assert (Hin : In (d, k) Q) by (apply Hq; left; reflexivity).
    cbn [post_alias]. destruct (devs d) as [m|] eqn:E; [|apply IH; assumption].
    apply Hb in E. destruct (m =? ownm) eqn:Em.
    + apply IH; [exact Hq' | | exact Ho].
      intros _. exists (d, k). split; [exact Hin|]. unfold is_own. cbn [fst]. rewrite E. exact Em.
    + apply IH; [exact Hq' | exact Hs |].
      intros k' Hk'. injection Hk' as <-. exists d. split; [exact Hin|].
      unfold is_other. cbn [fst]. rewrite E, Em. reflexivity.
Qed.

Lemma alias_pass_justified ownm devs devsF Q a evs :
  below devs devsF -> incl (aliases evs) Q -> justified ownm devsF Q a ->
  justified ownm devsF Q (alias_pass ownm devs a evs).
Proof.
  intros Hb Hi [Hs Ho]. unfold alias_pass.
  pose proof (post_alias_justified ownm devs devsF Q _ (a_sent a) (a_other a) Hb Hi Hs Ho) as H.
  destruct (post_alias ownm devs (aliases evs) (a_sent a) (a_other a)) as [sent' other'].
  exact H.
Qed.

(* ---------- the final pass absorbs whatever was stored ---------- *)

Lemma alias_pass_final ownm devsF a evs :
  justified ownm devsF (aliases evs) a ->
  alias_pass ownm devsF a evs =
  mkA (has_own ownm devsF (aliases evs)) (last_other ownm devsF (aliases evs) None).
Proof.
  intros [Hs Ho]. unfold alias_pass.
  set (A := aliases evs) in *.
  rewrite post_alias_spec. f_equal.
  - destruct (has_own ownm devsF A) eqn:EA; [rewrite orb_true_r; reflexivity|].
    rewrite orb_false_r.
    destruct (a_sent a) eqn:Es; [|reflexivity].
    exfalso. destruct (Hs eq_refl) as [dk [H1 H2]].
    assert (has_own ownm devsF A = true) by (apply has_own_in; exists dk; split; assumption). congruence.
  - destruct (existsb (is_other ownm devsF) A) eqn:EA.
    + apply last_other_overrides. apply existsb_exists in EA. exact EA.
    + assert (HA : forall dk, In dk A -> is_other ownm devsF dk = false).
      { intros dk Hdk. destruct (is_other ownm devsF dk) eqn:E; [|reflexivity].
        assert (existsb (is_other ownm devsF) A = true) by (apply existsb_exists; exists dk; split; assumption). congruence. }
      rewrite (last_other_none ownm devsF A None HA).
      rewrite (last_other_none ownm devsF A _ HA).
      destruct (a_other a) as [k|] eqn:Eo; [|reflexivity].
      exfalso. destruct (Ho k eq_refl) as [d [H1 H2]]. rewrite (HA _ H1) in H2. discriminate.
Qed.

(* ---------- tying it to the index ---------- *)

Lemma aliases_incl l l' : incl l l' -> incl (aliases l) (aliases l').
Proof.
  intros Hi dk Hdk. unfold aliases in *. apply in_flat_map in Hdk. destruct Hdk as [e [He Hdk]].
  apply in_flat_map. exists e. split; [apply Hi; exact He | exact Hdk].
Qed.

Lemma aliases_in l d k : In (d, k) (aliases l) <-> In (EAlias d k) l.
Proof.
  unfold aliases. rewrite in_flat_map. split.
  - intros [e [He Hdk]]. destruct e; cbn in Hdk; try contradiction.
    destruct Hdk as [Hdk|[]]. injection Hdk as <- <-. exact He.
  - intros H. exists (EAlias d k). split; [exact H | left; reflexivity].
Qed.

Lemma log_events_in es e : In e (log_events es) <-> In e (map e_ev es).
Proof.
  unfold log_events. rewrite <- in_rev. split; intros H; apply in_map_iff in H; destruct H as [x [<- Hx]]; apply in_map.
  - apply (proj1 (sort_in _ _)). exact Hx.
  - apply (proj2 (sort_in _ _)). exact Hx.
Qed.

Lemma dev_functional_log es : dev_functional (map e_ev es) -> dev_functional (log_events es).
Proof.
  intros Hf m m' d H1 H2. apply log_events_in in H1. apply log_events_in in H2. eapply Hf; eassumption.
Qed.

(* the device map of any earlier pass lies below the device map of a fresh index of the final log *)
Lemma persisted_below own s final :
  dev_functional (map e_ev final) -> persisted_from s (log_events final) own ->
  below (g_dev s) (g_dev (index own final)).
Proof.
  intros Hf [Hd _] d m E. rewrite index_gmerge.
  destruct (summary_dev_in own (log_events final) d m (Hd _ _ E)) as [m' [H1 H2]].
  rewrite H1. f_equal. eapply (dev_functional_log final Hf); [exact H2 | apply Hd; exact E].
Qed.

Definition full_ok own ownm final (s : gstate * astate) : Prop :=
  persisted_from (fst s) (log_events final) own /\
  justified ownm (g_dev (index own final)) (aliases (log_events final)) (snd s).

Lemma update_full_ok own ownm final s es :
  dev_functional (map e_ev final) -> incl es final -> full_ok own ownm final s ->
  full_ok own ownm final (update_full own ownm s es).
Proof.
  intros Hf Hi [Hp Hj]. unfold update_full. split; cbn [fst snd].
  - apply update_index_persisted; assumption.
  - apply alias_pass_justified.
    + apply persisted_below; [exact Hf|]. apply update_index_persisted; assumption.
    + apply aliases_incl. apply log_events_incl. exact Hi.
    + exact Hj.
Qed.

Lemma fold_update_full_ok own ownm final ls s :
  dev_functional (map e_ev final) -> Forall (fun l => incl l final) ls -> full_ok own ownm final s ->
  full_ok own ownm final (fold_left (update_full own ownm) ls s).
Proof.
  intros Hf. revert s. induction ls as [|l ls IH]; intros s Hall Hok; cbn; [exact Hok|].
  inversion Hall as [|? ? Hl Hls]; subst. apply IH; [exact Hls|]. apply update_full_ok; assumption.
Qed.

Lemma fst_fold_update_full own ownm ls s :
  fst (fold_left (update_full own ownm) ls s) = fold_left (update_index own) ls (fst s).
Proof. revert s. induction ls as [|l ls IH]; intros s; cbn; [reflexivity|]. rewrite IH. reflexivity. Qed.

Definition alias_spec own ownm final : astate :=
  let devs := g_dev (index own final) in
  mkA (has_own ownm devs (aliases (log_events final))) (last_other ownm devs (aliases (log_events final)) None).

(* whatever sub-logs were indexed before: after indexing the final log the alias keys are those of
   the log alone *)
Lemma alias_arrival_independent own ownm final ls :
  dev_functional (map e_ev final) ->
  Forall (fun l => incl l final) ls ->
  update_full own ownm (fold_left (update_full own ownm) ls full_init) final
  = (index own final, alias_spec own ownm final).
Proof.
  intros Hf Hall.
  assert (Hok : full_ok own ownm final (fold_left (update_full own ownm) ls full_init)).
  { apply fold_update_full_ok; [exact Hf | exact Hall |]. split; cbn.
    - apply persisted_init.
    - split; cbn; discriminate. }
  unfold update_full at 1. rewrite fst_fold_update_full. cbn [fst full_init].
  rewrite (arrival_independent own final ls Hf Hall). f_equal.
  destruct Hok as [_ Hj].
  apply alias_pass_final. exact Hj.
Qed.

Lemma alias_index_full own ownm final :
  dev_functional (map e_ev final) ->
  index_full own ownm final = (index own final, alias_spec own ownm final).
Proof.
  intros Hf. exact (alias_arrival_independent own ownm final [] Hf (Forall_nil _)).
Qed.

(* a function of the SET of entries *)
Lemma alias_set_function own ownm es es' :
  ids_distinct es -> ids_distinct es' -> (forall e, In e es <-> In e es') ->
  index_full own ownm es = index_full own ownm es'.
Proof.
  intros H1 H2 H3. unfold index_full, update_full, update_index.
  rewrite (sort_set_function es es' H1 H2 H3). reflexivity.
Qed.

(* when the other member publishes one key (its account proof key), that key is the one stored:
   oldest and latest coincide *)
Lemma last_other_constant ownm devs q key :
  other_alias_constant ownm devs q key ->
  last_other ownm devs q None = if existsb (is_other ownm devs) q then Some key else None.
Proof.
  intros Hc. destruct (existsb (is_other ownm devs) q) eqn:E.
  - destruct (last_other ownm devs q None) as [k|] eqn:El.
    + destruct (last_other_in _ _ _ _ El) as [d [Hin Ho]]. f_equal. exact (Hc (d, k) Hin Ho).
    + exfalso. apply existsb_exists in E. destruct E as [dk [Hin Ho]].
      revert El. clear Hc. induction q as [|x q IH] using rev_ind; [destruct Hin|].
      rewrite last_other_app. cbn. destruct (is_other ownm devs x) eqn:Ex; [discriminate|].
      intros El. apply in_app_or in Hin. destruct Hin as [Hin|[->|[]]]; [exact (IH Hin El) | congruence].
  - apply last_other_none. intros dk Hdk. destruct (is_other ownm devs dk) eqn:Eo; [|reflexivity].
    assert (existsb (is_other ownm devs) q = true) by (apply existsb_exists; exists dk; split; assumption). congruence.
Qed.

Lemma other_constant_rev ownm devs q key :
  other_alias_constant ownm devs q key -> other_alias_constant ownm devs (rev q) key.
Proof. intros H dk Hin. apply H. apply in_rev. exact Hin. Qed.

Lemma existsb_rev {A} (f : A -> bool) l : existsb f (rev l) = existsb f l.
Proof.
  induction l as [|x l IH]; [reflexivity|]. cbn. rewrite existsb_app, IH. cbn. rewrite orb_false_r. apply orb_comm.
Qed.

(* the scan (newest first, last assignment stays) and the log-order reading (latest wins) agree *)
Lemma alias_is_latest_when_constant ownm devs q key :
  other_alias_constant ownm devs q key ->
  last_other ownm devs q None = latest_other ownm devs (rev q).
Proof.
  intros Hc. unfold latest_other.
  rewrite (last_other_constant _ _ _ _ Hc), (last_other_constant _ _ _ _ (other_constant_rev _ _ _ _ Hc)).
  rewrite existsb_rev. reflexivity.
Qed.

(* observation: with two DIFFERENT keys published by the other member the index keeps the oldest *)
Definition wit_dev : entry := mkE 1 1 (EDevice 20 21).
Definition wit_al1 : entry := mkE 2 2 (EAlias 21 31).
Definition wit_al2 : entry := mkE 3 3 (EAlias 21 32).
Lemma alias_oldest_stays :
  a_other (snd (index_full 11 10 [wit_dev; wit_al1; wit_al2])) = Some 31
  /\ latest_other 10 (g_dev (index 11 [wit_dev; wit_al1; wit_al2])) [(21, 31); (21, 32)] = Some 32.
Proof. split; vm_compute; reflexivity. Qed.

(* the pinned behaviour (error on an unknown device, queue kept) was not a function of the set: the
   alias key of a device that never announces itself (1), then a device (5) of the other member
   that announces itself and publishes its key.  One batch: the queue is [alias 5; alias 1], the
   walk stores the key of 5 and stops at 1.  One by one: the queue starts with the alias of 1 and
   every later walk stops there. *)
Definition pin_e1 : entry := mkE 1 1 (EAlias 1 31).
Definition pin_e2 : entry := mkE 2 2 (EDevice 20 5).
Definition pin_e3 : entry := mkE 3 3 (EAlias 5 32).
Definition pinned_init : gstate * pstate := (ginit, mkP false None []).
Lemma pinned_alias_depended_on_arrival :
  p_other (snd (update_full_pinned 9 10 pinned_init [pin_e1; pin_e2; pin_e3])) = Some 32 /\
  p_other (snd (fold_left (update_full_pinned 9 10) [[pin_e1]; [pin_e1; pin_e2]; [pin_e1; pin_e2; pin_e3]] pinned_init)) = None /\
  a_other (snd (update_full 9 10 full_init [pin_e1; pin_e2; pin_e3])) = Some 32 /\
  a_other (snd (fold_left (update_full 9 10) [[pin_e1]; [pin_e1; pin_e2]; [pin_e1; pin_e2; pin_e3]] full_init)) = Some 32.
Proof. repeat split; vm_compute; reflexivity. Qed.

(* the seeded shape: resolving the alias INSIDE the handler, during the newest-first scan, looks the
   device up before its (older) announcement has been handled *)
Fixpoint scan_inline (ownm : N) (devs : N -> option N) (newest_first : list ev) (sent : bool) (other : option N) :=
  match newest_first with
  | [] => (sent, other)
  | EDevice m d :: l => scan_inline ownm (fun x => if x =? d then match devs d with Some m' => Some m' | None => Some m end else devs x) l sent other
  | EAlias d k :: l =>
      match devs d with
      | None => scan_inline ownm devs l sent other
      | Some m => if m =? ownm then scan_inline ownm devs l true other else scan_inline ownm devs l sent (Some k)
      end
  | _ :: l => scan_inline ownm devs l sent other
  end.
Lemma inline_resolution_depends_on_arrival :
  let log := [EAlias 21 31; EDevice 20 21] in   (* newest first *)
  (* fresh index (reopen, one batch): the device is not known yet when the alias is handled *)
  scan_inline 10 (fun _ => None) log false None = (false, None) /\
  (* entries indexed one at a time: the device map kept from the previous pass knows it *)
  scan_inline 10 (fun d => if d =? 21 then Some 20 else None) log false None = (false, Some 31).
Proof. split; vm_compute; reflexivity. Qed.
