(* C18 — proofs about the framing model. *)
From Coq Require Import List NArith ZArith Bool Lia ZifyN ZifyNat ZifyBool PeanoNat.
From Wesh Require Import Model.C18_Framing.
Import ListNotations.
Open Scope N_scope.
Ltac Zify.zify_post_hook ::= Z.div_mod_to_equations.

(* ------------------------------------------------------------------ *)
(* chunked streams are observationally their concatenation             *)

Lemma take_byte_spec s :
  match take_byte s with
  | None => concat s = []
  | Some (b, s') => concat s = b :: concat s'
  end.
Proof.
  induction s as [|c s IH]; cbn [take_byte concat]; [reflexivity|].
  destruct c as [|b c]; cbn [app]; [exact IH|reflexivity].
Qed.

Definition seq_chunks (a b : chunks) : Prop := concat a = concat b.

Lemma take_byte_equiv s1 s2 :
  seq_chunks s1 s2 ->
  match take_byte s1, take_byte s2 with
  | None, None => True
  | Some (b1, r1), Some (b2, r2) => b1 = b2 /\ seq_chunks r1 r2
  | _, _ => False
  end.
Proof.
  unfold seq_chunks; intros H.
  pose proof (take_byte_spec s1) as H1. pose proof (take_byte_spec s2) as H2.
  destruct (take_byte s1) as [[b1 r1]|], (take_byte s2) as [[b2 r2]|]; try congruence.
  - rewrite H1, H2 in H. injection H; auto.
  - exact I.
Qed.

Lemma take_n_spec n s :
  fst (take_n n s) = firstn n (concat s) /\ concat (snd (take_n n s)) = skipn n (concat s).
Proof.
  revert s; induction n as [|n IH]; intros s; cbn [take_n]; [split; reflexivity|].
  pose proof (take_byte_spec s) as Hs.
  destruct (take_byte s) as [[b s']|].
  - specialize (IH s'). destruct (take_n n s') as [d r]. cbn [fst snd] in *.
    rewrite Hs. cbn [firstn skipn]. destruct IH as [-> ->]. split; reflexivity.
  - rewrite Hs. cbn. split; reflexivity.
Qed.

Lemma take_n_equiv n s1 s2 :
  seq_chunks s1 s2 ->
  fst (take_n n s1) = fst (take_n n s2) /\ seq_chunks (snd (take_n n s1)) (snd (take_n n s2)).
Proof.
  unfold seq_chunks; intros H.
  destruct (take_n_spec n s1) as [A1 B1], (take_n_spec n s2) as [A2 B2].
  rewrite A1, A2, B1, B2, H. split; reflexivity.
Qed.

(* results of a prefix decoder, related up to re-chunking of the rest *)
Definition res_equiv (a b : (N * chunks) + err) : Prop :=
  match a, b with
  | inl (n1, r1), inl (n2, r2) => n1 = n2 /\ seq_chunks r1 r2
  | inr e1, inr e2 => e1 = e2
  | _, _ => False
  end.

Lemma uvarint_dec_loop_equiv f : forall i x s1 s2,
  seq_chunks s1 s2 -> res_equiv (uvarint_dec_loop f i x s1) (uvarint_dec_loop f i x s2).
Proof.
  induction f as [|f IH]; intros i x s1 s2 H; cbn [uvarint_dec_loop]; [reflexivity|].
  pose proof (take_byte_equiv s1 s2 H) as Hb.
  destruct (take_byte s1) as [[b1 r1]|], (take_byte s2) as [[b2 r2]|]; try contradiction.
  - destruct Hb as [<- Hr]. destruct (b1 <? 128).
    + destruct ((i =? 9) && (1 <? b1)); cbn; auto.
    + apply IH; exact Hr.
  - cbn. reflexivity.
Qed.

Lemma u32_dec_equiv o s1 s2 :
  seq_chunks s1 s2 -> res_equiv (u32_dec o s1) (u32_dec o s2).
Proof.
  intros H. unfold u32_dec.
  destruct (take_n_equiv 4 s1 s2 H) as [A B].
  destruct (take_n 4 s1) as [d1 r1], (take_n 4 s2) as [d2 r2]. cbn [fst snd] in *. subst d2.
  destruct (length d1) as [|[|[|[|[|?]]]]]; cbn; auto.
Qed.

Lemma prefix_dec_equiv v s1 s2 :
  seq_chunks s1 s2 -> res_equiv (prefix_dec v s1) (prefix_dec v s2).
Proof.
  destruct v; cbn [prefix_dec]; [apply uvarint_dec_loop_equiv | apply u32_dec_equiv].
Qed.

Definition rstate_equiv (a b : rstate) : Prop :=
  seq_chunks (rs_stream a) (rs_stream b) /\ rs_buf a = rs_buf b.

Lemma read_msg_equiv v max ok st1 st2 :
  rstate_equiv st1 st2 ->
  fst (read_msg v max ok st1) = fst (read_msg v max ok st2) /\
  rstate_equiv (snd (read_msg v max ok st1)) (snd (read_msg v max ok st2)).
Proof.
  intros [Hs Hb]. unfold read_msg.
  pose proof (prefix_dec_equiv v _ _ Hs) as Hp.
  destruct (prefix_dec v (rs_stream st1)) as [[n1 r1]|e1],
           (prefix_dec v (rs_stream st2)) as [[n2 r2]|e2]; cbn in Hp; try contradiction.
  - destruct Hp as [<- Hr]. rewrite <- Hb.
    destruct ((int63_limit <=? n1) || (max <? n1)).
    + cbn. split; [reflexivity|split; [assumption|reflexivity]].
    + destruct (take_n_equiv (N.to_nat n1) r1 r2 Hr) as [A B].
      destruct (take_n (N.to_nat n1) r1) as [d1 q1], (take_n (N.to_nat n1) r2) as [d2 q2].
      cbn [fst snd] in *. subst d2.
      destruct (N.of_nat (length d1) =? n1); cbn [fst snd].
      * split; [reflexivity|]. split; cbn [rs_stream rs_buf]; [exact B|reflexivity].
      * split; [reflexivity|]. split; cbn [rs_stream rs_buf]; reflexivity.
  - subst e2. cbn. split; [reflexivity|]. split; [reflexivity|exact Hb].
Qed.

Lemma read_all_equiv f v max : forall oks st1 st2,
  rstate_equiv st1 st2 ->
  fst (read_all f v max oks st1) = fst (read_all f v max oks st2) /\
  rs_buf (snd (read_all f v max oks st1)) = rs_buf (snd (read_all f v max oks st2)).
Proof.
  induction f as [|f IH]; intros oks st1 st2 H; cbn [read_all].
  - split; [reflexivity|apply H].
  - set (ok := match oks with [] => true | o :: _ => o end).
    destruct (read_msg_equiv v max ok st1 st2 H) as [A B].
    destruct (read_msg v max ok st1) as [ev1 st1'], (read_msg v max ok st2) as [ev2 st2'].
    cbn [fst snd] in *. subst ev2.
    destruct ev1 as [body|e].
    + specialize (IH (tl oks) st1' st2' B).
      destruct (read_all f v max (tl oks) st1') as [evs1 q1],
               (read_all f v max (tl oks) st2') as [evs2 q2]. cbn [fst snd] in *.
      destruct IH as [-> ->]. split; reflexivity.
    + cbn. split; [reflexivity|apply B].
Qed.

(* The reader's observable behaviour does not depend on how the byte stream is chunked. *)
Theorem chunking_irrelevant v max oks s1 s2 :
  concat s1 = concat s2 -> run_reader v max oks s1 = run_reader v max oks s2.
Proof.
  intros H. unfold run_reader. rewrite H.
  assert (E : rstate_equiv (init_rstate s1) (init_rstate s2)) by (split; [exact H|reflexivity]).
  destruct (read_all_equiv (S (length (concat s2))) v max oks _ _ E) as [A B].
  destruct (read_all _ v max oks (init_rstate s1)) as [e1 q1],
           (read_all _ v max oks (init_rstate s2)) as [e2 q2].
  cbn [fst snd] in *. congruence.
Qed.

(* ------------------------------------------------------------------ *)
(* uvarint round trip                                                  *)

Definition p7 (i : N) : N := 2 ^ (7 * i).
Lemma p7_pos i : 0 < p7 i. Proof. unfold p7. apply N.neq_0_lt_0, N.pow_nonzero. lia. Qed.
Lemma p7_succ i : p7 (i + 1) = 128 * p7 i.
Proof. unfold p7. replace (7 * (i + 1)) with (7 * i + 7) by lia. rewrite N.pow_add_r. change (2 ^ 7) with 128. lia. Qed.
Lemma p7_9 : p7 9 = 9223372036854775808. Proof. reflexivity. Qed.
Lemma p7_0 : p7 0 = 1. Proof. reflexivity. Qed.

Lemma take_byte_single b c : take_byte [b :: c] = Some (b, [c]).
Proof. reflexivity. Qed.

Lemma uvarint_dec_enc_gen : forall f i x n rest,
  (1 <= f)%nat -> i + N.of_nat f = 10 -> n * p7 i < 2 ^ 64 ->
  uvarint_dec_loop f i x [uvarint_enc_fuel f n ++ rest] = inl (x + n * p7 i, [rest]).
Proof.
  induction f as [|f IH]; intros i x n rest Hf Hi Hn; [lia|].
  cbn [uvarint_dec_loop uvarint_enc_fuel].
  destruct (n <? 128) eqn:Hlt.
  - cbn [app]. rewrite take_byte_single. rewrite Hlt.
    fold (p7 i).
    destruct ((i =? 9) && (1 <? n)) eqn:Hc; [|reflexivity].
    exfalso. apply andb_true_iff in Hc. destruct Hc as [Hc1 Hc2].
    apply N.eqb_eq in Hc1. subst i. rewrite p7_9 in Hn.
    apply N.ltb_lt in Hc2. change (2 ^ 64) with 18446744073709551616 in Hn. lia.
  - cbn [app]. rewrite take_byte_single.
    assert (Hb : n mod 128 + 128 <? 128 = false) by (apply N.ltb_ge; lia).
    rewrite Hb. fold (p7 i).
    assert (Hmod : (n mod 128 + 128) mod 128 = n mod 128).
    { rewrite N.add_mod by lia. rewrite N.mod_same by lia. rewrite N.add_0_r.
      rewrite N.mod_mod by lia. apply N.mod_mod. lia. }
    rewrite Hmod.
    apply N.ltb_ge in Hlt.
    pose proof (p7_pos i) as Hp.
    assert (Hi9 : i < 9).
    { destruct (N.lt_ge_cases i 9) as [?|Hge]; [assumption|exfalso].
      assert (i = 9) by lia. subst i. rewrite p7_9 in Hn.
      change (2 ^ 64) with 18446744073709551616 in Hn. lia. }
    rewrite IH.
    + f_equal. f_equal. rewrite p7_succ.
      pose proof (N.div_mod n 128 ltac:(lia)) as Hdm. nia.
    + lia.
    + lia.
    + rewrite p7_succ. pose proof (N.div_mod n 128 ltac:(lia)) as Hdm.
      assert (n / 128 * 128 <= n) by lia. nia.
Qed.

Lemma uvarint_dec_enc n rest :
  n < 2 ^ 64 -> uvarint_dec [uvarint_enc n ++ rest] = inl (n, [rest]).
Proof.
  intros H. unfold uvarint_dec, uvarint_enc.
  rewrite uvarint_dec_enc_gen; [|lia|reflexivity|rewrite p7_0; lia].
  rewrite p7_0. f_equal. f_equal. lia.
Qed.

(* uvarint encodings have 1..10 bytes *)
Lemma uvarint_enc_fuel_len f n : (length (uvarint_enc_fuel f n) <= f)%nat.
Proof. revert n; induction f as [|f IH]; intros n; cbn [uvarint_enc_fuel]; [cbn; lia|].
  destruct (n <? 128); cbn [length]; [lia|]. specialize (IH (n / 128)). lia. Qed.
Lemma uvarint_enc_nonempty n : uvarint_enc n <> [].
Proof. unfold uvarint_enc. cbn [uvarint_enc_fuel]. destruct (n <? 128); discriminate. Qed.

(* ------------------------------------------------------------------ *)
(* uint32 round trip                                                   *)

Lemma take_n_app_single (d rest : bytes) :
  fst (take_n (length d) [d ++ rest]) = d /\ concat (snd (take_n (length d) [d ++ rest])) = rest.
Proof.
  destruct (take_n_spec (length d) [d ++ rest]) as [A B].
  cbn [concat] in A, B. rewrite app_nil_r in A, B.
  rewrite A, B. rewrite firstn_app, Nat.sub_diag, firstn_all. cbn [firstn]. rewrite app_nil_r.
  rewrite skipn_app, Nat.sub_diag, skipn_all. cbn. auto.
Qed.

Lemma u32_of_enc o n : n < 2 ^ 32 -> u32_of o (u32_enc o n) = n.
Proof.
  intros H. change (2 ^ 32) with 4294967296 in H.
  destruct o; cbn [u32_enc u32_of]; lia.
Qed.

Lemma u32_enc_len o n : length (u32_enc o n) = 4%nat.
Proof. destruct o; reflexivity. Qed.

Lemma u32_dec_enc o n rest :
  n < 2 ^ 32 -> res_equiv (u32_dec o [u32_enc o n ++ rest]) (inl (n, [rest])).
Proof.
  intros H. unfold u32_dec.
  pose proof (take_n_app_single (u32_enc o n) rest) as [A B].
  rewrite u32_enc_len in A, B.
  destruct (take_n 4 [u32_enc o n ++ rest]) as [d r]. cbn [fst snd] in *. subst d.
  rewrite u32_enc_len. cbn. split; [apply u32_of_enc; exact H|].
  unfold seq_chunks. cbn. rewrite app_nil_r. exact B.
Qed.

(* ------------------------------------------------------------------ *)
(* frames round trip                                                   *)

Definition len_ok (v : variant) (max : N) (m : bytes) : Prop :=
  N.of_nat (length m) <= max /\ N.of_nat (length m) < int63_limit /\
  match v with Varint => True | U32 _ => N.of_nat (length m) < 2 ^ 32 end.

Lemma prefix_dec_enc v n rest :
  n < int63_limit -> match v with Varint => True | U32 _ => n < 2 ^ 32 end ->
  res_equiv (prefix_dec v [prefix_enc v n ++ rest]) (inl (n, [rest])).
Proof.
  intros H63 Hv. destruct v; cbn [prefix_dec prefix_enc].
  - rewrite uvarint_dec_enc.
    + cbn. split; reflexivity.
    + unfold int63_limit in H63. change (2 ^ 63) with 9223372036854775808 in H63.
      change (2 ^ 64) with 18446744073709551616. lia.
  - apply u32_dec_enc; exact Hv.
Qed.

(* one honest frame in front of [rest]: ReadMsg returns it and leaves [rest] *)
Lemma read_msg_frame v max st m rest :
  len_ok v max m ->
  seq_chunks (rs_stream st) [write_frame v m ++ rest] ->
  fst (read_msg v max true st) = Msg m /\
  seq_chunks (rs_stream (snd (read_msg v max true st))) [rest] /\
  rs_buf (snd (read_msg v max true st)) = N.max (rs_buf st) (N.of_nat (length m)).
Proof.
  intros (Hmax & H63 & Hv) Hs.
  set (st2 := {| rs_stream := [write_frame v m ++ rest]; rs_buf := rs_buf st |}).
  assert (E : rstate_equiv st st2) by (split; [exact Hs|reflexivity]).
  destruct (read_msg_equiv v max true st st2 E) as [A [B C]].
  rewrite A. unfold seq_chunks in *. rewrite B, C. clear A B C E Hs.
  unfold read_msg, st2. cbn [rs_stream rs_buf]. unfold write_frame. rewrite <- app_assoc.
  pose proof (prefix_dec_enc v (N.of_nat (length m)) (m ++ rest) H63 Hv) as Hp.
  destruct (prefix_dec v [prefix_enc v (N.of_nat (length m)) ++ m ++ rest]) as [[n r]|e];
    cbn in Hp; [|contradiction].
  destruct Hp as [-> Hr].
  assert (Hg : (int63_limit <=? N.of_nat (length m)) || (max <? N.of_nat (length m)) = false).
  { apply orb_false_iff. split; [apply N.leb_gt; exact H63|apply N.ltb_ge; exact Hmax]. }
  rewrite Hg. rewrite Nat2N.id.
  destruct (take_n_equiv (length m) r [m ++ rest] Hr) as [A B].
  destruct (take_n_app_single m rest) as [A' B'].
  destruct (take_n (length m) r) as [d q]. cbn [fst snd] in *.
  rewrite A' in A. subst d. rewrite N.eqb_refl. cbn [fst snd rs_stream rs_buf].
  split; [reflexivity|]. split; [|reflexivity].
  unfold seq_chunks in B. rewrite B, B'. cbn. rewrite app_nil_r. reflexivity.
Qed.

Fixpoint max_len (b : N) (ms : list bytes) : N :=
  match ms with [] => b | m :: ms' => max_len (N.max b (N.of_nat (length m))) ms' end.

Lemma write_frames_cons v m ms : write_frames v (m :: ms) = write_frame v m ++ write_frames v ms.
Proof. reflexivity. Qed.

(* prefix_preserved, compositional form: honest frames in front of ANY tail are delivered
   intact, then the reader continues exactly as it would on the tail alone. *)
Lemma read_all_frames v max : forall ms f st tail oks,
  Forall (len_ok v max) ms -> Forall (eq true) oks ->
  seq_chunks (rs_stream st) [write_frames v ms ++ tail] ->
  exists st' oks',
    seq_chunks (rs_stream st') [tail] /\ rs_buf st' = max_len (rs_buf st) ms /\
    Forall (eq true) oks' /\
    read_all (length ms + f) v max oks st =
      (map Msg ms ++ fst (read_all f v max oks' st'), snd (read_all f v max oks' st')).
Proof.
  induction ms as [|m ms IH]; intros f st tail oks Hms Hoks Hs.
  - exists st, oks. cbn [length Nat.add map app max_len].
    repeat split; try assumption. destruct (read_all f v max oks st); reflexivity.
  - inversion Hms as [|? ? Hm Hms']; subst.
    rewrite write_frames_cons, <- app_assoc in Hs.
    destruct (read_msg_frame v max st m _ Hm Hs) as (E1 & E2 & E3).
    assert (Hok : match oks with [] => true | o :: _ => o end = true).
    { destruct oks as [|o oks']; [reflexivity|]. inversion Hoks; subst; reflexivity. }
    assert (Htl : Forall (eq true) (tl oks)).
    { destruct oks as [|o oks']; [constructor|]. inversion Hoks; subst; assumption. }
    cbn [length Nat.add read_all]. rewrite Hok.
    destruct (read_msg v max true st) as [ev st1]. cbn [fst snd] in *. subst ev.
    destruct (IH f st1 tail (tl oks) Hms' Htl E2) as (st' & oks' & F1 & F2 & F3 & F4).
    exists st', oks'. rewrite F4. cbn [map app max_len].
    repeat split; try assumption. rewrite F2, E3. reflexivity.
Qed.

Lemma prefix_dec_empty v s : seq_chunks s [[]] -> prefix_dec v s = inr EEOF.
Proof.
  intros H. pose proof (prefix_dec_equiv v s [[]] H) as E.
  assert (Q : prefix_dec v [[]] = inr EEOF) by (destruct v as [|[]]; reflexivity).
  rewrite Q in E. destruct (prefix_dec v s) as [[? ?]|e]; cbn in E; [contradiction|congruence].
Qed.

Lemma prefix_enc_nonempty v n : prefix_enc v n <> [].
Proof. destruct v as [|o]; [apply uvarint_enc_nonempty|destruct o; discriminate]. Qed.

Lemma write_frames_len v ms : (length ms <= length (write_frames v ms))%nat.
Proof.
  induction ms as [|m ms IH]; [cbn; lia|].
  rewrite write_frames_cons, app_length. unfold write_frame. rewrite app_length.
  pose proof (prefix_enc_nonempty v (N.of_nat (length m))).
  destruct (prefix_enc v (N.of_nat (length m))); [congruence|]. cbn [length]. lia.
Qed.

(* frames_roundtrip: any message list within the limit, written by the writer and cut into
   ANY chunks, is read back identically, then end-of-stream; the buffer grows to the largest
   body only. *)
Theorem frames_roundtrip v max ms oks s :
  Forall (len_ok v max) ms -> Forall (eq true) oks ->
  concat s = write_frames v ms ->
  run_reader v max oks s = (map Msg ms ++ [Err EEOF], max_len 0 ms).
Proof.
  intros Hms Hoks Hs. unfold run_reader. rewrite Hs.
  pose proof (write_frames_len v ms) as Hl.
  replace (S (length (write_frames v ms)))
    with (length ms + S (length (write_frames v ms) - length ms))%nat by lia.
  assert (E : seq_chunks (rs_stream (init_rstate s)) [write_frames v ms ++ []]).
  { unfold seq_chunks. cbn. rewrite !app_nil_r. exact Hs. }
  destruct (read_all_frames v max ms (S (length (write_frames v ms) - length ms)) _ [] oks Hms Hoks E)
    as (st' & oks' & F1 & F2 & F3 & F4).
  rewrite F4. cbn [read_all]. unfold read_msg. rewrite (prefix_dec_empty v _ F1).
  cbn [fst snd rs_buf]. rewrite F2. reflexivity.
Qed.

(* ------------------------------------------------------------------ *)
(* allocation bound, for every input whatsoever                        *)

Lemma read_msg_buf v max ok st :
  rs_buf st <= max -> rs_buf (snd (read_msg v max ok st)) <= max.
Proof.
  intros H. unfold read_msg.
  destruct (prefix_dec v (rs_stream st)) as [[len s']|e]; [|exact H].
  destruct ((int63_limit <=? len) || (max <? len)) eqn:G; [exact H|].
  apply orb_false_iff in G. destruct G as [_ G]. apply N.ltb_ge in G.
  destruct (take_n (N.to_nat len) s') as [d r].
  destruct (N.of_nat (length d) =? len); cbn [snd rs_buf]; lia.
Qed.

Lemma read_all_buf f v max : forall oks st,
  rs_buf st <= max -> rs_buf (snd (read_all f v max oks st)) <= max.
Proof.
  induction f as [|f IH]; intros oks st H; cbn [read_all]; [exact H|].
  pose proof (read_msg_buf v max (match oks with [] => true | o :: _ => o end) st H) as H1.
  destruct (read_msg v max _ st) as [ev st1]. cbn [snd] in H1.
  destruct ev as [b|e]; [|exact H1].
  specialize (IH (tl oks) st1 H1). destruct (read_all f v max (tl oks) st1). exact IH.
Qed.

Theorem alloc_bound v max oks s : snd (run_reader v max oks s) <= max.
Proof.
  unfold run_reader.
  pose proof (read_all_buf (S (length (concat s))) v max oks (init_rstate s)) as H.
  destruct (read_all _ v max oks (init_rstate s)) as [evs st]. cbn [snd] in *.
  apply H. cbn. lia.
Qed.

(* ------------------------------------------------------------------ *)
(* totality: every input ends in exactly one error event after the messages *)

Definition slen (s : chunks) : nat := length (concat s).

Lemma take_byte_len s b s' : take_byte s = Some (b, s') -> slen s = S (slen s').
Proof. intros H. pose proof (take_byte_spec s) as E. rewrite H in E. unfold slen. rewrite E. reflexivity. Qed.

Lemma uvarint_dec_loop_consumes f : forall i x s n r,
  uvarint_dec_loop f i x s = inl (n, r) -> (slen r < slen s)%nat.
Proof.
  induction f as [|f IH]; intros i x s n r H; cbn [uvarint_dec_loop] in H; [discriminate|].
  destruct (take_byte s) as [[b s']|] eqn:Hb; [|discriminate].
  apply take_byte_len in Hb.
  destruct (b <? 128).
  - destruct ((i =? 9) && (1 <? b)); [discriminate|]. injection H as _ <-. lia.
  - apply IH in H. lia.
Qed.

Lemma take_n_len n s : (slen (snd (take_n n s)) <= slen s)%nat /\
                       (length (fst (take_n n s)) = n -> n <= slen s)%nat.
Proof.
  destruct (take_n_spec n s) as [A B]. unfold slen. rewrite B, A, skipn_length.
  split; [lia|]. rewrite firstn_length. lia.
Qed.

Lemma prefix_dec_consumes v s n r : prefix_dec v s = inl (n, r) -> (slen r < slen s)%nat.
Proof.
  destruct v as [|o]; cbn [prefix_dec].
  - apply uvarint_dec_loop_consumes.
  - unfold u32_dec. pose proof (take_n_spec 4 s) as [A B].
    destruct (take_n 4 s) as [d q]. cbn [fst snd] in *.
    destruct (length d) as [|[|[|[|[|?]]]]] eqn:L; try discriminate.
    intros H. injection H as _ <-. unfold slen. rewrite B, skipn_length.
    rewrite A, firstn_length in L. lia.
Qed.

Lemma read_msg_consumes v max ok st body st' :
  read_msg v max ok st = (Msg body, st') -> (slen (rs_stream st') < slen (rs_stream st))%nat.
Proof.
  unfold read_msg. destruct (prefix_dec v (rs_stream st)) as [[len s']|e] eqn:P; [|discriminate].
  apply prefix_dec_consumes in P.
  destruct ((int63_limit <=? len) || (max <? len)); [discriminate|].
  pose proof (take_n_len (N.to_nat len) s') as [L _].
  destruct (take_n (N.to_nat len) s') as [d r]. cbn [snd] in L.
  destruct (N.of_nat (length d) =? len); [|discriminate].
  destruct ok; [|discriminate]. intros H. injection H as _ <-. cbn [rs_stream]. lia.
Qed.

Lemma read_all_total f v max : forall oks st,
  (slen (rs_stream st) < f)%nat ->
  exists bodies e, fst (read_all f v max oks st) = map Msg bodies ++ [Err e].
Proof.
  induction f as [|f IH]; intros oks st H; [lia|]. cbn [read_all].
  destruct (read_msg v max _ st) as [ev st1] eqn:R.
  destruct ev as [body|e].
  - apply read_msg_consumes in R.
    destruct (IH (tl oks) st1 ltac:(lia)) as (bs & e & E).
    destruct (read_all f v max (tl oks) st1) as [evs q]. cbn [fst] in *.
    exists (body :: bs), e. rewrite E. reflexivity.
  - exists [], e. reflexivity.
Qed.

(* never stuck, never panics (the model is total), always terminates with one error/EOF *)
Theorem reader_total v max oks s :
  exists bodies e, fst (run_reader v max oks s) = map Msg bodies ++ [Err e].
Proof.
  unfold run_reader.
  destruct (read_all_total (S (length (concat s))) v max oks (init_rstate s)) as (bs & e & E).
  { cbn. unfold slen. lia. }
  destruct (read_all _ v max oks (init_rstate s)) as [evs st]. cbn [fst] in *. eauto.
Qed.

(* ------------------------------------------------------------------ *)
(* faulty frame after honest ones                                      *)

(* general composition: honest frames, then whatever the first ReadMsg on the tail says *)
Lemma frames_then_error v max ms oks s tail e :
  Forall (len_ok v max) ms -> Forall (eq true) oks ->
  concat s = write_frames v ms ++ tail ->
  (forall st ok, seq_chunks (rs_stream st) [tail] -> fst (read_msg v max ok st) = Err e) ->
  fst (run_reader v max oks s) = map Msg ms ++ [Err e].
Proof.
  intros Hms Hoks Hs Htail. unfold run_reader. rewrite Hs, app_length.
  pose proof (write_frames_len v ms) as Hl.
  replace (S (length (write_frames v ms) + length tail))
    with (length ms + S (length (write_frames v ms) - length ms + length tail))%nat by lia.
  assert (E : seq_chunks (rs_stream (init_rstate s)) [write_frames v ms ++ tail]).
  { unfold seq_chunks. cbn. rewrite !app_nil_r. exact Hs. }
  destruct (read_all_frames v max ms (S (length (write_frames v ms) - length ms + length tail)) _ tail oks Hms Hoks E)
    as (st' & oks' & F1 & F2 & F3 & F4).
  destruct (read_all (length ms + _) v max oks (init_rstate s)) as [evs q].
  injection F4 as -> _. cbn [fst read_all].
  specialize (Htail st' (match oks' with [] => true | o :: _ => o end) F1).
  destruct (read_msg v max _ st') as [ev st1]. cbn [fst] in Htail. subst ev. reflexivity.
Qed.

(* a frame whose announced length exceeds the limit: ErrShortBuffer, previous frames intact *)
Theorem oversize_is_error v max ms oks s n rest :
  Forall (len_ok v max) ms -> Forall (eq true) oks ->
  max < n -> n < 2 ^ 64 -> match v with Varint => True | U32 _ => n < 2 ^ 32 end ->
  concat s = write_frames v ms ++ prefix_enc v n ++ rest ->
  fst (run_reader v max oks s) = map Msg ms ++ [Err EShortBuffer].
Proof.
  intros Hms Hoks Hn H64 Hv Hs.
  apply (frames_then_error v max ms oks s (prefix_enc v n ++ rest)); try assumption.
  intros st ok Hst. unfold read_msg.
  assert (P : res_equiv (prefix_dec v (rs_stream st)) (inl (n, [rest]))).
  { pose proof (prefix_dec_equiv v _ _ Hst) as Q.
    destruct v as [|o]; cbn [prefix_dec prefix_enc] in *.
    - unfold uvarint_dec in *. fold (uvarint_dec [uvarint_enc n ++ rest]) in Q.
      rewrite (uvarint_dec_enc n rest H64) in Q. exact Q.
    - pose proof (u32_dec_enc o n rest Hv) as Q2.
      destruct (u32_dec o (rs_stream st)) as [[a b]|a], (u32_dec o [u32_enc o n ++ rest]) as [[c d]|c];
        cbn in *; try contradiction. destruct Q as [-> Q], Q2 as [-> Q2]. split; [reflexivity|].
      unfold seq_chunks in *. congruence. }
  destruct (prefix_dec v (rs_stream st)) as [[len s']|e]; cbn in P; [|contradiction].
  destruct P as [-> _].
  assert (G : (int63_limit <=? n) || (max <? n) = true).
  { apply orb_true_iff. right. apply N.ltb_lt. exact Hn. }
  rewrite G. reflexivity.
Qed.

(* a varint length that does not fit 64 bits: ten continuation bytes *)
Theorem overflow_is_error max ms oks s (junk : bytes) rest :
  Forall (len_ok Varint max) ms -> Forall (eq true) oks ->
  length junk = 10%nat -> Forall (fun b => 128 <= b) junk ->
  concat s = write_frames Varint ms ++ junk ++ rest ->
  fst (run_reader Varint max oks s) = map Msg ms ++ [Err EOverflow].
Proof.
  intros Hms Hoks Hl Hj Hs.
  apply (frames_then_error Varint max ms oks s (junk ++ rest)); try assumption.
  intros st ok Hst. unfold read_msg.
  pose proof (prefix_dec_equiv Varint _ _ Hst) as Q. cbn [prefix_dec] in *.
  assert (D : uvarint_dec [junk ++ rest] = inr EOverflow).
  { do 10 (destruct junk as [|?b junk]; [discriminate|]). destruct junk; [|discriminate].
    repeat match goal with H : Forall _ (_ :: _) |- _ => inversion H; clear H; subst end.
    unfold uvarint_dec. cbn [uvarint_dec_loop app take_byte].
    repeat match goal with H : 128 <= ?b |- context [?b <? 128] =>
      replace (b <? 128) with false by (symmetry; apply N.ltb_ge; exact H) end.
    reflexivity. }
  rewrite D in Q. destruct (uvarint_dec (rs_stream st)) as [[? ?]|e]; cbn in Q; [contradiction|].
  subst e. reflexivity.
Qed.

(* ------------------------------------------------------------------ *)
(* truncated frame                                                     *)

Definition eof_kind (e : err) : Prop := e = EEOF \/ e = EUnexpectedEOF.

Lemma uvarint_dec_truncated f : forall i x n t u,
  t ++ u = uvarint_enc_fuel f n -> u <> [] ->
  exists e, uvarint_dec_loop f i x [t] = inr e /\ eof_kind e.
Proof.
  induction f as [|f IH]; intros i x n t u H Hu.
  - cbn in H. apply app_eq_nil in H. tauto.
  - cbn [uvarint_dec_loop]. destruct t as [|b t].
    + cbn. destruct (i =? 0); eexists; split; try reflexivity; [left|right]; reflexivity.
    + rewrite take_byte_single. cbn [uvarint_enc_fuel app] in H.
      destruct (n <? 128).
      * injection H as _ H. apply app_eq_nil in H. tauto.
      * injection H as -> H.
        replace (n mod 128 + 128 <? 128) with false by (symmetry; apply N.ltb_ge; lia).
        eapply IH; eassumption.
Qed.

Lemma firstn_short (t : bytes) n : (length t < n)%nat -> firstn n t = t.
Proof. intros H. apply firstn_all2. lia. Qed.

Lemma u32_dec_truncated o (t : bytes) : (length t < 4)%nat ->
  exists e, u32_dec o [t] = inr e /\ eof_kind e.
Proof.
  intros H. unfold u32_dec. pose proof (take_n_spec 4 [t]) as [A _].
  destruct (take_n 4 [t]) as [d r]. cbn [fst concat] in A. rewrite app_nil_r in A.
  rewrite firstn_short in A by exact H. subst d.
  destruct (length t) as [|[|[|[|?]]]]; try lia;
    eexists; (split; [reflexivity|]); [left|right|right|right]; reflexivity.
Qed.

Lemma app_split_prefix (t u p m : bytes) :
  t ++ u = p ++ m ->
  (exists u', u' <> [] /\ t ++ u' = p) \/ (exists t', t = p ++ t' /\ t' ++ u = m).
Proof.
  revert p; induction t as [|b t IH]; intros p H.
  - destruct p as [|c p].
    + right. exists []. split; [reflexivity|exact H].
    + left. exists (c :: p). split; [discriminate|reflexivity].
  - destruct p as [|c p].
    + right. exists (b :: t). split; [reflexivity|exact H].
    + cbn in H. injection H as -> H. destruct (IH p H) as [(u' & A & B)|(t' & A & B)].
      * left. exists u'. split; [exact A|cbn; congruence].
      * right. exists t'. split; [cbn; congruence|exact B].
Qed.

Lemma read_msg_truncated v max m t u :
  len_ok v max m -> t ++ u = write_frame v m -> u <> [] ->
  exists e, eof_kind e /\
    forall st ok, seq_chunks (rs_stream st) [t] -> fst (read_msg v max ok st) = Err e.
Proof.
  intros Hm H Hu. unfold write_frame in H.
  assert (K : exists e, eof_kind e /\ forall b ok, fst (read_msg v max ok {| rs_stream := [t]; rs_buf := b |}) = Err e).
  { destruct (app_split_prefix _ _ _ _ H) as [(u' & A & B)|(t' & A & B)].
    - (* cut inside the length prefix *)
      assert (P : exists e, prefix_dec v [t] = inr e /\ eof_kind e).
      { destruct v as [|o]; cbn [prefix_dec prefix_enc] in *.
        - eapply uvarint_dec_truncated; eassumption.
        - apply u32_dec_truncated.
          pose proof (u32_enc_len o (N.of_nat (length m))) as L. rewrite <- B, app_length in L.
          destruct u'; [congruence|cbn in L; lia]. }
      destruct P as (e & P & Ke). exists e. split; [exact Ke|]. intros b ok.
      unfold read_msg. cbn [rs_stream]. rewrite P. reflexivity.
    - (* length prefix complete, body cut *)
      subst t. destruct Hm as (Hmax & H63 & Hv).
      exists (match t' with [] => EEOF | _ => EUnexpectedEOF end). split.
      { destruct t'; [left|right]; reflexivity. }
      intros b ok. unfold read_msg. cbn [rs_stream rs_buf].
      pose proof (prefix_dec_enc v (N.of_nat (length m)) t' H63 Hv) as Hp.
      destruct (prefix_dec v [prefix_enc v (N.of_nat (length m)) ++ t']) as [[n r]|e];
        cbn in Hp; [|contradiction].
      destruct Hp as [-> Hr].
      assert (Hg : (int63_limit <=? N.of_nat (length m)) || (max <? N.of_nat (length m)) = false).
      { apply orb_false_iff. split; [apply N.leb_gt; exact H63|apply N.ltb_ge; exact Hmax]. }
      rewrite Hg, Nat2N.id.
      pose proof (take_n_spec (length m) r) as [A' _].
      destruct (take_n (length m) r) as [d q]. cbn [fst] in A'.
      unfold seq_chunks in Hr. cbn in Hr. rewrite app_nil_r in Hr. rewrite Hr in A'.
      assert (Lt : (length t' < length m)%nat).
      { rewrite <- B, app_length. destruct u; [congruence|cbn; lia]. }
      rewrite firstn_short in A' by exact Lt. subst d.
      replace (N.of_nat (length t') =? N.of_nat (length m)) with false
        by (symmetry; apply N.eqb_neq; lia).
      reflexivity. }
  destruct K as (e & Ke & K). exists e. split; [exact Ke|]. intros st ok Hst.
  set (st2 := {| rs_stream := [t]; rs_buf := rs_buf st |}).
  assert (E : rstate_equiv st st2) by (split; [exact Hst|reflexivity]).
  destruct (read_msg_equiv v max ok st st2 E) as [A _]. rewrite A. apply K.
Qed.

(* a stream that ends inside a frame: the frames before it are delivered intact and the
   partial frame is never delivered; the reader reports EOF / unexpected EOF.
   (Remark: when the cut falls exactly after the length prefix the Go reader returns io.EOF,
   which callers cannot tell from a clean end of stream; the statement only asks for an error.) *)
Theorem truncated_is_error v max ms oks s m t u :
  Forall (len_ok v max) ms -> Forall (eq true) oks -> len_ok v max m ->
  t ++ u = write_frame v m -> u <> [] ->
  concat s = write_frames v ms ++ t ->
  exists e, eof_kind e /\ fst (run_reader v max oks s) = map Msg ms ++ [Err e].
Proof.
  intros Hms Hoks Hm Ht Hu Hs.
  destruct (read_msg_truncated v max m t u Hm Ht Hu) as (e & Ke & K).
  exists e. split; [exact Ke|].
  apply (frames_then_error v max ms oks s t); assumption.
Qed.
