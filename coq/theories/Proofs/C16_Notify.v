(* C16 — proofs about the notify transition system: for every data, every update sequence,
   two waiters making any number of calls, optional cancellation and every schedule:
   mutual exclusion, no missed update, no deadlock, prompt cancellation, exact results. *)
From Coq Require Import List NArith ZArith Bool Lia ZifyN ZifyNat ZifyBool.
From Wesh Require Import Model.C16_Notify.
Import ListNotations.
Open Scope N_scope.

(* ------------------------------------------------------------------ *)
(* data: an update that does not broadcast does not change any waiter's diff *)

Lemma diff_dset_unlisted d k v view :
  fst (dget d k) = false -> diff (dset d k (false, v)) view = diff d view.
Proof.
  induction d as [|[k' [a x]] d IH]; cbn [dget dset diff]; intros H.
  - reflexivity.
  - destruct (k' =? k) eqn:E.
    + cbn [fst] in H. subst a. cbn [diff]. reflexivity.
    + destruct (k <? k'); cbn [diff]; [reflexivity|]. rewrite IH by exact H. reflexivity.
Qed.

Lemma app_quiet_same_diff d o d' view : app d o = (d', false) -> diff d' view = diff d view.
Proof.
  destruct o as [k|k v|k v]; cbn [app].
  - destruct (dget d k) as [a x]. destruct a; intros H; injection H as <-; [reflexivity|discriminate].
  - destruct (dget d k) as [a x] eqn:E. destruct (x =? v).
    + intros H; injection H as <-. reflexivity.
    + intros H; injection H as <- ->. apply diff_dset_unlisted. rewrite E. reflexivity.
  - intros H; discriminate.
Qed.

(* ------------------------------------------------------------------ *)
(* who holds what, by program counter *)

Definition holdsLw (pc : wpc) : bool :=
  match pc with WNmuLock | WNmuUnlock | WLUnlock | WRet _ _ => true | _ => false end.
Definition holdsNw (pc : wpc) : bool := match pc with WNmuUnlock => true | _ => false end.
Definition holdsLu (pc : upc) : bool :=
  match pc with UNmuLock | UClose | UNmuUnlock | ULUnlock => true | _ => false end.
Definition holdsNu (pc : upc) : bool := match pc with UClose | UNmuUnlock => true | _ => false end.
Definition quietw (pc : wpc) : bool := match pc with WNmuLock | WNmuUnlock | WLUnlock => true | _ => false end.
Definition hassig (pc : wpc) : bool :=
  match pc with WNmuUnlock | WLUnlock | WSelect | WParked | WRelock => true | _ => false end.
Definition sleeping (pc : wpc) : bool := match pc with WSelect | WParked => true | _ => false end.
Definition pending_bc (pc : upc) : bool := match pc with UNmuLock | UClose => true | _ => false end.

Definition owner_eqb (a b : owner) : bool :=
  match a, b with
  | Nobody, Nobody | UpdaterO, UpdaterO => true
  | WaiterO x, WaiterO y => Bool.eqb x y
  | _, _ => false
  end.

Definition Own (s : state) : Prop :=
  (forall b, holdsLw (w_pc (getw s b)) = owner_eqb (lockL s) (WaiterO b)) /\
  holdsLu (u_pc s) = owner_eqb (lockL s) UpdaterO /\
  (forall b, holdsNw (w_pc (getw s b)) = owner_eqb (lockN s) (WaiterO b)) /\
  holdsNu (u_pc s) = owner_eqb (lockN s) UpdaterO.

Definition Winv (s : state) (b : bool) : Prop :=
  let w := getw s b in
  (quietw (w_pc w) = true -> diff (dat s) (w_view w) = []) /\
  (w_pc w = WParked -> is_open s (w_sig w) = true /\ cancelled s = false) /\
  (sleeping (w_pc w) = true -> diff (dat s) (w_view w) <> [] ->
     is_open s (w_sig w) = false \/ cancelled s = true \/ pending_bc (u_pc s) = true) /\
  (hassig (w_pc w) = true -> w_sig w < gen s).

Definition Inv (s : state) : Prop :=
  Own s /\ Winv s false /\ Winv s true /\ (forall c, cc s = Some c -> c < gen s).

Lemma Inv_init d ca va cb vb keep ops wc : Inv (init d ca va cb vb keep ops wc).
Proof.
  unfold Inv, Own, Winv, init. cbn.
  repeat split; try (intros [|]; reflexivity); try discriminate; intros; discriminate.
Qed.

(* ------------------------------------------------------------------ *)
(* projections through setw *)

Lemma getw_setw_same s b w : getw (setw s b w) b = w.
Proof. destruct b; reflexivity. Qed.
Lemma getw_setw_other s b w : getw (setw s b w) (negb b) = getw s (negb b).
Proof. destruct b; reflexivity. Qed.
Lemma setw_fields s b w :
  lockL (setw s b w) = lockL s /\ lockN (setw s b w) = lockN s /\ cc (setw s b w) = cc s /\
  gen (setw s b w) = gen s /\ dat (setw s b w) = dat s /\ cancelled (setw s b w) = cancelled s /\
  u_pc (setw s b w) = u_pc s /\ u_ops (setw s b w) = u_ops s /\ canceller (setw s b w) = canceller s.
Proof. destruct b; cbn; repeat split. Qed.

Lemma is_open_setw s b w c : is_open (setw s b w) c = is_open s c.
Proof. unfold is_open. destruct b; reflexivity. Qed.

Lemma bool_cases (b b' : bool) : b' = b \/ b' = negb b.
Proof. destruct b, b'; auto. Qed.

Lemma owner_free_iff o : owner_free o = true <-> o = Nobody.
Proof. destruct o; cbn; split; congruence. Qed.

(* a generic way to re-establish Inv after a waiter moved: the caller proves the ownership
   equations, the moved waiter's own clause, and that the other waiter's clause survives *)
Lemma other_winv_frame s s' b :
  Winv s (negb b) ->
  getw s' (negb b) = getw s (negb b) -> dat s' = dat s -> cancelled s' = cancelled s ->
  u_pc s' = u_pc s -> gen s <= gen s' ->
  (forall c, c < gen s -> is_open s' c = is_open s c) ->
  Winv s' (negb b).
Proof.
  intros (K & P & B & G) Hw Hd Hc Hu Hg Ho. unfold Winv. rewrite Hw, Hd, Hc, Hu.
  split; [exact K|]. split.
  - intros Hp. destruct (P Hp) as (P1 & P2). split; [|exact P2].
    rewrite Ho; [exact P1|]. apply G. rewrite Hp. reflexivity.
  - split.
    + intros Hs Hdiff. assert (Hsig : w_sig (getw s (negb b)) < gen s).
      { apply G. destruct (w_pc (getw s (negb b))); try discriminate; reflexivity. }
      rewrite Ho by exact Hsig. apply (B Hs Hdiff).
    + intros Hh. specialize (G Hh). lia.
Qed.

(* ------------------------------------------------------------------ *)
(* ownership bookkeeping, by brute force over the lock words           *)

Ltac own_facts HO :=
  let O1 := fresh "O1" in let O2 := fresh "O2" in let O3 := fresh "O3" in let O4 := fresh "O4" in
  destruct HO as (O1 & O2 & O3 & O4);
  pose proof (O1 true); pose proof (O1 false); pose proof (O3 true); pose proof (O3 false);
  clear O1 O3.

Ltac own_close :=
  cbn [getw] in *;
  repeat match goal with E : w_pc _ = _ |- _ => rewrite E in *; clear E end;
  repeat match goal with E : u_pc _ = _ |- _ => rewrite E in *; clear E end;
  unfold Own; cbn [getw setw with_locks mk lockL lockN u_pc wa wb wmk w_pc check];
  repeat match goal with
  | |- _ /\ _ => split
  | |- forall b : bool, _ => intros [|]
  end;
  cbn [getw setw with_locks mk lockL lockN u_pc wa wb wmk w_pc holdsLw holdsNw holdsLu holdsNu owner_eqb Bool.eqb] in *;
  try congruence.

(* the moved waiter's new clause and the rest, assembled *)
Lemma assemble s' b :
  Own s' -> Winv s' b -> Winv s' (negb b) -> (forall c, cc s' = Some c -> c < gen s') -> Inv s'.
Proof. intros. destruct b; cbn [negb] in *; unfold Inv; auto. Qed.

Lemma Winv_of s b : Inv s -> Winv s b.
Proof. intros (_ & A & B & _). destruct b; assumption. Qed.

Lemma wstep_inv s b s' : Inv s -> In s' (wstep s b) -> Inv s'.
Proof.
  intros HI Hin. pose proof HI as (HO & _ & _ & HC).
  pose proof (Winv_of s b HI) as (K & P & B & G).
  pose proof (Winv_of s (negb b) HI) as HWo.
  unfold wstep in Hin. destruct (w_pc (getw s b)) eqn:Epc.
  - (* WStart *)
    destruct Hin as [<-|[]].
    apply (assemble _ b).
    + own_facts HO. destruct b; cbn [getw] in Epc; destruct (w_calls _); own_close.
    + unfold Winv. rewrite getw_setw_same. destruct (w_calls (getw s b)); cbn; repeat split; intros; try discriminate.
    + apply (other_winv_frame s _ b HWo); [destruct b; reflexivity|destruct b; reflexivity|destruct b; reflexivity|destruct b; reflexivity| |]; [destruct b; cbn; lia|intros; apply is_open_setw].
    + destruct b; exact HC.
  - (* WLock *)
    destruct (owner_free (lockL s)) eqn:Ef; [|destruct Hin]. apply owner_free_iff in Ef.
    destruct Hin as [<-|[]].
    apply (assemble _ b).
    + own_facts HO. rewrite Ef in *. unfold check.
      destruct b; cbn [getw] in *; destruct (diff _ _); own_close.
    + unfold Winv. rewrite getw_setw_same. unfold check.
      destruct (diff (dat s) (w_view (getw s b))) eqn:Ed; cbn [wmk w_pc w_view quietw sleeping hassig];
        destruct b; cbn; repeat split; intros; try discriminate; try assumption.
    + apply (other_winv_frame s _ b HWo); [destruct b; reflexivity|destruct b; reflexivity|destruct b; reflexivity|destruct b; reflexivity| |]; [destruct b; cbn; lia|].
      intros; destruct b; reflexivity.
    + destruct b; exact HC.
  - (* WNmuLock *)
    destruct (owner_free (lockN s)) eqn:Ef; [|destruct Hin]. apply owner_free_iff in Ef.
    assert (Kd : diff (dat s) (w_view (getw s b)) = []) by (apply K; reflexivity).
    destruct (cc s) as [c|] eqn:Ecc.
    + destruct Hin as [<-|[]]. specialize (HC c eq_refl).
      apply (assemble _ b).
      * own_facts HO. rewrite Ef in *. destruct b; cbn [getw] in *; own_close.
      * unfold Winv. rewrite getw_setw_same. destruct b; cbn; repeat split; intros; try discriminate; assumption.
      * apply (other_winv_frame s _ b HWo); [destruct b; reflexivity|destruct b; reflexivity|destruct b; reflexivity|destruct b; reflexivity| |]; [destruct b; cbn; lia|].
        intros; unfold is_open; destruct b; cbn; rewrite Ecc; reflexivity.
      * destruct b; cbn; intros c0 E; injection E as <-; exact HC.
    + destruct Hin as [<-|[]].
      apply (assemble _ b).
      * own_facts HO. rewrite Ef in *. destruct b; cbn [getw] in *; own_close.
      * unfold Winv. rewrite getw_setw_same. destruct b; cbn; repeat split; intros; try discriminate; try assumption; lia.
      * apply (other_winv_frame s _ b HWo); [destruct b; reflexivity|destruct b; reflexivity|destruct b; reflexivity|destruct b; reflexivity| |]; [destruct b; cbn; lia|].
        intros c Hc. unfold is_open. destruct b; cbn; rewrite Ecc; apply N.eqb_neq; lia.
      * destruct b; cbn; intros c0 E; injection E as <-; lia.
  - (* WNmuUnlock *)
    destruct Hin as [<-|[]].
    assert (Kd : diff (dat s) (w_view (getw s b)) = []) by (apply K; reflexivity).
    assert (Gs : w_sig (getw s b) < gen s) by (apply G; reflexivity).
    apply (assemble _ b).
    + own_facts HO. destruct b; cbn [getw] in *; rewrite Epc in *; cbn in *;
        destruct (lockN s) as [|[|]|]; try discriminate; own_close.
    + unfold Winv. rewrite getw_setw_same. destruct b; cbn; repeat split; intros; try discriminate; assumption.
    + apply (other_winv_frame s _ b HWo); [destruct b; reflexivity|destruct b; reflexivity|destruct b; reflexivity|destruct b; reflexivity| |]; [destruct b; cbn; lia|].
      intros; destruct b; reflexivity.
    + destruct b; exact HC.
  - (* WLUnlock *)
    destruct Hin as [<-|[]].
    assert (Kd : diff (dat s) (w_view (getw s b)) = []) by (apply K; reflexivity).
    assert (Gs : w_sig (getw s b) < gen s) by (apply G; reflexivity).
    apply (assemble _ b).
    + own_facts HO. destruct b; cbn [getw] in *; rewrite Epc in *; cbn in *;
        destruct (lockL s) as [|[|]|]; try discriminate; own_close.
    + unfold Winv. rewrite getw_setw_same. destruct b; cbn; repeat split; intros; try discriminate; try assumption.
      all: cbn [getw] in *; congruence.
    + apply (other_winv_frame s _ b HWo); [destruct b; reflexivity|destruct b; reflexivity|destruct b; reflexivity|destruct b; reflexivity| |]; [destruct b; cbn; lia|].
      intros; destruct b; reflexivity.
    + destruct b; exact HC.
  - (* WSelect *)
    assert (Gs : w_sig (getw s b) < gen s) by (apply G; reflexivity).
    assert (Hgo : forall okv,
      Inv (setw s b {| w_pc := WRelock; w_calls := w_calls (getw s b); w_view := w_view (getw s b);
                       w_sig := w_sig (getw s b); w_ok := okv; w_keep := w_keep (getw s b); w_res := w_res (getw s b) |})).
    { intros okv. apply (assemble _ b).
      - own_facts HO. destruct b; cbn [getw] in *; rewrite Epc in *; cbn in *; own_close.
      - unfold Winv. rewrite getw_setw_same. destruct b; cbn; repeat split; intros; try discriminate; assumption.
      - apply (other_winv_frame s _ b HWo); [destruct b; reflexivity|destruct b; reflexivity|destruct b; reflexivity|destruct b; reflexivity| |]; [destruct b; cbn; lia|].
        intros; destruct b; reflexivity.
      - destruct b; exact HC. }
    destruct (negb (is_open s (w_sig (getw s b)))) eqn:Eo.
    + destruct (cancelled s); [destruct Hin as [<-|[<-|[]]]|destruct Hin as [<-|[]]]; apply Hgo.
    + destruct (cancelled s) eqn:Ec; [destruct Hin as [<-|[]]; apply Hgo|].
      destruct Hin as [<-|[]]. apply negb_false_iff in Eo.
      apply (assemble _ b).
      * own_facts HO. destruct b; cbn [getw] in *; rewrite Epc in *; cbn in *; own_close.
      * unfold Winv. rewrite getw_setw_same, is_open_setw.
        destruct (setw_fields s b (wmk WParked (getw s b))) as (_ & _ & _ & -> & -> & -> & -> & _).
        cbn [wmk w_pc w_view w_sig quietw sleeping hassig]. split; [discriminate|].
        split; [intros _; split; first [assumption|reflexivity]|]. split; [|intros _; exact Gs].
        intros _ Hd. destruct (B eq_refl Hd) as [?|[?|?]]; [left; assumption|discriminate|right; right; assumption].
      * apply (other_winv_frame s _ b HWo); [destruct b; reflexivity|destruct b; reflexivity|destruct b; reflexivity|destruct b; reflexivity| |]; [destruct b; cbn; lia|].
        intros; destruct b; reflexivity.
      * destruct b; exact HC.
  - (* WParked *) destruct Hin.
  - (* WRelock *)
    destruct (owner_free (lockL s)) eqn:Ef; [|destruct Hin]. apply owner_free_iff in Ef.
    assert (Gs : w_sig (getw s b) < gen s) by (apply G; reflexivity).
    destruct (w_ok (getw s b)); destruct Hin as [<-|[]].
    + apply (assemble _ b).
      * own_facts HO. rewrite Ef in *. unfold check.
        destruct b; cbn [getw] in *; destruct (diff _ _); own_close.
      * unfold Winv. rewrite getw_setw_same. unfold check.
        destruct (diff (dat s) (w_view (getw s b))) eqn:Ed; cbn [wmk w_pc w_view quietw sleeping hassig];
          destruct b; cbn; repeat split; intros; try discriminate; try assumption.
      * apply (other_winv_frame s _ b HWo); [destruct b; reflexivity|destruct b; reflexivity|destruct b; reflexivity|destruct b; reflexivity| |]; [destruct b; cbn; lia|].
        intros; destruct b; reflexivity.
      * destruct b; exact HC.
    + apply (assemble _ b).
      * own_facts HO. rewrite Ef in *. destruct b; cbn [getw] in *; own_close.
      * unfold Winv. rewrite getw_setw_same. destruct b; cbn; repeat split; intros; discriminate.
      * apply (other_winv_frame s _ b HWo); [destruct b; reflexivity|destruct b; reflexivity|destruct b; reflexivity|destruct b; reflexivity| |]; [destruct b; cbn; lia|].
        intros; destruct b; reflexivity.
      * destruct b; exact HC.
  - (* WRet *)
    destruct Hin as [<-|[]].
    apply (assemble _ b).
    + own_facts HO. destruct b; cbn [getw] in *; rewrite Epc in *; cbn in *;
        destruct (lockL s) as [|[|]|]; try discriminate; destruct ok; destruct (pred (w_calls _)); own_close.
    + unfold Winv. rewrite getw_setw_same. destruct ok; destruct (pred (w_calls (getw s b)));
        destruct b; cbn; repeat split; intros; discriminate.
    + apply (other_winv_frame s _ b HWo); [destruct b; reflexivity|destruct b; reflexivity|destruct b; reflexivity|destruct b; reflexivity| |]; [destruct b; cbn; lia|].
      intros; destruct b; reflexivity.
    + destruct b; exact HC.
  - (* WDone *) destruct Hin.
Qed.

(* ------------------------------------------------------------------ *)
(* updater and canceller steps                                          *)

Lemma wake_holds c okv w :
  holdsLw (w_pc (wake c okv w)) = holdsLw (w_pc w) /\ holdsNw (w_pc (wake c okv w)) = holdsNw (w_pc w).
Proof.
  unfold wake. destruct (w_pc w) eqn:E; try (rewrite E; auto).
  destruct c as [ch|]; [destruct (w_sig w =? ch)|]; cbn; rewrite ?E; auto.
Qed.

Lemma wake_fields c okv w :
  w_view (wake c okv w) = w_view w /\ w_sig (wake c okv w) = w_sig w /\
  (w_pc (wake c okv w) = w_pc w \/ (w_pc w = WParked /\ w_pc (wake c okv w) = WRelock)).
Proof.
  unfold wake. destruct (w_pc w) eqn:E; try (rewrite E; auto).
  destruct c as [ch|]; [destruct (w_sig w =? ch)|]; cbn; rewrite ?E; auto.
Qed.

Lemma quiet_holds pc : quietw pc = true -> holdsLw pc = true.
Proof. destruct pc; cbn; congruence. Qed.

Lemma no_quiet_when_L_not_waiter s b :
  Own s -> lockL s <> WaiterO b -> quietw (w_pc (getw s b)) = false.
Proof.
  intros (O1 & _) H. destruct (quietw (w_pc (getw s b))) eqn:E; [|reflexivity].
  apply quiet_holds in E. rewrite O1 in E. destruct (lockL s) as [|b'|]; cbn in E; try discriminate.
  apply eqb_prop in E. congruence.
Qed.

Lemma ustep_inv s s' : Inv s -> In s' (ustep s) -> Inv s'.
Proof.
  intros HI Hin. pose proof HI as (HO & HWa & HWb & HC).
  unfold ustep in Hin. destruct (u_pc s) eqn:Eu.
  - (* UStart *)
    destruct Hin as [<-|[]]. unfold Inv. split; [|split; [|split]].
    + own_facts HO. destruct (u_ops s); own_close.
    + destruct HWa as (K & P & B & G). unfold Winv. cbn [mk getw wa dat cancelled gen u_pc is_open cc].
      split; [exact K|]. split; [exact P|]. split; [|exact G].
      intros Hs Hd. destruct (B Hs Hd) as [?|[?|?]]; [left; assumption|right; left; assumption|].
      rewrite Eu in *. discriminate.
    + destruct HWb as (K & P & B & G). unfold Winv. cbn [mk getw wb dat cancelled gen u_pc is_open cc].
      split; [exact K|]. split; [exact P|]. split; [|exact G].
      intros Hs Hd. destruct (B Hs Hd) as [?|[?|?]]; [left; assumption|right; left; assumption|].
      rewrite Eu in *. discriminate.
    + exact HC.
  - (* ULock *)
    destruct (u_ops s) as [|o ops] eqn:Eo; [destruct Hin|].
    destruct (owner_free (lockL s)) eqn:Ef; [|destruct Hin]. apply owner_free_iff in Ef.
    destruct (app (dat s) o) as [d' bc] eqn:Ea. destruct Hin as [<-|[]].
    assert (Hq : forall b, quietw (w_pc (getw s b)) = false).
    { intros b. apply no_quiet_when_L_not_waiter; [exact HO|rewrite Ef; discriminate]. }
    assert (HW : forall uo b, Winv s b -> Winv (mk UpdaterO (lockN s) (cc s) (gen s) d' (cancelled s) (wa s) (wb s)
                                          (if bc then UNmuLock else ULUnlock) uo (canceller s)) b).
    { intros uo b (K & P & B & G). unfold Winv.
      replace (getw (mk UpdaterO (lockN s) (cc s) (gen s) d' (cancelled s) (wa s) (wb s)
                        (if bc then UNmuLock else ULUnlock) uo (canceller s)) b) with (getw s b)
        by (destruct b; reflexivity).
      cbn [mk dat cancelled gen u_pc]. unfold is_open. cbn [mk cc].
      split; [intros Hqq; rewrite Hq in Hqq; discriminate|]. split; [exact P|]. split; [|exact G].
      intros Hs Hd. destruct bc; [right; right; reflexivity|].
      rewrite (app_quiet_same_diff _ _ _ _ Ea) in Hd.
      destruct (B Hs Hd) as [?|[?|?]]; [left; assumption|right; left; assumption|].
      rewrite Eu in *. discriminate. }
    unfold Inv. split; [|split; [apply HW; exact HWa|split; [apply HW; exact HWb|exact HC]]].
    own_facts HO. rewrite Ef in *. destruct bc; own_close.
  - (* UNmuLock *)
    destruct (owner_free (lockN s)) eqn:Ef; [|destruct Hin]. apply owner_free_iff in Ef.
    destruct Hin as [<-|[]].
    assert (HW : forall b, Winv s b -> Winv (mk (lockL s) UpdaterO (cc s) (gen s) (dat s) (cancelled s) (wa s) (wb s)
                                          (match cc s with Some _ => UClose | None => UNmuUnlock end) (u_ops s) (canceller s)) b).
    { intros b (K & P & B & G). unfold Winv.
      replace (getw (mk (lockL s) UpdaterO (cc s) (gen s) (dat s) (cancelled s) (wa s) (wb s)
                        (match cc s with Some _ => UClose | None => UNmuUnlock end) (u_ops s) (canceller s)) b) with (getw s b)
        by (destruct b; reflexivity).
      cbn [mk dat cancelled gen u_pc]. unfold is_open. cbn [mk cc].
      split; [exact K|]. split; [exact P|]. split; [|exact G].
      intros Hs Hd. destruct (cc s); [right; right; reflexivity|left; reflexivity]. }
    unfold Inv. split; [|split; [apply HW; exact HWa|split; [apply HW; exact HWb|exact HC]]].
    own_facts HO. rewrite Ef in *. destruct (cc s); own_close.
  - (* UClose *)
    destruct Hin as [<-|[]].
    assert (HW : forall b, Winv s b ->
               Winv (mk (lockL s) (lockN s) None (gen s) (dat s) (cancelled s) (wake (cc s) true (wa s))
                        (wake (cc s) true (wb s)) UNmuUnlock (u_ops s) (canceller s)) b).
    { intros b (K & P & B & G). unfold Winv.
      replace (getw (mk (lockL s) (lockN s) None (gen s) (dat s) (cancelled s) (wake (cc s) true (wa s))
                        (wake (cc s) true (wb s)) UNmuUnlock (u_ops s) (canceller s)) b)
        with (wake (cc s) true (getw s b)) by (destruct b; reflexivity).
      cbn [mk dat cancelled gen u_pc]. unfold is_open. cbn [mk cc].
      destruct (wake_fields (cc s) true (getw s b)) as (Fv & Fs & Fp). rewrite Fv, Fs.
      split.
      { intros Hqq. apply K. destruct Fp as [Fp|[Hp1 Hp2]]; [rewrite Fp in Hqq; exact Hqq|]. rewrite Hp2 in Hqq. discriminate. }
      split.
      { intros Hp. exfalso. destruct Fp as [Fp|[Hp1 Hp2]]; [|congruence].
        rewrite Fp in Hp. destruct (P Hp) as (Po & _).
        (* a parked waiter's channel is the open one: it is woken by this close *)
        unfold wake in Fp. rewrite Hp in Fp. unfold is_open in Po.
        destruct (cc s) as [ch|]; [|discriminate]. rewrite N.eqb_sym in Po. rewrite Po in Fp.
        cbn in Fp. discriminate. }
      split; [intros _ _; left; reflexivity|].
      intros Hh. apply G. destruct Fp as [Fp|[Hp1 Hp2]]; [rewrite Fp in Hh; exact Hh|]. rewrite Hp1. reflexivity. }
    unfold Inv. split; [|split; [apply HW; exact HWa|split; [apply HW; exact HWb|]]].
    + destruct HO as (O1 & O2 & O3 & O4). unfold Own. cbn [mk lockL lockN u_pc]. rewrite Eu in *.
      split; [|split; [exact O2|split; [|exact O4]]].
      * intros b. rewrite <- O1. destruct b; cbn [getw mk wa wb]; apply wake_holds.
      * intros b. rewrite <- O3. destruct b; cbn [getw mk wa wb]; apply wake_holds.
    + cbn. discriminate.
  - (* UNmuUnlock *)
    destruct Hin as [<-|[]].
    assert (HW : forall b, Winv s b -> Winv (mk (lockL s) Nobody (cc s) (gen s) (dat s) (cancelled s) (wa s) (wb s)
                                          ULUnlock (u_ops s) (canceller s)) b).
    { intros b (K & P & B & G). unfold Winv.
      replace (getw (mk (lockL s) Nobody (cc s) (gen s) (dat s) (cancelled s) (wa s) (wb s) ULUnlock (u_ops s) (canceller s)) b)
        with (getw s b) by (destruct b; reflexivity).
      cbn [mk dat cancelled gen u_pc]. unfold is_open. cbn [mk cc].
      split; [exact K|]. split; [exact P|]. split; [|exact G].
      intros Hs Hd. destruct (B Hs Hd) as [?|[?|?]]; [left; assumption|right; left; assumption|].
      rewrite Eu in *. discriminate. }
    unfold Inv. split; [|split; [apply HW; exact HWa|split; [apply HW; exact HWb|exact HC]]].
    own_facts HO. rewrite Eu in *. cbn in *. destruct (lockN s) as [|[|]|]; try discriminate; own_close.
  - (* ULUnlock *)
    destruct Hin as [<-|[]].
    assert (HW : forall b, Winv s b -> Winv (mk Nobody (lockN s) (cc s) (gen s) (dat s) (cancelled s) (wa s) (wb s)
                                          (match tl (u_ops s) with [] => UDone | _ => ULock end) (tl (u_ops s)) (canceller s)) b).
    { intros b (K & P & B & G). unfold Winv.
      replace (getw (mk Nobody (lockN s) (cc s) (gen s) (dat s) (cancelled s) (wa s) (wb s)
                        (match tl (u_ops s) with [] => UDone | _ => ULock end) (tl (u_ops s)) (canceller s)) b)
        with (getw s b) by (destruct b; reflexivity).
      cbn [mk dat cancelled gen u_pc]. unfold is_open. cbn [mk cc].
      split; [exact K|]. split; [exact P|]. split; [|exact G].
      intros Hs Hd. destruct (B Hs Hd) as [?|[?|?]]; [left; assumption|right; left; assumption|].
      rewrite Eu in *. discriminate. }
    unfold Inv. split; [|split; [apply HW; exact HWa|split; [apply HW; exact HWb|exact HC]]].
    own_facts HO. rewrite Eu in *. cbn in *. destruct (lockL s) as [|[|]|]; try discriminate;
      destruct (tl (u_ops s)); own_close.
  - destruct Hin.
Qed.

Lemma kstep_inv s s' : Inv s -> In s' (kstep s) -> Inv s'.
Proof.
  intros HI Hin. pose proof HI as (HO & HWa & HWb & HC).
  unfold kstep in Hin. destruct (canceller s) as [[|]|]; try (destruct Hin; fail).
  destruct Hin as [<-|[]].
  assert (HW : forall b, Winv s b ->
             Winv (mk (lockL s) (lockN s) (cc s) (gen s) (dat s) true (wake None false (wa s))
                      (wake None false (wb s)) (u_pc s) (u_ops s) (Some true)) b).
  { intros b (K & P & B & G). unfold Winv.
    replace (getw (mk (lockL s) (lockN s) (cc s) (gen s) (dat s) true (wake None false (wa s))
                      (wake None false (wb s)) (u_pc s) (u_ops s) (Some true)) b)
      with (wake None false (getw s b)) by (destruct b; reflexivity).
    cbn [mk dat cancelled gen u_pc]. unfold is_open. cbn [mk cc].
    destruct (wake_fields None false (getw s b)) as (Fv & Fs & Fp). rewrite Fv, Fs.
    split.
    { intros Hqq. apply K. destruct Fp as [Fp|[Hp1 Hp2]]; [rewrite Fp in Hqq; exact Hqq|]. rewrite Hp2 in Hqq. discriminate. }
    split.
    { intros Hp. exfalso. destruct Fp as [Fp|[Hp1 Hp2]]; [|congruence].
      rewrite Fp in Hp. unfold wake in Fp. rewrite Hp in Fp. cbn in Fp. discriminate. }
    split; [intros _ _; right; left; reflexivity|].
    intros Hh. apply G. destruct Fp as [Fp|[Hp1 Hp2]]; [rewrite Fp in Hh; exact Hh|]. rewrite Hp1. reflexivity. }
  unfold Inv. split; [|split; [apply HW; exact HWa|split; [apply HW; exact HWb|exact HC]]].
  destruct HO as (O1 & O2 & O3 & O4). unfold Own. cbn [mk lockL lockN u_pc].
  split; [|split; [exact O2|split; [|exact O4]]].
  - intros b. rewrite <- O1. destruct b; cbn [getw mk wa wb]; apply wake_holds.
  - intros b. rewrite <- O3. destruct b; cbn [getw mk wa wb]; apply wake_holds.
Qed.

Lemma step_inv s tid s' : Inv s -> In s' (step s tid) -> Inv s'.
Proof.
  intros HI Hin. unfold step in Hin.
  destruct (tid =? 0); [eapply wstep_inv; eassumption|].
  destruct (tid =? 1); [eapply wstep_inv; eassumption|].
  destruct (tid =? 2); [eapply ustep_inv; eassumption|eapply kstep_inv; eassumption].
Qed.

Inductive reachable (s0 : state) : state -> Prop :=
| reach_init : reachable s0 s0
| reach_step s tid s' : reachable s0 s -> In s' (step s tid) -> reachable s0 s'.

Theorem reachable_inv d ca va cb vb keep ops wc s :
  reachable (init d ca va cb vb keep ops wc) s -> Inv s.
Proof. intros H. induction H; [apply Inv_init|eapply step_inv; eassumption]. Qed.

(* ------------------------------------------------------------------ *)
(* consequences                                                         *)

Lemma owner_eqb_true a b : owner_eqb a b = true -> a = b.
Proof. destruct a as [|x|], b as [|y|]; cbn; try discriminate; auto. intros H. apply eqb_prop in H. congruence. Qed.

(* nobody but the holder of L can hold Notify.mu: every holder of mu also holds L *)
Lemma N_free_when_L_holder_wants_it s :
  Own s ->
  (u_pc s = UNmuLock \/ exists b, w_pc (getw s b) = WNmuLock) -> lockN s = Nobody.
Proof.
  intros (O1 & O2 & O3 & O4) H.
  destruct (lockN s) as [|b'|] eqn:EN; [reflexivity| |].
  - (* waiter b' holds mu: it is at WNmuUnlock and holds L *)
    exfalso. pose proof (O3 b') as H3. cbn in H3. rewrite eqb_reflx in H3.
    assert (Hb' : w_pc (getw s b') = WNmuUnlock) by (destruct (w_pc (getw s b')); cbn in H3; congruence).
    pose proof (O1 b') as H1. rewrite Hb' in H1. cbn in H1. symmetry in H1. apply owner_eqb_true in H1.
    destruct H as [Hu|[b Hb]].
    + rewrite Hu, H1 in O2. cbn in O2. discriminate.
    + pose proof (O1 b) as H1b. rewrite Hb, H1 in H1b. cbn in H1b. symmetry in H1b. apply eqb_prop in H1b.
      subst b'. congruence.
  - exfalso. cbn in O4.
    assert (Hu' : u_pc s = UClose \/ u_pc s = UNmuUnlock) by (destruct (u_pc s); cbn in O4; try discriminate; auto).
    assert (HL : lockL s = UpdaterO).
    { apply owner_eqb_true. rewrite <- O2. destruct Hu' as [->| ->]; reflexivity. }
    destruct H as [Hu|[b Hb]]; [destruct Hu' as [E|E]; rewrite E in Hu; discriminate|].
    pose proof (O1 b) as H1b. rewrite Hb, HL in H1b. cbn in H1b. discriminate.
Qed.

(* no_missed_update: a parked waiter whose view differs from the tracked state is about to
   be woken: the updater that changed the state holds L and is at its broadcast; the
   broadcast's steps are enabled, and the close wakes this very waiter with a positive result *)
Theorem no_missed_update d ca va cb vb keep ops wc s b :
  reachable (init d ca va cb vb keep ops wc) s ->
  w_pc (getw s b) = WParked -> diff (dat s) (w_view (getw s b)) <> [] ->
  (u_pc s = UNmuLock /\ exists s1, ustep s = [s1] /\ u_pc s1 = UClose /\ w_pc (getw s1 b) = WParked) \/
  (u_pc s = UClose /\ exists s1, ustep s = [s1] /\ w_pc (getw s1 b) = WRelock /\ w_ok (getw s1 b) = true).
Proof.
  intros Hr Hp Hd. pose proof (reachable_inv _ _ _ _ _ _ _ _ _ Hr) as HI.
  pose proof HI as (HO & _ & _ & HC). pose proof (Winv_of s b HI) as (K & P & B & G).
  destruct (P Hp) as (Po & Pc).
  assert (Hs : sleeping (w_pc (getw s b)) = true) by (rewrite Hp; reflexivity).
  destruct (B Hs Hd) as [H|[H|H]]; [congruence|congruence|].
  unfold is_open in Po. destruct (cc s) as [ch|] eqn:Ecc; [|discriminate].
  destruct (u_pc s) eqn:Eu; try discriminate.
  - left. split; [reflexivity|]. unfold ustep. rewrite Eu.
    rewrite (N_free_when_L_holder_wants_it s HO (or_introl Eu)). cbn [owner_free]. rewrite Ecc.
    eexists. split; [reflexivity|]. split; [reflexivity|]. destruct b; exact Hp.
  - right. split; [reflexivity|]. unfold ustep. rewrite Eu. eexists. split; [reflexivity|].
    assert (Hw : wake (cc s) true (getw s b) =
                 {| w_pc := WRelock; w_calls := w_calls (getw s b); w_view := w_view (getw s b);
                    w_sig := w_sig (getw s b); w_ok := true; w_keep := w_keep (getw s b); w_res := w_res (getw s b) |}).
    { unfold wake. rewrite Hp, Ecc. rewrite N.eqb_sym, Po. reflexivity. }
    destruct b; cbn [getw mk wa wb] in *; rewrite Ecc in *; rewrite Hw; split; reflexivity.
Qed.

(* the updater's operation list is non-empty whenever it is inside an operation *)
Definition Uops (s : state) : Prop := u_pc s = ULock -> u_ops s <> [].

Lemma Uops_step s tid s' : Uops s -> In s' (step s tid) -> Uops s'.
Proof.
  unfold Uops, step. intros H Hin.
  assert (Hw : forall b, In s' (wstep s b) -> u_pc s' = u_pc s /\ u_ops s' = u_ops s).
  { intros b Hb. unfold wstep in Hb.
    destruct (w_pc (getw s b)); repeat match goal with
      | H : In _ [] |- _ => destruct H
      | H : In _ (_ :: _) |- _ => destruct H as [<-|H]
      | H : In _ (if ?c then _ else _) |- _ => destruct c
      | H : In _ (let '(_, _) := ?x in _) |- _ => destruct x
      | H : In _ (match cc s with _ => _ end) |- _ => destruct (cc s)
      end; destruct b; auto. }
  destruct (tid =? 0); [destruct (Hw false Hin) as [-> ->]; exact H|].
  destruct (tid =? 1); [destruct (Hw true Hin) as [-> ->]; exact H|].
  destruct (tid =? 2).
  - unfold ustep in Hin. destruct (u_pc s) eqn:Eu;
      repeat match goal with
      | H : In _ [] |- _ => destruct H
      | H : In _ (_ :: _) |- _ => destruct H as [<-|H]
      | H : In _ (match u_ops s with _ => _ end) |- _ => destruct (u_ops s) eqn:?
      | H : In _ (if ?c then _ else _) |- _ => destruct c
      | H : In _ (let '(_, _) := ?x in _) |- _ => destruct x
      end; cbn [mk u_pc u_ops]; try discriminate; try congruence.
    + destruct (u_ops s); [discriminate|intros _; discriminate].
    + destruct (cc s); discriminate.
    + destruct (tl (u_ops s)); [discriminate|intros _; discriminate].
  - unfold kstep in Hin. destruct (canceller s) as [[|]|]; try (destruct Hin; fail).
    destruct Hin as [<-|[]]. exact H.
Qed.

Lemma reachable_Uops d ca va cb vb keep ops wc s :
  reachable (init d ca va cb vb keep ops wc) s -> Uops s.
Proof. intros H. induction H; [unfold Uops; cbn; discriminate|eapply Uops_step; eassumption]. Qed.

(* deadlock freedom: whenever some thread is neither finished nor parked in its select, some
   thread has an enabled step *)
Definition waiter_idle (pc : wpc) : bool := match pc with WDone | WParked => true | _ => false end.

Theorem deadlock_free d ca va cb vb keep ops wc s :
  reachable (init d ca va cb vb keep ops wc) s ->
  (exists b, waiter_idle (w_pc (getw s b)) = false) \/ u_pc s <> UDone \/ canceller s = Some false ->
  exists tid s', In s' (step s tid).
Proof.
  intros Hr Hact. pose proof (reachable_inv _ _ _ _ _ _ _ _ _ Hr) as HI.
  pose proof (reachable_Uops _ _ _ _ _ _ _ _ _ Hr) as HU.
  pose proof HI as (HO & _). pose proof HO as (O1 & O2 & O3 & O4).
  (* a thread that holds L can always move *)
  destruct (lockL s) as [|bl|] eqn:EL.
  - (* L free *)
    destruct Hact as [[b Hb]|[Hu|Hk]].
    + pose proof (O1 b) as H1. cbn in H1.
      exists (if b then 1 else 0). unfold step.
      assert (Hstep : exists s', In s' (wstep s b)).
      { unfold wstep. destruct (w_pc (getw s b)) eqn:Epc; cbn in Hb, H1; try discriminate.
        - eexists. left. reflexivity.
        - rewrite EL. cbn [owner_free]. eexists. left. reflexivity.
        - destruct (negb (is_open s (w_sig (getw s b)))); destruct (cancelled s); eexists; left; reflexivity.
        - rewrite EL. cbn [owner_free]. destruct (w_ok (getw s b)); eexists; left; reflexivity. }
      destruct b; cbn; exact Hstep.
    + exists 2. unfold step. cbn. unfold ustep.
      cbn in O2.
      destruct (u_pc s) eqn:Eu; cbn in O2; try discriminate; try congruence.
      * eexists. left. reflexivity.
      * specialize (HU Eu). destruct (u_ops s) as [|o r]; [congruence|].
        rewrite EL. cbn [owner_free]. destruct (app (dat s) o). eexists. left. reflexivity.
    + exists 99. unfold step. cbn. unfold kstep. rewrite Hk. eexists. left. reflexivity.
  - (* a waiter holds L *)
    pose proof (O1 bl) as H1. cbn in H1. rewrite eqb_reflx in H1.
    exists (if bl then 1 else 0).
    assert (Hstep : exists s', In s' (wstep s bl)).
    { unfold wstep. destruct (w_pc (getw s bl)) eqn:Epc; cbn in H1; try discriminate.
      - rewrite (N_free_when_L_holder_wants_it s HO (or_intror (ex_intro _ bl Epc))). cbn [owner_free].
        destruct (cc s); eexists; left; reflexivity.
      - eexists. left. reflexivity.
      - eexists. left. reflexivity.
      - eexists. left. reflexivity. }
    unfold step. destruct bl; cbn; exact Hstep.
  - (* the updater holds L *)
    cbn in O2. exists 2. unfold step. cbn. unfold ustep.
    destruct (u_pc s) eqn:Eu; cbn in O2; try discriminate.
    + rewrite (N_free_when_L_holder_wants_it s HO (or_introl Eu)). cbn [owner_free]. eexists. left. reflexivity.
    + eexists. left. reflexivity.
    + eexists. left. reflexivity.
    + eexists. left. reflexivity.
Qed.

(* cancel_prompt: once cancelled, no waiter is (or stays) parked; a waiter woken by the
   cancellation returns a negative result at its next step *)
Theorem cancel_prompt d ca va cb vb keep ops wc s b :
  reachable (init d ca va cb vb keep ops wc) s -> cancelled s = true -> w_pc (getw s b) <> WParked.
Proof.
  intros Hr Hc Hp. pose proof (reachable_inv _ _ _ _ _ _ _ _ _ Hr) as HI.
  pose proof (Winv_of s b HI) as (_ & P & _). destruct (P Hp). congruence.
Qed.

Lemma cancelled_wait_negative s b :
  w_pc (getw s b) = WRelock -> w_ok (getw s b) = false -> lockL s = Nobody ->
  exists s', wstep s b = [s'] /\ w_pc (getw s' b) = WRet [] false.
Proof.
  intros Hp Ho Hl. unfold wstep. rewrite Hp, Hl, Ho. cbn [owner_free].
  eexists. split; [reflexivity|]. rewrite getw_setw_same. reflexivity.
Qed.

(* exact results: a positive return carries exactly the keys whose tracked value differs from
   the waiter's view at that moment (under L), and that list is non-empty *)
Lemma check_exact s w upd okv :
  w_pc (check s w) = WRet upd okv -> upd = diff (dat s) (w_view w) /\ upd <> [] /\ okv = true.
Proof.
  unfold check. destruct (diff (dat s) (w_view w)) eqn:E; cbn; [discriminate|].
  intros H. injection H as <- <-. repeat split. discriminate.
Qed.

(* mutual exclusion, as stated on the lock words *)
Theorem mutual_exclusion d ca va cb vb keep ops wc s :
  reachable (init d ca va cb vb keep ops wc) s ->
  (forall b, holdsLw (w_pc (getw s b)) = true -> lockL s = WaiterO b) /\
  (holdsLu (u_pc s) = true -> lockL s = UpdaterO).
Proof.
  intros Hr. pose proof (reachable_inv _ _ _ _ _ _ _ _ _ Hr) as ((O1 & O2 & _) & _).
  split.
  - intros b H. rewrite O1 in H. apply owner_eqb_true in H. exact H.
  - intros H. rewrite O2 in H. apply owner_eqb_true in H. exact H.
Qed.
