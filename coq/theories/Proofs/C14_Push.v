(* C14 — push payloads: reference window arithmetic (uint64 wrap-around included), and the
   independence of push delivery and log delivery. *)
From Coq Require Import List NArith ZArith Bool Lia ZifyN ZifyNat ZifyBool.
From Wesh Require Import Model.Store Model.C02_Ratchet Model.C10_Crash Model.C14_Push
                         Proofs.C02_Ratchet Proofs.C10_Crash.
Import ListNotations.
Open Scope N_scope.
Ltac Zify.zify_post_hook ::= Z.div_mod_to_equations.

(* ---------- the window ---------- *)

Lemma ref_known_after_update Nr s g d first k :
  ref_known (refs_update Nr s g d first) g d k =
  (wsub k (wsub first Nr) <? wsub (wadd first Nr) (wsub first Nr)).
Proof. unfold ref_known, refs_update. rewrite put_same. reflexivity. Qed.

(* no wrap: exactly the counters first-N .. first+N-1 *)
Lemma window_plain Nr first k :
  Nr <= first -> first + Nr < two64 -> k < two64 ->
  (wsub k (wsub first Nr) <? wsub (wadd first Nr) (wsub first Nr)) = ((first - Nr <=? k) && (k <? first + Nr)).
Proof. unfold wsub, wadd, two64. intros. lia. Qed.

(* counters below N: the lower bound wraps; every counter from 0 to first+N-1 is covered *)
Lemma window_low Nr first k :
  first < Nr -> Nr < 9223372036854775808 -> k < first + Nr ->
  (wsub k (wsub first Nr) <? wsub (wadd first Nr) (wsub first Nr)) = true.
Proof. unfold wsub, wadd, two64. intros. lia. Qed.

(* the window always holds 2N references *)
Lemma window_width Nr first :
  first < two64 -> 2 * Nr < two64 -> wsub (wadd first Nr) (wsub first Nr) = 2 * Nr.
Proof. unfold wsub, wadd, two64. intros. lia. Qed.

(* the counter just seen is always inside its own window *)
Lemma window_contains_centre Nr first :
  1 <= Nr -> first < two64 -> 2 * Nr < two64 ->
  (wsub first (wsub first Nr) <? wsub (wadd first Nr) (wsub first Nr)) = true.
Proof. unfold wsub, wadd, two64. intros. lia. Qed.

(* ---------- push and log delivery do not disturb each other ---------- *)

Section Push.
Variable cidf : N -> N -> N.
Hypothesis cidf_inj : forall d k d' k', cidf d k = cidf d' k' -> d = d' /\ k = k'.

Lemma put_firstlast_frame s g d v :
  (forall d' k', get_pre (put (KFirstLast g d) v s) grp d' k' = get_pre s grp d' k') /\
  (forall c, get_cid (put (KFirstLast g d) v s) c = get_cid s c) /\
  (forall d', get_chain (put (KFirstLast g d) v s) grp d' = get_chain s grp d').
Proof.
  repeat split; intros; unfold get_pre, get_cid, get_chain; rewrite put_other by discriminate; reflexivity.
Qed.

(* oos_then_log: whatever a push does to the store, every message that could be opened through
   the log still can (C10's [holds]), keys stay the sender's keys, chains do not go back *)
Theorem push_preserves Nr s e cid r s' :
  Good cidf s -> e_group e = grp -> push_step Nr s e cid = (r, s') ->
  Good cidf s' /\ (forall d k, holds cidf s d k -> holds cidf s' d k) /\ chain_ge s s'.
Proof.
  intros HG Hg H. unfold push_step in H. rewrite Hg in H.
  assert (Hid : Good cidf s /\ (forall d k, holds cidf s d k -> holds cidf s d k) /\ chain_ge s s).
  { split; [exact HG|]. split; [auto|apply (chain_ge_refl cidf cidf_inj)]. }
  destruct (negb (ref_known s grp (e_dev e) (e_ctr e))); [injection H as _ <-; exact Hid|].
  destruct (match get_cid s cid with Some mk0 => Some (mk0, false) | None => _ end) as [[mk newly]|];
    [|injection H as _ <-; exact Hid].
  destruct (negb (msgkey_eqb mk (e_key e))); [injection H as _ <-; exact Hid|].
  destruct (negb (e_signer e =? e_dev e)); [injection H as _ <-; exact Hid|].
  unfold precompute_next in H. destruct (get_chain s grp (e_dev e)) as [[cs ck]|] eqn:Ech; [|injection H as _ <-; exact Hid].
  unfold derive in H. cbn [fst snd] in H. injection H as _ <-.
  pose proof HG as (G1 & G2 & G3). pose proof (G3 _ _ _ Ech) as ->. cbn [fst snd].
  assert (Hok : mut_ok cidf s (MBatch [(KPre grp (e_dev e) (cs + 1), VKey (e_dev e, cs + 1))])).
  { cbn. constructor; [eexists _, _; reflexivity|constructor]. }
  destruct (mut_step cidf cidf_inj s _ HG Hok) as ((A1 & A2 & A3) & Hh & Hc).
  set (s1 := apply_mut s (MBatch [(KPre grp (e_dev e) (cs + 1), VKey (e_dev e, cs + 1))])) in *.
  unfold refs_update. destruct (put_firstlast_frame s1 grp (e_dev e) (VFirstLast (wsub (e_ctr e) Nr) (wadd (e_ctr e) Nr))) as (F1 & F2 & F3).
  split; [|split].
  - split; [intros d0 k0 mk0; rewrite F1; apply A1|]. split; [intros d0 k0 mk0; rewrite F2; apply A2|intros d0 c0 ck0; rewrite F3; apply A3].
  - intros d0 k0 Hk. destruct (Hh d0 k0 Hk) as [X|X]; [left; rewrite F2; exact X|right; rewrite F1; exact X].
  - intros d0 c0 ck0 Hk. destruct (Hc d0 c0 ck0 Hk) as (c' & ck' & E & L). exists c', ck'. rewrite F3. auto.
Qed.

(* a successful log delivery leaves the message key saved under the CID *)
Lemma open_ok_saves_cid s d k own p ms :
  Good cidf s ->
  open_step s (honest_env grp d d k (cidf d k)) (cidf d k) own = (ROk p, ms) ->
  get_cid (apply_muts s ms) (cidf d k) = Some (d, k) /\ p = cidf d k.
Proof.
  intros (G1 & G2 & G3) Eo. unfold open_step, honest_env in Eo.
  cbn [e_group e_dev e_ctr e_key e_payload e_signer] in Eo.
  destruct (get_cid s (cidf d k)) as [mk|] eqn:Ec.
  - pose proof (G2 d k mk Ec) as ->. rewrite msgkey_eqb_refl in Eo. injection Eo as <- <-. cbn. auto.
  - destruct (get_pre s grp d k) as [mk|] eqn:Ep; [|discriminate Eo].
    pose proof (G1 d k mk Ep) as ->. rewrite msgkey_eqb_refl, N.eqb_refl in Eo. cbn [negb] in Eo.
    set (m1 := [MPut (KCid (cidf d k)) (VKey (d, k)); MDel (KPre grp d k)]) in *.
    assert (E1 : get_cid (apply_muts s m1) (cidf d k) = Some (d, k)).
    { unfold get_cid, m1, apply_muts. cbn [fold_left apply_mut]. rewrite del_other by discriminate. rewrite put_same. reflexivity. }
    unfold precompute_next in Eo.
    destruct (get_chain (apply_muts s m1) grp d) as [[cs ck]|]; [|discriminate Eo].
    unfold derive in Eo. cbn [fst snd] in Eo.
    set (b := MBatch [(KPre grp d (cs + 1), VKey (fst ck, snd ck + 1))]) in *.
    assert (E2 : get_cid (apply_mut (apply_muts s m1) b) (cidf d k) = Some (d, k)).
    { unfold get_cid, b. cbn [apply_mut fold_left fst snd]. rewrite put_other by discriminate. exact E1. }
    destruct (match own with Some o => o =? d | None => false end).
    + injection Eo as <- <-. split; [|reflexivity].
      exact E2.
    + unfold update_current_muts in Eo.
      destruct (get_chain (apply_mut (apply_muts s m1) b) grp d) as [[cur ck2]|]; [|discriminate Eo].
      cbn [fst snd] in Eo. destruct (cs + 1 <? cur).
      * injection Eo as <- <-. split; [|reflexivity].
        exact E2.
      * injection Eo as <- <-. split; [|reflexivity].
        unfold m1, apply_muts in *. cbn [app fold_left apply_mut] in *.
        unfold get_cid in *. rewrite put_other by discriminate. exact E2.
Qed.

(* log_then_oos: in a state where the message was delivered through the log (its key is saved
   under its CID), its push payload opens to the same payload and is reported as already
   received — provided its reference is in the window and the sender's chain key is present *)
Theorem push_after_log Nr s d k :
  let cid := cidf d k in
  Good cidf s -> get_cid s cid = Some (d, k) ->
  ref_known s grp d k = true -> get_chain s grp d <> None ->
  fst (push_step Nr s (honest_env grp d d k cid) cid) = Some (cid, true).
Proof.
  intros cid HG Hc Hr Hch. unfold push_step, honest_env. cbn [e_group e_dev e_ctr e_key e_payload e_signer].
  rewrite Hr. cbn [negb]. fold cid. rewrite Hc, msgkey_eqb_refl, N.eqb_refl. cbn [negb].
  unfold precompute_next. destruct (get_chain s grp d) as [[cs ck]|]; [|congruence]. reflexivity.
Qed.

(* the log path moves the window around the delivered counter, so the reference is known *)
Lemma log_step_ref_known Nr s d k p :
  1 <= Nr -> k < two64 -> 2 * Nr < two64 ->
  fst (log_step Nr s (honest_env grp d d k (cidf d k)) (cidf d k)) = ROk p ->
  ref_known (snd (log_step Nr s (honest_env grp d d k (cidf d k)) (cidf d k))) grp d k = true.
Proof.
  intros HN Hk H2 H. unfold log_step in *.
  destruct (open_step s (honest_env grp d d k (cidf d k)) (cidf d k) None) as [r ms]. cbn [fst snd] in *. subst r.
  cbn [e_group e_dev e_ctr honest_env]. rewrite ref_known_after_update. apply window_contains_centre; assumption.
Qed.

(* already_received_truthful: the flag is exactly "the key was found under the CID" *)
Theorem already_received_truthful Nr s e cid p a :
  fst (push_step Nr s e cid) = Some (p, a) -> a = match get_cid s cid with Some _ => true | None => false end.
Proof.
  unfold push_step. destruct (negb (ref_known s (e_group e) (e_dev e) (e_ctr e))); [discriminate|].
  destruct (get_cid s cid) as [mk|].
  - destruct (negb (msgkey_eqb mk (e_key e))); [discriminate|]. destruct (negb (e_signer e =? e_dev e)); [discriminate|].
    destruct (precompute_next s (e_group e) (e_dev e)) as [[b n]|]; [|discriminate]. cbn. intros H. injection H as _ <-. reflexivity.
  - destruct (get_pre s (e_group e) (e_dev e) (e_ctr e)) as [mk|]; [|discriminate].
    destruct (negb (msgkey_eqb mk (e_key e))); [discriminate|]. destruct (negb (e_signer e =? e_dev e)); [discriminate|].
    destruct (precompute_next s (e_group e) (e_dev e)) as [[b n]|]; [|discriminate]. cbn. intros H. injection H as _ <-. reflexivity.
Qed.

(* unknown_ref_rejected *)
Theorem unknown_ref_rejected Nr s e cid :
  ref_known s (e_group e) (e_dev e) (e_ctr e) = false -> push_step Nr s e cid = (None, s).
Proof. intros H. unfold push_step. rewrite H. reflexivity. Qed.

(* oos_opens_iff, the positive direction spelled out: known reference + (key under the CID or
   precomputed key of that counter) + chain key present + authentic envelope  ==> opens to the
   original payload *)
Theorem push_opens Nr s d k :
  let cid := cidf d k in
  Good cidf s -> holds cidf s d k -> ref_known s grp d k = true -> get_chain s grp d <> None ->
  exists a, fst (push_step Nr s (honest_env grp d d k cid) cid) = Some (cid, a).
Proof.
  intros cid (G1 & G2 & G3) Hh Hr Hch. unfold push_step, honest_env. cbn [e_group e_dev e_ctr e_key e_payload e_signer].
  rewrite Hr. cbn [negb]. fold cid.
  destruct (get_cid s cid) as [mk|] eqn:Ec.
  - pose proof (G2 d k mk Ec) as ->. rewrite msgkey_eqb_refl, N.eqb_refl. cbn [negb].
    unfold precompute_next. destruct (get_chain s grp d) as [[cs ck]|]; [|congruence]. eexists; reflexivity.
  - destruct Hh as [Hh|Hh]; [unfold cid in Ec; congruence|]. rewrite Hh, msgkey_eqb_refl, N.eqb_refl. cbn [negb].
    unfold precompute_next. destruct (get_chain s grp d) as [[cs ck]|]; [|congruence]. eexists; reflexivity.
Qed.

End Push.

(* a push opening never writes under a message identifier - in particular not under the one the push
   payload names, which its sender chooses: whatever was (not) stored under ANY identifier before is
   (not) stored under it afterwards, for every push payload, genuine or not *)
Lemma push_keeps_cid_keys Nr s e cid c : snd (push_step Nr s e cid) (KCid c) = s (KCid c).
Proof.
  unfold push_step.
  destruct (negb (ref_known s (e_group e) (e_dev e) (e_ctr e))); [reflexivity|].
  destruct (match get_cid s cid with
            | Some mk => Some (mk, false)
            | None => match get_pre s (e_group e) (e_dev e) (e_ctr e) with Some mk => Some (mk, true) | None => None end
            end) as [[mk newly]|]; [|reflexivity].
  destruct (negb (msgkey_eqb mk (e_key e))); [reflexivity|].
  destruct (negb (e_signer e =? e_dev e)); [reflexivity|].
  unfold precompute_next. destruct (get_chain s (e_group e) (e_dev e)) as [[c0 ck]|]; [|reflexivity].
  destruct (derive ck) as [ck1 mk1]. cbn [snd]. unfold refs_update, put. cbn [apply_mut fold_left fst snd dkey_eqb].
  unfold put. cbn [dkey_eqb]. reflexivity.
Qed.
