(* C03 — proofs about the symbolic envelope opener with the generated checker table. *)
From Coq Require Import List NArith Bool String Lia.
From Wesh Require Import Gen.Events GenFacts.EventsFacts Model.C03_Events Model.MetaLog Proofs.MetaLog.
Import ListNotations.
Open Scope N_scope.

Lemma verify_spec k s d : verify k s d = true <-> s = SigBy k d.
Proof.
  unfold verify. destruct s as [k' d'| |]; split; try discriminate.
  - intros H. apply andb_true_iff in H. destruct H as [H1 H2].
    apply N.eqb_eq in H1. apply N.eqb_eq in H2. subst. reflexivity.
  - intros H. inversion H; subst. rewrite !N.eqb_refl. reflexivity.
Qed.

Lemma checker_of_in t tbl c : checker_of t tbl = Some c -> In (t, c) tbl.
Proof.
  induction tbl as [|[t' c'] r IH]; cbn; [discriminate|].
  destruct (N.eqb_spec t' t) as [->|Hne].
  - intros H. inversion H. left. reflexivity.
  - intros H. right. apply IH. exact H.
Qed.

Lemma checker_eqb_eq a b : checker_eqb a b = true -> a = b.
Proof. destruct a, b; cbn; try discriminate; reflexivity. Qed.

(* the table of the current source gives every type the documented signer *)
Lemma checker_of_documented t c :
  checker_of t event_checkers = Some c -> c = documented_checker t /\ t <> 0.
Proof.
  intros H. apply checker_of_in in H.
  pose proof checkers_as_documented as Hall. rewrite forallb_forall in Hall.
  specialize (Hall _ H). cbn [fst snd] in Hall. apply andb_true_iff in Hall. destruct Hall as [H1 H2].
  split; [apply checker_eqb_eq; exact H1|].
  apply negb_true_iff in H2. apply N.eqb_neq. exact H2.
Qed.

Definition signed_as_required (gpk : N) (e : envelope) : Prop :=
  match documented_checker (e_type e) with
  | ChkGroup => e_sig e = SigBy gpk (e_payload e)
  | ChkDevice => exists d, e_dev e = KeyOk d /\ e_sig e = SigBy d (e_payload e)
  | ChkMemberDevice =>
      exists m d, e_member e = KeyOk m /\ e_dev e = KeyOk d /\
                  e_membersig e = SigBy m d /\ e_sig e = SigBy d (e_payload e)
  | ChkOther _ => False
  end.

(* an envelope opens only if it was sealed under the group secret, is of a known type and carries
   a signature, over exactly its payload, of the signer required for its type *)
Lemma open_sound secret gpk e :
  open_env secret gpk e = true ->
  e_boxkey e = secret /\ e_wellformed e = true /\
  checker_of (e_type e) event_checkers = Some (documented_checker (e_type e)) /\
  signed_as_required gpk e.
Proof.
  unfold open_env. intros H.
  apply andb_true_iff in H. destruct H as [H H3]. apply andb_true_iff in H. destruct H as [H1 H2].
  apply N.eqb_eq in H1.
  destruct (checker_of (e_type e) event_checkers) as [c|] eqn:Ec; [|discriminate].
  destruct (checker_of_documented _ _ Ec) as [Hc _]. subst c.
  split; [exact H1|]. split; [exact H2|]. split; [reflexivity|].
  unfold signed_as_required. destruct (documented_checker (e_type e)) eqn:Edc; unfold run_checker in H3.
  - unfold check_device in H3. destruct (e_dev e) as [d|]; [|discriminate].
    exists d. split; [reflexivity|]. apply verify_spec. exact H3.
  - apply verify_spec. exact H3.
  - destruct (e_member e) as [m|]; [|discriminate]. destruct (e_dev e) as [d|] eqn:Ed; [|discriminate].
    apply andb_true_iff in H3. destruct H3 as [Hm Hd].
    unfold check_device in Hd. rewrite Ed in Hd.
    exists m, d. repeat split; try reflexivity; apply verify_spec; assumption.
  - discriminate.
Qed.

(* and conversely: honest events open *)
Lemma open_complete secret gpk e :
  e_boxkey e = secret -> e_wellformed e = true ->
  checker_of (e_type e) event_checkers <> None -> signed_as_required gpk e ->
  open_env secret gpk e = true.
Proof.
  intros H1 H2 H3 H4. unfold open_env. rewrite H1, N.eqb_refl, H2. cbn [andb].
  destruct (checker_of (e_type e) event_checkers) as [c|] eqn:Ec; [|congruence].
  destruct (checker_of_documented _ _ Ec) as [Hc _]. subst c.
  unfold signed_as_required in H4. destruct (documented_checker (e_type e)); unfold run_checker.
  - destruct H4 as [d [Hd Hs]]. unfold check_device. rewrite Hd. apply verify_spec. exact Hs.
  - apply verify_spec. exact H4.
  - destruct H4 as [m [d [Hm [Hd [Hms Hs]]]]]. rewrite Hm, Hd. unfold check_device. rewrite Hd.
    apply andb_true_iff. split; apply verify_spec; assumption.
  - contradiction.
Qed.

(* ---- the forgery catalogue ---- *)

Lemma wrong_secret_rejected secret gpk e : e_boxkey e <> secret -> open_env secret gpk e = false.
Proof.
  intros H. unfold open_env. destruct (N.eqb_spec (e_boxkey e) secret); [contradiction|]. reflexivity.
Qed.

Lemma malformed_rejected secret gpk e : e_wellformed e = false -> open_env secret gpk e = false.
Proof. intros H. unfold open_env. rewrite H, andb_false_r. reflexivity. Qed.

Lemma unknown_type_rejected secret gpk e :
  checker_of (e_type e) event_checkers = None -> open_env secret gpk e = false.
Proof. intros H. unfold open_env. rewrite H, andb_false_r. reflexivity. Qed.

Lemma type_zero_unknown : checker_of 0 event_checkers = None.
Proof.
  destruct (checker_of 0 event_checkers) as [c|] eqn:E; [|reflexivity].
  destruct (checker_of_documented _ _ E) as [_ H]. contradiction.
Qed.

Lemma not_open_of_not_signed secret gpk e : ~ signed_as_required gpk e -> open_env secret gpk e = false.
Proof.
  intros H. destruct (open_env secret gpk e) eqn:E; [|reflexivity].
  exfalso. apply H. apply (open_sound _ _ _ E).
Qed.

(* a signature that is missing, or made by any key other than the required one, or made over
   other bytes than the payload presented (altered payload, signer field swapped after signing) *)
Lemma missing_signature_rejected secret gpk e :
  e_sig e = SigNone \/ e_sig e = SigJunk -> open_env secret gpk e = false.
Proof.
  intros H. apply not_open_of_not_signed. unfold signed_as_required.
  destruct (documented_checker (e_type e)); intros Hs.
  - destruct Hs as [d [_ Hs]]. destruct H; congruence.
  - destruct H; congruence.
  - destruct Hs as [m [d [_ [_ [_ Hs]]]]]. destruct H; congruence.
  - exact Hs.
Qed.

Lemma altered_payload_rejected secret gpk e k p :
  e_sig e = SigBy k p -> p <> e_payload e -> open_env secret gpk e = false.
Proof.
  intros Hs Hp. apply not_open_of_not_signed. unfold signed_as_required.
  destruct (documented_checker (e_type e)); intros H.
  - destruct H as [d [_ H]]. congruence.
  - congruence.
  - destruct H as [m [d [_ [_ [_ H]]]]]. congruence.
  - exact H.
Qed.

Lemma device_event_other_key_rejected secret gpk e k p d :
  documented_checker (e_type e) = ChkDevice ->
  e_dev e = KeyOk d -> e_sig e = SigBy k p -> k <> d -> open_env secret gpk e = false.
Proof.
  intros Hc Hd Hs Hk. apply not_open_of_not_signed. unfold signed_as_required. rewrite Hc.
  intros [d' [Hd' Hs']]. congruence.
Qed.

Lemma group_event_other_key_rejected secret gpk e k p :
  documented_checker (e_type e) = ChkGroup ->
  e_sig e = SigBy k p -> k <> gpk -> open_env secret gpk e = false.
Proof.
  intros Hc Hs Hk. apply not_open_of_not_signed. unfold signed_as_required. rewrite Hc. congruence.
Qed.

Lemma member_device_event_needs_both secret gpk e :
  documented_checker (e_type e) = ChkMemberDevice ->
  (forall m d, e_member e = KeyOk m -> e_dev e = KeyOk d -> e_membersig e <> SigBy m d \/ e_sig e <> SigBy d (e_payload e)) ->
  open_env secret gpk e = false.
Proof.
  intros Hc H. apply not_open_of_not_signed. unfold signed_as_required. rewrite Hc.
  intros [m [d [Hm [Hd [H1 H2]]]]]. destruct (H m d Hm Hd); contradiction.
Qed.

Lemma bad_signer_field_rejected secret gpk e :
  documented_checker (e_type e) <> ChkGroup -> e_dev e = KeyBad -> open_env secret gpk e = false.
Proof.
  intros Hc Hd. apply not_open_of_not_signed. unfold signed_as_required.
  destruct (documented_checker (e_type e)); intros H; try congruence.
  - destruct H as [d [H _]]. congruence.
  - destruct H as [m [d [_ [H _]]]]. congruence.
Qed.

(* ---- a dropped event leaves the group state unchanged: the index consumes only what opens;
   an entry that does not open contributes nothing, wherever it sits in the log ---- *)

Lemma delta_noop own k : delta own (ENoop k) = ginit.
Proof. reflexivity. Qed.

Lemma summary_skip_noop own a k b : summary own (a ++ ENoop k :: b) = summary own (a ++ b).
Proof.
  rewrite !summary_app, summary_cons, delta_noop, gmerge_init_l. reflexivity.
Qed.

Lemma insert_split x l : exists a b, l = a ++ b /\ insert x l = a ++ x :: b.
Proof.
  induction l as [|y l IH]; cbn.
  - exists [], []. split; reflexivity.
  - destruct (eleb x y).
    + exists [], (y :: l). split; reflexivity.
    + destruct IH as [a [b [H1 H2]]]. exists (y :: a), b. cbn. rewrite <- H1, H2. split; reflexivity.
Qed.

Lemma dropped_event_no_effect own prev es c i k :
  update_index own prev (mkE c i (ENoop k) :: es) = update_index own prev es.
Proof.
  rewrite !update_index_gmerge. f_equal. unfold log_events. cbn [sort_entries fold_right].
  fold (sort_entries es).
  destruct (insert_split (mkE c i (ENoop k)) (sort_entries es)) as [a [b [H1 H2]]].
  rewrite H2, H1. rewrite !map_app. cbn [map e_ev]. rewrite !rev_app_distr. cbn [rev].
  rewrite <- app_assoc. cbn [app]. apply summary_skip_noop.
Qed.

(* non-vacuity: an honest device-signed event and an honest member-device announcement open *)
Example honest_examples :
  open_env 7 9 (mkEnv 7 true 106 50 (SigBy 3 50) (KeyOk 3) KeyBad SigNone) = true /\
  open_env 7 9 (mkEnv 7 true 1 51 (SigBy 3 51) (KeyOk 3) (KeyOk 4) (SigBy 4 3)) = true /\
  open_env 7 9 (mkEnv 7 true 302 52 (SigBy 9 52) KeyBad KeyBad SigNone) = true /\
  open_env 7 9 (mkEnv 7 true 302 52 (SigBy 3 52) (KeyOk 3) KeyBad SigNone) = false.
Proof. vm_compute. repeat split. Qed.
