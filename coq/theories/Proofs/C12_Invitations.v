(* C12 — proofs. *)
From Coq Require Import List NArith Bool Lia.
From Wesh Require Import Model.C03_Events Proofs.C03_Events Model.C12_Invitations.
Import ListNotations.
Open Scope N_scope.

(* an invitation is accepted only if it designates a multi-member group whose secret is signed
   by the group key, and the account is not in the group yet *)
Lemma join_accepted_spec a g a' :
  group_join a g = (a', true) ->
  gr_type g = GMulti /\ (exists k, gr_pk g = KeyOk k /\ gr_sig g = SigBy k (gr_secret g)) /\
  in_list (group_key g) (joined a) = false /\
  a' = mkAcct (group_key g :: joined a) (appended a ++ [group_key g]).
Proof.
  unfold group_join. destruct (is_multi (gr_type g) && is_valid g && negb (in_list (group_key g) (joined a))) eqn:E;
    [|intros H; inversion H].
  intros H. inversion H; subst. clear H.
  apply andb_true_iff in E. destruct E as [E E3]. apply andb_true_iff in E. destruct E as [E1 E2].
  repeat split.
  - destruct (gr_type g); try discriminate. reflexivity.
  - unfold is_valid in E2. destruct (gr_pk g) as [k|]; [|discriminate].
    exists k. split; [reflexivity|]. apply verify_spec. exact E2.
  - apply negb_true_iff. exact E3.
Qed.

(* a refused invitation appends nothing and changes nothing *)
Lemma join_refused_unchanged a g a' : group_join a g = (a', false) -> a' = a.
Proof.
  unfold group_join. destruct (_ && _ && _); intros H; inversion H. reflexivity.
Qed.

Lemma join_complete a g k :
  gr_type g = GMulti -> gr_pk g = KeyOk k -> gr_sig g = SigBy k (gr_secret g) ->
  in_list k (joined a) = false -> snd (group_join a g) = true.
Proof.
  intros Ht Hk Hs Hj. unfold group_join, is_valid, group_key. rewrite Ht, Hk, Hs. cbn [is_multi andb].
  rewrite (proj2 (verify_spec _ _ _) eq_refl), Hj. reflexivity.
Qed.

(* any change to the identifier, the secret, the signature or the type makes joining fail *)
Lemma changed_type_refused a g : gr_type g <> GMulti -> snd (group_join a g) = false.
Proof.
  intros H. unfold group_join. destruct (gr_type g); try contradiction; reflexivity.
Qed.

Lemma changed_secret_refused a g k s : gr_sig g = SigBy k s -> s <> gr_secret g -> snd (group_join a g) = false.
Proof.
  intros Hs Hne. unfold group_join, is_valid. rewrite Hs.
  destruct (gr_pk g) as [k'|]; cbn [verify]; rewrite ?andb_false_r; try reflexivity.
  destruct (N.eqb_spec s (gr_secret g)); [contradiction|]. rewrite !andb_false_r. reflexivity.
Qed.

Lemma changed_identifier_refused a g k s k' :
  gr_sig g = SigBy k s -> gr_pk g = KeyOk k' -> k' <> k -> snd (group_join a g) = false.
Proof.
  intros Hs Hk Hne. unfold group_join, is_valid. rewrite Hs, Hk. cbn [verify].
  destruct (N.eqb_spec k k'); [congruence|]. cbn. rewrite andb_false_r. reflexivity.
Qed.

Lemma damaged_signature_refused a g :
  gr_sig g = SigNone \/ gr_sig g = SigJunk -> snd (group_join a g) = false.
Proof.
  intros H. unfold group_join, is_valid.
  destruct (gr_pk g); [|rewrite andb_false_r; reflexivity].
  destruct H as [H|H]; rewrite H; cbn [verify]; rewrite andb_false_r; reflexivity.
Qed.

Lemma missing_identifier_refused a g : gr_pk g = KeyBad -> snd (group_join a g) = false.
Proof. intros H. unfold group_join, is_valid. rewrite H. rewrite andb_false_r. reflexivity. Qed.

(* in a group it joined by invitation an account never acts under its account identity *)
Lemma joined_group_identity a g a' proof :
  group_join a g = (a', true) -> exists k, member_identity proof g = IdDerived proof k /\ gr_pk g = KeyOk k.
Proof.
  intros H. destruct (join_accepted_spec _ _ _ H) as [Ht [[k [Hk _]] _]].
  exists k. unfold member_identity. rewrite Ht, Hk. split; reflexivity.
Qed.

(* whereas the pinned GroupJoin let a type-substituted invitation through, and the account then
   acted under its account key *)
Lemma untyped_join_refuted :
  let g := mkGroup (KeyOk 5) 7 (SigBy 5 7) GContact 0 0 in
  snd (group_join_untyped (mkAcct [] []) g) = true /\ member_identity 1 g = IdAccount /\
  snd (group_join (mkAcct [] []) g) = false.
Proof. vm_compute. repeat split. Qed.

(* ---- replication descriptor ---- *)

Lemma descriptor_has_no_secret g : d_secret (filter_group g) = TNone.
Proof. reflexivity. Qed.

(* what is derived from the secret is the public half of the signing key and the link key only;
   the secret term itself occurs in no field *)
Definition is_secret_term (t : term) : bool := match t with TSecret _ => true | _ => false end.

Lemma descriptor_fields_not_secret g :
  is_secret_term (d_secret (filter_group g)) = false /\
  is_secret_term (d_signpub (filter_group g)) = false /\
  is_secret_term (d_linkkey (filter_group g)) = false.
Proof.
  unfold filter_group, signing_pub, link_key. cbn.
  destruct (gr_signpub g =? 0), (gr_linkkey g =? 0); repeat split; reflexivity.
Qed.

(* it opens no metadata event (and no message header: same box key) of the group *)
Lemma descriptor_opens_nothing g gpk e :
  gr_secret g <> 0 -> e_boxkey e = gr_secret g ->
  open_env (desc_shared_secret (filter_group g)) gpk e = false.
Proof.
  intros Hs He. apply wrong_secret_rejected. cbn. congruence.
Qed.

(* and it still designates the same log addresses and link key as the full group *)
Lemma descriptor_same_addresses g store :
  log_address_desc (filter_group g) store = log_address_group g store.
Proof. reflexivity. Qed.

Lemma descriptor_same_linkkey g : d_linkkey (filter_group g) = link_key g.
Proof. reflexivity. Qed.

Example join_examples :
  snd (group_join (mkAcct [] []) (mkGroup (KeyOk 5) 7 (SigBy 5 7) GMulti 0 0)) = true /\
  snd (group_join (mkAcct [5] []) (mkGroup (KeyOk 5) 7 (SigBy 5 7) GMulti 0 0)) = false /\
  snd (group_join (mkAcct [] []) (mkGroup (KeyOk 6) 7 (SigBy 5 7) GMulti 0 0)) = false.
Proof. vm_compute. repeat split. Qed.

(* ---------- the group registry ---------- *)

Lemma reg_find_put_new r k g : reg_find k r = None -> reg_find k (put_group r k g) = Some g.
Proof.
  intros H. unfold put_group. rewrite H. induction r as [|[k' g'] r IH]; cbn in *.
  - rewrite N.eqb_refl. reflexivity.
  - destruct (k =? k'); [discriminate | apply IH; exact H].
Qed.

(* a refused invitation leaves the registry alone, so the genuine invitation joined afterwards is
   the group found under the identifier *)
Lemma refused_then_genuine a r k bad g a1 r1 a2 r2 :
  reg_find k r = None ->
  service_join a r k bad = (a1, r1, false) -> service_join a1 r1 k g = (a2, r2, true) ->
  reg_find k r2 = Some g.
Proof.
  unfold service_join. intros Hn H1 H2.
  destruct (group_join a bad) as [x ok] eqn:E1. inversion H1; subst.
  destruct (group_join a1 g) as [y ok2] eqn:E2. inversion H2; subst.
  apply reg_find_put_new. exact Hn.
Qed.

(* storing before checking: the refused group stays *)
Lemma store_first_keeps_the_refused_group a r k bad g a1 r1 a2 r2 ok1 ok2 :
  reg_find k r = None ->
  service_join_store_first a r k bad = (a1, r1, ok1) -> service_join_store_first a1 r1 k g = (a2, r2, ok2) ->
  reg_find k r2 = Some bad.
Proof.
  unfold service_join_store_first. intros Hn H1 H2.
  destruct (group_join a bad) as [x o1] eqn:E1. inversion H1; subst.
  destruct (group_join a1 g) as [y o2] eqn:E2. inversion H2; subst.
  pose proof (reg_find_put_new r k bad Hn) as F. unfold put_group at 1. rewrite F. exact F.
Qed.
