(* C13 — proofs about range selection over the ordered identifier list. *)
From Coq Require Import List NArith Bool Arith Lia.
From Wesh Require Import Model.MetaLog Proofs.MetaLog Model.C13_Listing.
Import ListNotations.
Open Scope nat_scope.

Lemma find_id_none x l : ~ In x l -> find_id x l = None.
Proof.
  induction l as [|y l IH]; intros H; cbn; [reflexivity|].
  destruct (N.eqb_spec y x) as [->|Hne]; [exfalso; apply H; left; reflexivity|].
  rewrite IH; [reflexivity|]. intros Hin. apply H. right. exact Hin.
Qed.

Lemma find_id_some x l i : find_id x l = Some i -> nth_error l i = Some x.
Proof.
  revert i. induction l as [|y l IH]; intros i; cbn; [discriminate|].
  destruct (N.eqb_spec y x) as [->|Hne].
  - intros H. inversion H. reflexivity.
  - destruct (find_id x l) as [j|]; cbn; [|discriminate].
    intros H. inversion H. cbn. apply IH. reflexivity.
Qed.

Lemma find_id_app x a b : ~ In x a -> find_id x (a ++ x :: b) = Some (length a).
Proof.
  induction a as [|y a IH]; intros H; cbn.
  - rewrite N.eqb_refl. reflexivity.
  - destruct (N.eqb_spec y x) as [->|Hne]; [exfalso; apply H; left; reflexivity|].
    rewrite IH; [reflexivity|]. intros Hin. apply H. right. exact Hin.
Qed.

Lemma skipn_length_app {A} (a b : list A) : skipn (length a) (a ++ b) = b.
Proof. induction a as [|x a IH]; cbn; [reflexivity | exact IH]. Qed.

Lemma firstn_length_app {A} (a b : list A) : firstn (length a) (a ++ b) = a.
Proof. induction a as [|x a IH]; cbn; [reflexivity | f_equal; exact IH]. Qed.

Lemma nodup_app_notin {A} (a b : list A) x : NoDup (a ++ x :: b) -> ~ In x a /\ ~ In x b.
Proof.
  intros H. apply NoDup_remove_2 in H. split; intros Hin; apply H; apply in_or_app; [left|right]; exact Hin.
Qed.

(* both identifiers known, since not after until: exactly the contiguous range, inclusive *)
Lemma range_exact a s m u b :
  NoDup (a ++ s :: m ++ u :: b) ->
  get_range (a ++ s :: m ++ u :: b) (Some s) (Some u) = Some (s :: m ++ [u]).
Proof.
  intros Hnd.
  destruct (nodup_app_notin a (m ++ u :: b) s Hnd) as [Hsa _].
  assert (Hu : ~ In u (a ++ s :: m)).
  { replace (a ++ s :: m ++ u :: b) with ((a ++ s :: m) ++ u :: b) in Hnd
      by (rewrite <- app_assoc; reflexivity).
    apply (nodup_app_notin _ _ _ Hnd). }
  unfold get_range.
  rewrite (find_id_app s a (m ++ u :: b) Hsa).
  replace (a ++ s :: m ++ u :: b) with ((a ++ s :: m) ++ u :: b) at 1 by (rewrite <- app_assoc; reflexivity).
  rewrite (find_id_app u (a ++ s :: m) b Hu). cbn [option_map].
  rewrite app_length. cbn [length].
  assert (E : Nat.ltb (S (length a + S (length m))) (S (length a)) = false) by (apply Nat.ltb_ge; lia).
  rewrite E. cbn [andb].
  rewrite skipn_length_app.
  replace (S (length a + S (length m)) - length a) with (length (s :: m ++ [u]))
    by (cbn [length]; rewrite app_length; cbn [length]; lia).
  replace (s :: m ++ u :: b) with ((s :: m ++ [u]) ++ b) by (cbn; rewrite <- app_assoc; reflexivity).
  rewrite firstn_length_app. reflexivity.
Qed.

Lemma range_single a s b :
  NoDup (a ++ s :: b) -> get_range (a ++ s :: b) (Some s) (Some s) = Some [s].
Proof.
  intros Hnd. destruct (nodup_app_notin a b s Hnd) as [Hsa _].
  unfold get_range. rewrite (find_id_app s a b Hsa). cbn [option_map].
  assert (E : Nat.ltb (S (length a)) (S (length a)) = false) by (apply Nat.ltb_ge; lia).
  rewrite E. cbn [andb]. rewrite skipn_length_app.
  replace (S (length a) - length a) with 1 by lia. reflexivity.
Qed.

Lemma range_since_only a s b :
  NoDup (a ++ s :: b) -> get_range (a ++ s :: b) (Some s) None = Some (s :: b).
Proof.
  intros Hnd. destruct (nodup_app_notin a b s Hnd) as [Hsa _].
  unfold get_range. rewrite (find_id_app s a b Hsa).
  rewrite app_length. cbn [length].
  assert (E : Nat.ltb (length a + S (length b)) (S (length a)) = false) by (apply Nat.ltb_ge; lia).
  rewrite E. cbn [andb]. rewrite skipn_length_app.
  replace (length a + S (length b) - length a) with (length (s :: b)) by (cbn [length]; lia).
  rewrite firstn_all. reflexivity.
Qed.

Lemma range_until_only a u b :
  NoDup (a ++ u :: b) -> get_range (a ++ u :: b) None (Some u) = Some (a ++ [u]).
Proof.
  intros Hnd. destruct (nodup_app_notin a b u Hnd) as [Hua _].
  unfold get_range. rewrite (find_id_app u a b Hua). cbn [option_map Nat.ltb Nat.leb andb skipn].
  replace (S (length a) - 0) with (length (a ++ [u])) by (rewrite app_length; cbn [length]; lia).
  replace (a ++ u :: b) with ((a ++ [u]) ++ b) by (rewrite <- app_assoc; reflexivity).
  rewrite firstn_length_app. reflexivity.
Qed.

Lemma range_all l : get_range l None None = Some l.
Proof.
  unfold get_range. destruct l as [|x l]; [reflexivity|].
  cbn [length Nat.ltb Nat.leb andb skipn]. rewrite Nat.sub_0_r. 
  change (S (length l)) with (length (x :: l)). rewrite firstn_all. reflexivity.
Qed.

Lemma unknown_since l s u : ~ In s l -> get_range l (Some s) u = None.
Proof. intros H. unfold get_range. rewrite (find_id_none s l H). reflexivity. Qed.

Lemma unknown_until l s u : ~ In u l -> get_range l s (Some u) = None.
Proof.
  intros H. unfold get_range. rewrite (find_id_none u l H). cbn.
  destruct s as [s|]; [destruct (find_id s l)|]; reflexivity.
Qed.

Lemma since_after_until a u m s b :
  NoDup (a ++ u :: m ++ s :: b) -> get_range (a ++ u :: m ++ s :: b) (Some s) (Some u) = None.
Proof.
  intros Hnd.
  destruct (nodup_app_notin a (m ++ s :: b) u Hnd) as [Hua _].
  assert (Hs : ~ In s (a ++ u :: m)).
  { replace (a ++ u :: m ++ s :: b) with ((a ++ u :: m) ++ s :: b) in Hnd
      by (rewrite <- app_assoc; reflexivity).
    apply (nodup_app_notin _ _ _ Hnd). }
  unfold get_range.
  rewrite (find_id_app u a (m ++ s :: b) Hua).
  replace (a ++ u :: m ++ s :: b) with ((a ++ u :: m) ++ s :: b) at 1 by (rewrite <- app_assoc; reflexivity).
  rewrite (find_id_app s (a ++ u :: m) b Hs). cbn [option_map].
  rewrite !app_length. cbn [length]. rewrite app_length. cbn [length].
  assert (E : Nat.ltb (S (length a)) (S (length a + S (length m))) = true) by (apply Nat.ltb_lt; lia).
  rewrite E.
  assert (E2 : Nat.eqb (length a + S (length m + S (length b))) 0 = false) by (apply Nat.eqb_neq; lia).
  rewrite E2. reflexivity.
Qed.

Lemma reverse_exact l s u : list_ids l s u true = option_map (@rev N) (list_ids l s u false).
Proof. unfold list_ids. destruct (get_range l s u); reflexivity. Qed.

(* a successful listing is a contiguous block of the log-ordered list *)
Lemma range_is_block l s u r : get_range l s u = Some r -> exists a b, l = a ++ r ++ b.
Proof.
  unfold get_range.
  destruct (match s with None => Some 0 | Some s0 => find_id s0 l end) as [i|]; [|discriminate].
  destruct (match u with None => Some (length l) | Some u0 => option_map S (find_id u0 l) end) as [j|]; [|discriminate].
  destruct (_ && _); [discriminate|]. intros H. inversion H; subst.
  exists (firstn i l), (skipn (j - i) (skipn i l)).
  rewrite firstn_skipn. rewrite firstn_skipn. reflexivity.
Qed.

(* replicas holding the same entries list the same events *)
Lemma listing_set_function es es' s u r :
  ids_distinct es -> ids_distinct es' -> (forall e, In e es <-> In e es') ->
  list_events es s u r = list_events es' s u r.
Proof. intros H1 H2 H3. unfold list_events. rewrite (sort_set_function es es' H1 H2 H3). reflexivity. Qed.

(* the rule of the RPCs: reverse order needs a bounded listing; now/identifier are exclusive *)
Lemma check_params_spec a b c d e :
  check_params a b c d e = true <->
  ~ (a = true /\ b = true) /\ ~ (c = true /\ d = true) /\ ~ (b = true /\ d = true) /\
  ~ (c = false /\ d = false /\ e = true).
Proof. destruct a, b, c, d, e; cbn; intuition discriminate. Qed.

Example range_example :
  get_range [4; 9; 2; 7; 5]%N (Some 9%N) (Some 7%N) = Some [9; 2; 7]%N /\
  get_range [4; 9; 2; 7; 5]%N (Some 7%N) (Some 9%N) = None /\
  get_range [] None None = Some [] /\
  list_ids [4; 9; 2; 7; 5]%N (Some 9%N) None true = Some [5; 7; 2; 9]%N.
Proof. vm_compute. repeat split. Qed.

(* ---------- log order is causal order ---------- *)
(* an entry with a smaller Lamport clock comes first in the log order; a child's clock exceeds that of
   every ancestor, so ancestors are listed before their descendants *)
Lemma sorted_clock_order l :
  Sorted.StronglySorted ele l ->
  forall i j a b, nth_error l i = Some a -> nth_error l j = Some b -> (e_clock a < e_clock b)%N -> i < j.
Proof.
  intros H. induction H as [|x l Hs IH Hall]; intros i j a b Ha Hb Hlt.
  - destruct i; discriminate.
  - destruct i as [|i], j as [|j]; cbn in Ha, Hb.
    + inversion Ha; inversion Hb; subst. lia.
    + lia.
    + (* b is the head, a in the tail: head <= a contradicts clock a < clock b *)
      inversion Hb; subst b. exfalso.
      rewrite Forall_forall in Hall. pose proof (Hall a (nth_error_In _ _ Ha)) as Hle.
      unfold ele, eleb in Hle. apply orb_true_iff in Hle. destruct Hle as [Hle|Hle].
      * apply N.ltb_lt in Hle. lia.
      * apply andb_true_iff in Hle. destruct Hle as [Hle _]. apply N.eqb_eq in Hle. lia.
    + apply -> Nat.succ_lt_mono. eapply IH; eassumption.
Qed.

Lemma listing_respects_causality es i j a b :
  nth_error (sort_entries es) i = Some a -> nth_error (sort_entries es) j = Some b ->
  (e_clock a < e_clock b)%N -> i < j.
Proof. apply sorted_clock_order. apply sort_sorted. Qed.

(* ---------- entries that do not open ---------- *)

(* skipping the entries that do not open changes nothing else: with nothing to skip it is the plain
   listing; what is handed out is a sub-list, in the same order, of the plain listing, holds every
   entry of it that opens and none that does not *)
Lemma list_open_nothing_to_skip es s u r : list_open_events es s u r [] = list_events es s u r.
Proof.
  unfold list_open_events. destruct (list_events es s u r) as [l|]; [|reflexivity]. cbn. f_equal.
  induction l as [|x l IH]; [reflexivity|]. cbn. rewrite IH. reflexivity.
Qed.

Lemma list_open_exact es s u r skip l l' :
  list_events es s u r = Some l -> list_open_events es s u r skip = Some l' ->
  forall i, In i l' <-> (In i l /\ ~ In i skip).
Proof.
  unfold list_open_events. intros -> H. cbn in H. injection H as <-. intros i.
  rewrite filter_In. split; intros [H1 H2]; (split; [exact H1|]).
  - intros Hin. rewrite negb_true_iff in H2.
    assert (existsb (N.eqb i) skip = true) by (apply existsb_exists; exists i; split; [exact Hin | apply N.eqb_refl]).
    congruence.
  - apply negb_true_iff. destruct (existsb (N.eqb i) skip) eqn:E; [|reflexivity].
    apply existsb_exists in E. destruct E as [x [Hx Hex]]. apply N.eqb_eq in Hex. subst. contradiction.
Qed.

Lemma list_open_fails_like_plain es s u r skip :
  list_open_events es s u r skip = None <-> list_events es s u r = None.
Proof. unfold list_open_events. destruct (list_events es s u r); cbn; split; congruence. Qed.
