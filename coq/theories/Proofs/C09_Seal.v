(* C09 — every schedule of any number of concurrent senders emits exactly the counters
   c0+1, c0+2, ... in return order; the stored counter never decreases. *)
From Coq Require Import List NArith ZArith Bool Lia ZifyN ZifyNat ZifyBool.
From Wesh Require Import Model.C09_Seal.
Import ListNotations.
Open Scope N_scope.

Definition Inv (c0 : N) (s : state) : Prop :=
  emitted s = seqN (c0 + 1) (length (emitted s)) /\
  match holder s with
  | None => ctr s = c0 + N.of_nat (length (emitted s))
  | Some h =>
    let base := c0 + N.of_nat (length (emitted s)) in
    ((h_stage h <= 4)%nat -> ctr s = base) /\
    ((1 <= h_stage h)%nat -> h_l1 h = base) /\
    ((2 <= h_stage h)%nat -> h_l2 h = base) /\
    ((4 <= h_stage h)%nat -> h_cur h = base) /\
    ((5 <= h_stage h)%nat -> ctr s = base + 1)
  end.

Lemma seqN_app from n : seqN from (S n) = seqN from n ++ [from + N.of_nat n].
Proof.
  revert from; induction n as [|n IH]; intros from.
  - cbn. f_equal. lia.
  - change (seqN from (S (S n))) with (from :: seqN (from + 1) (S n)). rewrite IH. cbn [seqN app].
    f_equal. f_equal. f_equal. lia.
Qed.

Lemma Inv_init c0 lefts : Inv c0 (init c0 lefts).
Proof. unfold Inv, init. cbn. split; [reflexivity|lia]. Qed.

Lemma step_inv c0 s i s' : Inv c0 s -> In s' (sstep s i) -> Inv c0 s'.
Proof.
  intros (I1 & I2) Hin. unfold sstep in Hin.
  destruct (nth_error (senders s) i) as [x|]; [|destruct Hin].
  destruct (negb (s_started x)).
  { destruct Hin as [<-|[]]. unfold Inv. cbn [emitted holder ctr]. split; [exact I1|exact I2]. }
  destruct (holder s) as [h|] eqn:Eh.
  - destruct (negb (Nat.eqb (h_tid h) i)); [destruct Hin|].
    destruct I2 as (A & B & C & D & E).
    destruct (h_stage h) as [|[|[|[|[|k]]]]] eqn:Es; destruct Hin as [<-|[]]; unfold Inv; cbn [emitted holder ctr h_stage h_l1 h_l2 h_cur].
    + split; [exact I1|]. repeat split; intros; first [lia|apply A; lia|apply B; lia|apply C; lia|apply D; lia].
    + split; [exact I1|]. repeat split; intros; first [lia|apply A; lia|apply B; lia|apply C; lia|apply D; lia].
    + split; [exact I1|]. repeat split; intros; first [lia|apply A; lia|apply B; lia|apply C; lia|apply D; lia].
    + split; [exact I1|]. repeat split; intros; first [lia|apply A; lia|apply B; lia|apply C; lia|apply D; lia].
    + split; [exact I1|]. specialize (A ltac:(lia)). specialize (B ltac:(lia)). specialize (C ltac:(lia)). specialize (D ltac:(lia)).
      repeat split; intros; try lia.
      rewrite C, D. replace (c0 + N.of_nat (length (emitted s)) + 1 <? c0 + N.of_nat (length (emitted s))) with false by lia.
      reflexivity.
    + specialize (B ltac:(lia)). specialize (E ltac:(lia)).
      rewrite app_length. cbn [length]. rewrite Nat.add_1_r. split.
      * rewrite seqN_app. rewrite <- I1. rewrite B. f_equal. f_equal. lia.
      * lia.
  - destruct (s_left x); [destruct Hin|]. destruct Hin as [<-|[]]. unfold Inv. cbn [emitted holder ctr h_stage].
    split; [exact I1|]. repeat split; intros; first [lia|exact I2].
Qed.

Inductive reachable (s0 : state) : state -> Prop :=
| reach_init : reachable s0 s0
| reach_step s i s' : reachable s0 s -> In s' (sstep s i) -> reachable s0 s'.

Theorem reachable_inv c0 lefts s : reachable (init c0 lefts) s -> Inv c0 s.
Proof. intros H. induction H; [apply Inv_init|eapply step_inv; eassumption]. Qed.

(* seal_counters_exact: the envelopes returned so far carry exactly c0+1 .. c0+n, in return
   order (pairwise distinct, gap-free, increasing) *)
Theorem seal_counters_exact c0 lefts s :
  reachable (init c0 lefts) s -> emitted s = seqN (c0 + 1) (length (emitted s)).
Proof. intros H. apply (reachable_inv c0 lefts s H). Qed.

Lemma seqN_NoDup from n : NoDup (seqN from n).
Proof.
  revert from; induction n as [|n IH]; intros from; cbn; constructor; [|apply IH].
  assert (G : forall k f x, In x (seqN f k) -> f <= x).
  { induction k as [|k IHk]; intros f x Hx; [destruct Hx|]. destruct Hx as [<-|Hx]; [lia|]. apply IHk in Hx. lia. }
  intros Hin. apply G in Hin. lia.
Qed.

Corollary counters_distinct c0 lefts s : reachable (init c0 lefts) s -> NoDup (emitted s).
Proof. intros H. rewrite (seal_counters_exact c0 lefts s H). apply seqN_NoDup. Qed.

(* stored_counter_monotone over every step *)
Theorem stored_counter_monotone c0 lefts s i s' :
  reachable (init c0 lefts) s -> In s' (sstep s i) -> ctr s <= ctr s'.
Proof.
  intros Hr Hin. pose proof (reachable_inv c0 lefts s Hr) as (I1 & I2). unfold sstep in Hin.
  destruct (nth_error (senders s) i) as [x|]; [|destruct Hin].
  destruct (negb (s_started x)); [destruct Hin as [<-|[]]; cbn; lia|].
  destruct (holder s) as [h|].
  - destruct (negb (Nat.eqb (h_tid h) i)); [destruct Hin|].
    destruct I2 as (A & B & C & D & E).
    destruct (h_stage h) as [|[|[|[|[|k]]]]] eqn:Es; destruct Hin as [<-|[]]; cbn [ctr]; try lia.
    specialize (A ltac:(lia)). specialize (C ltac:(lia)). specialize (D ltac:(lia)).
    destruct (h_l2 h + 1 <? h_cur h); lia.
  - destruct (s_left x); [destruct Hin|]. destruct Hin as [<-|[]]. cbn. lia.
Qed.

(* ---------- every envelope produced opens at a receiver (C09 with C02) ---------- *)
Lemma seqN_in from n i : (i < n)%nat -> In (from + N.of_nat i) (seqN from n).
Proof.
  revert from i. induction n as [|n IH]; intros from i H; [lia|].
  cbn [seqN]. destruct i as [|i]; [left; lia|]. right.
  replace (from + N.of_nat (S i)) with (from + 1 + N.of_nat i) by lia. apply IH. lia.
Qed.
