(* C02 — consequences read off the abstract ratchet: openability formula, re-registration,
   messages before the registration point, retry completeness. *)
From Coq Require Import List NArith ZArith Bool Lia ZifyN ZifyNat ZifyBool FinFun.
From Wesh Require Import Model.Store Model.C02_Ratchet Proofs.C02_Ratchet.
Import ListNotations.
Open Scope N_scope.

Definition sfinal (W : nat) (st : sstate) (ops : list rop) : sstate :=
  fold_left (fun st o => fst (sstep W st o)) ops st.

(* openable_iff: the exact condition under which an open succeeds in a given state *)
Lemma open_result W st d k cid c opened :
  st d = Some (c, opened) ->
  snd (sstep W st (ROpen d k cid)) =
    if memN k opened || ((c <? k) && (k <=? c + N.of_nat W + N.of_nat (length opened)))
    then OOk cid else OFail.
Proof.
  intros H. cbn [sstep]. rewrite H. destruct (memN k opened); [reflexivity|].
  cbn [orb]. destruct ((c <? k) && _); reflexivity.
Qed.

Lemma open_unregistered W st d k cid : st d = None -> sstep W st (ROpen d k cid) = (st, OFail).
Proof. intros H. cbn [sstep]. rewrite H. reflexivity. Qed.

(* reregister_noop: a second announcement (same, older or newer) changes nothing *)
Lemma reregister_noop W st d c' v : st d = Some v -> sstep W st (RReg d c') = (st, ODone).
Proof. intros H. cbn [sstep]. rewrite H. reflexivity. Qed.

(* per-device evolution of one step *)
Lemma sstep_dev W st o d c opened :
  st d = Some (c, opened) -> NoDup opened -> (forall k, In k opened -> c < k) ->
  exists opened',
    fst (sstep W st o) d = Some (c, opened') /\ NoDup opened' /\ incl opened opened' /\
    (forall k, In k opened' -> c < k) /\
    (forall k cid, o = ROpen d k cid ->
       (c <? k) && (k <=? c + N.of_nat W + N.of_nat (length opened)) = true -> In k opened').
Proof.
  intros H ND Hlt. destruct o as [d0 c0|d0 k0 cid0|d0|d0]; cbn [sstep].
  - destruct (st d0) eqn:E0; cbn [fst].
    + exists opened. repeat split; auto using incl_refl. discriminate.
    + unfold supd. destruct (N.eqb_spec d d0) as [->|Hne]; [congruence|].
      exists opened. repeat split; auto using incl_refl. discriminate.
  - destruct (st d0) as [[c1 op1]|] eqn:E0.
    + destruct (memN k0 op1) eqn:Hm; cbn [fst].
      * exists opened. repeat split; auto using incl_refl.
        intros k cid E _. injection E as -> -> _. rewrite H in E0. injection E0 as <- <-.
        apply memN_true_iff. exact Hm.
      * destruct ((c1 <? k0) && _) eqn:Hr; cbn [fst].
        -- unfold supd. destruct (N.eqb_spec d d0) as [->|Hne].
           ++ rewrite H in E0. injection E0 as <- <-.
              exists (k0 :: opened). repeat split.
              ** constructor; [|exact ND]. intros Hin. apply memN_true_iff in Hin. congruence.
              ** apply incl_tl, incl_refl.
              ** intros k [<-|Hin]; [lia|auto].
              ** intros k cid E _. injection E as -> _. left. reflexivity.
           ++ exists opened. repeat split; auto using incl_refl. intros k cid E. congruence.
        -- exists opened. repeat split; auto using incl_refl.
           intros k cid E Hr'. injection E as -> -> _. rewrite H in E0. injection E0 as <- <-. congruence.
    + cbn [fst]. exists opened. repeat split; auto using incl_refl. intros k cid E. congruence.
  - cbn [fst]. exists opened. repeat split; auto using incl_refl. discriminate.
  - cbn [fst]. exists opened. repeat split; auto using incl_refl. discriminate.
Qed.

Lemma sfinal_dev W : forall ops st d c opened,
  st d = Some (c, opened) -> NoDup opened -> (forall k, In k opened -> c < k) ->
  exists opened',
    sfinal W st ops d = Some (c, opened') /\ NoDup opened' /\ incl opened opened' /\
    (forall k, In k opened' -> c < k).
Proof.
  induction ops as [|o ops IH]; intros st d c opened H ND Hlt; cbn [sfinal fold_left].
  - exists opened. auto using incl_refl.
  - destruct (sstep_dev W st o d c opened H ND Hlt) as (op1 & H1 & ND1 & I1 & L1 & _).
    destruct (IH _ d c op1 H1 ND1 L1) as (op2 & H2 & ND2 & I2 & L2).
    exists op2. repeat split; auto. eapply incl_tran; eassumption.
Qed.

(* never_before_c: in every reachable state a message sealed before the registration
   point is refused *)
Lemma never_before_c W st d c opened k cid :
  st d = Some (c, opened) -> (forall k, In k opened -> c < k) -> k <= c ->
  snd (sstep W st (ROpen d k cid)) = OFail.
Proof.
  intros H Hlt Hk. rewrite (open_result W st d k cid c opened H).
  destruct (memN k opened) eqn:Hm; [apply memN_true_iff, Hlt in Hm; lia|].
  cbn [orb]. replace (c <? k) with false by lia. reflexivity.
Qed.

(* the counters c+1 .. c+j *)
Definition upto (c : N) (j : nat) : list N := map (fun i => c + N.of_nat i) (seq 1 j).

Lemma upto_NoDup c j : NoDup (upto c j).
Proof.
  unfold upto. apply FinFun.Injective_map_NoDup; [|apply seq_NoDup].
  intros a b E. lia.
Qed.
Lemma upto_length c j : length (upto c j) = j.
Proof. unfold upto. rewrite map_length, seq_length. reflexivity. Qed.
Lemma upto_S c j : incl (upto c (S j)) (c + N.of_nat (S j) :: upto c j).
Proof.
  unfold upto. intros x Hx. apply in_map_iff in Hx. destruct Hx as (i & <- & Hi).
  apply in_seq in Hi. destruct (Nat.eq_dec i (S j)) as [->|Hne]; [left; reflexivity|].
  right. apply in_map_iff. exists i. split; [reflexivity|]. apply in_seq. lia.
Qed.

(* one pass over a delivery list that contains message c+j+1 opens it, provided c+1..c+j
   are already open *)
Lemma pass_opens W (HW : (1 <= W)%nat) : forall L st d c opened j cid,
  st d = Some (c, opened) -> NoDup opened -> (forall k, In k opened -> c < k) ->
  incl (upto c j) opened ->
  In (ROpen d (c + N.of_nat (S j)) cid) L ->
  exists opened',
    sfinal W st L d = Some (c, opened') /\ NoDup opened' /\ incl opened opened' /\
    (forall k, In k opened' -> c < k) /\ In (c + N.of_nat (S j)) opened'.
Proof.
  induction L as [|o L IH]; intros st d c opened j cid H ND Hlt Hinc Hin; [contradiction|].
  cbn [sfinal fold_left].
  destruct (sstep_dev W st o d c opened H ND Hlt) as (op1 & H1 & ND1 & I1 & L1 & O1).
  destruct Hin as [->|Hin].
  - assert (Hk : In (c + N.of_nat (S j)) op1).
    { apply (O1 _ cid eq_refl).
      assert (Hlen : (j <= length opened)%nat).
      { rewrite <- (upto_length c j). apply NoDup_incl_length; [apply upto_NoDup|exact Hinc]. }
      lia. }
    destruct (sfinal_dev W L _ d c op1 H1 ND1 L1) as (op2 & H2 & ND2 & I2 & L2).
    exists op2. repeat split; auto. eapply incl_tran; eassumption.
  - destruct (IH _ d c op1 j cid H1 ND1 L1 (incl_tran Hinc I1) Hin) as (op2 & H2 & ND2 & I2 & L2 & K2).
    exists op2. repeat split; auto. eapply incl_tran; eassumption.
Qed.

Fixpoint passes (W : nat) (m : nat) (st : sstate) (L : list rop) : sstate :=
  match m with O => st | S m' => passes W m' (sfinal W st L) L end.

(* retry_completeness: if the delivery list contains each of the messages c+1 .. c+m (in any
   order, with any repetitions, interleaved with anything else), then re-trying the whole
   list m times opens all of them — whatever the window W >= 1. *)
Theorem retry_completeness W (HW : (1 <= W)%nat) : forall m L st d c opened (cidf : N -> N -> N),
  st d = Some (c, opened) -> NoDup opened -> (forall k, In k opened -> c < k) ->
  (forall i, (1 <= i <= m)%nat -> In (ROpen d (c + N.of_nat i) (cidf d (c + N.of_nat i))) L) ->
  exists opened', passes W m st L d = Some (c, opened') /\ incl (upto c m) opened'.
Proof.
  intros m L st d c opened cidf H ND Hlt HL.
  (* generalise: after j passes, c+1..c+j are open *)
  assert (G : forall j, (j <= m)%nat -> forall st opened,
             st d = Some (c, opened) -> NoDup opened -> (forall k, In k opened -> c < k) ->
             forall r, (j + r = m)%nat -> incl (upto c r) opened ->
             exists opened', passes W j st L d = Some (c, opened') /\ incl (upto c m) opened').
  { induction j as [|j IHj]; intros Hj st0 op0 H0 ND0 L0 r Hr Hinc; cbn [passes].
    - exists op0. split; [exact H0|]. replace m with r by lia. exact Hinc.
    - destruct (pass_opens W HW L st0 d c op0 r (cidf d (c + N.of_nat (S r))) H0 ND0 L0 Hinc)
        as (op1 & H1 & ND1 & I1 & L1 & K1).
      { apply HL. lia. }
      apply (IHj ltac:(lia) _ op1 H1 ND1 L1 (S r) ltac:(lia)).
      intros x Hx. apply upto_S in Hx. destruct Hx as [<-|Hx]; [exact K1|apply I1, Hinc, Hx]. }
  apply (G m (le_n m) st opened H ND Hlt 0%nat ltac:(lia)).
  intros x Hx. cbn in Hx. contradiction.
Qed.
