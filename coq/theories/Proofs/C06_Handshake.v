(* C06 — proofs about the symbolic handshake. *)
From Coq Require Import List NArith ZArith Bool Lia ZifyN ZifyNat ZifyBool.
From Wesh Require Import Model.C06_Handshake.
Import ListNotations.
Open Scope N_scope.

Lemma sec_eqb_eq a b : sec_eqb a b = true <-> a = b.
Proof.
  destruct a, b; cbn; try (split; intros; (discriminate || congruence || reflexivity));
    rewrite andb_true_iff, !N.eqb_eq; (split; [intros [-> ->]; reflexivity|intros H; injection H; auto]).
Qed.
Lemma sec_eqb_refl a : sec_eqb a a = true. Proof. apply sec_eqb_eq. reflexivity. Qed.

Lemma dh_sym x y : dh x (Pt y) = dh y (Pt x).
Proof. cbn. destruct (x <=? y) eqn:E1, (y <=? x) eqn:E2; try reflexivity; f_equal; lia. Qed.

(* honest_completes: both sides finish and the responder learns exactly the requester's key,
   provided the requester targets the responder's real account *)
Theorem honest_completes A a B b : honest_run true A a B B b = (true, Some A).
Proof.
  unfold honest_run, requester, responder. cbn [is_low andb fst snd].
  rewrite (dh_sym b a), (dh_sym B a), (dh_sym B A).
  rewrite !sec_eqb_refl, !N.eqb_refl. cbn [andb negb fst snd]. rewrite !sec_eqb_refl, !N.eqb_refl. reflexivity.
Qed.

(* a value "mentions" a scalar *)
Definition mentions (s : N) (x : sec) : Prop :=
  match x with DH p q => p = s \/ q = s | DHJ p _ => p = s | Zero => False end.

Lemma dh_mentions b X : X <> LowOrder -> mentions b (dh b X).
Proof. destruct X as [t| |n]; cbn; [destruct (b <=? t); cbn; auto|congruence|auto]. Qed.

(* responder_auth: if the responder reports an account key A, the ephemeral key it received was
   validated, and the frame it opened was boxed under this session's keys and carried A's
   signature over this session's ephemeral secret — a value that mentions the responder's fresh b *)
Theorem responder_auth B b X F ack A sent :
  responder true B b X F ack = (Some A, sent) ->
  X <> LowOrder /\ ack = Some true /\
  F = AuthF (dh b X) (dh B X) nonce_auth A Ed25519 A (dh b X) /\ mentions b (dh b X).
Proof.
  unfold responder. cbn [andb]. destruct (is_low X) eqn:EL; [discriminate|].
  assert (HX : X <> LowOrder) by (intros ->; discriminate).
  destruct F as [k1 k2 n A' kt signer msg|]; [|discriminate].
  destruct (sec_eqb k1 (dh b X) && sec_eqb k2 (dh B X) && (n =? nonce_auth)) eqn:E1; cbn [negb]; [|discriminate].
  destruct ((signer =? A') && sec_eqb msg (dh b X)) eqn:E2; cbn [negb]; [|discriminate].
  destruct kt; [|discriminate]. destruct ack as [[|]|]; try discriminate.
  intros H. injection H as <- _.
  apply andb_true_iff in E1. destruct E1 as [E1 En]. apply andb_true_iff in E1. destruct E1 as [Ek1 Ek2].
  apply andb_true_iff in E2. destruct E2 as [Es Em].
  apply sec_eqb_eq in Ek1, Ek2, Em. apply N.eqb_eq in En, Es. subst.
  split; [exact HX|]. split; [reflexivity|]. split; [reflexivity|apply dh_mentions; exact HX].
Qed.

(* session binding: an honest account A only signs the ephemeral secrets of its own sessions,
   dh a' P with a' one of its own fresh scalars and P the (validated) point it received.  If such
   a value is the one the responder checked, A's session is this very session: A's peer
   ephemeral was the responder's b and the responder's peer ephemeral was A's a' *)
Theorem session_binding a' P b X :
  P <> LowOrder -> X <> LowOrder -> a' <> b -> dh a' P = dh b X -> P = Pt b /\ X = Pt a'.
Proof.
  intros HP HX Hne H. destruct P as [p| |n], X as [x| |m]; try congruence; cbn in H.
  - destruct (a' <=? p) eqn:E1, (b <=? x) eqn:E2; injection H; intros; split; f_equal; lia.
  - destruct (a' <=? p); discriminate.
  - destruct (b <=? x); discriminate.
  - injection H. intros. congruence.
Qed.

(* requester_auth: the requester succeeds only on an accept frame boxed under a key that mixes
   this session's ephemeral secret with the agreement of its own account key and the TARGET
   account key, carrying the target's signature over this session's ephemeral secret *)
Theorem requester_auth A a B Y G sent :
  requester true A a B Y G = (true, sent) ->
  Y <> LowOrder /\ G = AccF (dh a Y) (dh A (Pt B)) nonce_accept B (dh a Y) /\ mentions a (dh a Y).
Proof.
  unfold requester. cbn [andb]. destruct (is_low Y) eqn:EL; [discriminate|].
  assert (HY : Y <> LowOrder) by (intros ->; discriminate).
  destruct G as [k1 k2 n signer msg|]; [|discriminate].
  destruct (sec_eqb k1 (dh a Y) && sec_eqb k2 (dh A (Pt B)) && (n =? nonce_accept)) eqn:E1; cbn [negb]; [|discriminate].
  destruct ((signer =? B) && sec_eqb msg (dh a Y)) eqn:E2; cbn [negb]; [|discriminate].
  intros _.
  apply andb_true_iff in E1. destruct E1 as [E1 En]. apply andb_true_iff in E1. destruct E1 as [Ek1 Ek2].
  apply andb_true_iff in E2. destruct E2 as [Es Em].
  apply sec_eqb_eq in Ek1, Ek2, Em. apply N.eqb_eq in En, Es. subst.
  split; [exact HY|]. split; [reflexivity|apply dh_mentions; exact HY].
Qed.

(* replay / reflection: a frame of another session — boxed under an ephemeral secret that does
   not mention this session's fresh scalar — is rejected, whatever else it contains *)
Theorem replay_rejected_responder B b X k1 k2 n A kt signer msg ack :
  ~ mentions b k1 -> fst (responder true B b X (AuthF k1 k2 n A kt signer msg) ack) = None.
Proof.
  intros Hm. unfold responder. cbn [andb]. destruct (is_low X) eqn:EL; [reflexivity|].
  assert (HX : X <> LowOrder) by (intros ->; discriminate).
  destruct (sec_eqb k1 (dh b X)) eqn:E; [|reflexivity].
  apply sec_eqb_eq in E. subst k1. exfalso. apply Hm. apply dh_mentions. exact HX.
Qed.

Theorem replay_rejected_requester A a B Y k1 k2 n signer msg :
  ~ mentions a k1 -> fst (requester true A a B Y (AccF k1 k2 n signer msg)) = false.
Proof.
  intros Hm. unfold requester. cbn [andb]. destruct (is_low Y) eqn:EL; [reflexivity|].
  assert (HY : Y <> LowOrder) by (intros ->; discriminate).
  destruct (sec_eqb k1 (dh a Y)) eqn:E; [|reflexivity].
  apply sec_eqb_eq in E. subst k1. exfalso. apply Hm. apply dh_mentions. exact HY.
Qed.

(* the two box nonces differ: an authenticate frame is never accepted as an accept frame *)
Lemma nonces_differ : nonce_auth <> nonce_accept. Proof. discriminate. Qed.

Theorem low_order_rejected B b F ack : responder true B b LowOrder F ack = (None, None).
Proof. reflexivity. Qed.
Theorem low_order_rejected_requester A a B G : requester true A a B LowOrder G = (false, None).
Proof. reflexivity. Qed.

Theorem foreign_key_type_rejected B b X k1 k2 n A signer msg ack :
  fst (responder true B b X (AuthF k1 k2 n A OtherKeyType signer msg) ack) = None.
Proof.
  unfold responder. cbn [andb]. destruct (is_low X); [reflexivity|].
  destruct (negb _); [reflexivity|]. destruct (negb _); reflexivity.
Qed.

Theorem negative_ack_rejected B b X F ack : ack <> Some true -> fst (responder true B b X F ack) = None.
Proof.
  intros H. unfold responder. cbn [andb]. destruct (is_low X); [reflexivity|].
  destruct F as [k1 k2 n A kt signer msg|]; [|reflexivity].
  destruct (negb _); [reflexivity|]. destruct (negb _); [reflexivity|]. destruct kt; [|reflexivity].
  destruct ack as [[|]|]; try reflexivity. congruence.
Qed.

(* the pinned tree did not validate the ephemeral key: with a low-order hello the signed value
   is the session-independent Zero, and a proof A once gave to the attacker impersonates A *)
Theorem responder_auth_refuted_without_validation :
  exists B b F, fst (responder false B b LowOrder F (Some true)) = Some 1001 /\
                F = AuthF Zero Zero nonce_auth 1001 Ed25519 1001 Zero /\ ~ mentions b Zero.
Proof. exists 1002, 7, (AuthF Zero Zero nonce_auth 1001 Ed25519 1001 Zero). cbn. auto. Qed.

(* ---------- the contact request recorded after the handshake ---------- *)

(* a contact request is recorded only for the key the handshake of THIS session proved, named by
   the card itself; never for the account's own key *)
Theorem incoming_records_authenticated self B b X F ack c A :
  incoming self (fst (responder true B b X F ack)) c = Some A ->
  exists sent, responder true B b X F ack = (Some A, sent) /\ c = Card A true /\ A <> self.
Proof.
  destruct (responder true B b X F ack) as [hs sent] eqn:E. cbn [fst].
  unfold incoming. destruct hs as [A'|]; [|discriminate].
  destruct c as [pk ok|]; [|discriminate]. destruct ok; [|discriminate].
  destruct (N.eqb_spec pk A') as [->|_]; [|discriminate].
  destruct (N.eqb_spec A' self) as [->|Hne]; [discriminate|]. cbn.
  intros H. inversion H; subst. exists sent. repeat split; congruence.
Qed.

Lemma incoming_card_mismatch self A pk ok : pk <> A -> incoming self (Some A) (Card pk ok) = None.
Proof. intros H. unfold incoming. destruct ok; [|reflexivity]. destruct (N.eqb_spec pk A); [contradiction | reflexivity]. Qed.

Lemma incoming_needs_handshake self c : incoming self None c = None.
Proof. reflexivity. Qed.

Lemma incoming_needs_wellformed_card self A pk : incoming self (Some A) (Card pk false) = None /\ incoming self (Some A) NoCard = None.
Proof. split; reflexivity. Qed.

(* ---------- the outgoing contact request ---------- *)

(* the own contact card is written, and the request marked as sent, only to a peer that proved in
   THIS session that it holds the private key of the account the user asked for *)
Theorem outgoing_only_to_proven_key A a B Y G w m :
  outgoing_run true A a B Y G = (w, m) -> w = true \/ m = true ->
  Y <> LowOrder /\ G = AccF (dh a Y) (dh A (Pt B)) nonce_accept B (dh a Y) /\ mentions a (dh a Y).
Proof.
  unfold outgoing_run, outgoing. intros H Hw.
  destruct (requester true A a B Y G) as [ok sent] eqn:E. cbn [fst] in H.
  assert (ok = true) by (injection H as <- <-; destruct Hw; assumption).
  subst ok. exact (requester_auth A a B Y G sent E).
Qed.

Lemma outgoing_honest A a B b : outgoing (fst (honest_run true A a B B b)) = (true, true).
Proof. rewrite honest_completes. reflexivity. Qed.

Lemma outgoing_nothing_on_failure A a B Y G :
  fst (requester true A a B Y G) = false -> outgoing_run true A a B Y G = (false, false).
Proof. unfold outgoing_run. intros ->. reflexivity. Qed.

(* ---------- live relay ---------- *)

Lemma dh_pair_injective a Bt B : Bt <> B -> a <> B -> sec_eqb (dh a (Pt Bt)) (dh B (Pt a)) = false.
Proof.
  intros H1 H2. unfold dh.
  destruct (N.leb_spec a Bt), (N.leb_spec B a); cbn [sec_eqb];
    apply andb_false_iff;
    destruct (N.eqb_spec a B), (N.eqb_spec Bt a), (N.eqb_spec a a), (N.eqb_spec Bt B), (N.eqb_spec a Bt), (N.eqb_spec B a);
    subst; try contradiction; try (left; reflexivity); try (right; reflexivity); try lia;
    try (left; apply N.eqb_neq; lia); try (right; apply N.eqb_neq; lia).
Qed.

(* whatever an honest requester that asked for another account sends as its authenticate frame, a
   responder it did not ask for rejects it, whoever relays the frames and whatever acknowledge follows:
   the box is keyed with the account the requester asked for *)
Theorem relay_rejected A a Bt B b Y G ack sent :
  Bt <> B -> a <> B ->
  snd (requester true A a Bt Y G) = Some sent ->
  fst (responder true B b (Pt a) sent ack) = None.
Proof.
  intros H1 H2 Hs. unfold requester in Hs.
  destruct (true && is_low Y); [discriminate|].
  assert (E : sent = AuthF (dh a Y) (dh a (Pt Bt)) nonce_auth A Ed25519 A (dh a Y)).
  { destruct G as [k1 k2 n signer msg|]; cbn [snd] in Hs.
    - destruct (negb (sec_eqb k1 (dh a Y) && sec_eqb k2 (dh A (Pt Bt)) && (n =? nonce_accept))); cbn [snd] in Hs.
      + injection Hs as <-. reflexivity.
      + destruct (negb ((signer =? Bt) && sec_eqb msg (dh a Y))); cbn [snd] in Hs; injection Hs as <-; reflexivity.
    - injection Hs as <-. reflexivity. }
  subst sent. unfold responder. cbn [is_low andb].
  rewrite (dh_pair_injective a Bt B H1 H2). rewrite andb_false_r. cbn. reflexivity.
Qed.

(* ---- a peer that stops sending ---- *)
Lemma negative_ack_rejected_any chk B b X F ack : ack <> Some true -> fst (responder chk B b X F ack) = None.
Proof.
  intros H. unfold responder. destruct (chk && is_low X); [reflexivity|].
  destruct F as [k1 k2 n A kt signer msg|]; [|reflexivity].
  destruct (negb _); [reflexivity|]. destruct (negb _); [reflexivity|]. destruct kt; [|reflexivity].
  destruct ack as [[|]|]; try reflexivity. congruence.
Qed.

Lemma stalling_responder_fails chk A a B b sends : sends < 2 -> requester_vs_stalling chk A a B b sends = false.
Proof.
  intros H. unfold requester_vs_stalling.
  destruct (N.eqb_spec sends 0) as [_|H0]; [reflexivity|].
  destruct (N.eqb_spec sends 1) as [_|H1]; [|exfalso; lia].
  unfold requester. destruct (chk && is_low (Pt b)); reflexivity.
Qed.

Lemma stalling_requester_fails chk A a B b sends : sends < 3 -> responder_vs_stalling chk A a B b sends = None.
Proof.
  intros H. unfold responder_vs_stalling.
  destruct (N.eqb_spec sends 0) as [_|H0]; [reflexivity|].
  destruct (snd (requester chk A a B (Pt b) AccJunk)) as [auth|]; [|reflexivity].
  destruct (N.eqb_spec sends 1) as [_|H1].
  - unfold responder. destruct (chk && is_low (Pt a)); reflexivity.
  - destruct (N.eqb_spec sends 2) as [_|H2]; [|exfalso; lia].
    apply negative_ack_rejected_any. discriminate.
Qed.

Lemma stalling_complete_run A a B b :
  requester_vs_stalling true A a B b 2 = true /\ responder_vs_stalling true A a B b 3 = Some A.
Proof.
  unfold requester_vs_stalling, responder_vs_stalling. cbn [N.eqb Pos.eqb].
  rewrite honest_completes. split; [reflexivity|].
  pose proof (honest_completes A a B b) as H. unfold honest_run in H.
  destruct (snd (requester true A a B (Pt b) AccJunk)) as [auth|] eqn:E; [|discriminate].
  destruct (responder true B b (Pt a) auth (Some true)) as [r [acc|]] eqn:E2; [|discriminate].
  cbv zeta in H. destruct (fst (requester true A a B (Pt b) acc)); [|discriminate].
  rewrite E2 in H. cbn [fst] in H. cbn [fst]. congruence.
Qed.
