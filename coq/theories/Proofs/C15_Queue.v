(* C15 — proofs about the SimpleQueue transition system: for every signal-channel capacity
   >= 1, every number of producers and items, every schedule: no lost wake-up, FIFO,
   exactly once.  Plus the refutation for capacity 0 (the pinned tree). *)
From Coq Require Import List NArith ZArith Bool Lia ZifyN ZifyNat ZifyBool.
From Wesh Require Import Model.C15_Queue.
Import ListNotations.
Open Scope N_scope.

Fixpoint somes (l : list (option N)) : list N :=
  match l with [] => [] | Some x :: l' => x :: somes l' | None :: l' => somes l' end.

Definition pending_ret (m : lockst) : list N :=
  match m with ByConsRet (Some x) | ByConsPop (Some x) => [x] | _ => [] end.

Definition holds_cons (m : lockst) : bool :=
  match m with ByConsWait | ByConsRet _ => true | _ => false end.

Definition Inv (s : state) : Prop :=
  (c_pc s = CHolding <-> holds_cons (mtx s) = true) /\
  (mtx s = ByConsWait -> q s = []) /\
  (c_pc s = CParked -> tok s = 0 /\ cancelled s = false) /\
  (c_pc s = CSelect \/ c_pc s = CParked -> q s <> [] ->
     0 < tok s \/ cancelled s = true \/ exists i, mtx s = ByProd i false) /\
  pushed s = popped s ++ q s /\
  popped s = rev (somes (c_got s)) ++ pending_ret (mtx s) /\
  (forall i b, mtx s = ByProd i b -> nth_error (prods s) i <> None) /\
  (c_pc s = CPopHold <-> exists r, mtx s = ByConsPop r).

Lemma Inv_init_pop pp items want wc : Inv (init_pop pp items want wc).
Proof.
  unfold Inv, init_pop. cbn. repeat split; try discriminate; try tauto; intros; try discriminate.
  all: try (destruct H; discriminate).
Qed.
Lemma Inv_init items want wc : Inv (init items want wc).
Proof. apply Inv_init_pop. Qed.

Lemma set_prod_length i p l : length (set_prod i p l) = length l.
Proof.
  unfold set_prod. rewrite app_length.
  destruct (skipn i l) as [|x r] eqn:E.
  - cbn. rewrite Nat.add_0_r. apply (f_equal (@length producer)) in E. rewrite skipn_length in E. cbn in E.
    rewrite firstn_length. lia.
  - cbn [length]. apply (f_equal (@length producer)) in E. rewrite skipn_length in E. cbn in E.
    rewrite firstn_length. lia.
Qed.

Lemma set_prod_nth_some i p l j : nth_error l j <> None -> nth_error (set_prod i p l) j <> None.
Proof. rewrite !nth_error_Some, set_prod_length. auto. Qed.

Ltac break_in :=
  repeat match goal with
  | H : In _ [] |- _ => destruct H
  | H : In _ (_ :: _) |- _ => destruct H as [<- | H]
  | H : In _ (if ?b then _ else _) |- _ => destruct b eqn:?
  | H : In _ (match ?x with _ => _ end) |- _ => destruct x eqn:?
  | H : In _ (let _ := _ in _) |- _ => cbv zeta in H
  end.

Ltac simp_inv :=
  unfold Inv, set_prepop, upd; cbn [mtx q tok cancelled c_pc c_prepop c_want c_got prods canceller pushed popped holds_cons pending_ret].

(* the last conjunct when the consumer is not inside Pop, before and after *)
Lemma no_pop_hold (pc : cpc) (m : lockst) :
  pc <> CPopHold -> (forall r, m <> ByConsPop r) -> (pc = CPopHold <-> exists r, m = ByConsPop r).
Proof. intros H1 H2. split; [intros E; contradiction | intros [r E]; destruct (H2 r E)]. Qed.

Ltac ex_falso_pc :=
  match goal with
  | H : ?a = ?b |- _ => discriminate H
  | H : ?a = ?b \/ ?c = ?d |- _ => destruct H; discriminate
  end.

Lemma cstep_inv s s' : Inv s -> In s' (cstep s) -> Inv s'.
Proof.
  intros (I1 & I2 & I3 & I4 & I5 & I6 & I7 & I8) Hin. unfold cstep in Hin.
  assert (Hh : c_pc s <> CHolding -> holds_cons (mtx s) = false).
  { intros Hn. apply not_true_is_false. intros E. apply I1 in E. contradiction. }
  assert (Hp : c_pc s <> CPopHold -> forall r, mtx s <> ByConsPop r).
  { intros Hn r E. apply Hn. apply I8. exists r. exact E. }
  destruct (c_pc s) eqn:Epc.
  - (* CStart *)
    destruct Hin as [<-|[]]. simp_inv.
    specialize (Hh ltac:(discriminate)). specialize (Hp ltac:(discriminate)).
    assert (Hpc : forall pc', pc' <> CHolding -> pc' <> CParked -> pc' <> CSelect -> pc' <> CPopHold ->
              (pc' = CHolding <-> holds_cons (mtx s) = true) /\ (mtx s = ByConsWait -> q s = []) /\
              (pc' = CParked -> tok s = 0 /\ cancelled s = false) /\
              (pc' = CSelect \/ pc' = CParked -> q s <> [] -> 0 < tok s \/ cancelled s = true \/ exists i, mtx s = ByProd i false) /\
              pushed s = popped s ++ q s /\ popped s = rev (somes (c_got s)) ++ pending_ret (mtx s) /\
              (forall i b, mtx s = ByProd i b -> nth_error (prods s) i <> None) /\
              (pc' = CPopHold <-> exists r, mtx s = ByConsPop r)).
    { intros pc' N1 N2 N3 N4.
      split; [split; [intros E; contradiction | rewrite Hh; discriminate]|].
      split; [exact I2|]. split; [intros E; contradiction|]. split; [intros [E|E]; contradiction|].
      split; [exact I5|]. split; [exact I6|]. split; [exact I7|]. apply no_pop_hold; assumption. }
    destruct (c_prepop s); [unfold after_pops; destruct (c_want s)|]; apply Hpc; discriminate.
  - (* CPopLock *)
    specialize (Hh ltac:(discriminate)). specialize (Hp ltac:(discriminate)).
    destruct (mtx s) eqn:Em; try (destruct Hin; fail).
    cbn [pending_ret] in I6. rewrite app_nil_r in I6.
    destruct (q s) as [|x q'] eqn:Eq; destruct Hin as [<-|[]]; simp_inv.
    + split; [split; discriminate|]. split; [discriminate|]. split; [discriminate|]. split; [intros [?|?]; discriminate|].
      split; [exact I5|]. split; [rewrite app_nil_r; exact I6|]. split; [discriminate|].
      split; [intros _; eexists; reflexivity | reflexivity].
    + split; [split; discriminate|]. split; [discriminate|]. split; [discriminate|]. split; [intros [?|?]; discriminate|].
      split; [rewrite I5, <- app_assoc; reflexivity|]. split; [rewrite I6; reflexivity|]. split; [discriminate|].
      split; [intros _; eexists; reflexivity | reflexivity].
  - (* CPopHold *)
    destruct (proj1 I8 eq_refl) as [r Em]. rewrite Em in Hin. cbv zeta in Hin. destruct Hin as [<-|[]]. simp_inv.
    rewrite Em in I6.
    assert (Hpc : forall pc', pc' <> CHolding -> pc' <> CParked -> pc' <> CSelect -> pc' <> CPopHold ->
              (pc' = CHolding <-> false = true) /\ (Free = ByConsWait -> q s = []) /\
              (pc' = CParked -> tok s = 0 /\ cancelled s = false) /\
              (pc' = CSelect \/ pc' = CParked -> q s <> [] -> 0 < tok s \/ cancelled s = true \/ exists i, @eq lockst Free (ByProd i false)) /\
              pushed s = popped s ++ q s /\
              popped s = rev (somes match r with Some x => Some x :: c_got s | None => c_got s end) ++ [] /\
              (forall i b, @eq lockst Free (ByProd i b) -> nth_error (prods s) i <> None) /\
              (pc' = CPopHold <-> exists r0, @eq lockst Free (ByConsPop r0))).
    { intros pc' N1 N2 N3 N4.
      split; [split; [intros E; contradiction | discriminate]|].
      split; [discriminate|]. split; [intros E; contradiction|]. split; [intros [E|E]; contradiction|].
      split; [exact I5|].
      split; [destruct r as [x|]; cbn [somes rev pending_ret] in *; rewrite ?app_nil_r in *; exact I6|].
      split; [discriminate|]. apply no_pop_hold; [assumption | discriminate]. }
    destruct (pred (c_prepop s)); [unfold after_pops; destruct (c_want s)|]; apply Hpc; discriminate.
  - (* CWantLock *)
    specialize (Hh ltac:(discriminate)). specialize (Hp ltac:(discriminate)).
    destruct (mtx s) eqn:Em; try (destruct Hin; fail).
    cbn [pending_ret] in I6. rewrite app_nil_r in I6.
    destruct (cancelled s) eqn:Ec.
    + destruct Hin as [<-|[]]. simp_inv.
      split; [tauto|]. split; [discriminate|]. split; [discriminate|]. split; [intros [?|?]; discriminate|].
      split; [exact I5|]. split; [rewrite app_nil_r; exact I6|]. split; [discriminate|].
      apply no_pop_hold; discriminate.
    + destruct (q s) as [|x q'] eqn:Eq.
      * destruct Hin as [<-|[]]. simp_inv.
        split; [tauto|]. split; [reflexivity|]. split; [discriminate|]. split; [intros [?|?]; discriminate|].
        split; [exact I5|]. split; [rewrite app_nil_r; exact I6|]. split; [discriminate|].
        apply no_pop_hold; discriminate.
      * destruct Hin as [<-|[]]. simp_inv.
        split; [tauto|]. split; [discriminate|]. split; [discriminate|]. split; [intros [?|?]; discriminate|].
        split; [rewrite I5, <- app_assoc; reflexivity|]. split; [rewrite I6; reflexivity|]. split; [discriminate|].
        apply no_pop_hold; discriminate.
  - (* CHolding *)
    assert (Hhc : holds_cons (mtx s) = true) by (apply I1; reflexivity).
    destruct (mtx s) eqn:Em; try discriminate Hhc.
    + (* ByConsWait: unlock, go to select *)
      destruct Hin as [<-|[]]. simp_inv. specialize (I2 eq_refl).
      split; [split; discriminate|]. split; [discriminate|]. split; [discriminate|].
      split; [intros _ Hq; contradiction|]. split; [exact I5|]. split; [exact I6|]. split; [discriminate|].
      apply no_pop_hold; discriminate.
    + (* ByConsRet r: unlock, return *)
      destruct Hin as [<-|[]]. simp_inv. cbn [pending_ret] in I6.
      split; [destruct r; destruct (pred (c_want s)); split; discriminate|].
      split; [discriminate|].
      split; [destruct r; destruct (pred (c_want s)); discriminate|].
      split; [destruct r; destruct (pred (c_want s)); intros [?|?]; discriminate|].
      split; [exact I5|].
      split; [destruct r as [x|]; cbn [somes rev pending_ret] in *; rewrite ?app_nil_r in *; exact I6|].
      split; [discriminate|].
      apply no_pop_hold; [destruct r; destruct (pred (c_want s)); discriminate | discriminate].
  - (* CSelect *)
    specialize (Hh ltac:(discriminate)). specialize (Hp ltac:(discriminate)).
    cbv zeta in Hin.
    destruct (0 <? tok s) eqn:Et; [|destruct (cancelled s) eqn:Ec].
    + assert (G : forall t', Inv (upd s (mtx s) (q s) t' (cancelled s) CWantLock (c_want s) (c_got s) (prods s) (canceller s) (pushed s) (popped s))).
      { intros t'. simp_inv. split; [split; [discriminate|rewrite Hh; discriminate]|].
        split; [exact I2|]. split; [discriminate|]. split; [intros [?|?]; discriminate|].
        split; [exact I5|]. split; [exact I6|]. split; [exact I7|]. apply no_pop_hold; [discriminate | exact Hp]. }
      destruct (cancelled s); [destruct Hin as [<-|[<-|[]]]|destruct Hin as [<-|[]]]; apply G.
    + destruct Hin as [<-|[]]. simp_inv. split; [split; [discriminate|rewrite Hh; discriminate]|].
      split; [exact I2|]. split; [discriminate|]. split; [intros [?|?]; discriminate|].
      split; [exact I5|]. split; [exact I6|]. split; [exact I7|]. apply no_pop_hold; [discriminate | exact Hp].
    + (* parks: no token, not cancelled *)
      destruct Hin as [<-|[]]. simp_inv. split; [split; [discriminate|rewrite Hh; discriminate]|].
      split; [exact I2|]. split; [intros _; split; [lia|reflexivity]|].
      split; [intros _ Hq; apply I4; [left; reflexivity|exact Hq]|].
      split; [exact I5|]. split; [exact I6|]. split; [exact I7|]. apply no_pop_hold; [discriminate | exact Hp].
  - destruct Hin.
  - destruct Hin.
Qed.

Lemma not_holding_of s : Inv s -> holds_cons (mtx s) = false -> c_pc s <> CHolding.
Proof. intros (I1 & _) H E. apply I1 in E. congruence. Qed.

Lemma start_prod_inv s i p :
  Inv s ->
  Inv (upd s (mtx s) (q s) (tok s) (cancelled s) (c_pc s) (c_want s) (c_got s)
           (set_prod i p (prods s)) (canceller s) (pushed s) (popped s)).
Proof.
  intros (I1 & I2 & I3 & I4 & I5 & I6 & I7 & I8). simp_inv.
  split; [exact I1|]. split; [exact I2|]. split; [exact I3|]. split; [exact I4|].
  split; [exact I5|]. split; [exact I6|]. split; [|exact I8]. intros j b H. apply set_prod_nth_some. apply (I7 j b H).
Qed.

Lemma pstep_inv cap s i s' : 1 <= cap -> Inv s -> In s' (pstep cap s i) -> Inv s'.
Proof.
  intros Hcap HI Hin. pose proof HI as (I1 & I2 & I3 & I4 & I5 & I6 & I7 & I8). unfold pstep in Hin.
  destruct (nth_error (prods s) i) as [p|] eqn:Ep; [|destruct Hin].
  destruct (mtx s) eqn:Em.
  - (* Free *)
    destruct (p_started p).
    + destruct (p_items p) as [|x r]; [destruct Hin|]. destruct Hin as [<-|[]]. simp_inv.
      cbn [holds_cons] in I1.
      split; [exact I1|]. split; [discriminate|]. split; [exact I3|].
      split; [intros _ _; right; right; exists i; reflexivity|].
      split; [rewrite I5, app_assoc; reflexivity|]. split; [exact I6|].
      split; [intros j b H; injection H as <- _; rewrite Ep; discriminate|].
      (split; [intros E8; apply I8 in E8; destruct E8 as [r8 E8]; discriminate | intros [r8 E8]; discriminate]).
    + destruct Hin as [<-|[]]. rewrite <- Em. apply start_prod_inv. exact HI.
  - destruct (p_started p); [destruct Hin|]. destruct Hin as [<-|[]]. rewrite <- Em. apply start_prod_inv. exact HI.
  - destruct (p_started p); [destruct Hin|]. destruct Hin as [<-|[]]. rewrite <- Em. apply start_prod_inv. exact HI.
  - destruct (p_started p); [destruct Hin|]. destruct Hin as [<-|[]]. rewrite <- Em. apply start_prod_inv. exact HI.
  - (* ByProd i0 sent *)
    destruct (Nat.eqb i i0) eqn:Ei.
    + apply Nat.eqb_eq in Ei. subst i0. cbn [holds_cons pending_ret] in *.
      assert (Hnh : c_pc s <> CHolding) by (intros E; apply I1 in E; discriminate).
      assert (Hnp : c_pc s <> CPopHold) by (intros E; apply I8 in E; destruct E as [r E]; discriminate).
      destruct sent.
      * (* unlock *)
        destruct Hin as [<-|[]]. simp_inv.
        split; [split; [intros E; contradiction|discriminate]|]. split; [discriminate|]. split; [exact I3|].
        split; [intros Hpc Hq; destruct (I4 Hpc Hq) as [?|[?|[j Hj]]]; [left; assumption|right; left; assumption|discriminate]|].
        split; [exact I5|]. split; [exact I6|]. split; [discriminate|].
        split; [intros E; contradiction | intros [r8 E8]; discriminate].
      * (* non-blocking send *)
        destruct (c_pc s) eqn:Epc; destruct Hin as [<-|[]]; simp_inv.
        all: split; [split; [discriminate || (intros E; congruence)|discriminate]|].
        all: split; [discriminate|].
        all: split; [try discriminate; try exact I3|].
        all: split; [|split; [exact I5|split; [exact I6|split; [intros j b H; injection H as <- _; rewrite Ep; discriminate|
                       split; [discriminate || (intros E; congruence) | intros [r8 E8]; discriminate]]]]].
        all: try (intros [?|?]; discriminate).
        (* CSelect: a token is now buffered *)
        intros _ _. left. destruct (tok s <? cap) eqn:Et; lia.
    + destruct (p_started p); [destruct Hin|]. destruct Hin as [<-|[]]. rewrite <- Em. apply start_prod_inv. exact HI.
Qed.

Lemma kstep_inv s s' : Inv s -> In s' (kstep s) -> Inv s'.
Proof.
  intros (I1 & I2 & I3 & I4 & I5 & I6 & I7 & I8) Hin. unfold kstep in Hin.
  destruct (canceller s) as [[|]|]; try (destruct Hin; fail). destruct Hin as [<-|[]]. simp_inv.
  split.
  { destruct (c_pc s) eqn:Epc; try exact I1. split; [discriminate|]. intros E. apply I1 in E. discriminate. }
  split; [exact I2|].
  split; [destruct (c_pc s); discriminate|].
  split; [intros _ _; right; left; reflexivity|].
  split; [exact I5|]. split; [exact I6|]. split; [exact I7|].
  destruct (c_pc s) eqn:Epc; try exact I8.
  split; [discriminate|]. intros E. apply I8 in E. discriminate.
Qed.

Lemma step_inv cap s tid s' : 1 <= cap -> Inv s -> In s' (step cap s tid) -> Inv s'.
Proof.
  intros Hcap HI Hin. unfold step in Hin.
  destruct (tid =? 0); [eapply cstep_inv; eassumption|].
  destruct (tid =? tid_cancel); [eapply kstep_inv; eassumption|eapply pstep_inv; eassumption].
Qed.

(* every state reachable under any schedule *)
Inductive reachable (cap : N) (s0 : state) : state -> Prop :=
| reach_init : reachable cap s0 s0
| reach_step s tid s' : reachable cap s0 s -> In s' (step cap s tid) -> reachable cap s0 s'.

Theorem reachable_inv_pop cap pp items want wc s :
  1 <= cap -> reachable cap (init_pop pp items want wc) s -> Inv s.
Proof.
  intros Hcap H. induction H as [|s tid s' _ IH Hin]; [apply Inv_init_pop|eapply step_inv; eassumption].
Qed.
Theorem reachable_inv cap items want wc s :
  1 <= cap -> reachable cap (init items want wc) s -> Inv s.
Proof. apply reachable_inv_pop. Qed.

(* no_lost_wakeup: whenever the consumer is parked and the queue is non-empty, a producer is
   inside its critical section just before its wake-up send; that send is enabled and
   un-parks the consumer *)
Theorem no_lost_wakeup_pop cap pp items want wc s :
  1 <= cap -> reachable cap (init_pop pp items want wc) s ->
  c_pc s = CParked -> q s <> [] ->
  exists i s', mtx s = ByProd i false /\ pstep cap s i = [s'] /\ c_pc s' = CWantLock.
Proof.
  intros Hcap Hr Hp Hq. pose proof (reachable_inv_pop cap pp items want wc s Hcap Hr) as (I1 & I2 & I3 & I4 & I5 & I6 & I7 & I8).
  destruct (I3 Hp) as (Ht & Hc).
  destruct (I4 (or_intror Hp) Hq) as [H|[H|[i Hi]]]; [lia|congruence|].
  exists i. unfold pstep. specialize (I7 i false Hi).
  destruct (nth_error (prods s) i) as [p|]; [|contradiction].
  rewrite Hi, Nat.eqb_refl, Hp. eexists. split; [reflexivity|]. split; [reflexivity|reflexivity].
Qed.

(* a parked consumer with a non-empty queue is therefore never a terminal situation; in
   particular, once every producer has left its critical section it cannot exist at all *)
Theorem no_lost_wakeup cap items want wc s :
  1 <= cap -> reachable cap (init items want wc) s ->
  c_pc s = CParked -> q s <> [] ->
  exists i s', mtx s = ByProd i false /\ pstep cap s i = [s'] /\ c_pc s' = CWantLock.
Proof. apply no_lost_wakeup_pop. Qed.

Corollary never_stuck_pop cap pp items want wc s :
  1 <= cap -> reachable cap (init_pop pp items want wc) s ->
  (forall i b, mtx s <> ByProd i b) -> c_pc s = CParked -> q s = [].
Proof.
  intros Hcap Hr Hfree Hp. destruct (q s) eqn:Eq; [reflexivity|exfalso].
  destruct (no_lost_wakeup_pop cap pp items want wc s Hcap Hr Hp) as (i & s' & Hm & _); [congruence|].
  apply (Hfree i false Hm).
Qed.
Corollary never_stuck cap items want wc s :
  1 <= cap -> reachable cap (init items want wc) s ->
  (forall i b, mtx s <> ByProd i b) -> c_pc s = CParked -> q s = [].
Proof. apply never_stuck_pop. Qed.

(* FIFO and exactly once: what was popped, followed by what is still queued, is exactly what
   was pushed, in push order; the consumer's results are the popped items in order *)
Theorem fifo_exactly_once_pop cap pp items want wc s :
  1 <= cap -> reachable cap (init_pop pp items want wc) s ->
  pushed s = popped s ++ q s /\ popped s = rev (somes (c_got s)) ++ pending_ret (mtx s).
Proof. intros Hcap Hr. pose proof (reachable_inv_pop cap pp items want wc s Hcap Hr) as (_ & _ & _ & _ & I5 & I6 & _ & _). auto. Qed.
Theorem fifo_exactly_once cap items want wc s :
  1 <= cap -> reachable cap (init items want wc) s ->
  pushed s = popped s ++ q s /\ popped s = rev (somes (c_got s)) ++ pending_ret (mtx s).
Proof. apply fifo_exactly_once_pop. Qed.

(* the seeded shape of round nine: Add signals only when the queue goes from empty to one item, by a
   length that a draining Pop does not bring back to zero; in the model: a producer that does not
   signal.  Consumer: Pop once, then wait; producer: two items.  Pop takes the first, the consumer
   parks, the second Add does not signal *)
Definition pstep_nosignal (s : state) (i : nat) : list state :=
  match mtx s with
  | ByProd j false => if Nat.eqb i j then [upd s (ByProd i true) (q s) (tok s) (cancelled s) (c_pc s) (c_want s) (c_got s) (prods s) (canceller s) (pushed s) (popped s)] else pstep 1 s i
  | _ => pstep 1 s i
  end.
Lemma pop_then_wait_needs_the_signal :
  exists s,
    fold_left (fun ss t => flat_map (fun s => if (t =? 0)%N then cstep s else if (t =? 7)%N then pstep_nosignal s 0 else pstep 1 s 0) ss)
              [1; 1; 1; 1; 0; 0; 0; 0; 0; 0; 0; 0; 0; 1; 7; 1]%N [init_pop 1 [[1; 2]] 1 false] = [s] /\
    c_pc s = CParked /\ q s = [2] /\ mtx s = Free /\ cancelled s = false.
Proof. eexists. vm_compute. repeat split. Qed.

(* a cancelled wait returns "no item": the only way the consumer records None is through the
   cancelled branch *)
Lemma cancelled_returns_none s s' :
  c_pc s = CWantLock -> mtx s = Free -> cancelled s = true -> In s' (cstep s) -> mtx s' = ByConsRet None.
Proof.
  intros Hp Hm Hc Hin. unfold cstep in Hin. rewrite Hp, Hm, Hc in Hin. destruct Hin as [<-|[]]. reflexivity.
Qed.

(* the pinned tree (capacity 0) loses the wake-up: a schedule after which the consumer is
   parked, the queue holds an item, every producer is done, nobody cancelled *)
Lemma lost_wakeup_with_capacity_0 :
  exists sched s,
    fold_left (fun ss t => flat_map (fun s => step 0 s t) ss) sched [init [[1]] 1 false] = [s] /\
    c_pc s = CParked /\ q s = [1] /\ mtx s = Free /\ cancelled s = false /\
    prods s = [{| p_started := true; p_items := [] |}].
Proof.
  exists [0; 0; 0; 1; 1; 1; 1; 0]. eexists. vm_compute. repeat split.
Qed.
