(* C11 — concurrent first use: whatever the schedule, every caller is handed the key the keystore keeps. *)
From Coq Require Import List NArith Bool Lia Arith PeanoNat.
From Wesh Require Import Model.C11_FirstUse.
Import ListNotations.
Open Scope N_scope.

Lemma nth_set_nth_same {A} i (x : A) l : (i < length l)%nat -> nth_error (set_nth i x l) i = Some x.
Proof.
  revert i. induction l as [|y l IH]; intros [|i] H; cbn in *; try lia; [reflexivity|]. apply IH. lia.
Qed.

Lemma nth_set_nth_other {A} i j (x : A) l : i <> j -> nth_error (set_nth i x l) j = nth_error l j.
Proof.
  revert i j. induction l as [|y l IH]; intros [|i] [|j] H; cbn; try reflexivity; try congruence.
  apply IH. congruence.
Qed.

Lemma nth_some_lt {A} (l : list A) i x : nth_error l i = Some x -> (i < length l)%nat.
Proof. intros H. apply nth_error_Some. congruence. Qed.

(* invariant: the holder of the mutex is the one thread in TLocked, what it saw is what the slot holds;
   whoever returned, returned the key in the slot *)
Definition FuInv (s : fustate) : Prop :=
  (forall i seen, nth_error (fu_threads s) i = Some (TLocked seen) -> fu_lock s = Some i /\ seen = fu_store s) /\
  (forall i r, nth_error (fu_threads s) i = Some (TDone r) -> fu_store s = Some r).

Lemma fu_inv_init n : FuInv (fu_init n).
Proof.
  split; intros i x H; cbn in H; apply nth_error_In in H; apply repeat_spec in H; discriminate.
Qed.

Lemma fu_step_inv s i s' : FuInv s -> fu_step s i = Some s' -> FuInv s'.
Proof.
  intros [I1 I2] Hs. unfold fu_step in Hs.
  destruct (nth_error (fu_threads s) i) as [[|[k|]|r]|] eqn:Ei; try discriminate.
  - (* lock *)
    destruct (fu_lock s) eqn:El; [discriminate|]. injection Hs as <-.
    pose proof (nth_some_lt _ _ _ Ei) as Hlt. split; cbn.
    + intros j seen Hj. destruct (Nat.eq_dec i j) as [<-|Hne].
      * rewrite nth_set_nth_same in Hj by exact Hlt. injection Hj as <-. split; reflexivity.
      * rewrite nth_set_nth_other in Hj by exact Hne. destruct (I1 j seen Hj) as [H _]. congruence.
    + intros j r Hj. destruct (Nat.eq_dec i j) as [<-|Hne].
      * rewrite nth_set_nth_same in Hj by exact Hlt. discriminate.
      * rewrite nth_set_nth_other in Hj by exact Hne. exact (I2 j r Hj).
  - (* found: unlock, return *)
    injection Hs as <-. pose proof (nth_some_lt _ _ _ Ei) as Hlt.
    destruct (I1 i (Some k) Ei) as [Hl Hk]. split; cbn.
    + intros j seen Hj. destruct (Nat.eq_dec i j) as [<-|Hne].
      * rewrite nth_set_nth_same in Hj by exact Hlt. discriminate.
      * rewrite nth_set_nth_other in Hj by exact Hne. destruct (I1 j seen Hj) as [H _]. congruence.
    + intros j r Hj. destruct (Nat.eq_dec i j) as [<-|Hne].
      * rewrite nth_set_nth_same in Hj by exact Hlt. injection Hj as <-. symmetry. exact Hk.
      * rewrite nth_set_nth_other in Hj by exact Hne. exact (I2 j r Hj).
  - (* miss: generate, put, unlock, return *)
    injection Hs as <-. pose proof (nth_some_lt _ _ _ Ei) as Hlt.
    destruct (I1 i None Ei) as [Hl Hk]. split; cbn.
    + intros j seen Hj. destruct (Nat.eq_dec i j) as [<-|Hne].
      * rewrite nth_set_nth_same in Hj by exact Hlt. discriminate.
      * rewrite nth_set_nth_other in Hj by exact Hne. destruct (I1 j seen Hj) as [H _]. congruence.
    + intros j r Hj. destruct (Nat.eq_dec i j) as [<-|Hne].
      * rewrite nth_set_nth_same in Hj by exact Hlt. injection Hj as <-. reflexivity.
      * rewrite nth_set_nth_other in Hj by exact Hne.
        (* nobody can have returned before the slot was filled *)
        pose proof (I2 j r Hj) as H. rewrite <- Hk in H. discriminate.
Qed.

Lemma fu_run_inv s sched s' : FuInv s -> fu_run s sched = Some s' -> FuInv s'.
Proof.
  revert s. induction sched as [|i sched IH]; intros s I H; cbn in H.
  - injection H as <-. exact I.
  - destruct (fu_step s i) as [s1|] eqn:E; [|discriminate]. exact (IH s1 (fu_step_inv s i s1 I E) H).
Qed.

(* agreement: any number of callers, any schedule: two callers that have returned hold the same key,
   and it is the key in the keystore *)
Theorem first_use_agreement n sched s i j r r' :
  fu_run (fu_init n) sched = Some s ->
  nth_error (fu_threads s) i = Some (TDone r) -> nth_error (fu_threads s) j = Some (TDone r') ->
  r = r' /\ fu_store s = Some r.
Proof.
  intros H Hi Hj. destruct (fu_run_inv _ _ _ (fu_inv_init n) H) as [_ I2].
  pose proof (I2 i r Hi) as A. pose proof (I2 j r' Hj) as B. split; [congruence | exact A].
Qed.

(* the seeded shape loses it: two callers miss, each generates, the second put wins *)
Lemma unlocked_first_use_disagrees :
  exists s, urun (mkU None [UStart; UStart] 1) [0%nat; 1%nat; 0%nat; 1%nat] = Some s /\
            u_threads s = [UDone 1; UDone 2] /\ u_store s = Some 2.
Proof. eexists. split; [vm_compute; reflexivity|]. split; reflexivity. Qed.
