(* C20 — proofs about the registry rebuilt after a restore. *)
From Coq Require Import List NArith Bool.
From Wesh Require Import Model.MetaLog Model.C20_Registry.
Import ListNotations.
Open Scope N_scope.

Lemma gid_eqb_refl g : gid_eqb g g = true.
Proof. destruct g; cbn; apply N.eqb_refl. Qed.

Lemma cstate_eqb_refl c : cstate_eqb c c = true.
Proof. unfold cstate_eqb. apply N.eqb_refl. Qed.

(* with all six states listed, the one-to-one group of every contact that has a record - whatever its
   state: blocked, removed and discarded included - and every joined multi-member group is reachable *)
Lemma every_contact_group_reachable v pk st :
  In (pk, st) (av_contacts v) -> st <> CUndef -> reachable all_states v (GContactOf pk) = true.
Proof.
  intros Hin Hst. unfold reachable, registry. apply existsb_exists. exists (GContactOf pk).
  split; [|apply gid_eqb_refl]. apply in_or_app. right.
  apply in_map_iff. exists (pk, st). split; [reflexivity|]. apply filter_In. split; [exact Hin|].
  cbn [snd]. apply existsb_exists. exists st. split; [|apply cstate_eqb_refl].
  unfold all_states. destruct st; cbn; tauto.
Qed.

Lemma every_joined_group_reachable listed v g :
  In (g, true) (av_groups v) -> reachable listed v (GMultiMember g) = true.
Proof.
  intros Hin. unfold reachable, registry. apply existsb_exists. exists (GMultiMember g).
  split; [|apply gid_eqb_refl]. apply in_or_app. left.
  apply in_map_iff. exists (g, true). split; [reflexivity|]. apply filter_In. split; [exact Hin | reflexivity].
Qed.

(* and the seeded shape: listing only the "live" states loses the group of a blocked contact *)
Lemma live_states_only_loses_groups :
  reachable [CToRequest; CReceived; CAdded] (mkAV [(7, CBlocked)] []) (GContactOf 7) = false /\
  reachable all_states (mkAV [(7, CBlocked)] []) (GContactOf 7) = true.
Proof. split; vm_compute; reflexivity. Qed.
