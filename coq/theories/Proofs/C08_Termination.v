(* C08 — termination: the pipeline LTS has no infinite schedule.  Together with the theorem about
   quiescent states this gives "every decryptable message IS delivered": whatever the schedule, it is
   finite, and where it ends every entry that opens has been delivered.

   Measure, lexicographic:
   - phi = the flushes that can still happen: messages not yet delivered (each delivery triggers one
     flush of its device queue) + registrations to come (each triggers at most one flush);
   - wgt = how far the messages and the registrar still are from the end of their path, a flush
     excepted: 8 per entry to arrive, 7 per queued entry, 6..2 along the consumer's program, 0 once
     parked or delivered; 4 per registration to come, 3..1 along the registrar's program.
   Every step that is not a flush decreases wgt and does not increase phi; a flush (which puts the
   parked messages back into the queue and so increases wgt) decreases phi. *)
From Coq Require Import List NArith Bool Lia Arith Wf_nat.
From Wesh Require Import Model.C08_Pipeline Proofs.C08_Pipeline.
Import ListNotations.
Open Scope nat_scope.

(* multiset inclusion bounds the length *)
Lemma len_le_of_cnt (a b : list msg) : (forall x, cnt x a <= cnt x b) -> length a <= length b.
Proof.
  revert b. induction a as [|y a IH]; intros b H; [cbn; lia|].
  assert (Hin : In y b).
  { apply cnt_in. specialize (H y). rewrite cnt_cons in H. destruct (msg_eq_dec y y); [lia | congruence]. }
  destruct (in_split y b Hin) as [b1 [b2 ->]].
  rewrite app_length. cbn [length].
  assert (Hl : length a <= length (b1 ++ b2)).
  { apply IH. intros x. specialize (H x). rewrite cnt_cons, cnt_app, cnt_cons in H. rewrite cnt_app.
    destruct (msg_eq_dec y x); lia. }
  rewrite app_length in Hl. lia.
Qed.

Lemma delivered_bound s : Inv s -> length (delivered s) + length (held s) <= length (arrived s).
Proof.
  intros I. rewrite <- app_length. apply len_le_of_cnt. intros x.
  destruct I as [_ _ _ _ _ _ _ _ _ I7 _ _]. rewrite cnt_app, (I7 x). lia.
Qed.

Definition reg_pending (r : rpc) : nat := match r with RLock _ | RFlush _ => 1 | _ => 0 end.

Definition phi (s : state) : nat :=
  (length (arrivals s) + length (arrived s) - length (delivered s)) + length (regs s) + reg_pending (reg s).

Definition pcw (c : cpc) : nat :=
  match c with
  | CWait => 0 | CLock _ => 6 | CParkIn _ => 5 | CUnlock _ true => 4 | CUnlock _ false => 3
  | CProc _ => 3 | CFlush _ => 2 | CRepark _ => 2
  end.
Definition rw (r : rpc) : nat := match r with RReg => 0 | RLock _ => 3 | RFlush _ => 2 | RUnlock _ => 1 end.

Definition wgt (s : state) : nat :=
  8 * length (arrivals s) + 7 * length (fifo s) + pcw (cons s) + 4 * length (regs s) + rw (reg s).

Ltac msimp :=
  cbn [arrivals arrived delivered fifo cons reg regs lock keys caches set_cons pcw rw reg_pending];
  rewrite ?app_length; cbn [length].

Lemma measure_decreases s t s' :
  Inv s -> step s t = Some s' -> phi s' < phi s \/ (phi s' = phi s /\ wgt s' < wgt s).
Proof.
  intros I Hs. pose proof (delivered_bound s I) as Hb.
  unfold phi, wgt. destruct t; cbn [step] in Hs.
  - (* arrival *)
    destruct (arrivals s) as [|m rest] eqn:Ea; [discriminate|]. injection Hs as <-. msimp.
    right. split; lia.
  - (* consumer *)
    destruct (cons s) as [|m|m|m k|m|m|m] eqn:Ec.
    + destruct (fifo s) as [|m rest] eqn:Ef; [discriminate|]. injection Hs as <-. msimp. right. split; lia.
    + destruct (lock s); try discriminate. injection Hs as <-.
      destruct (known _); msimp; right; split; lia.
    + injection Hs as <-. msimp. right. split; lia.
    + injection Hs as <-. destruct k; msimp; right; split; lia.
    + injection Hs as <-. destruct (decryptable (keys s) m); msimp; right; split; lia.
    + (* flush after a delivery *)
      injection Hs as <-. msimp.
      unfold held in Hb. rewrite Ec in Hb. cbn [length] in Hb. left. lia.
    + injection Hs as <-. msimp. right. split; lia.
  - (* registrar *)
    destruct (reg s) as [|d|d|d] eqn:Er.
    + destruct (regs s) as [|[d c] rest] eqn:Eg; [discriminate|]. injection Hs as <-. msimp. right. split; lia.
    + destruct (lock s); try discriminate.
      destruct (caches s d) as [c|]; [destruct (key_known (keys s) d)|]; injection Hs as <-; msimp.
      * right. split; lia.
      * left. lia.
      * left. lia.
    + injection Hs as <-. msimp. left. lia.
    + injection Hs as <-. msimp. right. split; lia.
Qed.

(* the step relation, restricted to states that satisfy the invariant (all reachable ones do) *)
Definition steps_to (s' s : state) : Prop := Inv s /\ exists t, step s t = Some s'.

Theorem terminates s : Inv s -> Acc steps_to s.
Proof.
  assert (G : forall n m x, Inv x -> phi x <= n -> wgt x <= m -> Acc steps_to x).
  { clear s. induction n as [n IHn] using lt_wf_ind. induction m as [m IHm] using lt_wf_ind.
    intros s I Hp Hw. constructor. intros s' [_ [t Hst]].
    pose proof (step_inv s t s' I Hst) as I'.
    destruct (measure_decreases s t s' I Hst) as [H|[H1 H2]].
    - apply (IHn (phi s')) with (m := wgt s'); [lia | exact I' | lia | lia].
    - apply (IHm (wgt s')); [lia | exact I' | lia | lia]. }
  intros I. exact (G (phi s) (wgt s) s I (le_n _) (le_n _)).
Qed.

(* an explicit consequence: no infinite schedule from any initial state *)
Fixpoint prefix (f : nat -> thread) (n : nat) : list thread :=
  match n with O => [] | S k => prefix f k ++ [f k] end.

Lemma follow_app s a b : follow s (a ++ b) = match follow s a with Some s' => follow s' b | None => None end.
Proof.
  revert s. induction a as [|t a IH]; intros s; [reflexivity|].
  cbn [app follow]. destruct (step s t); [apply IH | reflexivity].
Qed.

Lemma follow_reachable s0 ts s : follow s0 ts = Some s -> reachable s0 s.
Proof.
  revert s. induction ts as [|t ts IH] using rev_ind; intros s H.
  - injection H as <-. constructor.
  - rewrite follow_app in H. destruct (follow s0 ts) as [s1|] eqn:E; [|discriminate].
    cbn [follow] in H. destruct (step s1 t) as [s2|] eqn:Es; [|discriminate]. injection H as <-.
    exact (reach_step s0 s1 t s2 (IH s1 eq_refl) Es).
Qed.

Theorem no_infinite_schedule arr rs (f : nat -> thread) :
  ~ (forall n, exists s, follow (init arr rs) (prefix f n) = Some s).
Proof.
  intros H.
  assert (G : forall s, Acc steps_to s -> forall n, follow (init arr rs) (prefix f n) = Some s -> False).
  { intros s A. induction A as [s _ IH]. intros n Hn.
    destruct (H (S n)) as [s' Hs']. cbn [prefix] in Hs'. rewrite follow_app, Hn in Hs'.
    cbn [follow] in Hs'. destruct (step s (f n)) as [s2|] eqn:Es; [|discriminate]. injection Hs' as <-.
    apply (IH s2) with (n := S n).
    - split; [exact (reachable_inv arr rs s (follow_reachable _ _ _ Hn)) | exists (f n); exact Es].
    - cbn [prefix]. rewrite follow_app, Hn. cbn [follow]. rewrite Es. reflexivity. }
  destruct (H 0) as [s0 H0].
  apply (G s0 (terminates s0 (reachable_inv arr rs s0 (follow_reachable _ _ _ H0))) 0 H0).
Qed.

(* every schedule ends, and it ends with everything that opens delivered: from any reachable state
   every way of continuing reaches, after finitely many steps, a state where nothing can move; in
   that state every entry that opens has been delivered (every_decryptable_delivered) *)
Theorem eventually_quiescent arr rs s :
  reachable (init arr rs) s ->
  exists ts s', follow s ts = Some s' /\ quiescent s'.
Proof.
  intros R. pose proof (terminates s (reachable_inv arr rs s R)) as A.
  revert R. induction A as [s _ IH]. intros R.
  destruct (step s TA) as [s1|] eqn:Ea.
  { destruct (IH s1) as [ts [s' [H1 H2]]].
    - split; [exact (reachable_inv arr rs s R) | exists TA; exact Ea].
    - exact (reach_step _ s TA s1 R Ea).
    - exists (TA :: ts), s'. cbn [follow]. rewrite Ea. split; assumption. }
  destruct (step s TC) as [s1|] eqn:Ec.
  { destruct (IH s1) as [ts [s' [H1 H2]]].
    - split; [exact (reachable_inv arr rs s R) | exists TC; exact Ec].
    - exact (reach_step _ s TC s1 R Ec).
    - exists (TC :: ts), s'. cbn [follow]. rewrite Ec. split; assumption. }
  destruct (step s TR) as [s1|] eqn:Er.
  { destruct (IH s1) as [ts [s' [H1 H2]]].
    - split; [exact (reachable_inv arr rs s R) | exists TR; exact Er].
    - exact (reach_step _ s TR s1 R Er).
    - exists (TR :: ts), s'. cbn [follow]. rewrite Er. split; assumption. }
  exists [], s. split; [reflexivity|]. intros t. destruct t; assumption.
Qed.

Lemma reachable_follow s0 s ts s' : reachable s0 s -> follow s ts = Some s' -> reachable s0 s'.
Proof.
  revert s. induction ts as [|t ts IH]; intros s R H.
  - injection H as <-. exact R.
  - cbn [follow] in H. destruct (step s t) as [s1|] eqn:Es; [|discriminate].
    exact (IH s1 (reach_step s0 s t s1 R Es) H).
Qed.

(* liveness, in full: from every reachable state, however the threads are scheduled from there on, the
   run is finite (no_infinite_schedule / terminates), and there is a way to its end; at ANY end every
   entry that opens has been delivered *)
Theorem eventually_delivered arr rs s :
  reachable (init arr rs) s ->
  exists ts s', follow s ts = Some s' /\ quiescent s' /\
                forall m, In m arr -> decryptable (keys s') m = true -> In m (delivered s').
Proof.
  intros R. destruct (eventually_quiescent arr rs s R) as [ts [s' [H1 H2]]].
  exists ts, s'. split; [exact H1|]. split; [exact H2|].
  exact (every_decryptable_delivered arr rs s' (reachable_follow _ _ _ _ R H1) H2).
Qed.
