(* C17 — proofs: period arithmetic, symbolic points, and invariants of the rotation cache. *)
From Coq Require Import List ZArith Bool Lia.
From Wesh Require Import Model.C17_Rendezvous.
Import ListNotations.
Open Scope Z_scope.

(* ------------------------------------------------------------------ *)
(* period arithmetic (instants at or after the epoch, interval >= 1 s)  *)

Lemma round_period_div sec i : 0 <= sec -> 1 <= i -> round_period sec i = sec / i * i.
Proof. intros Hs Hi. unfold round_period. rewrite Z.quot_div_nonneg by lia. reflexivity. Qed.

Lemma round_period_spec sec i :
  0 <= sec -> 1 <= i ->
  round_period sec i <= sec < round_period sec i + i /\ round_period sec i = (sec / i) * i /\ 0 <= sec / i.
Proof.
  intros Hs Hi. rewrite round_period_div by assumption.
  pose proof (Z.div_mod sec i ltac:(lia)) as D. pose proof (Z.mod_pos_bound sec i ltac:(lia)) as B.
  pose proof (Z.div_pos sec i ltac:(lia) ltac:(lia)). nia.
Qed.

(* the period containing an instant: every instant of [k*i, (k+1)*i) rounds to k*i *)
Lemma round_period_unique sec i k :
  1 <= i -> 0 <= k -> k * i <= sec < (k + 1) * i -> round_period sec i = k * i.
Proof.
  intros Hi Hk H. assert (0 <= sec) by nia. rewrite round_period_div by lia.
  assert (sec / i = k); [|subst; reflexivity].
  symmetry. apply Z.div_unique with (r := sec - k * i); lia.
Qed.

Lemma round_period_idem sec i : 0 <= sec -> 1 <= i ->
  round_period (round_period sec i) i = round_period sec i.
Proof.
  intros Hs Hi. destruct (round_period_spec sec i Hs Hi) as (A & B & C).
  rewrite B. apply round_period_unique; nia.
Qed.

Lemma same_period_same_round s1 s2 i k :
  1 <= i -> 0 <= k -> k * i <= s1 < (k + 1) * i -> k * i <= s2 < (k + 1) * i ->
  round_period s1 i = round_period s2 i.
Proof. intros. rewrite (round_period_unique s1 i k), (round_period_unique s2 i k) by assumption. reflexivity. Qed.

Lemma next_period_changes sec i : 0 <= sec -> 1 <= i ->
  round_period (next_period sec i) i = round_period sec i + i.
Proof.
  intros Hs Hi. unfold next_period. destruct (round_period_spec sec i Hs Hi) as (A & B & C).
  rewrite B. replace (sec / i * i + i) with ((sec / i + 1) * i) by lia.
  apply (round_period_unique _ i (sec / i + 1)); nia.
Qed.

(* ------------------------------------------------------------------ *)
(* symbolic points                                                      *)

Lemma bytes_eqb_eq a : forall b, bytes_eqb a b = true <-> a = b.
Proof.
  induction a as [|x a IH]; destruct b as [|y b]; cbn; try (split; congruence).
  rewrite andb_true_iff, Z.eqb_eq, IH. split; [intros [-> ->]; reflexivity|intros E; injection E; auto].
Qed.
Lemma bytes_eqb_refl a : bytes_eqb a a = true. Proof. apply bytes_eqb_eq. reflexivity. Qed.

Lemma rotkey_eqb_eq a b : rotkey_eqb a b = true <-> a = b.
Proof.
  destruct a as [ka pa], b as [kb pb]. unfold rotkey_eqb. cbn [fst snd].
  rewrite andb_true_iff, bytes_eqb_eq, Z.eqb_eq. split; [intros [-> ->]; reflexivity|intros E; injection E; auto].
Qed.
Lemma rotkey_eqb_refl a : rotkey_eqb a a = true. Proof. apply rotkey_eqb_eq. reflexivity. Qed.
Lemma rotkey_eqb_neq a b : a <> b -> rotkey_eqb a b = false.
Proof. intros H. destruct (rotkey_eqb a b) eqn:E; [apply rotkey_eqb_eq in E; contradiction|reflexivity]. Qed.

(* the point changes with the period, and — for seeds of one length — with seed and topic *)
Lemma app_inj_len (a b c d : bytes) : a ++ b = c ++ d -> length b = length d -> a = c /\ b = d.
Proof.
  intros H L. assert (La : length a = length c).
  { apply (f_equal (@length Z)) in H. rewrite !app_length in H. lia. }
  revert c H La. induction a as [|x a IH]; intros [|y c] H La; cbn in *; try discriminate.
  - auto.
  - injection H as -> H. destruct (IH c H ltac:(lia)) as [-> ->]. auto.
Qed.

Lemma gen_point_injective t s p t' s' p' :
  length s = length s' ->
  gen_point t s p = gen_point t' s' p' -> t = t' /\ s = s' /\ p = p'.
Proof.
  unfold gen_point. intros L E. injection E as E1 E2.
  destruct (app_inj_len _ _ _ _ E1 L) as [-> ->]. auto.
Qed.

(* ------------------------------------------------------------------ *)
(* cache lookups                                                        *)

Lemma rotkey_eqb_sym a b : rotkey_eqb a b = rotkey_eqb b a.
Proof.
  destruct (rotkey_eqb a b) eqn:E1, (rotkey_eqb b a) eqn:E2; try reflexivity.
  - apply rotkey_eqb_eq in E1. subst. rewrite rotkey_eqb_refl in E2. discriminate.
  - apply rotkey_eqb_eq in E2. subst. rewrite rotkey_eqb_refl in E1. discriminate.
Qed.

Lemma lookup_rot_remove K K' l :
  lookup_rot K (remove_rot K' l) = if rotkey_eqb K' K then None else lookup_rot K l.
Proof.
  induction l as [|[k p] l IH]; cbn [remove_rot lookup_rot].
  - destruct (rotkey_eqb K' K); reflexivity.
  - destruct (rotkey_eqb k K') eqn:E1.
    + apply rotkey_eqb_eq in E1. subst k. rewrite IH. destruct (rotkey_eqb K' K); reflexivity.
    + cbn [lookup_rot]. rewrite IH. destruct (rotkey_eqb k K) eqn:E2; [|reflexivity].
      apply rotkey_eqb_eq in E2. subst k. rewrite rotkey_eqb_sym, E1. reflexivity.
Qed.

Lemma lookup_rot_fold K : forall due l,
  lookup_rot K (fold_left (fun l (t : Z * rotkey) => remove_rot (snd t) l) due l) =
  if existsb (fun t : Z * rotkey => rotkey_eqb (snd t) K) due then None else lookup_rot K l.
Proof.
  induction due as [|t due IH]; intros l; cbn [fold_left existsb]; [reflexivity|].
  rewrite IH, lookup_rot_remove. destruct (rotkey_eqb (snd t) K); cbn [orb]; [|reflexivity].
  destruct (existsb _ due); reflexivity.
Qed.

(* ------------------------------------------------------------------ *)
(* invariant of one RotationInterval                                    *)

Section Inv.
Variable L : nat.                       (* the fixed seed length *)

Definition wf_point (i : Z) (p : point) : Prop :=
  (exists k, 0 <= k /\ p_period p = k * i) /\ p_deadline p = p_period p + i /\ length (p_seed p) = L.

Definition good (R : list (bytes * bytes)) (i now : Z) (p : point) : Prop :=
  wf_point i p /\ p_period p * ns <= now /\ In (p_topic p, p_seed p) R.

Definition Inv (R : list (bytes * bytes)) (st : rstate) (now : Z) : Prop :=
  let i := r_interval st in
  1 <= i /\ 0 <= now /\
  (forall t p, lookup_topic t (r_topics st) = Some p -> p_topic p = t /\ good R i now p) /\
  (forall K p, lookup_rot K (r_rots st) = Some p -> p_rot p = K /\ good R i now p) /\
  (forall t p, lookup_topic t (r_topics st) = Some p -> now < p_deadline p * ns ->
               lookup_rot (p_rot p) (r_rots st) <> None) /\
  (forall f K, In (f, K) (r_timers st) ->
               (snd K + i) * ns <= now /\ (snd K + 2 * i) * ns + grace_ns <= f).

Lemma ns_pos : 0 < ns. Proof. reflexivity. Qed.

Lemma unix_bounds now : 0 <= now -> unix now * ns <= now < (unix now + 1) * ns /\ 0 <= unix now.
Proof.
  intros H. unfold unix. pose proof (Z.div_mod now ns ltac:(unfold ns; lia)) as D.
  pose proof (Z.mod_pos_bound now ns ns_pos) as B. pose proof (Z.div_pos now ns H ns_pos). nia.
Qed.

Lemma Inv_init i now R : 1 <= i -> 0 <= now -> Inv R (init_rstate i) now.
Proof. intros. unfold Inv. cbn. repeat split; try assumption; try discriminate; try contradiction. Qed.

Lemma new_point_good R st now t s :
  1 <= r_interval st -> 0 <= now -> length s = L -> In (t, s) R ->
  let p := new_point st (unix now) t s in
  p_topic p = t /\ p_seed p = s /\ good R (r_interval st) now p /\
  p_period p = round_period (unix now) (r_interval st) /\ now < p_deadline p * ns.
Proof.
  intros Hi Hn HL HR p. destruct (unix_bounds now Hn) as (U1 & U2).
  destruct (round_period_spec (unix now) (r_interval st) U2 Hi) as (A & B & C).
  unfold p, new_point, next_period. cbn [p_topic p_seed p_period p_deadline].
  rewrite round_period_idem by assumption.
  repeat split; auto.
  - exists (unix now / r_interval st). split; [exact C|exact B].
  - cbn [p_period]. nia.
  - nia.
Qed.

(* monotonicity in time and in the set of registered pairs *)
Lemma good_mono R R' i now now' p :
  good R i now p -> now <= now' -> incl R R' -> good R' i now' p.
Proof. intros (W & P & I) Hle Hinc. split; [exact W|]. split; [lia|apply Hinc, I]. Qed.

(* registering a point that is good and current keeps the invariant *)
Lemma Inv_register R st now p :
  Inv R st now -> good R (r_interval st) now p ->
  Inv R (register_point st p) now.
Proof.
  intros (I0 & I1 & I2 & I3 & I4 & I5) G. unfold Inv. cbn [register_point r_interval r_topics r_rots r_timers].
  refine (conj I0 (conj I1 (conj _ (conj _ (conj _ I5))))).
  - intros t p0 H. cbn [lookup_topic] in H. destruct (bytes_eqb (p_topic p) t) eqn:E.
    + injection H as <-. apply bytes_eqb_eq in E. split; [exact E|exact G].
    + apply (I2 t p0 H).
  - intros K p0 H. cbn [lookup_rot] in H. destruct (rotkey_eqb (p_rot p) K) eqn:E.
    + injection H as <-. apply rotkey_eqb_eq in E. split; [exact E|exact G].
    + apply (I3 K p0 H).
  - intros t p0 H Hd. cbn [lookup_topic] in H. cbn [lookup_rot].
    destruct (bytes_eqb (p_topic p) t) eqn:E.
    + injection H as <-. rewrite rotkey_eqb_refl. discriminate.
    + destruct (rotkey_eqb (p_rot p) (p_rot p0)); [discriminate|]. apply (I4 t p0 H Hd).
Qed.

(* rotate, called on an expired point of the cache *)
Lemma Inv_rotate R st now old :
  Inv R st now -> good R (r_interval st) now old -> is_expired CmpLe old now = true ->
  Inv R (fst (rotate CmpLe st now old)) now /\
  r_interval (fst (rotate CmpLe st now old)) = r_interval st /\
  (let np := snd (rotate CmpLe st now old) in
   p_topic np = p_topic old /\ p_seed np = p_seed old /\
   p_period np = round_period (unix now) (r_interval st) /\ now < p_deadline np * ns /\
   lookup_rot (p_rot np) (r_rots (fst (rotate CmpLe st now old))) = Some np) /\
  (forall K, lookup_rot K (r_rots st) <> None -> lookup_rot K (r_rots (fst (rotate CmpLe st now old))) <> None).
Proof.
  intros HI G E. unfold rotate. rewrite E. cbn [fst snd].
  pose proof HI as (I0 & I1 & I2 & I3 & I4 & I5).
  destruct G as (W & Gp & GR). destruct W as (Wk & Wd & Wl).
  pose proof (new_point_good R st now (p_topic old) (p_seed old) I0 I1 Wl GR) as N. cbn zeta in N.
  set (np := new_point st (unix now) (p_topic old) (p_seed old)) in *.
  destruct N as (N1 & N2 & N3 & N4 & N5).
  pose proof (Inv_register R st now np HI N3) as (J0 & J1 & J2 & J3 & J4 & J5).
  cbn [register_point r_interval r_topics r_rots r_timers] in *.
  split; [|split; [reflexivity|split]].
  - unfold Inv. cbn [r_interval r_topics r_rots r_timers].
    refine (conj I0 (conj I1 (conj J2 (conj J3 (conj J4 _))))).
    intros f K H. apply in_app_or in H. destruct H as [H|[H|[]]]; [apply (I5 f K H)|].
    injection H as <- <-. unfold is_expired, cmp0, ttl in E. apply Z.leb_le in E.
    unfold p_rot, gen_point. cbn [snd].
    destruct (unix_bounds now I1) as (U1 & U2).
    destruct (round_period_spec (unix now) (r_interval st) U2 I0) as (A & B & C).
    unfold next_period. rewrite round_period_idem by assumption.
    assert (Hdl : p_deadline old <= unix now) by nia.
    destruct Wk as (k & Hk & Hper).
    assert (Hr : p_deadline old <= round_period (unix now) (r_interval st)).
    { rewrite B, Wd, Hper.
      assert ((k + 1) <= unix now / r_interval st) by (apply Z.div_le_lower_bound; nia).
      nia. }
    unfold grace_ns, ns in *. split; [nia|]. apply Z.le_trans with (m := now + ((round_period (unix now) (r_interval st) + r_interval st) * 1000000000 + 86400 * 1000000000 - now)); [nia|]. apply Z.add_le_mono_l. apply Z.le_max_l.
  - cbn zeta. repeat split; auto. cbn [lookup_rot]. rewrite rotkey_eqb_refl. reflexivity.
  - intros K HK. cbn [lookup_rot]. destruct (rotkey_eqb (p_rot np) K); [discriminate|exact HK].
Qed.

Lemma Inv_interval_rotate st now old : r_interval (fst (rotate CmpLe st now old)) = r_interval st.
Proof. unfold rotate. destruct (is_expired CmpLe old now); reflexivity. Qed.

(* a cached point that is not expired is the point of the period containing now *)
Lemma current_period R st now p :
  Inv R st now -> good R (r_interval st) now p -> now < p_deadline p * ns ->
  p_period p = round_period (unix now) (r_interval st).
Proof.
  intros (I0 & I1 & _) (((k & Hk & Hper) & Wd & _) & Gp & _) Hd.
  destruct (unix_bounds now I1) as (U1 & U2).
  symmetry. rewrite Hper. apply round_period_unique; try assumption.
  rewrite Wd, Hper in Hd. unfold ns in *. nia.
Qed.

(* resolve_current *)
Lemma resolve_current R st now t p0 :
  Inv R st now -> lookup_topic t (r_topics st) = Some p0 ->
  exists p,
    snd (point_for_topic CmpLe st now t) = Some p /\
    p_topic p = t /\ p_seed p = p_seed p0 /\
    p_period p = round_period (unix now) (r_interval st) /\ now < p_deadline p * ns /\
    Inv R (fst (point_for_topic CmpLe st now t)) now /\
    r_interval (fst (point_for_topic CmpLe st now t)) = r_interval st /\
    lookup_rot (p_rot p) (r_rots (fst (point_for_topic CmpLe st now t))) <> None /\
    (forall K, lookup_rot K (r_rots st) <> None ->
               lookup_rot K (r_rots (fst (point_for_topic CmpLe st now t))) <> None).
Proof.
  intros HI H. unfold point_for_topic. rewrite H.
  pose proof HI as (I0 & I1 & I2 & I3 & I4 & I5).
  destruct (I2 t p0 H) as (Ht & G).
  destruct (is_expired CmpLe p0 now) eqn:E.
  - pose proof (Inv_rotate R st now p0 HI G E) as (J1 & J2 & J3 & J4).
    destruct (rotate CmpLe st now p0) as [st' np]. cbn [fst snd] in *. cbn zeta in J3.
    destruct J3 as (A & B & C & D & F).
    exists np. split; [reflexivity|]. split; [congruence|]. split; [exact B|]. split; [exact C|].
    split; [exact D|]. split; [exact J1|]. split; [exact J2|]. split; [rewrite F; discriminate|exact J4].
  - cbn [fst snd]. unfold is_expired, cmp0, ttl in E. apply Z.leb_gt in E.
    exists p0. split; [reflexivity|]. split; [exact Ht|]. split; [reflexivity|].
    split; [apply (current_period R st now p0 HI G); lia|]. split; [lia|].
    split; [exact HI|]. split; [reflexivity|]. split; [apply (I4 t p0 H); lia|auto].
Qed.

Lemma resolve_unregistered st now t :
  lookup_topic t (r_topics st) = None -> point_for_topic CmpLe st now t = (st, None).
Proof. intros H. unfold point_for_topic. rewrite H. reflexivity. Qed.

(* PointForRotation of a value present in the cache: maps back to the same topic and seed *)
Lemma rotation_known R st now K q :
  Inv R st now -> lookup_rot K (r_rots st) = Some q ->
  exists p,
    snd (point_for_rotation CmpLe st now K) = Some p /\
    p_topic p = p_topic q /\ p_seed p = p_seed q /\
    Inv R (fst (point_for_rotation CmpLe st now K)) now /\
    r_interval (fst (point_for_rotation CmpLe st now K)) = r_interval st /\
    (forall K', lookup_rot K' (r_rots st) <> None ->
                lookup_rot K' (r_rots (fst (point_for_rotation CmpLe st now K))) <> None).
Proof.
  intros HI H. unfold point_for_rotation. rewrite H.
  pose proof HI as (I0 & I1 & I2 & I3 & I4 & I5).
  destruct (I3 K q H) as (Hk & G).
  destruct (is_expired CmpLe q now) eqn:E.
  - pose proof (Inv_rotate R st now q HI G E) as (J1 & J2 & J3 & J4).
    destruct (rotate CmpLe st now q) as [st' np]. cbn [fst snd] in *. cbn zeta in J3.
    destruct J3 as (A & B & C & D & F). exists np.
    split; [reflexivity|]. split; [exact A|]. split; [exact B|]. split; [exact J1|]. split; [exact J2|exact J4].
  - cbn [fst snd]. exists q.
    split; [reflexivity|]. split; [reflexivity|]. split; [reflexivity|]. split; [exact HI|]. split; [reflexivity|auto].
Qed.

Lemma rotation_unknown st now K :
  lookup_rot K (r_rots st) = None -> point_for_rotation CmpLe st now K = (st, None).
Proof. intros H. unfold point_for_rotation. rewrite H. reflexivity. Qed.

(* unknown_refused: a rotation value of a (topic, seed) pair this peer never registered is
   not in the cache, whatever the period *)
Lemma unknown_refused R st now t s per :
  Inv R st now -> length s = L -> ~ In (t, s) R ->
  point_for_rotation CmpLe st now (gen_point t s per) = (st, None).
Proof.
  intros (I0 & I1 & I2 & I3 & I4 & I5) HL Hnot. apply rotation_unknown.
  destruct (lookup_rot (gen_point t s per) (r_rots st)) as [q|] eqn:E; [|reflexivity].
  exfalso. destruct (I3 _ q E) as (Hk & ((_ & _ & Wl) & _ & HR)).
  unfold p_rot in Hk. apply gen_point_injective in Hk; [|congruence].
  destruct Hk as (Hk1 & Hk2 & _). rewrite Hk1, Hk2 in HR. contradiction.
Qed.

(* time passes, due timers fire *)
Lemma Inv_fire R st now now' :
  Inv R st now -> now <= now' -> Inv R (fire st now') now'.
Proof.
  intros (I0 & I1 & I2 & I3 & I4 & I5) Hle. unfold Inv, fire. cbn [r_interval r_topics r_rots r_timers].
  refine (conj I0 (conj _ (conj _ (conj _ (conj _ _))))); [lia| | | |].
  - intros t p H. destruct (I2 t p H) as (A & G). split; [exact A|]. eapply good_mono; [exact G|lia|apply incl_refl].
  - intros K p H. rewrite lookup_rot_fold in H.
    destruct (existsb _ _); [discriminate|]. destruct (I3 K p H) as (A & G). split; [exact A|].
    eapply good_mono; [exact G|lia|apply incl_refl].
  - intros t p H Hd. rewrite lookup_rot_fold.
    destruct (existsb _ _) eqn:Ex.
    + exfalso. apply existsb_exists in Ex. destruct Ex as ((f & K) & Hin & HK).
      apply filter_In in Hin. destruct Hin as (Hin & _). cbn [snd] in HK.
      apply rotkey_eqb_eq in HK. subst K. destruct (I5 f _ Hin) as (T1 & _).
      destruct (I2 t p H) as (_ & ((_ & Wd & _) & Gp & _)).
      unfold p_rot, gen_point in T1. cbn [snd] in T1. rewrite Wd in Hd. lia.
    + apply (I4 t p H). lia.
  - intros f K Hin. apply filter_In in Hin. destruct Hin as (Hin & _). destruct (I5 f K Hin). split; lia.
Qed.

(* grace_accepts_previous: a rotation value present in the cache stays acceptable at least
   until two intervals plus the grace period after the start of its own period *)
Lemma rot_persist R st now now' K :
  Inv R st now -> lookup_rot K (r_rots st) <> None -> now <= now' ->
  now' < (snd K + 2 * r_interval st) * ns + grace_ns ->
  lookup_rot K (r_rots (fire st now')) <> None.
Proof.
  intros (I0 & I1 & I2 & I3 & I4 & I5) H Hle Hb. unfold fire. cbn [r_rots].
  rewrite lookup_rot_fold. destruct (existsb _ _) eqn:Ex; [|exact H].
  exfalso. apply existsb_exists in Ex. destruct Ex as ((f & K') & Hin & HK).
  apply filter_In in Hin. destruct Hin as (Hin & Hf). cbn [fst snd] in *.
  apply rotkey_eqb_eq in HK. subst K'. destruct (I5 f K Hin) as (_ & T2).
  apply Z.leb_le in Hf. lia.
Qed.

(* RegisterRotation(now, topic, seed) *)
Lemma Inv_register_op R st now t s :
  Inv R st now -> length s = L ->
  Inv ((t, s) :: R) (register_point st (new_point st (unix now) t s)) now.
Proof.
  intros HI HL. pose proof HI as (I0 & I1 & I2 & I3 & I4 & I5).
  assert (HI' : Inv ((t, s) :: R) st now).
  { refine (conj I0 (conj I1 (conj _ (conj _ (conj I4 I5))))).
    - intros t0 p H. destruct (I2 t0 p H) as (A & G). split; [exact A|].
      eapply good_mono; [exact G|lia|apply incl_tl, incl_refl].
    - intros K p H. destruct (I3 K p H) as (A & G). split; [exact A|].
      eapply good_mono; [exact G|lia|apply incl_tl, incl_refl]. }
  apply Inv_register; [exact HI'|].
  apply (new_point_good ((t, s) :: R) st now t s I0 I1 HL). left. reflexivity.
Qed.

(* peers_agree: B has resolved the topic (same seed) in the current period; the rotation
   value A resolves now is accepted by B and mapped back to the same topic *)
Lemma peers_agree Ra Rb sta stb now t pa0 pb :
  Inv Ra sta now -> Inv Rb stb now -> r_interval sta = r_interval stb ->
  lookup_topic t (r_topics sta) = Some pa0 ->
  lookup_topic t (r_topics stb) = Some pb -> now < p_deadline pb * ns ->
  p_seed pb = p_seed pa0 ->
  exists pa q,
    snd (point_for_topic CmpLe sta now t) = Some pa /\
    snd (point_for_rotation CmpLe stb now (p_rot pa)) = Some q /\ p_topic q = t.
Proof.
  intros HA HB Hi Ha Hb Hd Hs.
  destruct (resolve_current Ra sta now t pa0 HA Ha) as (pa & A1 & A2 & A3 & A4 & _).
  pose proof HB as (I0 & I1 & I2 & I3 & I4 & I5).
  destruct (I2 t pb Hb) as (Bt & Gb).
  pose proof (current_period Rb stb now pb HB Gb Hd) as Bp.
  assert (Hrot : p_rot pb = p_rot pa).
  { unfold p_rot. rewrite Bt, A2, Hs, A3, Bp, A4, Hi. reflexivity. }
  destruct (lookup_rot (p_rot pb) (r_rots stb)) as [q0|] eqn:E; [|exfalso; apply (I4 t pb Hb Hd); exact E].
  rewrite Hrot in E.
  destruct (rotation_known Rb stb now (p_rot pa) q0 HB E) as (q & Q1 & Q2 & Q3 & _).
  exists pa, q. repeat split; auto.
  destruct (I3 _ q0 E) as (Hk & ((_ & _ & Wl) & _)).
  destruct Gb as ((_ & _ & Wlb) & _).
  rewrite <- Hrot in Hk. unfold p_rot in Hk. apply gen_point_injective in Hk; [|congruence].
  destruct Hk as (Hk & _). congruence.
Qed.

End Inv.

(* ------------------------------------------------------------------ *)
(* every reachable world satisfies the invariant                        *)

Definition regs_step (b : bool) (R : list (bytes * bytes)) (o : op) : list (bytes * bytes) :=
  match o with
  | ORegister b' t s => if Bool.eqb b b' then (t, s) :: R else R
  | _ => R
  end.

Definition op_ok (L : nat) (o : op) : Prop :=
  match o with
  | ORegister _ _ s => length s = L
  | OAdvance dt => 0 <= dt
  | _ => True
  end.

Definition WInv (L : nat) (Ra Rb : list (bytes * bytes)) (w : world) : Prop :=
  Inv L Ra (w_a w) (w_now w) /\ Inv L Rb (w_b w) (w_now w) /\ r_interval (w_a w) = r_interval (w_b w).

Lemma rotation_step L R st now K :
  Inv L R st now ->
  Inv L R (fst (point_for_rotation CmpLe st now K)) now /\
  r_interval (fst (point_for_rotation CmpLe st now K)) = r_interval st.
Proof.
  intros HI. destruct (lookup_rot K (r_rots st)) as [q|] eqn:E.
  - destruct (rotation_known L R st now K q HI E) as (p & _ & _ & _ & A & B & _). auto.
  - rewrite rotation_unknown by exact E. auto.
Qed.

Lemma topic_step L R st now t :
  Inv L R st now ->
  Inv L R (fst (point_for_topic CmpLe st now t)) now /\
  r_interval (fst (point_for_topic CmpLe st now t)) = r_interval st.
Proof.
  intros HI. destruct (lookup_topic t (r_topics st)) as [p0|] eqn:E.
  - destruct (resolve_current L R st now t p0 HI E) as (p & _ & _ & _ & _ & _ & A & B & _). auto.
  - rewrite resolve_unregistered by exact E. auto.
Qed.

Lemma wstep_inv L Ra Rb w o :
  WInv L Ra Rb w -> op_ok L o ->
  WInv L (regs_step false Ra o) (regs_step true Rb o) (fst (wstep CmpLe w o)).
Proof.
  intros (HA & HB & Hi) Hok. destruct o as [b t s|b t|b K|b t|dt]; cbn [wstep regs_step op_ok] in *.
  - destruct b; cbn [get_peer set_peer fst Bool.eqb w_a w_b w_now].
    + unfold WInv; cbn [w_a w_b w_now]; split; [exact HA|]. split; [apply Inv_register_op; assumption|exact Hi].
    + unfold WInv; cbn [w_a w_b w_now]; split; [apply Inv_register_op; assumption|]. split; [exact HB|exact Hi].
  - destruct b; cbn [get_peer].
    + destruct (topic_step L Rb (w_b w) (w_now w) t HB) as (A & B).
      destruct (point_for_topic CmpLe (w_b w) (w_now w) t) as [st' p]. cbn [fst snd set_peer] in *.
      unfold WInv; cbn [w_a w_b w_now]; split; [exact HA|]. split; [exact A|congruence].
    + destruct (topic_step L Ra (w_a w) (w_now w) t HA) as (A & B).
      destruct (point_for_topic CmpLe (w_a w) (w_now w) t) as [st' p]. cbn [fst snd set_peer] in *.
      unfold WInv; cbn [w_a w_b w_now]; split; [exact A|]. split; [exact HB|congruence].
  - destruct b; cbn [get_peer].
    + destruct (rotation_step L Rb (w_b w) (w_now w) K HB) as (A & B).
      destruct (point_for_rotation CmpLe (w_b w) (w_now w) K) as [st' p]. cbn [fst snd set_peer] in *.
      unfold WInv; cbn [w_a w_b w_now]; split; [exact HA|]. split; [exact A|congruence].
    + destruct (rotation_step L Ra (w_a w) (w_now w) K HA) as (A & B).
      destruct (point_for_rotation CmpLe (w_a w) (w_now w) K) as [st' p]. cbn [fst snd set_peer] in *.
      unfold WInv; cbn [w_a w_b w_now]; split; [exact A|]. split; [exact HB|congruence].
  - destruct b; cbn [get_peer negb].
    + destruct (topic_step L Rb (w_b w) (w_now w) t HB) as (A & B).
      destruct (point_for_topic CmpLe (w_b w) (w_now w) t) as [st' [p|]]; cbn [fst snd set_peer get_peer w_a w_b w_now] in *.
      * destruct (rotation_step L Ra (w_a w) (w_now w) (p_rot p) HA) as (C & D).
        destruct (point_for_rotation CmpLe (w_a w) (w_now w) (p_rot p)) as [st2 q]. cbn [fst snd set_peer w_a w_b w_now] in *.
        unfold WInv; cbn [w_a w_b w_now]; split; [exact C|]. split; [exact A|congruence].
      * unfold WInv; cbn [w_a w_b w_now]; split; [exact HA|]. split; [exact A|congruence].
    + destruct (topic_step L Ra (w_a w) (w_now w) t HA) as (A & B).
      destruct (point_for_topic CmpLe (w_a w) (w_now w) t) as [st' [p|]]; cbn [fst snd set_peer get_peer w_a w_b w_now] in *.
      * destruct (rotation_step L Rb (w_b w) (w_now w) (p_rot p) HB) as (C & D).
        destruct (point_for_rotation CmpLe (w_b w) (w_now w) (p_rot p)) as [st2 q]. cbn [fst snd set_peer w_a w_b w_now] in *.
        unfold WInv; cbn [w_a w_b w_now]; split; [exact A|]. split; [exact C|congruence].
      * unfold WInv; cbn [w_a w_b w_now]; split; [exact A|]. split; [exact HB|congruence].
  - cbn [fst]. unfold WInv; cbn [w_a w_b w_now]. split; [apply (Inv_fire L Ra _ (w_now w)); [exact HA|lia]|].
    unfold WInv; cbn [w_a w_b w_now]; split; [apply (Inv_fire L Rb _ (w_now w)); [exact HB|lia]|]. exact Hi.
Qed.

Definition wfinal (w : world) (ops : list op) : world := fold_left (fun w o => fst (wstep CmpLe w o)) ops w.

Theorem reachable_inv L : forall ops Ra Rb w,
  WInv L Ra Rb w -> Forall (op_ok L) ops ->
  WInv L (fold_left (regs_step false) ops Ra) (fold_left (regs_step true) ops Rb) (wfinal w ops).
Proof.
  induction ops as [|o ops IH]; intros Ra Rb w HW Hok; cbn [fold_left wfinal]; [exact HW|].
  inversion Hok; subst. apply IH; [apply wstep_inv; assumption|assumption].
Qed.

Lemma WInv_init L now i : 1 <= i -> 0 <= now -> WInv L [] [] (init_world now i).
Proof. intros. split; [apply Inv_init; assumption|]. split; [apply Inv_init; assumption|reflexivity]. Qed.

(* the inverted comparison of the pinned tree refutes resolve_current: one second after the
   deadline the stale point is still returned *)
Lemma resolve_current_refuted_with_gt :
  exists ops, wrun CmpGt (init_world 0 1) ops <> wrun CmpLe (init_world 0 1) ops /\
    nth 2 (wrun CmpGt (init_world 0 1) ops) None = Some (([7; 9], 0), 1, [7]).
Proof.
  exists [ORegister false [7] [9]; OAdvance (2 * ns); OTopic false [7]].
  split; [vm_compute; discriminate|vm_compute; reflexivity].
Qed.
