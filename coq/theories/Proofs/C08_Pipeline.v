(* C08 — proofs: an inductive invariant of the pipeline LTS over every schedule, and what it
   gives at quiescence. *)
From Coq Require Import List NArith Bool Lia Arith.
From Wesh Require Import Model.C08_Pipeline.
Import ListNotations.
Open Scope N_scope.

Lemma msg_eq_dec (a b : msg) : {a = b} + {a <> b}.
Proof. decide equality; apply N.eq_dec. Qed.

Definition cnt (x : msg) (l : list msg) : nat := count_occ msg_eq_dec l x.

Arguments cnt : simpl never.

Lemma cnt_app x a b : cnt x (a ++ b) = (cnt x a + cnt x b)%nat.
Proof. apply count_occ_app. Qed.

Lemma cnt_in x l : (cnt x l > 0)%nat <-> In x l.
Proof. unfold cnt. symmetry. apply count_occ_In. Qed.

Lemma cnt_cons x y l : cnt x (y :: l) = ((if msg_eq_dec y x then 1 else 0) + cnt x l)%nat.
Proof. unfold cnt. cbn. destruct (msg_eq_dec y x); reflexivity. Qed.
Lemma cnt_nil x : cnt x [] = 0%nat.
Proof. reflexivity. Qed.

Lemma insert_ctr_cnt x m l : cnt x (insert_ctr m l) = cnt x (m :: l).
Proof.
  induction l as [|y l IH]; [reflexivity|].
  cbn [insert_ctr]. destruct (m_ctr m <=? m_ctr y); [reflexivity|].
  unfold cnt in *. cbn [count_occ] in *. rewrite IH.
  destruct (msg_eq_dec y x), (msg_eq_dec m x); lia.
Qed.

Lemma sort_ctr_cnt x l : cnt x (sort_ctr l) = cnt x l.
Proof.
  induction l as [|y l IH]; [reflexivity|]. cbn [sort_ctr fold_right].
  fold (sort_ctr l). rewrite insert_ctr_cnt. unfold cnt in *. cbn [count_occ]. rewrite IH. reflexivity.
Qed.

Ltac cntnorm := unfold parked_of in *; rewrite ?cnt_app, ?cnt_cons, ?cnt_nil, ?sort_ctr_cnt in *.

Lemma upd_same {A} (f : N -> A) k v : upd f k v k = v.
Proof. unfold upd. rewrite N.eqb_refl. reflexivity. Qed.
Lemma upd_other {A} (f : N -> A) k v x : x <> k -> upd f k v x = f x.
Proof. unfold upd. intros H. destruct (N.eqb_spec x k); congruence. Qed.

(* the message the consumer holds and has not yet put anywhere *)
Definition held (s : state) : list msg :=
  match cons s with
  | CWait => []
  | CLock m | CParkIn m | CProc m | CFlush m | CRepark m => [m]
  | CUnlock m k => if k then [m] else []
  end.

Definition cons_holds_lock (c : cpc) : bool := match c with CParkIn _ | CUnlock _ _ => true | _ => false end.
Definition reg_holds_lock (r : rpc) : bool := match r with RFlush _ | RUnlock _ => true | _ => false end.

Record Inv (s : state) : Prop := mkInv {
  iL : lock s = (if cons_holds_lock (cons s) then HeldC else if reg_holds_lock (reg s) then HeldR else Free) /\
       (cons_holds_lock (cons s) && reg_holds_lock (reg s) = false);
  iJ1 : forall d, flag_of s d = true -> key_known (keys s) d = true;
  iJ2 : forall d m, flag_of s d = true -> In m (parked_of s d) -> decryptable (keys s) m = true -> reg s = RFlush d;
  iJ3 : forall d c, caches s d = Some c -> known c = false -> key_known (keys s) d = true -> reg s = RLock d;
  iJ4 : forall m, cons s = CParkIn m -> exists c, caches s (m_dev m) = Some c /\ known c = false;
  iJ5 : forall d m, In m (parked_of s d) -> m_dev m = d;
  iJ6 : forall m, cons s = CProc m \/ cons s = CFlush m \/ cons s = CUnlock m true \/ cons s = CRepark m -> flag_of s (m_dev m) = true;
  iJ6r : forall m, cons s = CRepark m -> decryptable (keys s) m = false;
  iJ6f : forall m, cons s = CFlush m -> decryptable (keys s) m = true;
  iJ7 : forall x, cnt x (arrived s) = (cnt x (fifo s) + cnt x (parked_of s (m_dev x)) + cnt x (held s) + cnt x (delivered s))%nat;
  iJ8 : forall m, In m (delivered s) -> decryptable (keys s) m = true;
  iJ9 : forall d, reg s = RFlush d -> flag_of s d = true
}.

Lemma inv_init arr rs : Inv (init arr rs).
Proof.
  constructor; cbn.
  - split; reflexivity.
  - intros d H. discriminate.
  - intros d m H. discriminate.
  - intros d c H. discriminate.
  - intros m H. discriminate.
  - intros d m [].
  - intros m [H|[H|[H|H]]]; discriminate.
  - intros m H. discriminate.
  - intros m H. discriminate.
  - intros x. reflexivity.
  - intros m [].
  - intros d H. discriminate.
Qed.

Lemma flag_upd s d c d' :
  (match upd (caches s) d (Some c) d' with Some c0 => known c0 | None => false end) =
  if d' =? d then known c else flag_of s d'.
Proof. unfold upd, flag_of. destruct (d' =? d); reflexivity. Qed.

Lemma parked_upd s d c d' :
  (match upd (caches s) d (Some c) d' with Some c0 => parked c0 | None => [] end) =
  if d' =? d then parked c else parked_of s d'.
Proof. unfold upd, parked_of. destruct (d' =? d); reflexivity. Qed.

Ltac flagp := unfold flag_of, parked_of in *; cbn [caches] in *; rewrite ?flag_upd, ?parked_upd in *.

(* decryptability of a message of a device whose key is already known does not change when
   another registration happens *)
Lemma reg_keys_stable (ks : N -> option N) d c m :
  key_known ks (m_dev m) = true ->
  decryptable (match ks d with Some _ => ks | None => upd ks d (Some c) end) m = decryptable ks m.
Proof.
  intros Hk. destruct (ks d) eqn:E; [reflexivity|].
  unfold decryptable, upd. destruct (N.eqb_spec (m_dev m) d) as [Ed|_]; [|reflexivity].
  unfold key_known in Hk. rewrite Ed, E in Hk. discriminate.
Qed.

Lemma reg_keys_mono (ks : N -> option N) d c m :
  decryptable ks m = true ->
  decryptable (match ks d with Some _ => ks | None => upd ks d (Some c) end) m = true.
Proof.
  intros H. rewrite reg_keys_stable; [exact H|].
  unfold decryptable in H. unfold key_known. destruct (ks (m_dev m)); [reflexivity | discriminate].
Qed.

Lemma reg_known_mono (ks : N -> option N) d c d' :
  key_known ks d' = true -> key_known (match ks d with Some _ => ks | None => upd ks d (Some c) end) d' = true.
Proof.
  intros H. destruct (ks d) eqn:E; [exact H|]. unfold key_known, upd in *.
  destruct (N.eqb_spec d' d); [reflexivity | exact H].
Qed.

Lemma step_inv s t s' : Inv s -> step s t = Some s' -> Inv s'.
Proof.
  intros I Hs. destruct I as [[IL IX] I1 I2 I3 I4 I5 I6 I6r I6f I7 I8 I9].
  destruct t; unfold step in Hs.
  - (* arrival *)
    destruct (arrivals s) as [|m rest] eqn:Ea; [discriminate|]. inversion Hs; subst; clear Hs.
    constructor; cbn; try assumption.
    + split; assumption.
    + intros x. unfold held, parked_of in *. cbn. rewrite !cnt_app, (I7 x). cbn. cntnorm. lia.
  - (* consumer *)
    destruct (cons s) as [|m|m|m k|m|m|m] eqn:Ec.
    + (* CWait: take *)
      destruct (fifo s) as [|m rest] eqn:Ef; [discriminate|]. inversion Hs; subst; clear Hs.
      constructor; cbn; try assumption; try (intros; discriminate).
      * cbn in IL, IX. split; [exact IL | exact IX].
      * intros m0 [H|[H|[H|H]]]; discriminate.
      * intros x. specialize (I7 x). unfold held, parked_of in *. rewrite ?Ec, ?Ef in I7. cbn in *.
        cntnorm; destruct (msg_eq_dec m x); lia.
    + (* CLock *)
      destruct (lock s) eqn:El; try discriminate. inversion Hs; subst; clear Hs.
      cbn in IL, IX.
      assert (Hr : reg_holds_lock (reg s) = false) by (destruct (reg_holds_lock (reg s)); [discriminate | reflexivity]).
      set (d := m_dev m).
      set (c := match caches s d with Some c => c | None => mkCache (key_known (keys s) d) [] end).
      assert (Fk : known c = flag_of s d \/ (caches s d = None /\ known c = key_known (keys s) d)).
      { unfold c, flag_of. destruct (caches s d); [left; reflexivity | right; split; reflexivity]. }
      assert (Fp : parked c = parked_of s d) by (unfold c, parked_of; destruct (caches s d); reflexivity).
      assert (F1 : known c = true -> key_known (keys s) d = true).
      { destruct Fk as [E|[_ E]]; rewrite E; [apply I1 | tauto]. }
      assert (F3 : known c = false -> key_known (keys s) d = true -> reg s = RLock d).
      { intros H1 H2. unfold c in H1. destruct (caches s d) as [c0|] eqn:Ecd; [apply (I3 d c0 Ecd H1 H2) | cbn in H1; congruence]. }
      constructor; cbn.
      * destruct (known c); cbn; rewrite Hr; split; reflexivity.
      * intros d0. flagp. destruct (N.eqb_spec d0 d) as [->|_]; [exact F1 | apply I1].
      * intros d0 m0. flagp. destruct (N.eqb_spec d0 d) as [->|_]; [|apply I2].
        rewrite Fp. intros Hk Hin Hd. apply (I2 d m0); try assumption.
        destruct Fk as [E|[En E]]; [rewrite <- E; exact Hk|].
        exfalso. unfold parked_of in Hin. rewrite En in Hin. destruct Hin.
      * intros d0 c0. unfold upd. destruct (N.eqb_spec d0 d) as [->|_]; [|apply I3].
        intros H. inversion H; subst c0. exact F3.
      * intros m0 H. destruct (known c) eqn:Ek; [discriminate|]. inversion H; subst.
        fold d. rewrite upd_same. exists c. split; [reflexivity | exact Ek].
      * intros d0 m0. flagp. destruct (N.eqb_spec d0 d) as [->|_]; [|apply I5].
        rewrite Fp. apply I5.
      * intros m0 H. destruct (known c) eqn:Ek.
        -- destruct H as [H|[H|[H|H]]]; try discriminate. inversion H; subst. flagp. fold d. rewrite N.eqb_refl. exact Ek.
        -- destruct H as [H|[H|[H|H]]]; discriminate.
      * intros m0 H. destruct (known c); discriminate.
      * intros m0 H. destruct (known c); discriminate.
      * intros x. specialize (I7 x). unfold held, parked_of in *. rewrite ?Ec in I7. cbn in *. flagp.
        assert (Hp : (if m_dev x =? d then parked c else parked_of s (m_dev x)) = parked_of s (m_dev x)).
        { destruct (N.eqb_spec (m_dev x) d) as [E|_]; [rewrite E; exact Fp | reflexivity]. }
        rewrite Hp. destruct (known c); cbn; exact I7.
      * exact I8.
      * intros d0 H. rewrite H in Hr. discriminate.
    + (* CParkIn: park under the lock *)
      inversion Hs; subst; clear Hs. set (d := m_dev m).
      destruct (I4 m eq_refl) as [c [Ecd Ekn]]. fold d in Ecd.
      cbn in IL, IX.
      constructor; cbn.
      * split; [exact IL | exact IX].
      * intros d0. flagp. destruct (N.eqb_spec d0 d) as [->|_]; cbn; [discriminate | apply I1].
      * intros d0 m0. flagp. destruct (N.eqb_spec d0 d) as [->|_]; cbn; [discriminate | apply I2].
      * intros d0 c0. unfold upd. destruct (N.eqb_spec d0 d) as [->|_].
        -- intros H. inversion H; subst. cbn. intros _ Hk. apply (I3 d c Ecd Ekn Hk).
        -- apply I3.
      * intros m0 H. discriminate.
      * intros d0 m0. flagp. destruct (N.eqb_spec d0 d) as [->|_]; [|apply I5].
        fold d. rewrite Ecd. intros Hin. apply in_app_iff in Hin. destruct Hin as [Hin|[<-|[]]]; [|reflexivity].
        apply (I5 d m0). unfold parked_of. rewrite Ecd. exact Hin.
      * intros m0 [H|[H|[H|H]]]; discriminate.
      * intros m0 H. discriminate.
      * intros m0 H. discriminate.
      * intros x. specialize (I7 x). unfold held, parked_of in *. rewrite ?Ec in I7. cbn in *. flagp.
        destruct (N.eqb_spec (m_dev x) d) as [E|Hne].
        -- rewrite E in I7. fold d. cbn [parked]. rewrite Ecd in *. cntnorm; destruct (msg_eq_dec m x); lia.
        -- destruct (msg_eq_dec m x) as [->|Hmx]; [exfalso; apply Hne; reflexivity|]. cntnorm. destruct (msg_eq_dec m x); [contradiction|]. lia.
      * exact I8.
      * intros d0 H. rewrite H in IX. cbn in IX. discriminate.
    + (* CUnlock *)
      inversion Hs; subst; clear Hs. cbn in IL, IX.
      assert (Hr : reg_holds_lock (reg s) = false) by (destruct (reg_holds_lock (reg s)); [discriminate | reflexivity]).
      constructor; cbn; try assumption.
      * destruct k; cbn; rewrite Hr; split; reflexivity.
      * intros m0 H. destruct k; discriminate.
      * intros m0 H. destruct k.
        -- destruct H as [H|[H|[H|H]]]; try discriminate. inversion H; subst. apply I6. right. right. left. reflexivity.
        -- destruct H as [H|[H|[H|H]]]; discriminate.
      * intros m0 H. destruct k; discriminate.
      * intros m0 H. destruct k; discriminate.
      * intros x. specialize (I7 x). unfold held, parked_of in *. rewrite ?Ec in I7. destruct k; cbn in *; exact I7.
    + (* CProc *)
      inversion Hs; subst; clear Hs. unfold set_cons.
      cbn in IL, IX.
      constructor; cbn; try assumption.
      * destruct (decryptable (keys s) m); cbn; split; assumption.
      * intros m0 H. destruct (decryptable (keys s) m); discriminate.
      * intros m0 H. assert (m0 = m) by (destruct (decryptable (keys s) m); destruct H as [H|[H|[H|H]]]; try discriminate; inversion H; reflexivity).
        subst. apply I6. left. reflexivity.
      * intros m0 H. destruct (decryptable (keys s) m) eqn:Ed; [discriminate|]. inversion H; subst. exact Ed.
      * intros m0 H. destruct (decryptable (keys s) m) eqn:Ed; [|discriminate]. inversion H; subst. exact Ed.
      * intros x. specialize (I7 x). unfold held, parked_of in *. rewrite ?Ec in I7. destruct (decryptable (keys s) m); cbn in *; exact I7.
    + (* CFlush: deliver, re-inject the parked messages of the device *)
      inversion Hs; subst; clear Hs. set (d := m_dev m).
      cbn in IL, IX.
      constructor; cbn.
      * split; assumption.
      * intros d0. flagp. destruct (N.eqb_spec d0 d) as [->|_]; cbn; apply I1.
      * intros d0 m0. flagp. destruct (N.eqb_spec d0 d) as [->|_]; cbn; [intros _ [] | apply I2].
      * intros d0 c0. unfold upd. destruct (N.eqb_spec d0 d) as [->|_]; [|apply I3].
        intros H. inversion H; subst. cbn. intros Hf. exfalso.
        pose proof (I6 m (or_intror (or_introl eq_refl))) as Ht. fold d in Ht. congruence.
      * intros m0 H. discriminate.
      * intros d0 m0. flagp. destruct (N.eqb_spec d0 d) as [->|_]; [intros [] | apply I5].
      * intros m0 [H|[H|[H|H]]]; discriminate.
      * intros m0 H. discriminate.
      * intros m0 H. discriminate.
      * intros x. specialize (I7 x). unfold held, parked_of in *. rewrite ?Ec in I7. cbn in *. flagp.
        rewrite !cnt_app, sort_ctr_cnt. cbn.
        destruct (N.eqb_spec (m_dev x) d) as [E|Hne].
        -- rewrite E in I7. cbn. cntnorm; destruct (msg_eq_dec m x); lia.
        -- assert (Hz : cnt x (match caches s d with Some c0 => parked c0 | None => [] end) = 0%nat).
           { destruct (Nat.eq_dec (cnt x (match caches s d with Some c0 => parked c0 | None => [] end)) 0) as [E0|Hn]; [exact E0|].
             exfalso. apply Hne. apply (I5 d x). apply cnt_in. unfold parked_of. lia. }
           rewrite Hz. cntnorm; destruct (msg_eq_dec m x); lia.
      * intros m0 Hin. apply in_app_iff in Hin. destruct Hin as [Hin|[<-|[]]]; [apply I8; exact Hin | apply I6f; reflexivity].
      * intros d0 H. flagp. destruct (N.eqb_spec d0 d) as [->|_]; cbn; apply (I9 _ H).
    + (* CRepark *)
      inversion Hs; subst; clear Hs. set (d := m_dev m).
      pose proof (I6 m (or_intror (or_intror (or_intror eq_refl)))) as Hfl. fold d in Hfl.
      pose proof (I6r m eq_refl) as Hnd.
      cbn in IL, IX.
      constructor; cbn.
      * split; assumption.
      * intros d0. flagp. destruct (N.eqb_spec d0 d) as [->|_]; cbn; apply I1.
      * intros d0 m0. flagp. destruct (N.eqb_spec d0 d) as [->|_]; cbn; [|apply I2].
        intros Hf Hin Hd. apply in_app_iff in Hin. destruct Hin as [Hin|[<-|[]]]; [|congruence].
        apply (I2 d m0); assumption.
      * intros d0 c0. unfold upd. destruct (N.eqb_spec d0 d) as [->|_]; [|apply I3].
        intros H. inversion H; subst. cbn. intros Hf. congruence.
      * intros m0 H. discriminate.
      * intros d0 m0. flagp. destruct (N.eqb_spec d0 d) as [->|_]; [|apply I5].
        intros Hin. apply in_app_iff in Hin. destruct Hin as [Hin|[<-|[]]]; [apply (I5 d m0); exact Hin | reflexivity].
      * intros m0 [H|[H|[H|H]]]; discriminate.
      * intros m0 H. discriminate.
      * intros m0 H. discriminate.
      * intros x. specialize (I7 x). unfold held, parked_of in *. rewrite ?Ec in I7. cbn in *. flagp.
        destruct (N.eqb_spec (m_dev x) d) as [E|Hne].
        -- rewrite E in I7. cbn [parked]. cntnorm; destruct (msg_eq_dec m x); lia.
        -- destruct (msg_eq_dec m x) as [->|Hmx]; [exfalso; apply Hne; reflexivity|]. cntnorm. destruct (msg_eq_dec m x); [contradiction|]. lia.
      * exact I8.
      * intros d0 H. flagp. destruct (N.eqb_spec d0 d) as [->|_]; cbn; apply (I9 _ H).
  - (* registrar *)
    destruct (reg s) as [|d|d|d] eqn:Er.
    + (* RReg *)
      destruct (regs s) as [|[d c] rest] eqn:Erg; [discriminate|]. inversion Hs; subst; clear Hs.
      cbn in IL, IX.
      constructor; cbn.
      * split; [exact IL | destruct (cons_holds_lock (cons s)); reflexivity].
      * intros d0 H. apply reg_known_mono. apply I1. exact H.
      * intros d0 m0 Hf Hin Hd. exfalso.
        assert (Hk : key_known (keys s) (m_dev m0) = true) by (rewrite (I5 d0 m0 Hin); apply I1; exact Hf).
        rewrite (reg_keys_stable (keys s) d c m0 Hk) in Hd.
        pose proof (I2 d0 m0 Hf Hin Hd) as H. try rewrite Er in H. discriminate.
      * intros d0 c0 Hc Hkn Hk.
        destruct (N.eq_dec d0 d) as [->|Hne]; [reflexivity|]. exfalso.
        assert (Hk0 : key_known (keys s) d0 = true).
        { destruct (keys s d) eqn:E; [exact Hk|]. unfold key_known, upd in Hk. destruct (N.eqb_spec d0 d); [contradiction | exact Hk]. }
        pose proof (I3 d0 c0 Hc Hkn Hk0) as H. try rewrite Er in H. discriminate.
      * exact I4.
      * exact I5.
      * exact I6.
      * intros m0 H. rewrite reg_keys_stable; [apply I6r; exact H|].
        apply I1. apply I6. right. right. right. exact H.
      * intros m0 H. apply reg_keys_mono. apply I6f. exact H.
      * exact I7.
      * intros m0 H. apply reg_keys_mono. apply I8. exact H.
      * intros d0 H. discriminate.
    + (* RLock *)
      destruct (lock s) eqn:El; try discriminate.
      cbn in IL, IX.
      assert (Hc : cons_holds_lock (cons s) = false) by (destruct (cons_holds_lock (cons s)); [discriminate | reflexivity]).
      destruct (caches s d) as [c|] eqn:Ecd.
      * destruct (key_known (keys s) d) eqn:Ek; inversion Hs; subst; clear Hs.
        -- (* flag := true, flush pending *)
           constructor; cbn.
           ++ rewrite Hc. split; reflexivity.
           ++ intros d0. flagp. destruct (N.eqb_spec d0 d) as [->|_]; cbn; [intros _; exact Ek | apply I1].
           ++ intros d0 m0. flagp. destruct (N.eqb_spec d0 d) as [->|_]; cbn; [reflexivity|].
              intros Hf Hin Hd. pose proof (I2 d0 m0 Hf Hin Hd) as H. try rewrite Er in H. discriminate.
           ++ intros d0 c0. unfold upd. destruct (N.eqb_spec d0 d) as [->|Hne].
              ** intros H. inversion H; subst. cbn. discriminate.
              ** intros H1 H2 H3. pose proof (I3 d0 c0 H1 H2 H3) as H. try rewrite Er in H. inversion H; subst; congruence.
           ++ intros m0 H. destruct (I4 m0 H) as [c0 [H1 H2]]. rewrite H in Hc. discriminate.
           ++ intros d0 m0. flagp. destruct (N.eqb_spec d0 d) as [->|_]; [|apply I5].
              cbn. intros Hin. apply (I5 d m0). unfold parked_of. rewrite Ecd. exact Hin.
           ++ intros m0 H. flagp. destruct (N.eqb_spec (m_dev m0) d); [reflexivity | apply I6; exact H].
           ++ exact I6r.
           ++ exact I6f.
           ++ intros x. specialize (I7 x). unfold held in *. cbn [cons] in *. flagp. destruct (N.eqb_spec (m_dev x) d) as [E|_]; [|exact I7].
              cbn. rewrite E in I7. rewrite Ecd in I7. exact I7.
           ++ exact I8.
           ++ intros d0 H. inversion H; subst. flagp. rewrite N.eqb_refl. reflexivity.
        -- (* key not known: nothing to do *)
           constructor; cbn; try assumption.
           ++ rewrite Hc. split; reflexivity.
           ++ intros d0 m0 Hf Hin Hd. pose proof (I2 d0 m0 Hf Hin Hd) as H. try rewrite Er in H. discriminate.
           ++ intros d0 c0 H1 H2 H3. pose proof (I3 d0 c0 H1 H2 H3) as H. try rewrite Er in H. inversion H; subst. congruence.
           ++ intros d0 H. discriminate.
      * inversion Hs; subst; clear Hs.
        constructor; cbn; try assumption.
        -- rewrite Hc. split; reflexivity.
        -- intros d0 m0 Hf Hin Hd. pose proof (I2 d0 m0 Hf Hin Hd) as H. try rewrite Er in H. discriminate.
        -- intros d0 c0 H1 H2 H3. pose proof (I3 d0 c0 H1 H2 H3) as H. try rewrite Er in H. inversion H; subst. congruence.
        -- intros d0 H. discriminate.
    + (* RFlush *)
      inversion Hs; subst; clear Hs. cbn in IL, IX.
      assert (Hc : cons_holds_lock (cons s) = false).
      { destruct (cons_holds_lock (cons s)); [cbn in IX; discriminate | reflexivity]. }
      constructor; cbn.
      * rewrite Hc in *. split; [exact IL | reflexivity].
      * intros d0. flagp. destruct (N.eqb_spec d0 d) as [->|_]; cbn; [|apply I1].
        intros _. apply I1. apply (I9 d eq_refl).
      * intros d0 m0. flagp. destruct (N.eqb_spec d0 d) as [->|Hne]; cbn; [intros _ [] |].
        intros Hf Hin Hd. pose proof (I2 d0 m0 Hf Hin Hd) as H. try rewrite Er in H. inversion H; subst; congruence.
      * intros d0 c0. unfold upd. destruct (N.eqb_spec d0 d) as [->|_].
        -- intros H. inversion H; subst. cbn. discriminate.
        -- intros H1 H2 H3. pose proof (I3 d0 c0 H1 H2 H3) as H. try rewrite Er in H. discriminate.
      * intros m0 H. rewrite H in Hc. discriminate.
      * intros d0 m0. flagp. destruct (N.eqb_spec d0 d) as [->|_]; [intros [] | apply I5].
      * intros m0 H. flagp. destruct (N.eqb_spec (m_dev m0) d); [reflexivity | apply I6; exact H].
      * exact I6r.
      * exact I6f.
      * intros x. specialize (I7 x). unfold held in *. cbn [cons] in *. flagp. rewrite cnt_app, sort_ctr_cnt.
        destruct (N.eqb_spec (m_dev x) d) as [E|Hne].
        -- rewrite E in I7. cbn. cntnorm. lia.
        -- assert (Hz : cnt x (match caches s d with Some c0 => parked c0 | None => [] end) = 0%nat).
           { destruct (Nat.eq_dec (cnt x (match caches s d with Some c0 => parked c0 | None => [] end)) 0) as [E0|Hn]; [exact E0|].
             exfalso. apply Hne. apply (I5 d x). apply cnt_in. unfold parked_of. lia. }
           rewrite Hz. cntnorm. lia.
      * exact I8.
      * intros d0 H. discriminate.
    + (* RUnlock *)
      inversion Hs; subst; clear Hs. cbn in IL, IX.
      assert (Hc : cons_holds_lock (cons s) = false).
      { destruct (cons_holds_lock (cons s)); [cbn in IX; discriminate | reflexivity]. }
      constructor; cbn; try assumption.
      * rewrite Hc. split; reflexivity.
      * intros d0 m0 Hf Hin Hd. pose proof (I2 d0 m0 Hf Hin Hd) as H. try rewrite Er in H. discriminate.
      * intros d0 c0 H1 H2 H3. pose proof (I3 d0 c0 H1 H2 H3) as H. try rewrite Er in H. discriminate.
      * intros d0 H. discriminate.
Qed.

Lemma reachable_inv arr rs s : reachable (init arr rs) s -> Inv s.
Proof.
  induction 1 as [|s t s' _ IH Hs]; [apply inv_init | exact (step_inv s t s' IH Hs)].
Qed.

(* ---------- quiescence ---------- *)

Lemma quiescent_shape s :
  Inv s -> quiescent s ->
  arrivals s = [] /\ fifo s = [] /\ cons s = CWait /\ reg s = RReg /\ regs s = [].
Proof.
  intros I Q. destruct I as [[IL IX] _ _ _ _ _ _ _ _ _ _ _].
  pose proof (Q TA) as QA. pose proof (Q TC) as QC. pose proof (Q TR) as QR.
  unfold step in QA, QC, QR.
  assert (Ha : arrivals s = []) by (destruct (arrivals s); [reflexivity | discriminate]).
  (* the registrar is idle *)
  assert (Hr : reg s = RReg /\ regs s = [] \/ (exists d, reg s = RLock d /\ lock s <> Free)).
  { destruct (reg s) as [|d|d|d] eqn:Er.
    - left. split; [reflexivity|]. destruct (regs s) as [|[d c] r]; [reflexivity | discriminate].
    - right. exists d. split; [reflexivity|]. intros El. rewrite El in QR.
      destruct (caches s d); [destruct (key_known (keys s) d)|]; discriminate.
    - discriminate.
    - discriminate. }
  (* the consumer waits on an empty queue *)
  assert (Hc : cons s = CWait /\ fifo s = [] \/ (exists m, cons s = CLock m /\ lock s <> Free)).
  { destruct (cons s) as [|m|m|m k|m|m|m] eqn:Ec; try discriminate.
    - left. split; [reflexivity|]. destruct (fifo s); [reflexivity | discriminate].
    - right. exists m. split; [reflexivity|]. intros El. rewrite El in QC. discriminate. }
  destruct Hc as [[Hc Hf]|[m [Hc Hl]]].
  - destruct Hr as [[Hr Hrs]|[d [Hr Hl]]]; [tauto|].
    exfalso. apply Hl. rewrite IL, Hc, Hr. reflexivity.
  - exfalso. apply Hl. rewrite IL, Hc. cbn.
    destruct Hr as [[Hr _]|[d [Hr _]]]; rewrite Hr; reflexivity.
Qed.

(* at quiescence nothing decryptable is parked, queued or in the consumer's hands: every arrived
   message that opens under a key the device holds has been delivered — exactly as many times as
   it arrived *)
Lemma no_stranded arr rs s :
  reachable (init arr rs) s -> quiescent s ->
  forall m, decryptable (keys s) m = true -> cnt m (delivered s) = cnt m (arrived s).
Proof.
  intros R Q m Hd. pose proof (reachable_inv arr rs s R) as I.
  destruct (quiescent_shape s I Q) as [Ha [Hf [Hc [Hr Hrs]]]].
  destruct I as [_ I1 I2 I3 _ I5 _ _ _ I7 _ _].
  rewrite (I7 m). unfold held. rewrite Hc, Hf.
  assert (Hz : cnt m (parked_of s (m_dev m)) = 0%nat).
  { destruct (Nat.eq_dec (cnt m (parked_of s (m_dev m))) 0) as [E|Hn]; [exact E|]. exfalso.
    assert (Hin : In m (parked_of s (m_dev m))) by (apply cnt_in; lia).
    assert (Hk : key_known (keys s) (m_dev m) = true).
    { unfold decryptable in Hd. unfold key_known. destruct (keys s (m_dev m)); [reflexivity | discriminate]. }
    destruct (flag_of s (m_dev m)) eqn:Ef.
    - pose proof (I2 (m_dev m) m Ef Hin Hd) as H. rewrite Hr in H. discriminate.
    - unfold flag_of, parked_of in *. destruct (caches s (m_dev m)) as [c|] eqn:Ec; [|destruct Hin].
      pose proof (I3 (m_dev m) c Ec Ef Hk) as H. rewrite Hr in H. discriminate. }
  rewrite Hz. rewrite !cnt_nil. lia.
Qed.

Lemma arrived_split arr rs s : reachable (init arr rs) s -> arrived s ++ arrivals s = arr.
Proof.
  induction 1 as [|s t s' _ IH Hs]; [reflexivity|].
  destruct t; unfold step in Hs.
  - destruct (arrivals s) as [|m rest]; [discriminate|]. inversion Hs; subst s'. cbn. rewrite <- app_assoc. exact IH.
  - destruct (cons s) as [|m|m|m k|m|m|m]; try (inversion Hs; subst s'; exact IH).
    + destruct (fifo s); [discriminate|]. inversion Hs; subst s'. exact IH.
    + destruct (lock s); try discriminate. inversion Hs; subst s'. exact IH.
  - destruct (reg s) as [|d|d|d]; try (inversion Hs; subst s'; exact IH).
    + destruct (regs s) as [|[d c] r]; [discriminate|]. inversion Hs; subst s'. exact IH.
    + destruct (lock s); try discriminate.
      destruct (caches s d); [destruct (key_known (keys s) d)|]; inversion Hs; subst s'; exact IH.
Qed.

Lemma all_arrived arr rs s :
  reachable (init arr rs) s -> arrivals s = [] -> arrived s = arr.
Proof.
  intros R Ha. pose proof (arrived_split arr rs s R) as G. rewrite Ha, app_nil_r in G. exact G.
Qed.

(* the statement over the inputs: whatever the order of arrival, the registrations and the
   schedule, once nothing can move every entry that opens has been delivered *)
Lemma every_decryptable_delivered arr rs s :
  reachable (init arr rs) s -> quiescent s ->
  forall m, In m arr -> decryptable (keys s) m = true -> In m (delivered s).
Proof.
  intros R Q m Hin Hd.
  pose proof (reachable_inv arr rs s R) as I.
  destruct (quiescent_shape s I Q) as [Ha _].
  apply cnt_in. rewrite (no_stranded arr rs s R Q m Hd), (all_arrived arr rs s R Ha).
  apply cnt_in. exact Hin.
Qed.

(* soundness in every reachable state, not only at the end: what is delivered opened under a known
   key, had arrived, and not more often than it arrived *)
Lemma delivered_sound arr rs s :
  reachable (init arr rs) s ->
  forall m, (cnt m (delivered s) <= cnt m (arrived s))%nat /\ (In m (delivered s) -> decryptable (keys s) m = true).
Proof.
  intros R m. pose proof (reachable_inv arr rs s R) as I. destruct I as [_ _ _ _ _ _ _ _ _ I7 I8 _].
  split; [rewrite (I7 m); lia | apply I8].
Qed.

(* mutual exclusion on muDeviceCaches *)
Lemma mutual_exclusion arr rs s :
  reachable (init arr rs) s -> cons_holds_lock (cons s) && reg_holds_lock (reg s) = false.
Proof. intros R. destruct (reachable_inv arr rs s R) as [[_ IX] _ _ _ _ _ _ _ _ _ _ _]. exact IX. Qed.

(* ---------- the pinned code: two stranding interleavings, found by running the model ---------- *)

(* park outside the lock: the consumer has seen "key unknown" and released the lock; the registrar
   registers the key and finds nothing parked; the consumer parks: a message that opens stays parked
   and nothing is enabled *)
Definition m1 : msg := mkMsg 7 5 1.
Definition stranding_schedule : list thread := [TA; TC; TC; TC; TR; TR; TR; TR; TC].

Lemma pinned_park_outside_lock_strands :
  match run_pinned (init [m1] [(7, 0)]) stranding_schedule with
  | Some s => (forall t, step_pinned s t = None) /\ decryptable (keys s) m1 = true /\
              delivered s = [] /\ parked_of s 7 = [m1]
  | None => False
  end.
Proof.
  vm_compute. split; [intros [| |]; reflexivity | repeat split].
Qed.

(* only the head of the parked queue is retried: it was sealed before the announcement and does not
   open, so the later message, which does, is never retried *)
Definition m_old : msg := mkMsg 7 1 1.
Definition m_new : msg := mkMsg 7 9 2.

Lemma pinned_head_only_strands :
  match run_pinned (init [m_old; m_new] [(7, 5)])
          [TA; TA; TC; TC; TC; TC; TC; TC; TC; TC; TR; TR; TR; TR; TC; TC; TC; TC; TC] with
  | Some s => (forall t, step_pinned s t = None) /\ decryptable (keys s) m_new = true /\
              delivered s = [] /\ In m_new (parked_of s 7)
  | None => False
  end.
Proof.
  vm_compute. split; [intros [| |]; reflexivity | repeat split]. left. reflexivity.
Qed.

(* the same inputs on the current code end with the message delivered *)
Example fixed_delivers :
  match follow (init [m1] [(7, 0)]) [TA; TC; TC; TR; TC; TC; TR; TR; TR; TC; TC; TC; TC; TC] with
  | Some s => delivered s = [m1] /\ parked_of s 7 = []
  | None => False
  end.
Proof. vm_compute. split; reflexivity. Qed.
