(* C01 — what a receiver accepts, for every envelope an attacker can present. *)
From Coq Require Import List NArith ZArith Bool Lia ZifyN ZifyNat ZifyBool.
From Wesh Require Import Model.Store Model.C02_Ratchet Model.C01_Envelope Proofs.C02_Ratchet.
Import ListNotations.
Open Scope N_scope.

Section Sound.
Variable W : nat.
Variable cidf : N -> N -> N.

(* the sender side: sealing at stored state (c, chain (o, c)) produces the honest envelope of
   counter c+1 and moves the chain to (c+1, (o, c+1)) *)
Lemma seal_produces_honest s g d o c payload :
  get_chain s g d = Some (c, (o, c)) ->
  fst (seal_step s g d payload) = Some (honest_env g d o (c + 1) payload) /\
  get_chain (apply_muts s (snd (seal_step s g d payload))) g d = Some (c + 1, (o, c + 1)).
Proof.
  intros H. unfold seal_step. rewrite H. unfold derive, precompute_next. rewrite H. cbn [fst snd].
  unfold derive. cbn [fst snd].
  unfold update_current_muts. cbn [apply_mut fold_left fst snd].
  assert (E : get_chain (put (KPre g d (c + 1)) (VKey (o, c + 1)) s) g d = Some (c, (o, c))).
  { unfold get_chain in *. rewrite put_other by discriminate. exact H. }
  rewrite E. cbn [fst snd]. replace (c + 1 <? c) with false by lia.
  split; [reflexivity|].
  unfold apply_muts. cbn [fold_left apply_mut fst snd]. unfold get_chain. rewrite put_same. reflexivity.
Qed.

(* what opening under a fresh CID requires of ANY envelope claiming device d, in any receiver
   state that satisfies the ratchet invariant for d *)
Lemma open_fresh_requires s d c opened e cid r ms :
  Rdev W cidf s d (Some (c, opened)) ->
  e_group e = grp -> e_dev e = d -> s (KCid cid) = None ->
  open_step s e cid None = (r, ms) ->
  match r with
  | RFail => True
  | ROk p =>
    p = e_payload e /\ e_key e = (d, e_ctr e) /\ e_signer e = d /\
    c < e_ctr e <= top W c opened /\ memN (e_ctr e) opened = false
  end.
Proof.
  intros (A & B & C & D) Hg Hd Hcid H. unfold open_step in H. rewrite Hg, Hd in H.
  unfold get_cid in H. rewrite Hcid in H. unfold get_pre in H. rewrite (B (e_ctr e)) in H.
  destruct ((c <? e_ctr e) && (e_ctr e <=? top W c opened) && negb (memN (e_ctr e) opened)) eqn:Er.
  - destruct (negb (msgkey_eqb (d, e_ctr e) (e_key e))) eqn:Ek; [injection H as <- _; exact I|].
    destruct (negb (e_signer e =? d)) eqn:Es; [injection H as <- _; exact I|].
    apply negb_false_iff in Ek, Es. unfold msgkey_eqb in Ek. cbn [fst snd] in Ek.
    apply andb_true_iff in Ek. destruct Ek as [Ek1 Ek2]. apply N.eqb_eq in Ek1, Ek2, Es.
    assert (Hkey : e_key e = (d, e_ctr e)) by (destruct (e_key e); cbn in *; congruence).
    assert (Hrange : c < e_ctr e <= top W c opened /\ memN (e_ctr e) opened = false).
    { apply andb_true_iff in Er. destruct Er as [Er1 Er3]. apply andb_true_iff in Er1. destruct Er1 as [Er1 Er2].
      apply negb_true_iff in Er3. lia. }
    destruct r; [|exact I].
    (* every ROk comes with the envelope's payload *)
    destruct (precompute_next _ grp d) as [[b new]|]; [|discriminate H].
    destruct (update_current_muts _ grp d new) as [u|]; [|discriminate H].
    injection H as Hp _. subst payload. auto.
  - injection H as <- _. exact I.
Qed.

End Sound.

(* ------------------------------------------------------------------ *)
(* attacker capabilities                                                *)

(* [honest k] = payload of sender d's k-th message.  An attacker without d's signing key can
   attach d's signature only to a payload d signed; one that also lacks d's chain key can
   present a payload box under key (d,k) only by reusing the honest box of message k. *)
Definition sig_reuse_only (d : N) (honest : N -> N) (e : envelope) : Prop :=
  e_signer e = d -> exists k, e_payload e = honest k.

Definition box_reuse_only (d : N) (honest : N -> N) (e : envelope) : Prop :=
  forall k, e_key e = (d, k) -> e_payload e = honest k.

(* outsider (group secret known or not, chain key unknown): whatever is accepted is an honest
   message, with its own payload, device and counter *)
Theorem open_sound_outsider W cidf s d c opened honest e cid p ms :
  Rdev W cidf s d (Some (c, opened)) ->
  e_group e = grp -> e_dev e = d -> s (KCid cid) = None ->
  box_reuse_only d honest e ->
  open_step s e cid None = (ROk p, ms) ->
  p = honest (e_ctr e) /\ e_signer e = d.
Proof.
  intros HR Hg Hd Hc Hbox H.
  pose proof (open_fresh_requires W cidf s d c opened e cid (ROk p) ms HR Hg Hd Hc H) as (Hp & Hk & Hs & _).
  split; [rewrite Hp; apply Hbox; exact Hk|exact Hs].
Qed.

(* fellow member (knows group secret and chain key, not the signing key): an accepted
   envelope carries a payload that device d itself signed — content and device attribution
   are authentic.  (The counter is not covered by the signature: see the refutation below.) *)
Theorem open_sound_member_partial W cidf s d c opened honest e cid p ms :
  Rdev W cidf s d (Some (c, opened)) ->
  e_group e = grp -> e_dev e = d -> s (KCid cid) = None ->
  sig_reuse_only d honest e ->
  open_step s e cid None = (ROk p, ms) ->
  exists k, p = honest k.
Proof.
  intros HR Hg Hd Hc Hsig H.
  pose proof (open_fresh_requires W cidf s d c opened e cid (ROk p) ms HR Hg Hd Hc H) as (Hp & _ & Hs & _).
  destruct (Hsig Hs) as (k & Hk). exists k. congruence.
Qed.

(* the full statement for a fellow member is FALSE of the faithful model (and of the code):
   the payload signed for message 1, re-encrypted under the key of counter 5 with the original
   signature, is accepted and attributed to counter 5 *)
Theorem open_sound_member_refuted :
  exists hist e cid,
    sig_reuse_only 1 (fun k => 100000 + k) e /\ e_dev e = 1 /\ e_payload e = 100000 + 1 /\ e_ctr e = 5 /\
    fst (open_step (run_store 8 empty_store hist) e cid None) = ROk (100000 + 1).
Proof.
  exists [RReg 1 0], {| e_group := grp; e_dev := 1; e_ctr := 5; e_key := (1, 5); e_payload := 100001; e_signer := 1 |}, 777.
  split; [intros _; exists 1; reflexivity|]. repeat split.
Qed.

(* ---------- a rejected envelope leaves nothing behind ---------- *)

(* an envelope under a fresh CID whose box is not sealed with the key of its counter, or whose
   signature is not the claimed device's, is rejected WITHOUT any mutation of the store *)
Lemma rejected_leaves_no_trace s e cid own :
  get_cid s cid = None ->
  (forall mk, get_pre s (e_group e) (e_dev e) (e_ctr e) = Some mk ->
              msgkey_eqb mk (e_key e) = false \/ (e_signer e =? e_dev e) = false) ->
  open_step s e cid own = (RFail, []).
Proof.
  intros Hc Hbad. unfold open_step. rewrite Hc.
  destruct (get_pre s (e_group e) (e_dev e) (e_ctr e)) as [mk|] eqn:Ep; [|reflexivity].
  destruct (Hbad mk eq_refl) as [H|H].
  - rewrite H. reflexivity.
  - destruct (msgkey_eqb mk (e_key e)); cbn [negb]; [|reflexivity]. rewrite H. reflexivity.
Qed.

(* hence presenting it again, any number of times, under the same CID, is rejected again *)
Lemma rejected_again s e cid own n :
  get_cid s cid = None ->
  (forall mk, get_pre s (e_group e) (e_dev e) (e_ctr e) = Some mk ->
              msgkey_eqb mk (e_key e) = false \/ (e_signer e =? e_dev e) = false) ->
  Nat.iter n (fun st => apply_muts st (snd (open_step st e cid own))) s = s /\
  fst (open_step (Nat.iter n (fun st => apply_muts st (snd (open_step st e cid own))) s) e cid own) = RFail.
Proof.
  intros Hc Hbad.
  assert (Hs : Nat.iter n (fun st => apply_muts st (snd (open_step st e cid own))) s = s).
  { set (f := fun st => apply_muts st (snd (open_step st e cid own))).
    induction n as [|n IH]; [reflexivity|].
    change (Nat.iter (S n) f s) with (f (Nat.iter n f s)). rewrite IH. unfold f.
    rewrite (rejected_leaves_no_trace s e cid own Hc Hbad). reflexivity. }
  split; [exact Hs|]. rewrite Hs. rewrite (rejected_leaves_no_trace s e cid own Hc Hbad). reflexivity.
Qed.
